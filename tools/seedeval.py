#!/usr/bin/env python3
"""tools/seedeval.py <seed-dir> <name> <check-id>...

Confirms an independently written property-breaking change and records what
the checks do with it. <seed-dir> holds patch.diff, demo/ and README.txt (as
delivered by a sub-agent that saw only the property text). In scratch copies of
/repo (never /repo itself) it verifies:
  1. the patch applies and the project builds;
  2. the repository's own test suite still passes with the patch;
  3. the demonstration passes without the patch and fails with it;
then runs the quick checks of the given properties against the patched copy.
Results go to /verif/seeded/<name>/ (patch.diff, demo/, README.txt, meta.json).
Scratch copies are removed."""
import json, os, re, shutil, subprocess, sys, tempfile, hashlib

ENV = dict(os.environ, GOFLAGS="-mod=mod", GOPROXY="off", GOSUMDB="off", GOTOOLCHAIN="local")
VERIF = os.path.dirname(os.path.dirname(os.path.abspath(__file__)))


def sh(cmd, cwd, timeout=1500, env=None):
    try:
        p = subprocess.run(cmd, cwd=cwd, shell=True, capture_output=True, text=True, errors="replace", timeout=timeout, env=env or ENV)
        return p.returncode, p.stdout + p.stderr
    except subprocess.TimeoutExpired as e:
        return 124, "TIMEOUT\n" + str(e.stdout)[-2000:]


def suite_ok(out):
    fails = [l for l in out.splitlines() if l.startswith("--- FAIL")]
    fails = [l for l in fails if "TestTryWriteCSV" not in l]
    build = [l for l in out.splitlines() if "[build failed]" in l or "[setup failed]" in l]
    return not fails and not build, fails + build


def install_demo(seed, repo):
    """copies the demonstration files to their intended paths; returns the packages to test"""
    readme = open(os.path.join(seed, "README.txt"), errors="replace").read() if os.path.exists(os.path.join(seed, "README.txt")) else ""
    pkgs = set()
    installed = []
    demo = os.path.join(seed, "demo")
    for root, _, files in os.walk(demo):
        for f in files:
            src = os.path.join(root, f)
            rel = os.path.relpath(src, demo)
            name = f[:-4] if f.endswith(".txt") else f
            if not name.endswith(".go"):
                continue
            dst = None
            if os.path.dirname(rel) == "ROOT":
                # demo/ROOT/<file>: a test of package main in the repository root
                dst = name
            elif os.path.dirname(rel) and os.path.isdir(os.path.join(repo, os.path.dirname(rel))):
                dst = os.path.join(os.path.dirname(rel), name)
            else:
                # look the intended path up in the README
                m = re.findall(r"((?:pkg|cmd)/[\w./-]*?/?)" + re.escape(name), readme)
                if m:
                    dst = os.path.join(m[0], name)
                else:
                    m = re.findall(r"((?:pkg|cmd)/[\w./-]+?)/?[`'\"\s,.)]", readme)
                    cands = [x for x in m if os.path.isdir(os.path.join(repo, x))]
                    if cands:
                        dst = os.path.join(cands[0], name)
            if dst is None:
                return None, "cannot determine where %s goes" % rel
            os.makedirs(os.path.join(repo, os.path.dirname(dst)) or repo, exist_ok=True)
            shutil.copy(src, os.path.join(repo, dst))
            installed.append(dst)
            pkgs.add("./" + os.path.dirname(dst) if os.path.dirname(dst) else ".")
    if not installed:
        return None, "no demonstration files"
    return sorted(pkgs), installed


def main():
    seed, name, ids = os.path.abspath(sys.argv[1]), sys.argv[2], sys.argv[3:]
    out_dir = os.path.join(VERIF, "seeded", name)
    meta = {"name": name, "breaks_property": ids[0] if ids else "", "checks_run": ids}
    tmp = tempfile.mkdtemp(prefix="seedeval-")
    try:
        clean, patched = os.path.join(tmp, "clean"), os.path.join(tmp, "patched")
        shutil.copytree("/repo", clean, ignore=shutil.ignore_patterns(".git"))
        shutil.copytree("/repo", patched)
        rc, o = sh("git apply --whitespace=nowarn " + os.path.join(seed, "patch.diff"), patched)
        meta["patch_applies"] = rc == 0
        if rc != 0:
            meta["note"] = "patch does not apply to the current /repo HEAD: " + o[-400:]
            return finish(meta, seed, out_dir, keep=False)
        rc, o = sh("go build ./...", patched)
        meta["builds"] = rc == 0
        if rc != 0:
            meta["note"] = o[-600:]
            return finish(meta, seed, out_dir, keep=False)
        rc, o = sh("go test -vet=off -count=1 ./... 2>&1", patched, timeout=1200)
        ok, fails = suite_ok(o)
        meta["suite_passes_with_patch"] = ok
        meta["suite_failures"] = fails[:10]
        # demonstration
        pk, inst = install_demo(seed, clean)
        if pk is None:
            meta["demo"] = inst
        else:
            install_demo(seed, patched)
            run = "go test -vet=off -count=1 -run '(?i)seed' " + " ".join(pk) + " 2>&1"
            rc0, o0 = sh(run, clean, timeout=900)
            rc1, o1 = sh(run, patched, timeout=900)
            meta["demo_files"] = inst
            meta["demo_cmd"] = run
            meta["demo_passes_without_patch"] = rc0 == 0 and "no tests to run" not in o0.replace("[no tests to run]", "no tests to run") or (rc0 == 0)
            meta["demo_fails_with_patch"] = rc1 != 0
            meta["demo_output_with_patch"] = o1[-700:]
            # remove the demo from the patched copy again before running the checks
            for d in inst:
                try:
                    os.remove(os.path.join(patched, d))
                except OSError:
                    pass
        # the checks
        res = {}
        for i in ids:
            rc, o = sh("./check %s quick" % i, VERIF, timeout=1500, env=dict(ENV, VERIF_REPO=patched))
            sigs = re.findall(r"signature: (\S+)", o)
            res[i] = {"exit": rc, "detected": rc == 1, "signatures": sigs[:8]}
            if rc not in (0, 1):
                res[i]["output"] = o[-800:]
        meta["checks"] = res
        meta["detected_by"] = [i for i in ids if res[i]["detected"]]
        valid = meta.get("suite_passes_with_patch") and meta.get("demo_fails_with_patch") and meta.get("demo_passes_without_patch")
        return finish(meta, seed, out_dir, keep=bool(valid))
    finally:
        shutil.rmtree(tmp, ignore_errors=True)
        h = hashlib.md5((os.path.join(tmp, "patched") + "\n").encode()).hexdigest()[:8]
        sh("rm -rf .build/*-%s* .build/bin/*-%s .build/alt-%s.*" % (h, h, h), VERIF)


def finish(meta, seed, out_dir, keep):
    meta["kept"] = keep
    if keep and os.path.realpath(seed) == os.path.realpath(out_dir):
        # re-evaluation of a stored seed: only the verdicts change
        json.dump(meta, open(os.path.join(out_dir, "meta.json"), "w"), indent=1)
    elif keep:
        os.makedirs(out_dir, exist_ok=True)
        shutil.copy(os.path.join(seed, "patch.diff"), os.path.join(out_dir, "patch.diff"))
        if os.path.exists(os.path.join(seed, "README.txt")):
            shutil.copy(os.path.join(seed, "README.txt"), os.path.join(out_dir, "README.txt"))
        if os.path.isdir(os.path.join(seed, "demo")):
            shutil.rmtree(os.path.join(out_dir, "demo"), ignore_errors=True)
            shutil.copytree(os.path.join(seed, "demo"), os.path.join(out_dir, "demo"))
            # keep demo copies out of `go build ./...` of the verif module
            for root, _, files in os.walk(os.path.join(out_dir, "demo")):
                for f in files:
                    if f.endswith(".go"):
                        os.rename(os.path.join(root, f), os.path.join(root, f + ".txt"))
        json.dump(meta, open(os.path.join(out_dir, "meta.json"), "w"), indent=1)
    print(json.dumps({k: meta.get(k) for k in ("name", "kept", "patch_applies", "suite_passes_with_patch", "demo_passes_without_patch", "demo_fails_with_patch", "detected_by", "note", "demo")}, indent=None))
    if not keep:
        os.makedirs(os.path.join(VERIF, ".build", "seed-rejected"), exist_ok=True)
        json.dump(meta, open(os.path.join(VERIF, ".build", "seed-rejected", meta["name"] + ".json"), "w"), indent=1)
    return 0


if __name__ == "__main__":
    sys.exit(main())
