#!/usr/bin/env python3
"""Merges the evidence parts written by several harnesses that together decide
one property into evidence/<id>.json. Counts are summed (each harness explores
a different space), samples are concatenated, exhaustive is the conjunction."""
import json, sys
pid, tier, out, parts = sys.argv[1], sys.argv[2], sys.argv[3], sys.argv[4:]
evs = []
for p in parts:
    try:
        evs.append(json.load(open(p)))
    except Exception as e:
        print("missing evidence part", p, e, file=sys.stderr)
        sys.exit(1)
levels = [e["level"] for e in evs]
level = "model_checking" if "model_checking" in levels else levels[0]
cov = {"parts": []}
SUM = ("evaluations", "distinct_nontrivial", "states", "transitions", "traces_validated_against_impl", "distinct_outcomes", "known_findings_observed")
for e in evs:
    c = e["coverage"]
    for k in SUM:
        if k in c:
            cov[k] = cov.get(k, 0) + int(c[k])
    cov.setdefault("samples", []).extend((c.get("samples") or [])[:4])
    cov["exhaustive"] = cov.get("exhaustive", True) and bool(c.get("exhaustive", False))
    if c.get("caps"):
        cov.setdefault("caps", []).extend(c["caps"])
    cov["parts"].append({k: v for k, v in c.items() if k != "samples"})
cov["rule"] = " || ".join(e["coverage"].get("rule", "") for e in evs)
if level == "model_checking":
    cov.setdefault("states", cov.get("distinct_outcomes", 0))
    cov.setdefault("transitions", cov.get("evaluations", 0))
    cov.setdefault("traces_validated_against_impl", cov.get("evaluations", 0))
ass = []
for e in evs:
    for a in e.get("assumptions", []):
        if a not in ass:
            ass.append(a)
ev = {
    "property_id": pid, "tier": tier, "seed": evs[0].get("seed", 0), "level": level,
    "coverage": cov, "assumptions": ass,
    "wall_s": sum(e.get("wall_s", 0) for e in evs),
    "violations": sum(e.get("violations", 0) for e in evs),
}
json.dump(ev, open(out, "w"), indent=1)
