#!/usr/bin/env python3
"""Prints the markdown table of seeded/*/meta.json (used for DESIGN.md §11.5)."""
import json, glob, os, re
rows = []
for f in sorted(glob.glob('/verif/seeded/*/meta.json')):
    m = json.load(open(f))
    d = os.path.dirname(f)
    what = ""
    rp = os.path.join(d, "README.txt")
    if os.path.exists(rp):
        txt = open(rp, errors="replace").read()
        # first non-empty line that is not a heading
        for l in txt.splitlines():
            l = l.strip(" #*-=")
            if len(l) > 30:
                what = l
                break
    files = sorted(set(re.findall(r"^\+\+\+ b/(\S+)", open(os.path.join(d, "patch.diff")).read(), re.M)))
    det = m.get("detected_by") or []
    sigs = []
    for i in det:
        sigs += m["checks"][i].get("signatures", [])[:1]
    rows.append((m["name"], ", ".join(os.path.basename(x) for x in files), what[:150], "yes" if m.get("suite_passes_with_patch") else "no", ", ".join(det) if det else ("not a violation as stated (see meta.json)" if m.get("classification") else "**missed**"), (sigs[0] if sigs else "")))
print("| seed | files changed | change (from its README) | repo tests pass | caught by (quick) | first signature |")
print("|---|---|---|---|---|---|")
for r in rows:
    print("| " + " | ".join(x.replace("|", "\\|") for x in r) + " |")
