#!/bin/bash
# tools/mutant.sh <patch.diff> <property-id>... [--tests]
# Applies a property-breaking patch to a scratch copy of /repo (never to /repo),
# optionally runs the repository's own tests on it, runs the quick checks of
# the given properties against the copy and reports which of them raise a
# VIOLATION. The scratch copy is removed afterwards.
set -u
cd "$(dirname "$0")/.."
export GOFLAGS=-mod=mod GOPROXY=off GOSUMDB=off GOTOOLCHAIN=local
PATCH=$(realpath "$1"); shift
TESTS=0; IDS=()
for a in "$@"; do if [ "$a" = --tests ]; then TESTS=1; else IDS+=("$a"); fi; done
D=$(mktemp -d /tmp/mutant-XXXXXX)
trap 'rm -rf "$D" .build/*-$(echo "$D/repo" | md5sum | cut -c1-8)* .build/bin/*-$(echo "$D/repo" | md5sum | cut -c1-8)' EXIT
cp -r /repo "$D/repo"
if ! git -C "$D/repo" apply "$PATCH"; then echo "MUTANT $(basename "$PATCH"): patch does not apply"; exit 3; fi
if ! (cd "$D/repo" && go build ./... ) 2> "$D/build.log"; then echo "MUTANT $(basename "$PATCH"): does not compile"; cat "$D/build.log"; exit 3; fi
if [ $TESTS = 1 ]; then
  (cd "$D/repo" && go test -vet=off -count=1 ./... 2>&1 | grep -v "^ok\|no test files" | grep -v "TestTryWriteCSV" ) > "$D/test.log"
  if grep -q "^--- FAIL\|^FAIL" "$D/test.log" && grep "^--- FAIL" "$D/test.log" | grep -qv TestTryWriteCSV; then
    echo "MUTANT $(basename "$PATCH"): repository tests FAIL with this patch:"; grep "^--- FAIL" "$D/test.log"
  else
    echo "MUTANT $(basename "$PATCH"): repository tests still pass"
  fi
fi
RC=0
for id in "${IDS[@]}"; do
  out=$(VERIF_REPO="$D/repo" ./check "$id" quick 2>&1); rc=$?
  if [ $rc = 1 ]; then
    echo "MUTANT $(basename "$PATCH"): $id DETECTED: $(echo "$out" | grep -m1 -A1 VIOLATION | tr '\n' ' ' | cut -c1-300)"
  elif [ $rc = 0 ]; then
    echo "MUTANT $(basename "$PATCH"): $id missed (check passed)"; RC=1
  else
    echo "MUTANT $(basename "$PATCH"): $id HARNESS-ERROR"; echo "$out" | tail -15; RC=2
  fi
done
exit $RC
