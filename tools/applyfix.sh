#!/bin/bash
# tools/applyfix.sh <diff> <commit message (must start with "fix:")> [pkgs...]
# Applies a reviewed fix to /repo, runs the tests of the touched packages
# (or the given ones) and commits it as one small unguarded commit.
set -eu
export GOFLAGS=-mod=mod GOPROXY=off GOSUMDB=off GOTOOLCHAIN=local
D=$(realpath "$1"); MSG=$2; shift 2
cd /repo
git diff --quiet || { echo "/repo has uncommitted changes"; exit 1; }
git apply "$D"
PKGS=("$@")
if [ ${#PKGS[@]} -eq 0 ]; then
  mapfile -t PKGS < <(git diff --name-only | xargs -n1 dirname | sort -u | sed 's#^#./#')
fi
go build ./...
if ! go test -vet=off -count=1 "${PKGS[@]}" > /tmp/applyfix.log 2>&1; then
  if grep "^--- FAIL" /tmp/applyfix.log | grep -qv TestTryWriteCSV; then
    cat /tmp/applyfix.log | tail -30; git checkout -- .; echo "TESTS FAILED, reverted"; exit 1
  fi
fi
git commit -qam "$MSG"
echo "committed $(git log --format=%h -1): $MSG"
