#!/usr/bin/env python3
"""Regenerates MANIFEST.json from tools/checks.json (claimed checks) and
properties.jsonl (everything not claimed is listed under not_applicable)."""
import json, os, sys
root = os.path.dirname(os.path.dirname(os.path.abspath(__file__)))
checks = json.load(open(os.path.join(root, "tools", "checks.json")))
props = [json.loads(l) for l in open(os.path.join(root, "properties.jsonl")) if l.strip()]
claimed = {c["property_id"] for c in checks["checks"]}
out_checks = []
for c in checks["checks"]:
    pid = c["property_id"]
    out_checks.append({
        "property_id": pid,
        "quick_cmd": f"./check {pid} quick",
        "thorough_cmd": f"./check {pid} thorough",
        "evidence_file": f"/verif/evidence/{pid}.json",
        "replay_cmd_template": f"./check {pid} --replay {{path}}",
        "engine": c["engine"],
        "level_claimed": {"category": c["level"], "text": c["text"], "design_ref": c.get("design_ref", "DESIGN.md §4 " + pid)},
        "level_note": c["note"],
        "technique": c["technique"],
    })
na = []
for p in props:
    if p["id"] not in claimed:
        na.append({"property_id": p["id"], "reason": checks.get("not_applicable", {}).get(p["id"], "no check registered yet in this commit (harness under construction; see DESIGN.md §4)")})
m = {
    "version": 1,
    "setup_cmd": "./setup.sh",
    "hooks": checks["hooks"],
    "engines": checks["engines"],
    "checks": out_checks,
    "notes": checks.get("notes", ""),
    "not_applicable": na,
}
json.dump(m, open(os.path.join(root, "MANIFEST.json"), "w"), indent=1)
print("MANIFEST.json:", len(out_checks), "checks,", len(na), "not claimed")
