#!/usr/bin/env python3
"""Validates MANIFEST.json and every evidence file against the schemas."""
import json, sys, glob
import jsonschema
ev = json.load(open('/root/.vp/EVIDENCE.schema.json'))
ok = True
for f in sorted(glob.glob('/verif/evidence/*.json')):
    try:
        jsonschema.validate(json.load(open(f)), ev)
    except Exception as e:
        ok = False; print(f, 'INVALID', str(e)[:300])
try:
    jsonschema.validate(json.load(open('/verif/MANIFEST.json')), json.load(open('/root/.vp/MANIFEST.schema.json')))
except Exception as e:
    ok = False; print('MANIFEST INVALID', str(e)[:300])
m = json.load(open('/verif/MANIFEST.json'))
for c in m['checks']:
    try:
        e = json.load(open(c['evidence_file']))
        if e['level'] != c['level_claimed']['category']:
            ok = False; print(c['property_id'], 'evidence level', e['level'], '!= manifest category', c['level_claimed']['category'])
    except Exception as ex:
        ok = False; print(c['property_id'], 'no evidence', ex)
ids = [c['property_id'] for c in m['checks']] + [c['property_id'] for c in m.get('not_applicable', [])]
props = [json.loads(l)['id'] for l in open('/verif/properties.jsonl') if l.strip()]
if sorted(ids) != sorted(props):
    ok = False; print('MANIFEST does not cover every property exactly once')
print('validate:', 'ok' if ok else 'FAILED')
sys.exit(0 if ok else 1)
