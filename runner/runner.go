// Package runner is the shared driver of every harness: it shards the
// enumeration over worker subprocesses, merges their counters, classifies
// violations against known_findings.jsonl, writes replay files and the
// evidence file, and implements the exit-code / VIOLATION / KNOWN-FINDING
// contract of MANIFEST.json.
package runner

import (
	"bytes"
	"crypto/sha1"
	"encoding/binary"
	"encoding/json"
	"flag"
	"fmt"
	"hash/fnv"
	"os"
	"os/exec"
	"path/filepath"
	"runtime"
	"sort"
	"strconv"
	"strings"
	"sync"
	"sync/atomic"
	"time"
)

// Spec describes one harness.
type Spec struct {
	Name        string   // harness name (binary name)
	Properties  []string // property ids this harness can decide
	Level       string   // evidence level
	Rule        func(prop, tier string) string
	Assumptions func(prop string) []string
	// Worker enumerates the shard's part of the space.
	Worker func(w *W)
	// Replay executes one recorded case; it reports through w.Violation.
	Replay func(w *W, c json.RawMessage)
	// MaxWorkers limits the number of subprocesses (0: NumCPU).
	MaxWorkers int
	// HangSeconds without progress in a worker is treated as a hang.
	HangSeconds int
	// Budget per tier (soft internal deadline; reaching it ends the run with
	// exit 0 and exhaustive=false).
	QuickBudget, ThoroughBudget time.Duration
}

// Violation is one oracle failure.
type Violation struct {
	Signature string          `json:"signature"`
	Detail    string          `json:"detail"`
	Case      json.RawMessage `json:"case"`
	Count     int64           `json:"count"`
}

// W is the per-worker context.
type W struct {
	Prop     string
	Tier     string
	Shard, N int
	Seed     int64
	Params   map[string]string
	deadline time.Time

	Evals      int64
	Nontrivial int64
	Stats      map[string]int64
	MaxStats   map[string]int64
	outcomes   map[uint64]struct{}
	outCapped  bool
	samples    []json.RawMessage
	viol       map[string]*Violation
	violOrder  []string
	Caps       []string
	progress   atomic.Int64
	curCase    atomic.Value // func() any
	journal    string
	mu         sync.Mutex
}

const maxOutcomes = 3_000_000

// Owns reports whether case number i belongs to this shard.
func (w *W) Owns(i int64) bool { return w.N <= 1 || int(i%int64(w.N)) == w.Shard }

// Quick reports whether this is the quick tier.
func (w *W) Quick() bool { return w.Tier != "thorough" }

// Eval counts one executed case.
func (w *W) Eval(nontrivial bool) {
	w.Evals++
	if nontrivial {
		w.Nontrivial++
	}
	w.progress.Add(1)
}

// Tick marks progress for the hang watchdog without counting an evaluation.
func (w *W) Tick() { w.progress.Add(1) }

// Add adds to a named counter (summed over shards).
func (w *W) Add(name string, v int64) { w.Stats[name] += v }

// Max records a maximum (max over shards).
func (w *W) Max(name string, v int64) {
	if v > w.MaxStats[name] {
		w.MaxStats[name] = v
	}
}

// Outcome records one observed outcome (hashed) for the distinct count.
func (w *W) Outcome(parts ...string) {
	if w.outCapped {
		return
	}
	h := fnv.New64a()
	for _, p := range parts {
		h.Write([]byte(p))
		h.Write([]byte{0xff})
	}
	w.outcomes[h.Sum64()] = struct{}{}
	if len(w.outcomes) >= maxOutcomes {
		w.outCapped = true
	}
}

// OutcomeHash records a pre-hashed outcome.
func (w *W) OutcomeHash(h uint64) {
	if w.outCapped {
		return
	}
	w.outcomes[h] = struct{}{}
	if len(w.outcomes) >= maxOutcomes {
		w.outCapped = true
	}
}

// Sample keeps a few written-out cases for the evidence file.
func (w *W) Sample(v any) {
	if len(w.samples) >= 4 {
		return
	}
	b, err := json.Marshal(v)
	if err == nil {
		w.samples = append(w.samples, b)
	}
}

// WantSample says whether another sample would be kept.
func (w *W) WantSample() bool { return len(w.samples) < 4 }

// Violation records an oracle failure. sig identifies the defect class (it is
// what known_findings.jsonl matches on); c is the replayable case.
func (w *W) Violation(sig, detail string, c any) {
	w.mu.Lock()
	defer w.mu.Unlock()
	if v, ok := w.viol[sig]; ok {
		v.Count++
		return
	}
	b, _ := json.Marshal(c)
	if len(detail) > 2000 {
		detail = detail[:2000] + "…"
	}
	w.viol[sig] = &Violation{Signature: sig, Detail: detail, Case: b, Count: 1}
	w.violOrder = append(w.violOrder, sig)
}

// Violations returns how many distinct signatures were recorded.
func (w *W) Violations() int { return len(w.viol) }

// Expired reports whether the soft deadline passed; the caller should stop
// enumerating and the run is marked non-exhaustive.
func (w *W) Expired() bool {
	if !w.deadline.IsZero() && time.Now().After(w.deadline) {
		w.Cap("internal time budget reached")
		return true
	}
	return false
}

// Cap marks the run as not exhaustive, with the reason.
func (w *W) Cap(note string) {
	for _, c := range w.Caps {
		if c == note {
			return
		}
	}
	w.Caps = append(w.Caps, note)
}

// SetCase registers a description of the case about to run (used when the
// worker hangs or crashes). In journal mode (a re-run of a shard whose worker
// died with an unrecoverable runtime error) the case is also written to disk
// before it runs, so that the coordinator can attribute the crash.
func (w *W) SetCase(f func() any) {
	w.curCase.Store(f)
	if w.journal != "" {
		b, err := json.Marshal(f())
		if err == nil {
			os.WriteFile(w.journal, b, 0o644)
		}
	}
}

// Param returns a harness parameter passed with -p k=v.
func (w *W) Param(k, def string) string {
	if v, ok := w.Params[k]; ok {
		return v
	}
	return def
}

type workerOut struct {
	Evals      int64             `json:"evals"`
	Nontrivial int64             `json:"nontrivial"`
	Stats      map[string]int64  `json:"stats"`
	MaxStats   map[string]int64  `json:"max_stats"`
	Outcomes   int               `json:"outcomes"`
	OutCapped  bool              `json:"out_capped"`
	Samples    []json.RawMessage `json:"samples"`
	Violations []*Violation      `json:"violations"`
	Caps       []string          `json:"caps"`
	Hang       json.RawMessage   `json:"hang,omitempty"`
	Panic      string            `json:"panic,omitempty"`
}

func newW(prop, tier string, shard, n int, seed int64, params map[string]string) *W {
	return &W{Prop: prop, Tier: tier, Shard: shard, N: n, Seed: seed, Params: params,
		Stats: map[string]int64{}, MaxStats: map[string]int64{}, outcomes: map[uint64]struct{}{}, viol: map[string]*Violation{}}
}

func (w *W) out() *workerOut {
	o := &workerOut{Evals: w.Evals, Nontrivial: w.Nontrivial, Stats: w.Stats, MaxStats: w.MaxStats,
		Outcomes: len(w.outcomes), OutCapped: w.outCapped, Samples: w.samples, Caps: w.Caps}
	for _, s := range w.violOrder {
		o.Violations = append(o.Violations, w.viol[s])
	}
	return o
}

type paramFlag map[string]string

func (p paramFlag) String() string { return "" }
func (p paramFlag) Set(s string) error {
	k, v, ok := strings.Cut(s, "=")
	if !ok {
		return fmt.Errorf("want k=v")
	}
	p[k] = v
	return nil
}

// VerifDir is the root of the verification tree.
func VerifDir() string {
	if d := os.Getenv("VERIF_DIR"); d != "" {
		return d
	}
	return "/verif"
}

// Main is the entry point of every harness binary.
func Main(spec *Spec) {
	var (
		prop    = flag.String("prop", spec.Properties[0], "property id")
		tier    = flag.String("tier", "quick", "quick|thorough")
		worker  = flag.Int("worker", -1, "internal: shard index")
		n       = flag.Int("n", 0, "number of shards")
		out     = flag.String("out", "", "internal: worker output file")
		outset  = flag.String("outset", "", "internal: worker outcome-set file")
		replay  = flag.String("replay", "", "replay file")
		seed    = flag.Int64("seed", 0, "seed (only recorded; enumeration is exhaustive)")
		dl      = flag.Int64("deadline", 0, "internal: unix deadline")
		noEvid  = flag.Bool("no-evidence", false, "do not write the evidence file")
		params  = paramFlag{}
		replayN = flag.Int("replay-times", 1, "replay repetitions")
		evOut   = flag.String("evidence-out", "", "write the evidence to this file instead of evidence/<prop>.json")
	)
	flag.Var(params, "p", "harness parameter k=v")
	flag.Parse()
	if s := os.Getenv("VERIF_SEED"); s != "" && *seed == 0 {
		if v, err := strconv.ParseInt(s, 10, 64); err == nil {
			*seed = v
		}
	}
	if t := os.Getenv("VERIF_TIER"); t != "" && !flagSet("tier") {
		*tier = t
	}
	ok := false
	for _, p := range spec.Properties {
		if p == *prop {
			ok = true
		}
	}
	if !ok {
		fmt.Fprintf(os.Stderr, "harness %s does not decide %s\n", spec.Name, *prop)
		os.Exit(2)
	}

	if *replay != "" {
		os.Exit(runReplay(spec, *prop, *tier, *replay, *replayN, params))
	}
	if *worker >= 0 {
		os.Exit(runWorker(spec, *prop, *tier, *worker, *n, *seed, *out, *outset, *dl, params))
	}
	evidenceOut = *evOut
	os.Exit(coordinate(spec, *prop, *tier, *n, *seed, params, !*noEvid))
}

var evidenceOut string

func flagSet(name string) bool {
	set := false
	flag.Visit(func(f *flag.Flag) {
		if f.Name == name {
			set = true
		}
	})
	return set
}

func runWorker(spec *Spec, prop, tier string, shard, n int, seed int64, out, outset string, dl int64, params map[string]string) int {
	w := newW(prop, tier, shard, n, seed, params)
	if dl > 0 {
		w.deadline = time.Unix(dl, 0)
	}
	w.journal = os.Getenv("VERIF_JOURNAL")
	hang := spec.HangSeconds
	if hang == 0 {
		hang = 60
	}
	var finishing atomic.Bool
	write := func(o *workerOut) {
		b, _ := json.Marshal(o)
		os.WriteFile(out, b, 0o644)
		if outset != "" {
			buf := make([]byte, 0, 8*len(w.outcomes))
			for h := range w.outcomes {
				buf = binary.LittleEndian.AppendUint64(buf, h)
			}
			os.WriteFile(outset, buf, 0o644)
		}
	}
	go func() {
		last := w.progress.Load()
		still := 0
		for {
			time.Sleep(time.Second)
			if finishing.Load() {
				return
			}
			cur := w.progress.Load()
			if cur != last {
				last, still = cur, 0
				continue
			}
			still++
			if still >= hang {
				finishing.Store(true)
				o := &workerOut{Evals: w.Evals, Caps: []string{"worker hung"}}
				if f, ok := w.curCase.Load().(func() any); ok && f != nil {
					b, _ := json.Marshal(f())
					o.Hang = b
				} else {
					o.Hang = json.RawMessage(`null`)
				}
				b, _ := json.Marshal(o)
				os.WriteFile(out, b, 0o644)
				os.Exit(3)
			}
		}
	}()
	func() {
		defer func() {
			if r := recover(); r != nil {
				buf := make([]byte, 16384)
				buf = buf[:runtime.Stack(buf, false)]
				o := w.out()
				o.Panic = fmt.Sprintf("%v\n%s", r, buf)
				if f, ok := w.curCase.Load().(func() any); ok && f != nil {
					b, _ := json.Marshal(f())
					o.Hang = b
				}
				finishing.Store(true)
				write(o)
				os.Exit(4)
			}
		}()
		spec.Worker(w)
	}()
	finishing.Store(true)
	write(w.out())
	return 0
}

func runReplay(spec *Spec, prop, tier, path string, times int, params map[string]string) int {
	b, err := os.ReadFile(path)
	if err != nil {
		fmt.Fprintln(os.Stderr, err)
		return 2
	}
	var rf struct {
		Property  string          `json:"property"`
		Signature string          `json:"signature"`
		Case      json.RawMessage `json:"case"`
	}
	if err := json.Unmarshal(b, &rf); err != nil {
		fmt.Fprintln(os.Stderr, err)
		return 2
	}
	if rf.Property != "" {
		prop = rf.Property
	}
	rc := 0
	for i := 0; i < times; i++ {
		w := newW(prop, tier, 0, 1, 0, params)
		spec.Replay(w, rf.Case)
		if len(w.viol) == 0 {
			fmt.Printf("replay %d: no violation\n", i+1)
			continue
		}
		for _, s := range w.violOrder {
			v := w.viol[s]
			fmt.Printf("replay %d: VIOLATION signature=%s\n%s\n", i+1, v.Signature, v.Detail)
		}
		rc = 1
	}
	return rc
}

// KnownFinding is one line of known_findings.txt:
//
//	known: property=C13 sig=<signature> :: <what fails>
//	fixed: property=C08 <commit> sig=<signature> :: <what failed>
//
// Only "known" lines suppress anything, and only their exact signature.
type KnownFinding struct {
	Status    string
	Property  string
	Signature string
	What      string
	Commit    string
}

func loadKnown() []KnownFinding {
	var out []KnownFinding
	b, err := os.ReadFile(filepath.Join(VerifDir(), "known_findings.txt"))
	if err != nil {
		return nil
	}
	for _, l := range strings.Split(string(b), "\n") {
		l = strings.TrimSpace(l)
		if l == "" || l[0] == '#' {
			continue
		}
		status, rest, ok := strings.Cut(l, ":")
		if !ok || (status != "known" && status != "fixed") {
			continue
		}
		head, what, _ := strings.Cut(rest, " :: ")
		k := KnownFinding{Status: status, What: strings.TrimSpace(what)}
		for _, f := range strings.Fields(head) {
			switch {
			case strings.HasPrefix(f, "property="):
				k.Property = f[len("property="):]
			case strings.HasPrefix(f, "sig="):
				k.Signature = f[len("sig="):]
			default:
				k.Commit = f
			}
		}
		out = append(out, k)
	}
	return out
}

func coordinate(spec *Spec, prop, tier string, n int, seed int64, params map[string]string, writeEvidence bool) int {
	start := time.Now()
	if n <= 0 {
		n = runtime.NumCPU()
		if spec.MaxWorkers > 0 && n > spec.MaxWorkers {
			n = spec.MaxWorkers
		}
	}
	budget := spec.QuickBudget
	if tier == "thorough" {
		budget = spec.ThoroughBudget
	}
	if v := os.Getenv("VERIF_BUDGET_S"); v != "" {
		if s, err := strconv.Atoi(v); err == nil {
			budget = time.Duration(s) * time.Second
		}
	}
	var deadline int64
	if budget > 0 {
		deadline = start.Add(budget).Unix()
	}
	tmp, err := os.MkdirTemp(filepath.Join(VerifDir(), ".build"), "run-"+prop+"-")
	if err != nil {
		os.MkdirAll(filepath.Join(VerifDir(), ".build"), 0o755)
		tmp, err = os.MkdirTemp(filepath.Join(VerifDir(), ".build"), "run-"+prop+"-")
		if err != nil {
			fmt.Fprintln(os.Stderr, "HARNESS-ERROR:", err)
			return 2
		}
	}
	defer os.RemoveAll(tmp)

	type res struct {
		out    *workerOut
		err    error
		stderr string
		code   int
	}
	results := make([]res, n)
	var wg sync.WaitGroup
	for k := 0; k < n; k++ {
		wg.Add(1)
		go func(k int) {
			defer wg.Done()
			outp := filepath.Join(tmp, fmt.Sprintf("w%d.json", k))
			args := []string{"-prop", prop, "-tier", tier, "-worker", strconv.Itoa(k), "-n", strconv.Itoa(n),
				"-out", outp, "-outset", filepath.Join(tmp, fmt.Sprintf("w%d.set", k)), "-seed", strconv.FormatInt(seed, 10), "-deadline", strconv.FormatInt(deadline, 10)}
			for pk, pv := range params {
				args = append(args, "-p", pk+"="+pv)
			}
			cmd := exec.Command(os.Args[0], args...)
			var eb bytes.Buffer
			cmd.Stderr = &tailWriter{max: 64 << 10, buf: &eb}
			cmd.Stdout = os.Stdout
			cmd.Env = append(os.Environ(), "GOMAXPROCS=2")
			err := cmd.Run()
			r := res{err: err, stderr: eb.String()}
			if cmd.ProcessState != nil {
				r.code = cmd.ProcessState.ExitCode()
			}
			if b, e := os.ReadFile(outp); e == nil {
				var o workerOut
				if json.Unmarshal(b, &o) == nil {
					r.out = &o
				}
			}
			results[k] = r
		}(k)
	}
	wg.Wait()

	// merge
	tot := &workerOut{Stats: map[string]int64{}, MaxStats: map[string]int64{}}
	merged := map[string]*Violation{}
	var order []string
	harnessErr := false
	outcomes := map[uint64]struct{}{}
	outCapped := false
	addViolation := func(v *Violation) {
		if m, ok := merged[v.Signature]; ok {
			m.Count += v.Count
			return
		}
		merged[v.Signature] = v
		order = append(order, v.Signature)
	}
	for k, r := range results {
		if r.out == nil {
			// the worker process died (stack overflow, out of memory, concurrent map
			// access ...: errors recover() cannot catch). Re-run the shard with a
			// journal to learn the case, then confirm it crashes in fresh processes.
			if v := attributeCrash(spec, prop, tier, k, n, seed, params, tmp, r.stderr); v != nil {
				addViolation(v)
				tot.Caps = append(tot.Caps, fmt.Sprintf("shard %d stopped at a crashing case", k))
				continue
			}
			fmt.Fprintf(os.Stderr, "HARNESS-ERROR: worker %d produced no result (exit %d, %v)\n%s\n", k, r.code, r.err, tail(r.stderr, 4000))
			harnessErr = true
			continue
		}
		o := r.out
		tot.Evals += o.Evals
		tot.Nontrivial += o.Nontrivial
		for s, v := range o.Stats {
			tot.Stats[s] += v
		}
		for s, v := range o.MaxStats {
			if v > tot.MaxStats[s] {
				tot.MaxStats[s] = v
			}
		}
		if len(tot.Samples) < 8 {
			for _, s := range o.Samples {
				if len(tot.Samples) < 8 && (len(tot.Samples) < 2 || k%4 == 0) {
					tot.Samples = append(tot.Samples, s)
				}
			}
		}
		for _, c := range o.Caps {
			found := false
			for _, c2 := range tot.Caps {
				if c2 == c {
					found = true
				}
			}
			if !found {
				tot.Caps = append(tot.Caps, c)
			}
		}
		outCapped = outCapped || o.OutCapped
		if b, err := os.ReadFile(filepath.Join(tmp, fmt.Sprintf("w%d.set", k))); err == nil && len(outcomes) < 4*maxOutcomes {
			for i := 0; i+8 <= len(b); i += 8 {
				outcomes[binary.LittleEndian.Uint64(b[i:])] = struct{}{}
			}
		}
		for _, v := range o.Violations {
			addViolation(v)
		}
		if r.code == 3 { // hang: confirm by replaying 5 times
			if confirmHang(spec, prop, tier, o.Hang, params, tmp) {
				addViolation(&Violation{Signature: "hang:" + hangSig(o.Hang), Detail: "the case did not return within the deadline in 5 of 5 fresh replays", Case: o.Hang, Count: 1})
			} else {
				fmt.Fprintf(os.Stderr, "HARNESS-ERROR: worker %d stalled but the case did not hang on replay: %s\n", k, string(o.Hang))
				harnessErr = true
			}
		} else if r.code == 4 {
			fmt.Fprintf(os.Stderr, "HARNESS-ERROR: worker %d panicked outside an oracle: %s\ncase: %s\n", k, o.Panic, string(o.Hang))
			harnessErr = true
		} else if r.code != 0 {
			fmt.Fprintf(os.Stderr, "HARNESS-ERROR: worker %d exit %d\n%s\n", k, r.code, tail(r.stderr, 4000))
			harnessErr = true
		}
	}

	known := loadKnown()
	var unknown []*Violation
	nKnown := 0
	replayDir := filepath.Join(VerifDir(), "replays")
	if !writeEvidence { // a run against a scratch copy of the repository
		replayDir = filepath.Join(VerifDir(), ".build", "replays")
	}
	os.MkdirAll(replayDir, 0o755)
	sort.Strings(order)
	for _, sig := range order {
		v := merged[sig]
		isKnown := false
		for _, k := range known {
			if k.Status == "known" && k.Property == prop && k.Signature == sig {
				fmt.Printf("KNOWN-FINDING: property=%s %s [%s] (%d cases this run)\n", prop, k.What, sig, v.Count)
				isKnown = true
				nKnown++
				break
			}
		}
		if isKnown {
			continue
		}
		unknown = append(unknown, v)
	}
	for _, v := range unknown {
		h := sha1.Sum([]byte(v.Signature))
		path := filepath.Join(replayDir, fmt.Sprintf("%s-%x.json", prop, h[:5]))
		rf := map[string]any{"property": prop, "harness": spec.Name, "signature": v.Signature, "detail": v.Detail, "case": v.Case, "count": v.Count, "tier": tier, "params": params}
		b, _ := json.MarshalIndent(rf, "", " ")
		os.WriteFile(path, b, 0o644)
		fmt.Printf("VIOLATION property=%s replay=%s\n", prop, path)
		fmt.Printf("  signature: %s (%d cases)\n  %s\n", v.Signature, v.Count, strings.ReplaceAll(v.Detail, "\n", "\n  "))
	}

	wall := time.Since(start).Seconds()
	exhaustive := len(tot.Caps) == 0 && !harnessErr
	if writeEvidence && !harnessErr {
		cov := map[string]any{
			"evaluations":         tot.Evals,
			"distinct_nontrivial": tot.Nontrivial,
			"rule":                spec.Rule(prop, tier),
			"samples":             tot.Samples,
			"exhaustive":          exhaustive,
			"distinct_outcomes":   len(outcomes),
			"workers":             n,
		}
		if outCapped {
			cov["distinct_outcomes_note"] = "outcome set capped; the count is a lower bound"
		}
		if len(tot.Caps) > 0 {
			cov["caps"] = tot.Caps
		}
		for s, v := range tot.Stats {
			cov[s] = v
		}
		for s, v := range tot.MaxStats {
			cov[s] = v
		}
		if spec.Level == "model_checking" {
			if _, ok := cov["states"]; !ok {
				cov["states"] = int64(len(outcomes))
			}
			if _, ok := cov["transitions"]; !ok {
				cov["transitions"] = tot.Stats["choice_points"]
			}
			if _, ok := cov["traces_validated_against_impl"]; !ok {
				cov["traces_validated_against_impl"] = tot.Evals
			}
		}
		cov["known_findings_observed"] = nKnown
		ev := map[string]any{
			"property_id": prop,
			"tier":        tier,
			"seed":        seed,
			"level":       spec.Level,
			"coverage":    cov,
			"wall_s":      wall,
			"violations":  len(unknown),
		}
		if spec.Assumptions != nil {
			ev["assumptions"] = spec.Assumptions(prop)
		}
		b, _ := json.MarshalIndent(ev, "", " ")
		os.MkdirAll(filepath.Join(VerifDir(), "evidence"), 0o755)
		evPath := filepath.Join(VerifDir(), "evidence", prop+".json")
		if evidenceOut != "" {
			evPath = evidenceOut
		}
		os.WriteFile(evPath, b, 0o644)
	}
	fmt.Printf("%s %s %s: evaluations=%d nontrivial=%d distinct_outcomes=%d exhaustive=%v wall=%.1fs violations=%d known=%d",
		spec.Name, prop, tier, tot.Evals, tot.Nontrivial, len(outcomes), exhaustive, wall, len(unknown), nKnown)
	keys := make([]string, 0, len(tot.Stats))
	for s := range tot.Stats {
		keys = append(keys, s)
	}
	sort.Strings(keys)
	for _, s := range keys {
		fmt.Printf(" %s=%d", s, tot.Stats[s])
	}
	if len(tot.Caps) > 0 {
		fmt.Printf(" caps=%q", tot.Caps)
	}
	fmt.Println()
	// a reported violation decides the exit status even when, next to it, a
	// worker stalled or died in a way that could not be attributed (typical for
	// a change that makes the code under test loop: some stalls reproduce as
	// hang violations, others only in the context of their history)
	if len(unknown) > 0 {
		return 1
	}
	if harnessErr {
		return 2
	}
	return 0
}

func crashClass(stderr string) string {
	for _, c := range []string{"stack overflow", "concurrent map", "out of memory", "all goroutines are asleep", "unexpected signal", "fatal error"} {
		if strings.Contains(stderr, c) {
			return strings.ReplaceAll(c, " ", "-")
		}
	}
	return "process-died"
}

// attributeCrash re-runs shard k with a case journal and, if it dies again,
// replays the journalled case three times in fresh processes. Only a case that
// kills the process every time becomes a violation.
func attributeCrash(spec *Spec, prop, tier string, k, n int, seed int64, params map[string]string, tmp, firstStderr string) *Violation {
	journal := filepath.Join(tmp, fmt.Sprintf("journal%d.json", k))
	args := []string{"-prop", prop, "-tier", tier, "-worker", strconv.Itoa(k), "-n", strconv.Itoa(n), "-out", filepath.Join(tmp, fmt.Sprintf("rerun%d.json", k)), "-seed", strconv.FormatInt(seed, 10)}
	for pk, pv := range params {
		args = append(args, "-p", pk+"="+pv)
	}
	cmd := exec.Command(os.Args[0], args...)
	cmd.Env = append(os.Environ(), "GOMAXPROCS=2", "VERIF_JOURNAL="+journal)
	var eb bytes.Buffer
	cmd.Stderr = &tailWriter{max: 64 << 10, buf: &eb}
	done := make(chan error, 1)
	if err := cmd.Start(); err != nil {
		return nil
	}
	go func() { done <- cmd.Wait() }()
	select {
	case err := <-done:
		if err == nil {
			return nil // did not crash again: not attributable
		}
	case <-time.After(20 * time.Minute):
		cmd.Process.Kill()
		<-done
		return nil
	}
	c, err := os.ReadFile(journal)
	if err != nil || len(c) == 0 {
		return nil
	}
	rf, _ := json.Marshal(map[string]any{"property": prop, "case": json.RawMessage(c)})
	path := filepath.Join(tmp, fmt.Sprintf("crash%d.json", k))
	os.WriteFile(path, rf, 0o644)
	stderr := eb.String()
	for i := 0; i < 3; i++ {
		a := []string{"-prop", prop, "-tier", tier, "-replay", path}
		for pk, pv := range params {
			a = append(a, "-p", pk+"="+pv)
		}
		rc := exec.Command(os.Args[0], a...)
		var b2 bytes.Buffer
		rc.Stderr = &tailWriter{max: 64 << 10, buf: &b2}
		err := rc.Run()
		code := 0
		if rc.ProcessState != nil {
			code = rc.ProcessState.ExitCode()
		}
		if err == nil || code == 0 || code == 1 {
			// the case returns when run alone, but the shard died at it twice:
			// state carried over from the preceding cases is involved
			class := crashClass(stderr)
			return &Violation{Signature: prop + "/crash/" + class + "/after-preceding-cases", Detail: "the worker process died (" + class + ") at this case in two runs of the shard, but the case returns when replayed alone: state carried between evaluations is involved\n" + tail(stderr, 1500), Case: c, Count: 1}
		}
		stderr = b2.String()
	}
	class := crashClass(stderr)
	return &Violation{Signature: prop + "/crash/" + class + "/" + hangSig(c)[:6], Detail: "the case kills the process (" + class + ") in 3 of 3 fresh replays:\n" + tail(stderr, 1500), Case: c, Count: 1}
}

func hangSig(c json.RawMessage) string {
	h := sha1.Sum(c)
	return fmt.Sprintf("%x", h[:4])
}

func confirmHang(spec *Spec, prop, tier string, c json.RawMessage, params map[string]string, tmp string) bool {
	if len(c) == 0 || string(c) == "null" {
		return false
	}
	rf := map[string]any{"property": prop, "case": c}
	b, _ := json.Marshal(rf)
	path := filepath.Join(tmp, "hang.json")
	os.WriteFile(path, b, 0o644)
	hang := spec.HangSeconds
	if hang == 0 {
		hang = 60
	}
	for i := 0; i < 5; i++ {
		args := []string{"-prop", prop, "-tier", tier, "-replay", path}
		for pk, pv := range params {
			args = append(args, "-p", pk+"="+pv)
		}
		cmd := exec.Command(os.Args[0], args...)
		var errOut bytes.Buffer
		cmd.Stderr = &tailWriter{max: 4000, buf: &errOut}
		if err := cmd.Start(); err != nil {
			return false
		}
		done := make(chan error, 1)
		go func() { done <- cmd.Wait() }()
		select {
		case err := <-done:
			if err != nil && strings.Contains(errOut.String(), "all goroutines are asleep - deadlock") {
				// the replay process has no other goroutine running, so the Go
				// runtime itself reports that the case can never return
				continue
			}
			return false // returned: not a hang
		case <-time.After(time.Duration(hang) * time.Second):
			cmd.Process.Kill()
			<-done
		}
	}
	return true
}

type tailWriter struct {
	max int
	buf *bytes.Buffer
	mu  sync.Mutex
}

func (t *tailWriter) Write(p []byte) (int, error) {
	t.mu.Lock()
	defer t.mu.Unlock()
	t.buf.Write(p)
	if t.buf.Len() > 2*t.max {
		b := t.buf.Bytes()
		nb := append([]byte{}, b[len(b)-t.max:]...)
		t.buf.Reset()
		t.buf.Write(nb)
	}
	return len(p), nil
}

func tail(s string, n int) string {
	if len(s) > n {
		return s[len(s)-n:]
	}
	return s
}
