// Package vatomic replaces "sync/atomic" in instrumented packages: every
// operation is a scheduling point and a happens-before edge; the operation
// itself is plain because only one managed goroutine runs at a time.
package vatomic

import (
	"unsafe"

	vrt "rare/verifrt"
)

func AddUint64(p *uint64, d uint64) uint64 {
	vrt.AtomicPoint(unsafe.Pointer(p), true, "")
	*p += d
	return *p
}
func LoadUint64(p *uint64) uint64 {
	vrt.AtomicPoint(unsafe.Pointer(p), false, "")
	return *p
}
func StoreUint64(p *uint64, v uint64) {
	vrt.AtomicPoint(unsafe.Pointer(p), true, "")
	*p = v
}
func AddInt64(p *int64, d int64) int64 {
	vrt.AtomicPoint(unsafe.Pointer(p), true, "")
	*p += d
	return *p
}
func LoadInt64(p *int64) int64 {
	vrt.AtomicPoint(unsafe.Pointer(p), false, "")
	return *p
}
func StoreInt64(p *int64, v int64) {
	vrt.AtomicPoint(unsafe.Pointer(p), true, "")
	*p = v
}
func AddInt32(p *int32, d int32) int32 {
	vrt.AtomicPoint(unsafe.Pointer(p), true, "")
	*p += d
	return *p
}
func LoadInt32(p *int32) int32 {
	vrt.AtomicPoint(unsafe.Pointer(p), false, "")
	return *p
}
func StoreInt32(p *int32, v int32) {
	vrt.AtomicPoint(unsafe.Pointer(p), true, "")
	*p = v
}
func SwapInt32(p *int32, v int32) int32 {
	vrt.AtomicPoint(unsafe.Pointer(p), true, "")
	o := *p
	*p = v
	return o
}
func CompareAndSwapInt32(p *int32, old, nw int32) bool {
	vrt.AtomicPoint(unsafe.Pointer(p), true, "")
	if *p == old {
		*p = nw
		return true
	}
	return false
}

// Value replaces atomic.Value.
type Value struct{ v any }

func (a *Value) Load() any {
	vrt.AtomicPoint(unsafe.Pointer(a), false, "")
	return a.v
}
func (a *Value) Store(v any) {
	vrt.AtomicPoint(unsafe.Pointer(a), true, "")
	a.v = v
}

func AddUint32(p *uint32, d uint32) uint32 {
	vrt.AtomicPoint(unsafe.Pointer(p), true, "")
	*p += d
	return *p
}
func LoadUint32(p *uint32) uint32 {
	vrt.AtomicPoint(unsafe.Pointer(p), false, "")
	return *p
}
func StoreUint32(p *uint32, v uint32) {
	vrt.AtomicPoint(unsafe.Pointer(p), true, "")
	*p = v
}
func SwapUint64(p *uint64, v uint64) uint64 {
	vrt.AtomicPoint(unsafe.Pointer(p), true, "")
	o := *p
	*p = v
	return o
}
func SwapInt64(p *int64, v int64) int64 {
	vrt.AtomicPoint(unsafe.Pointer(p), true, "")
	o := *p
	*p = v
	return o
}
func CompareAndSwapUint64(p *uint64, old, nw uint64) bool {
	vrt.AtomicPoint(unsafe.Pointer(p), true, "")
	if *p == old {
		*p = nw
		return true
	}
	return false
}
func CompareAndSwapInt64(p *int64, old, nw int64) bool {
	vrt.AtomicPoint(unsafe.Pointer(p), true, "")
	if *p == old {
		*p = nw
		return true
	}
	return false
}
func CompareAndSwapUint32(p *uint32, old, nw uint32) bool {
	vrt.AtomicPoint(unsafe.Pointer(p), true, "")
	if *p == old {
		*p = nw
		return true
	}
	return false
}

type number interface {
	~int32 | ~int64 | ~uint32 | ~uint64 | ~uintptr
}

type num[T number] struct{ v T }

func (a *num[T]) Load() T {
	vrt.AtomicPoint(unsafe.Pointer(a), false, "")
	return a.v
}
func (a *num[T]) Store(v T) {
	vrt.AtomicPoint(unsafe.Pointer(a), true, "")
	a.v = v
}
func (a *num[T]) Add(d T) T {
	vrt.AtomicPoint(unsafe.Pointer(a), true, "")
	a.v += d
	return a.v
}
func (a *num[T]) Swap(v T) T {
	vrt.AtomicPoint(unsafe.Pointer(a), true, "")
	o := a.v
	a.v = v
	return o
}
func (a *num[T]) CompareAndSwap(old, nw T) bool {
	vrt.AtomicPoint(unsafe.Pointer(a), true, "")
	if a.v == old {
		a.v = nw
		return true
	}
	return false
}

type (
	Int32   struct{ num[int32] }
	Int64   struct{ num[int64] }
	Uint32  struct{ num[uint32] }
	Uint64  struct{ num[uint64] }
	Uintptr struct{ num[uintptr] }
)

// Bool replaces atomic.Bool.
type Bool struct{ v bool }

func (a *Bool) Load() bool {
	vrt.AtomicPoint(unsafe.Pointer(a), false, "")
	return a.v
}
func (a *Bool) Store(v bool) {
	vrt.AtomicPoint(unsafe.Pointer(a), true, "")
	a.v = v
}
func (a *Bool) Swap(v bool) bool {
	vrt.AtomicPoint(unsafe.Pointer(a), true, "")
	o := a.v
	a.v = v
	return o
}
func (a *Bool) CompareAndSwap(old, nw bool) bool {
	vrt.AtomicPoint(unsafe.Pointer(a), true, "")
	if a.v == old {
		a.v = nw
		return true
	}
	return false
}

// Pointer replaces atomic.Pointer.
type Pointer[T any] struct{ p *T }

func (a *Pointer[T]) Load() *T {
	vrt.AtomicPoint(unsafe.Pointer(a), false, "")
	return a.p
}
func (a *Pointer[T]) Store(p *T) {
	vrt.AtomicPoint(unsafe.Pointer(a), true, "")
	a.p = p
}
func (a *Pointer[T]) Swap(p *T) *T {
	vrt.AtomicPoint(unsafe.Pointer(a), true, "")
	o := a.p
	a.p = p
	return o
}
func (a *Pointer[T]) CompareAndSwap(old, nw *T) bool {
	vrt.AtomicPoint(unsafe.Pointer(a), true, "")
	if a.p == old {
		a.p = nw
		return true
	}
	return false
}

func (a *Value) Swap(v any) any {
	vrt.AtomicPoint(unsafe.Pointer(a), true, "")
	o := a.v
	a.v = v
	return o
}
func (a *Value) CompareAndSwap(old, nw any) bool {
	vrt.AtomicPoint(unsafe.Pointer(a), true, "")
	if a.v == old {
		a.v = nw
		return true
	}
	return false
}
