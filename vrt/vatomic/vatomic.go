// Package vatomic replaces "sync/atomic" in instrumented packages: every
// operation is a scheduling point and a happens-before edge; the operation
// itself is plain because only one managed goroutine runs at a time.
package vatomic

import (
	"unsafe"

	vrt "rare/verifrt"
)

func AddUint64(p *uint64, d uint64) uint64 {
	vrt.AtomicPoint(unsafe.Pointer(p), true, "")
	*p += d
	return *p
}
func LoadUint64(p *uint64) uint64 {
	vrt.AtomicPoint(unsafe.Pointer(p), false, "")
	return *p
}
func StoreUint64(p *uint64, v uint64) {
	vrt.AtomicPoint(unsafe.Pointer(p), true, "")
	*p = v
}
func AddInt64(p *int64, d int64) int64 {
	vrt.AtomicPoint(unsafe.Pointer(p), true, "")
	*p += d
	return *p
}
func LoadInt64(p *int64) int64 {
	vrt.AtomicPoint(unsafe.Pointer(p), false, "")
	return *p
}
func StoreInt64(p *int64, v int64) {
	vrt.AtomicPoint(unsafe.Pointer(p), true, "")
	*p = v
}
func AddInt32(p *int32, d int32) int32 {
	vrt.AtomicPoint(unsafe.Pointer(p), true, "")
	*p += d
	return *p
}
func LoadInt32(p *int32) int32 {
	vrt.AtomicPoint(unsafe.Pointer(p), false, "")
	return *p
}
func StoreInt32(p *int32, v int32) {
	vrt.AtomicPoint(unsafe.Pointer(p), true, "")
	*p = v
}
func SwapInt32(p *int32, v int32) int32 {
	vrt.AtomicPoint(unsafe.Pointer(p), true, "")
	o := *p
	*p = v
	return o
}
func CompareAndSwapInt32(p *int32, old, nw int32) bool {
	vrt.AtomicPoint(unsafe.Pointer(p), true, "")
	if *p == old {
		*p = nw
		return true
	}
	return false
}

// Value replaces atomic.Value.
type Value struct{ v any }

func (a *Value) Load() any {
	vrt.AtomicPoint(unsafe.Pointer(a), false, "")
	return a.v
}
func (a *Value) Store(v any) {
	vrt.AtomicPoint(unsafe.Pointer(a), true, "")
	a.v = v
}
