// Package vtime replaces "time" in instrumented packages: the clock is
// virtual and advances only by explorer decision.
package vtime

import (
	"time"

	vrt "rare/verifrt"
)

type (
	Duration = time.Duration
	Time     = time.Time
	Location = time.Location
	Month    = time.Month
	Weekday  = time.Weekday
)

const (
	Nanosecond  = time.Nanosecond
	Microsecond = time.Microsecond
	Millisecond = time.Millisecond
	Second      = time.Second
	Minute      = time.Minute
	Hour        = time.Hour
)

// Epoch is the wall-clock instant of virtual time 0.
var Epoch = time.Date(2021, 3, 4, 5, 6, 7, 0, time.UTC)

func Now() Time { return Epoch.Add(vrt.Now()) }

func Since(t Time) Duration { return Now().Sub(t) }

func Until(t Time) Duration { return t.Sub(Now()) }

func Sleep(d Duration) { vrt.Sleep(d) }

func After(d Duration) *vrt.Chan[Time] {
	c := vrt.MakeChan[Time](1)
	vrt.AfterFunc(d, func() { c.Offer(Epoch.Add(vrt.NowNoJump())) })
	return c
}

func Unix(sec, nsec int64) Time                { return time.Unix(sec, nsec) }
func Parse(l, v string) (Time, error)          { return time.Parse(l, v) }
func ParseDuration(s string) (Duration, error) { return time.ParseDuration(s) }

// Ticker replaces time.Ticker: C receives the virtual time every d (a tick is
// dropped when the previous one was not taken, as in package time).
type Ticker struct {
	C       *vrt.Chan[Time]
	d       Duration
	stopped bool
	gen     int
}

func NewTicker(d Duration) *Ticker {
	if d <= 0 {
		panic("non-positive interval for NewTicker")
	}
	t := &Ticker{C: vrt.MakeChan[Time](1), d: d}
	t.arm()
	return t
}

func (t *Ticker) arm() {
	gen := t.gen
	vrt.AfterFunc(t.d, func() {
		if t.stopped || gen != t.gen {
			return
		}
		t.C.Offer(Epoch.Add(vrt.NowNoJump()))
		t.arm()
	})
}

func (t *Ticker) Stop() { t.stopped = true }

func (t *Ticker) Reset(d Duration) {
	t.d = d
	t.gen++
	t.stopped = false
	t.arm()
}

func Tick(d Duration) *vrt.Chan[Time] { return NewTicker(d).C }

// Timer replaces time.Timer.
type Timer struct {
	C     *vrt.Chan[Time]
	fired bool
	gen   int
	f     func()
}

func NewTimer(d Duration) *Timer {
	t := &Timer{C: vrt.MakeChan[Time](1)}
	t.start(d)
	return t
}

// AfterFunc runs f in its own goroutine after d.
func AfterFunc(d Duration, f func()) *Timer {
	t := &Timer{f: f}
	t.start(d)
	return t
}

func (t *Timer) start(d Duration) {
	gen := t.gen
	t.fired = false
	vrt.AfterFunc(d, func() {
		if gen != t.gen {
			return
		}
		t.fired = true
		if t.f != nil {
			vrt.SpawnFromTimer("afterfunc", t.f)
			return
		}
		t.C.Offer(Epoch.Add(vrt.NowNoJump()))
	})
}

// Stop prevents the timer from firing; it reports whether it was still pending.
func (t *Timer) Stop() bool {
	pending := !t.fired
	t.gen++
	return pending
}

func (t *Timer) Reset(d Duration) bool {
	pending := !t.fired
	t.gen++
	t.start(d)
	return pending
}
