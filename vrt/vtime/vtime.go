// Package vtime replaces "time" in instrumented packages: the clock is
// virtual and advances only by explorer decision.
package vtime

import (
	"time"

	vrt "rare/verifrt"
)

type (
	Duration = time.Duration
	Time     = time.Time
	Location = time.Location
	Month    = time.Month
	Weekday  = time.Weekday
)

const (
	Nanosecond  = time.Nanosecond
	Microsecond = time.Microsecond
	Millisecond = time.Millisecond
	Second      = time.Second
	Minute      = time.Minute
	Hour        = time.Hour
)

// Epoch is the wall-clock instant of virtual time 0.
var Epoch = time.Date(2021, 3, 4, 5, 6, 7, 0, time.UTC)

func Now() Time { return Epoch.Add(vrt.Now()) }

func Since(t Time) Duration { return Now().Sub(t) }

func Until(t Time) Duration { return t.Sub(Now()) }

func Sleep(d Duration) { vrt.Sleep(d) }

func After(d Duration) *vrt.Chan[Time] {
	c := vrt.MakeChan[Time](1)
	vrt.AfterFunc(d, func() { c.Offer(Epoch.Add(vrt.NowNoJump())) })
	return c
}

func Unix(sec, nsec int64) Time                { return time.Unix(sec, nsec) }
func Parse(l, v string) (Time, error)          { return time.Parse(l, v) }
func ParseDuration(s string) (Duration, error) { return time.ParseDuration(s) }
