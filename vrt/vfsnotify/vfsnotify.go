// Package vfsnotify replaces github.com/fsnotify/fsnotify in
// rare/pkg/followreader: a watcher receives the events of the virtual file
// system (vos) for the watched directory, in operation order, through a
// buffered queue (the kernel's inotify queue).
package vfsnotify

import (
	"errors"
	"strings"

	vrt "rare/verifrt"
	"rare/verifrt/vos"
)

type Op uint32

const (
	Create Op = 1 << iota
	Write
	Remove
	Rename
	Chmod
)

type Event struct {
	Name string
	Op   Op
}

type Watcher struct {
	Events *vrt.Chan[Event]
	Errors *vrt.Chan[error]
	closed bool
}

// FailNew makes NewWatcher fail (fault injection by the harness).
var FailNew bool

func NewWatcher() (*Watcher, error) {
	if FailNew {
		return nil, errors.New("too many open files (injected)")
	}
	return &Watcher{Events: vrt.MakeChan[Event](256), Errors: vrt.MakeChan[error](1)}, nil
}

func (w *Watcher) Add(dir string) error {
	if !strings.HasPrefix(dir+"/", vos.Root) && dir+"/" != vos.Root {
		return errors.New("vfsnotify: only virtual directories can be watched: " + dir)
	}
	vos.Watch(dir, func(e vos.Event) {
		if w.closed {
			return
		}
		var op Op
		switch e.Op {
		case vos.OpCreate:
			op = Create
		case vos.OpWrite:
			op = Write
		case vos.OpRemove:
			op = Remove
		}
		if !w.Events.Offer(Event{Name: e.Name, Op: op}) {
			vrt.Fault("vfsnotify: event queue overflow (harness bound too small)")
		}
	})
	return nil
}

func (w *Watcher) Close() error {
	if w.closed {
		return nil
	}
	w.closed = true
	w.Events.Close()
	w.Errors.Close()
	return nil
}
