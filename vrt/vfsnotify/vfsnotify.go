// Package vfsnotify replaces github.com/fsnotify/fsnotify in
// rare/pkg/followreader: a watcher receives the events of the virtual file
// system (vos) for the watched directory, in operation order, through a
// buffered queue (the kernel's inotify queue).
package vfsnotify

import (
	"errors"
	"strings"

	vrt "rare/verifrt"
	"rare/verifrt/vos"
)

type Op uint32

const (
	Create Op = 1 << iota
	Write
	Remove
	Rename
	Chmod
)

type Event struct {
	Name string
	Op   Op
}

type Watcher struct {
	Events  *vrt.Chan[Event]
	Errors  *vrt.Chan[error]
	closed  bool
	removed map[string]bool // directories taken off the watch list again
	sinks   map[string]bool // directories that have a sink registered with vos
}

// FailNew makes NewWatcher fail (fault injection by the harness).
var FailNew bool

func NewWatcher() (*Watcher, error) {
	if FailNew {
		return nil, errors.New("too many open files (injected)")
	}
	return &Watcher{Events: vrt.MakeChan[Event](256), Errors: vrt.MakeChan[error](1)}, nil
}

func (w *Watcher) Add(dir string) error {
	if !strings.HasPrefix(dir+"/", vos.Root) && dir+"/" != vos.Root {
		return errors.New("vfsnotify: only virtual directories can be watched: " + dir)
	}
	key := strings.TrimSuffix(dir, "/")
	if w.removed != nil {
		delete(w.removed, key)
	}
	if w.sinks == nil {
		w.sinks = map[string]bool{}
	}
	if w.sinks[key] {
		return nil // watched before (and possibly removed): the sink is still there
	}
	w.sinks[key] = true
	vos.Watch(dir, func(e vos.Event) {
		if w.closed || w.removed[key] {
			return
		}
		var op Op
		switch e.Op {
		case vos.OpCreate:
			op = Create
		case vos.OpWrite:
			op = Write
		case vos.OpRemove:
			op = Remove
		}
		if !w.Events.Offer(Event{Name: e.Name, Op: op}) {
			vrt.Fault("vfsnotify: event queue overflow (harness bound too small)")
		}
	})
	return nil
}

// Remove stops watching a directory (as fsnotify's Watcher.Remove).
func (w *Watcher) Remove(dir string) error {
	if w.removed == nil {
		w.removed = map[string]bool{}
	}
	w.removed[strings.TrimSuffix(dir, "/")] = true
	return nil
}

// String renders the operation like fsnotify does.
func (op Op) String() string {
	var parts []string
	for _, x := range []struct {
		o Op
		n string
	}{{Create, "CREATE"}, {Write, "WRITE"}, {Remove, "REMOVE"}, {Rename, "RENAME"}, {Chmod, "CHMOD"}} {
		if op&x.o != 0 {
			parts = append(parts, x.n)
		}
	}
	return strings.Join(parts, "|")
}

// Has reports whether the operation includes h (as fsnotify's Op.Has).
func (op Op) Has(h Op) bool { return op&h != 0 }

func (w *Watcher) Close() error {
	if w.closed {
		return nil
	}
	w.closed = true
	w.Events.Close()
	w.Errors.Close()
	return nil
}
