// Package vsignal replaces "os/signal": no signal is ever delivered.
package vsignal

import (
	"os"

	vrt "rare/verifrt"
)

func Notify(c *vrt.Chan[os.Signal], sig ...os.Signal) {}
func Stop(c *vrt.Chan[os.Signal])                     {}
