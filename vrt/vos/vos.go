// Package vos replaces "os" in rare/pkg/followreader: paths below Root live
// in an in-memory file system whose mutations are performed by the harness
// (an explorer-scheduled writer) and reported to vfsnotify watchers in
// operation order; every call is a scheduling point. Other paths pass
// through to the real os package.
package vos

import (
	"errors"
	"io"
	"io/fs"
	"os"
	"path"
	"strings"
	"time"

	vrt "rare/verifrt"
)

// Root is the prefix of virtual paths.
const Root = "/vfs/"

type FileInfo = os.FileInfo

var (
	ErrNotExist = os.ErrNotExist
	ErrInvalid  = os.ErrInvalid
	ErrClosed   = os.ErrClosed
)

type inode struct {
	data []byte
}

// Event is a file system notification.
type Event struct {
	Name string
	Op   int // 1 create, 2 write, 4 remove
}

const (
	OpCreate = 1
	OpWrite  = 2
	OpRemove = 4
)

// FS is the virtual file system of one execution.
type FS struct {
	files    map[string]*inode
	watchers []func(Event)
	Opens    int
	Log      []string
	// Seeks and Stats record the results of Seek and Stat calls on virtual
	// paths (offset reached; size seen, -1 when missing), in call order.
	Seeks []int64
	Stats []int64
	// OnStat is called with the size a Stat call observed.
	OnStat func(size int64)
	// OnOpen is called after a successful Open of a virtual file.
	OnOpen func()
	// ReadHook, when set, decides the answer of every Read of a virtual file:
	// want = len(buffer), avail = bytes left. It returns how many bytes to
	// deliver (<= min(want, avail)) and an error to return with them
	// (nil: none). Used for short reads and injected read errors.
	ReadHook func(name string, want, avail int) (int, error)
	// OpenHook, when set, may fail an Open of an existing virtual file.
	OpenHook func(name string) error
}

var cur *FS

// Reset installs a fresh virtual file system.
func Reset() *FS {
	cur = &FS{files: map[string]*inode{}}
	return cur
}

func (f *FS) emit(e Event) {
	for _, w := range f.watchers {
		w(e)
	}
}

// Watch registers a notification sink (used by vfsnotify).
func Watch(dir string, sink func(Event)) {
	if cur == nil {
		return
	}
	dir = strings.TrimSuffix(dir, "/")
	cur.watchers = append(cur.watchers, func(e Event) {
		if path.Dir(e.Name) == dir {
			sink(e)
		}
	})
}

// Create makes an empty file (CREATE event). It is an error if it exists.
func (f *FS) Create(name string) {
	vrt.YieldAt("fs create")
	if _, ok := f.files[name]; ok {
		panic("vos: create of existing file " + name)
	}
	f.files[name] = &inode{}
	f.Log = append(f.Log, "create")
	f.emit(Event{name, OpCreate})
}

// CreateWith atomically puts a file with content in place (a rename into the
// directory: one CREATE event, no WRITE).
func (f *FS) CreateWith(name string, content []byte) {
	vrt.YieldAt("fs create+content")
	if _, ok := f.files[name]; ok {
		panic("vos: create of existing file " + name)
	}
	f.files[name] = &inode{data: append([]byte{}, content...)}
	f.Log = append(f.Log, "create+"+string(content))
	f.emit(Event{name, OpCreate})
}

// Append appends to an existing file (WRITE event).
func (f *FS) Append(name string, b []byte) {
	vrt.YieldAt("fs append")
	in, ok := f.files[name]
	if !ok {
		panic("vos: append to missing file " + name)
	}
	in.data = append(in.data, b...)
	f.Log = append(f.Log, "append "+string(b))
	f.emit(Event{name, OpWrite})
}

// Remove unlinks a file (REMOVE event); open descriptors keep the content.
func (f *FS) Remove(name string) {
	vrt.YieldAt("fs remove")
	if _, ok := f.files[name]; !ok {
		panic("vos: remove of missing file " + name)
	}
	delete(f.files, name)
	f.Log = append(f.Log, "remove")
	f.emit(Event{name, OpRemove})
}

// Put installs a file without event or scheduling point (initial state).
func (f *FS) Put(name string, content []byte) {
	f.files[name] = &inode{data: append([]byte{}, content...)}
}

// Exists reports whether name exists (harness use; no scheduling point).
func (f *FS) Exists(name string) bool { _, ok := f.files[name]; return ok }

// Size returns the size of name or -1.
func (f *FS) Size(name string) int {
	if in, ok := f.files[name]; ok {
		return len(in.data)
	}
	return -1
}

// File replaces os.File.
type File struct {
	real   *os.File
	in     *inode
	name   string
	pos    int64
	closed bool
}

func virtual(name string) bool { return cur != nil && strings.HasPrefix(name, Root) }

func Open(name string) (*File, error) {
	if !virtual(name) {
		f, err := os.Open(name)
		if err != nil {
			return nil, err
		}
		return &File{real: f, name: name}, nil
	}
	vrt.YieldAt("os.Open")
	cur.Opens++
	in, ok := cur.files[name]
	if !ok {
		return nil, &fs.PathError{Op: "open", Path: name, Err: ErrNotExist}
	}
	if cur.OpenHook != nil {
		if err := cur.OpenHook(name); err != nil {
			return nil, &fs.PathError{Op: "open", Path: name, Err: err}
		}
	}
	if cur.OnOpen != nil {
		cur.OnOpen()
	}
	return &File{in: in, name: name}, nil
}

type info struct {
	name string
	size int64
	ino  *inode
}

// SameFile replaces os.SameFile.
func SameFile(a, b FileInfo) bool {
	ia, oka := a.(info)
	ib, okb := b.(info)
	if oka && okb {
		return ia.ino == ib.ino
	}
	if oka || okb {
		return false
	}
	return os.SameFile(a, b)
}

// Stat replaces (*os.File).Stat.
func (f *File) Stat() (FileInfo, error) {
	if f == nil {
		return nil, ErrInvalid
	}
	if f.real != nil {
		return f.real.Stat()
	}
	if f.closed {
		return nil, &fs.PathError{Op: "stat", Path: f.name, Err: ErrClosed}
	}
	return info{f.name, int64(len(f.in.data)), f.in}, nil
}

func (i info) Name() string       { return path.Base(i.name) }
func (i info) Size() int64        { return i.size }
func (i info) Mode() fs.FileMode  { return 0o644 }
func (i info) ModTime() time.Time { return time.Time{} }
func (i info) IsDir() bool        { return false }
func (i info) Sys() any           { return nil }

func Stat(name string) (FileInfo, error) {
	if !virtual(name) {
		return os.Stat(name)
	}
	vrt.YieldAt("os.Stat")
	in, ok := cur.files[name]
	if !ok {
		cur.Stats = append(cur.Stats, -1)
		if cur.OnStat != nil {
			cur.OnStat(-1)
		}
		return nil, &fs.PathError{Op: "stat", Path: name, Err: ErrNotExist}
	}
	cur.Stats = append(cur.Stats, int64(len(in.data)))
	if cur.OnStat != nil {
		cur.OnStat(int64(len(in.data)))
	}
	return info{name, int64(len(in.data)), in}, nil
}

func (f *File) Read(b []byte) (int, error) {
	if f == nil {
		return 0, ErrInvalid
	}
	if f.real != nil {
		return f.real.Read(b)
	}
	vrt.YieldAt("file.Read")
	if f.closed {
		return 0, &fs.PathError{Op: "read", Path: f.name, Err: ErrClosed}
	}
	if len(b) == 0 {
		return 0, nil
	}
	avail := len(f.in.data) - int(f.pos)
	if avail < 0 {
		avail = 0
	}
	if cur != nil && cur.ReadHook != nil {
		n, err := cur.ReadHook(f.name, len(b), avail)
		copy(b[:n], f.in.data[f.pos:])
		f.pos += int64(n)
		if err != nil {
			return n, &fs.PathError{Op: "read", Path: f.name, Err: err}
		}
		if n == 0 && avail == 0 {
			return 0, io.EOF
		}
		return n, nil
	}
	if avail == 0 {
		return 0, io.EOF
	}
	n := copy(b, f.in.data[f.pos:])
	f.pos += int64(n)
	return n, nil
}

func (f *File) Seek(off int64, whence int) (int64, error) {
	if f == nil {
		return 0, ErrInvalid
	}
	if f.real != nil {
		return f.real.Seek(off, whence)
	}
	vrt.YieldAt("file.Seek")
	if f.closed {
		return 0, &fs.PathError{Op: "seek", Path: f.name, Err: ErrClosed}
	}
	var np int64
	switch whence {
	case io.SeekStart:
		np = off
	case io.SeekCurrent:
		np = f.pos + off
	case io.SeekEnd:
		np = int64(len(f.in.data)) + off
	default:
		return 0, errors.New("vos: bad whence")
	}
	if np < 0 {
		return 0, &fs.PathError{Op: "seek", Path: f.name, Err: ErrInvalid}
	}
	f.pos = np
	if cur != nil {
		cur.Seeks = append(cur.Seeks, np)
	}
	return np, nil
}

func (f *File) Close() error {
	if f == nil {
		return ErrInvalid
	}
	if f.real != nil {
		return f.real.Close()
	}
	if f.closed {
		return &fs.PathError{Op: "close", Path: f.name, Err: ErrClosed}
	}
	f.closed = true
	return nil
}

func (f *File) Name() string { return f.name }
