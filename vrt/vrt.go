// Package verifrt ("vrt") is the controlled runtime onto which the concurrent
// parts of rare are compiled by /verif/instrument (through go build -overlay,
// as the virtual package rare/verifrt). Exactly one managed goroutine runs at
// a time; at every synchronisation operation the scheduler asks the explorer
// (a Chooser) which enabled goroutine continues, or whether virtual time
// advances. Everything that is nondeterministic in a real run (scheduling,
// select, timers, the clock) is therefore a recorded choice.
package verifrt

import (
	"fmt"
	"runtime"
	"sort"
	"strings"
	"time"
	"unsafe"
)

// Chooser is implemented by mc.Explorer.
type Chooser interface {
	ChooseCosts(costs []int, label string) int
}

// Options configure one execution.
type Options struct {
	// MaxAdvances bounds how often virtual time may be advanced to the next
	// timer deadline (the horizon of polling code). 0: 64; <0: never.
	MaxAdvances int
	// AdvanceCost is the deviation cost of advancing the clock while some
	// goroutine could run (default 1; <0: free). Advancing when nothing can
	// run is always free.
	AdvanceCost int
	// FreeGoroutines lists goroutine names whose scheduling is an enumeration
	// dimension rather than a deviation: switching to or from them costs 0.
	FreeGoroutines map[string]bool
	// ClockJumps lists jumps Now() may take before answering (each costs 1).
	ClockJumps []time.Duration
	// Race enables the happens-before detector (vector clocks).
	Race bool
	// Trace records one line per scheduling decision.
	Trace bool
	// MaxSteps ends the execution (Result.StepLimit) after that many
	// scheduling points; 0: 100000.
	MaxSteps int
}

// Result describes a finished execution.
type Result struct {
	Faults    []string // runtime faults: send on closed channel, negative WaitGroup, panic in a goroutine, data race ...
	Blocked   []string // goroutines that were still blocked at quiescence ("name@op")
	Steps     int      // scheduling points passed
	Switches  int
	Advances  int
	StepLimit bool
	Horizon   bool // MaxAdvances was reached
	Trace     []string
	Now       time.Duration // virtual time at the end
}

// G is a managed goroutine.
type G struct {
	id       int
	name     string
	wake     chan struct{}
	exited   chan struct{}
	ready    func() bool
	label    string
	finished bool
	vc       vclock
	w        *waiter
}

type timer struct {
	at   int64
	fire func()
	seq  int
	dead bool
}

// Sched is the scheduler of one execution.
type Sched struct {
	ch         Chooser
	opts       Options
	gs         []*G
	cur        *G
	now        int64
	timers     []*timer
	timerSeq   int
	res        Result
	aborting   bool
	over       bool
	hostDone   chan struct{}
	hostPanic  any
	nextObj    int
	acc        map[unsafe.Pointer]*accessInfo
	rangeW     []rangeWrite // whole-object writes (*p = T{..}), checked against later accesses inside the object
	atomVC     map[unsafe.Pointer]*vclock
	raceSeen   map[string]bool
	enabledBuf []*G
}

var cur *Sched

// Active reports whether a controlled execution is running.
func Active() bool { return cur != nil && !cur.aborting }

func active() *Sched {
	s := cur
	if s == nil || s.aborting {
		return nil
	}
	return s
}

// Run executes body as goroutine "main" under the scheduler and returns when
// the system is quiescent: every goroutine finished or blocked with no pending
// timer (or the horizon was reached). Goroutines still blocked are unwound.
func Run(ch Chooser, opts Options, body func()) *Result {
	if cur != nil {
		panic("vrt: nested Run")
	}
	if opts.MaxSteps == 0 {
		opts.MaxSteps = 100000
	}
	if opts.AdvanceCost == 0 {
		opts.AdvanceCost = 1
	} else if opts.AdvanceCost < 0 {
		opts.AdvanceCost = 0 // time is a free dimension
	}
	if opts.MaxAdvances == 0 {
		opts.MaxAdvances = 64
	}
	s := &Sched{ch: ch, opts: opts, hostDone: make(chan struct{})}
	if opts.Race {
		s.acc = map[unsafe.Pointer]*accessInfo{}
		s.atomVC = map[unsafe.Pointer]*vclock{}
		s.raceSeen = map[string]bool{}
	}
	cur = s
	g := s.newG("main", body, nil)
	s.cur = g
	g.wake <- struct{}{}
	<-s.hostDone
	// unwind everything that is still parked, one goroutine at a time
	for i := 0; i < len(s.gs); i++ {
		g := s.gs[i]
		select {
		case <-g.exited:
			continue
		default:
		}
		select {
		case g.wake <- struct{}{}:
		default:
		}
		<-g.exited
	}
	cur = nil
	if s.hostPanic != nil {
		panic(s.hostPanic)
	}
	s.res.Now = time.Duration(s.now)
	r := s.res
	return &r
}

func (s *Sched) newG(name string, fn func(), parent *G) *G {
	g := &G{id: len(s.gs), name: name, wake: make(chan struct{}, 1), exited: make(chan struct{})}
	g.ready = alwaysReady
	g.label = "start"
	if s.opts.Race {
		if parent != nil {
			g.vc = parent.vc.copy()
			parent.vc.tick(parent.id)
		}
		g.vc.tick(g.id)
	}
	s.gs = append(s.gs, g)
	go func() {
		defer func() {
			r := recover()
			if r != nil {
				if s.hostPanic == nil && !s.aborting {
					buf := make([]byte, 4096)
					buf = buf[:runtime.Stack(buf, false)]
					s.fault(fmt.Sprintf("panic in goroutine %s: %v", g.name, r), string(buf))
				}
				g.finished = true
				s.finish()
			}
			close(g.exited)
		}()
		<-g.wake
		if s.aborting {
			return
		}
		fn()
		g.finished = true
		if s.aborting {
			return
		}
		s.dispatch(g)
	}()
	return g
}

func alwaysReady() bool { return true }

// fault records a runtime fault (deduplicated by its first line).
func (s *Sched) fault(msg, detail string) {
	for _, f := range s.res.Faults {
		if strings.HasPrefix(f, msg) {
			return
		}
	}
	if detail != "" {
		msg += "\n" + detail
	}
	s.res.Faults = append(s.res.Faults, msg)
}

// Fault lets a harness record a fault from inside a managed goroutine.
func Fault(msg string) {
	if s := active(); s != nil {
		s.fault(msg, "")
	}
}

// finish ends the execution; the caller must stop running afterwards.
func (s *Sched) finish() {
	if s.over {
		return
	}
	s.over = true
	s.aborting = true
	for _, g := range s.gs {
		if !g.finished {
			s.res.Blocked = append(s.res.Blocked, g.name+"@"+g.label)
		}
	}
	close(s.hostDone)
}

func (s *Sched) choose(costs []int, label string) int {
	defer func() {
		if r := recover(); r != nil {
			if s.hostPanic == nil {
				s.hostPanic = r
			}
			panic(r)
		}
	}()
	return s.ch.ChooseCosts(costs, label)
}

// Choose exposes an explorer choice to instrumented code and harnesses
// (environment answers). Alternative 0 is free, the others cost `cost`.
func Choose(n int, cost int, label string) int {
	s := active()
	if s == nil || n <= 1 {
		return 0
	}
	costs := make([]int, n)
	for i := 1; i < n; i++ {
		costs[i] = cost
	}
	return s.choose(costs, label)
}

func (s *Sched) nextDeadline() (int64, bool) {
	var best int64
	ok := false
	for _, t := range s.timers {
		if t.dead {
			continue
		}
		if !ok || t.at < best {
			best, ok = t.at, true
		}
	}
	return best, ok
}

func (s *Sched) advanceTo(at int64) {
	if at > s.now {
		s.now = at
	}
	// fire due timers in (deadline, creation) order
	var due []*timer
	keep := s.timers[:0]
	for _, t := range s.timers {
		if t.dead {
			continue
		}
		if t.at <= s.now {
			due = append(due, t)
		} else {
			keep = append(keep, t)
		}
	}
	s.timers = keep
	sort.Slice(due, func(i, j int) bool {
		if due[i].at != due[j].at {
			return due[i].at < due[j].at
		}
		return due[i].seq < due[j].seq
	})
	for _, t := range due {
		t.fire()
	}
}

func (s *Sched) addTimer(d time.Duration, fire func()) *timer {
	if d < 0 {
		d = 0
	}
	s.timerSeq++
	t := &timer{at: s.now + int64(d), fire: fire, seq: s.timerSeq}
	if d == 0 {
		fire()
		t.dead = true
		return t
	}
	s.timers = append(s.timers, t)
	return t
}

// dispatch is the scheduling point: from is the goroutine giving up control
// (its ready/label fields say what it waits for). It returns when from is
// scheduled again. If from has finished it returns after handing over.
func (s *Sched) dispatch(from *G) {
	for {
		s.res.Steps++
		if s.res.Steps > s.opts.MaxSteps {
			s.res.StepLimit = true
			s.endFrom(from)
			return
		}
		en := s.enabledBuf[:0]
		fromEnabled := false
		if !from.finished && from.ready() {
			en = append(en, from)
			fromEnabled = true
		}
		// the others in round-robin order after from: the default scheduler is
		// "keep running; when blocked, the next goroutine in cyclic id order"
		for k := 1; k < len(s.gs); k++ {
			g := s.gs[(from.id+k)%len(s.gs)]
			if g == from || g.finished {
				continue
			}
			if g.ready() {
				en = append(en, g)
			}
		}
		s.enabledBuf = en
		deadline, haveTimer := s.nextDeadline()
		canAdvance := haveTimer && s.res.Advances < s.opts.MaxAdvances
		if len(en) == 0 {
			if canAdvance {
				s.res.Advances++
				if s.opts.Trace {
					s.res.Trace = append(s.res.Trace, fmt.Sprintf("clock->%v", time.Duration(deadline)))
				}
				s.advanceTo(deadline)
				continue
			}
			if haveTimer {
				s.res.Horizon = true
			}
			s.endFrom(from)
			return
		}
		n := len(en)
		if canAdvance {
			n++
		}
		pick := 0
		if n > 1 {
			costs := make([]int, n)
			// delay bounding: every departure from the default scheduler costs 1
			// (a preemption of a runnable goroutine, or picking another than
			// the next goroutine when the running one blocks)
			for i := 1; i < len(en); i++ {
				if !s.free(from) && !s.free(en[i]) {
					costs[i] = 1
				}
			}
			_ = fromEnabled
			if canAdvance {
				costs[n-1] = s.opts.AdvanceCost
			}
			pick = s.choose(costs, from.label)
		}
		if canAdvance && pick == n-1 {
			s.res.Advances++
			if s.opts.Trace {
				s.res.Trace = append(s.res.Trace, fmt.Sprintf("clock->%v (while %s runnable)", time.Duration(deadline), en[0].name))
			}
			s.advanceTo(deadline)
			continue
		}
		next := en[pick]
		if s.opts.Trace {
			s.res.Trace = append(s.res.Trace, next.name+"@"+next.label)
		}
		if next == from {
			return
		}
		s.res.Switches++
		s.cur = next
		next.wake <- struct{}{}
		if from.finished {
			return
		}
		<-from.wake
		if s.aborting {
			runtime.Goexit()
		}
		return
	}
}

func (s *Sched) free(g *G) bool {
	if s.opts.FreeGoroutines == nil {
		return false
	}
	name := g.name
	if i := strings.IndexByte(name, '#'); i >= 0 {
		name = name[:i]
	}
	return s.opts.FreeGoroutines[name]
}

func (s *Sched) endFrom(from *G) {
	s.finish()
	if !from.finished {
		runtime.Goexit()
	}
}

// wait blocks the current goroutine until ready() holds and it is scheduled.
func (s *Sched) wait(ready func() bool, label string) {
	g := s.cur
	g.ready = ready
	g.label = label
	s.dispatch(g)
	g.ready = alwaysReady
}

// Yield is a plain scheduling point.
func Yield() {
	if s := active(); s != nil {
		s.wait(alwaysReady, "yield")
	}
}

// YieldAt is a scheduling point with a label (shown in traces).
func YieldAt(label string) {
	if s := active(); s != nil {
		s.wait(alwaysReady, label)
	}
}

// WaitFor blocks the running goroutine until cond holds (cond is evaluated by
// the scheduler and must only read state).
func WaitFor(cond func() bool, label string) {
	if s := active(); s != nil {
		s.wait(cond, label)
	}
}

// AddAdvances extends the clock-advance horizon by n (used by harnesses when
// the environment has finished, to give polling code its full set of polls).
func AddAdvances(n int) {
	if s := active(); s != nil {
		s.opts.MaxAdvances = s.res.Advances + n
	}
}

// Go starts a managed goroutine.
func Go(fn func()) { GoNamed("", fn) }

// GoNamed starts a managed goroutine with a name used in traces.
func GoNamed(name string, fn func()) {
	s := active()
	if s == nil {
		if cur != nil { // aborting: never start new work
			return
		}
		panic("vrt: go statement outside a controlled execution")
	}
	if name == "" {
		name = fmt.Sprintf("g%d", len(s.gs))
	} else {
		name = fmt.Sprintf("%s#%d", name, len(s.gs))
	}
	s.newG(name, fn, s.cur)
	s.wait(alwaysReady, "go")
}

// SpawnFromTimer starts a managed goroutine from inside a timer callback
// (which runs in the scheduler, not in a goroutine): no scheduling point.
func SpawnFromTimer(name string, fn func()) {
	s := active()
	if s == nil {
		return
	}
	s.newG(fmt.Sprintf("%s#%d", name, len(s.gs)), fn, nil)
}

// Name returns the name of the running goroutine.
func Name() string {
	if s := active(); s != nil {
		return s.cur.name
	}
	return "host"
}

// ---------------------------------------------------------------- time

// Now returns the virtual time as an offset from the epoch of the execution.
func Now() time.Duration {
	s := active()
	if s == nil {
		return 0
	}
	if len(s.opts.ClockJumps) > 0 {
		costs := make([]int, len(s.opts.ClockJumps)+1)
		for i := 1; i < len(costs); i++ {
			costs[i] = 1
		}
		if k := s.choose(costs, "now"); k > 0 {
			s.advanceTo(s.now + int64(s.opts.ClockJumps[k-1]))
		}
	}
	return time.Duration(s.now)
}

// NowNoJump reads the virtual clock without offering a jump.
func NowNoJump() time.Duration {
	if s := cur; s != nil {
		return time.Duration(s.now)
	}
	return 0
}

// Sleep blocks for d of virtual time.
func Sleep(d time.Duration) {
	s := active()
	if s == nil {
		return
	}
	done := false
	s.addTimer(d, func() { done = true })
	s.wait(func() bool { return done }, "sleep")
}

// AfterFunc runs fire (inside the scheduler, atomically) once d of virtual
// time has passed.
func AfterFunc(d time.Duration, fire func()) {
	if s := active(); s != nil {
		s.addTimer(d, fire)
	}
}

// ---------------------------------------------------------------- channels

type item struct {
	v  any
	vc *vclock
}

type selCase struct {
	c    *chanCore
	send bool
	v    any
}

type waiter struct {
	g     *G
	cases []selCase
	done  bool
	fired int
	val   any
	ok    bool
}

type chanCore struct {
	id     int
	cap    int
	buf    []item
	closed bool
	recvq  []*waiter
	sendq  []*waiter
	// happens-before bookkeeping
	closeVC *vclock
	recvVCs []*vclock // receiver clocks, for "k-th receive hb (k+cap)-th send"
	nSend   int
}

// Chan is the controlled counterpart of chan T.
type Chan[T any] struct{ c *chanCore }

// MakeChan is make(chan T, n).
func MakeChan[T any](n int) *Chan[T] {
	id := 0
	if s := cur; s != nil {
		s.nextObj++
		id = s.nextObj
	}
	return &Chan[T]{c: &chanCore{id: id, cap: n}}
}

func (c *chanCore) removeWaiter(w *waiter) {
	for _, sc := range w.cases {
		q := &sc.c.recvq
		if sc.send {
			q = &sc.c.sendq
		}
		for i, x := range *q {
			if x == w {
				*q = append((*q)[:i], (*q)[i+1:]...)
				break
			}
		}
	}
}

// caseReady reports whether case i of w can complete now.
func caseReady(w *waiter, sc selCase) bool {
	c := sc.c
	if c == nil {
		return false // nil channel: never ready
	}
	if sc.send {
		if c.closed {
			return true // completes by panicking
		}
		if c.cap > 0 {
			return len(c.buf) < c.cap
		}
		for _, r := range c.recvq {
			if r != w && !r.done {
				return true
			}
		}
		return false
	}
	if len(c.buf) > 0 || c.closed {
		return true
	}
	if c.cap == 0 {
		for _, x := range c.sendq {
			if x != w && !x.done {
				return true
			}
		}
	}
	return false
}

// complete performs case i of w (which is ready) on behalf of goroutine g.
func (s *Sched) complete(w *waiter, i int) {
	sc := w.cases[i]
	c := sc.c
	g := w.g
	w.fired = i
	if sc.send {
		if c.closed {
			s.fault("send on closed channel", "goroutine "+g.name)
			panic("send on closed channel")
		}
		var vc *vclock
		if s.opts.Race {
			// k-th receive happens before the (k+cap)-th send completes
			if c.cap > 0 && c.nSend >= c.cap && c.nSend-c.cap < len(c.recvVCs) {
				if r := c.recvVCs[c.nSend-c.cap]; r != nil {
					g.vc.join(r)
				}
			}
			cp := g.vc.copy()
			vc = &cp
			g.vc.tick(g.id)
		}
		c.nSend++
		if c.cap > 0 {
			c.buf = append(c.buf, item{sc.v, vc})
			return
		}
		// rendezvous with the first waiting receiver
		for _, r := range c.recvq {
			if r == w || r.done {
				continue
			}
			for k, rc := range r.cases {
				if rc.c == c && !rc.send {
					r.fired = k
					break
				}
			}
			r.val, r.ok, r.done = sc.v, true, true
			c.removeWaiter(r)
			if s.opts.Race {
				r.g.vc.join(vc)
				g.vc.join(&r.g.vc)
				r.g.vc.tick(r.g.id)
			}
			return
		}
		panic("vrt: send completed without receiver")
	}
	// receive
	if len(c.buf) > 0 {
		it := c.buf[0]
		c.buf = c.buf[1:]
		w.val, w.ok = it.v, true
		if s.opts.Race {
			if it.vc != nil {
				g.vc.join(it.vc)
			}
			cp := g.vc.copy()
			c.recvVCs = append(c.recvVCs, &cp)
			g.vc.tick(g.id)
		}
		return
	}
	if c.cap == 0 {
		for _, x := range c.sendq {
			if x == w || x.done {
				continue
			}
			for k, xc := range x.cases {
				if xc.c == c && xc.send {
					x.fired = k
					w.val, w.ok = xc.v, true
					break
				}
			}
			x.done = true
			c.removeWaiter(x)
			c.nSend++
			if s.opts.Race {
				g.vc.join(&x.g.vc)
				x.g.vc.join(&g.vc)
				x.g.vc.tick(x.g.id)
				g.vc.tick(g.id)
			}
			return
		}
	}
	if c.closed {
		w.val, w.ok = nil, false
		if s.opts.Race && c.closeVC != nil {
			g.vc.join(c.closeVC)
		}
		return
	}
	panic("vrt: receive completed without data")
}

// doSelect runs a select over cases; hasDefault adds a default branch.
// It returns the index of the case that fired (-1: default), and for a
// receive the value and ok flag.
func (s *Sched) doSelect(cases []selCase, hasDefault bool, label string) (int, any, bool) {
	g := s.cur
	w := &waiter{g: g, cases: cases, fired: -1}
	g.w = w
	for _, sc := range cases {
		if sc.c == nil {
			continue
		}
		if sc.send {
			sc.c.sendq = append(sc.c.sendq, w)
		} else {
			sc.c.recvq = append(sc.c.recvq, w)
		}
	}
	ready := func() bool {
		if w.done || hasDefault {
			return true
		}
		for _, sc := range cases {
			if caseReady(w, sc) {
				return true
			}
		}
		return false
	}
	s.wait(ready, label)
	g.w = nil
	if w.done { // a partner completed one of our cases
		return w.fired, w.val, w.ok
	}
	for _, sc := range cases {
		if sc.c != nil {
			sc.c.removeWaiter(w)
			break
		}
	}
	// removeWaiter above removed w from every queue of its cases
	var rd []int
	for i, sc := range cases {
		if caseReady(w, sc) {
			rd = append(rd, i)
		}
	}
	if len(rd) == 0 {
		if hasDefault {
			return -1, nil, false
		}
		panic("vrt: select resumed with no ready case")
	}
	k := 0
	if len(rd) > 1 {
		k = s.choose(make([]int, len(rd)), "select")
	}
	s.complete(w, rd[k])
	return w.fired, w.val, w.ok
}

func zeroOf[T any](v any) T {
	t, _ := v.(T)
	return t
}

// Send is c <- v.
func (c *Chan[T]) Send(v T) {
	s := active()
	if s == nil {
		c.sendDirect(v)
		return
	}
	if c == nil {
		s.wait(func() bool { return false }, "send on nil channel")
		return
	}
	s.doSelect([]selCase{{c: c.c, send: true, v: v}}, false, "chan send")
}

func (c *Chan[T]) sendDirect(v T) {
	if cur != nil { // aborting
		return
	}
	if c.c.closed {
		panic("send on closed channel")
	}
	if len(c.c.buf) >= c.c.cap {
		panic("vrt: blocking send outside a controlled execution")
	}
	c.c.buf = append(c.c.buf, item{v: v})
}

// Recv is <-c.
func (c *Chan[T]) Recv() T {
	v, _ := c.Recv2()
	return v
}

// Recv2 is v, ok := <-c.
func (c *Chan[T]) Recv2() (T, bool) {
	s := active()
	if s == nil {
		var z T
		if cur != nil || c == nil { // aborting
			return z, false
		}
		if len(c.c.buf) > 0 {
			it := c.c.buf[0]
			c.c.buf = c.c.buf[1:]
			return zeroOf[T](it.v), true
		}
		if c.c.closed {
			return z, false
		}
		panic("vrt: blocking receive outside a controlled execution")
	}
	if c == nil {
		s.wait(func() bool { return false }, "receive on nil channel")
		var z T
		return z, false
	}
	_, v, ok := s.doSelect([]selCase{{c: c.c}}, false, "chan recv")
	return zeroOf[T](v), ok
}

// Offer appends v to the buffer if there is room (used by timers and event
// sources, which run inside the scheduler and must not block).
func (c *Chan[T]) Offer(v T) bool {
	if c.c.closed || len(c.c.buf) >= c.c.cap {
		return false
	}
	c.c.buf = append(c.c.buf, item{v: v})
	return true
}

// Close is close(c).
func (c *Chan[T]) Close() {
	s := active()
	if s == nil {
		if cur != nil {
			return
		}
		if c.c.closed {
			panic("close of closed channel")
		}
		c.c.closed = true
		return
	}
	s.wait(alwaysReady, "chan close")
	if c.c.closed {
		s.fault("close of closed channel", "goroutine "+s.cur.name)
		panic("close of closed channel")
	}
	c.c.closed = true
	if s.opts.Race {
		cp := s.cur.vc.copy()
		c.c.closeVC = &cp
		s.cur.vc.tick(s.cur.id)
	}
}

// Len is len(c).
func (c *Chan[T]) Len() int {
	if c == nil {
		return 0
	}
	return len(c.c.buf)
}

// Cap is cap(c).
func (c *Chan[T]) Cap() int {
	if c == nil {
		return 0
	}
	return c.c.cap
}

// Closed reports (for harness oracles only) whether the channel was closed.
func (c *Chan[T]) Closed() bool { return c != nil && c.c.closed }

// SelCase is one case of a Select.
type SelCase struct {
	core *chanCore
	send bool
	v    any
}

// RecvCase builds a receive case.
func RecvCase[T any](c *Chan[T]) SelCase {
	if c == nil {
		return SelCase{}
	}
	return SelCase{core: c.c}
}

// SendCase builds a send case.
func SendCase[T any](c *Chan[T], v T) SelCase {
	if c == nil {
		return SelCase{send: true}
	}
	return SelCase{core: c.c, send: true, v: v}
}

// Select runs a select statement; it returns the fired case (-1: default)
// and, for a receive case, the received value and ok.
func Select(hasDefault bool, cases ...SelCase) (int, any, bool) {
	s := active()
	if s == nil {
		if cur != nil {
			runtime.Goexit()
		}
		// outside a controlled execution only non-blocking use is possible
		for i, c := range cases {
			if c.core == nil {
				continue
			}
			if c.send && !c.core.closed && len(c.core.buf) < c.core.cap {
				c.core.buf = append(c.core.buf, item{v: c.v})
				return i, nil, false
			}
			if !c.send && len(c.core.buf) > 0 {
				it := c.core.buf[0]
				c.core.buf = c.core.buf[1:]
				return i, it.v, true
			}
			if !c.send && c.core.closed {
				return i, nil, false
			}
		}
		if hasDefault {
			return -1, nil, false
		}
		panic("vrt: blocking select outside a controlled execution")
	}
	cs := make([]selCase, len(cases))
	for i, c := range cases {
		cs[i] = selCase{c: c.core, send: c.send, v: c.v}
	}
	return s.doSelect(cs, hasDefault, "select")
}

// Val converts the value returned by Select for a receive case.
func Val[T any](v any) T { return zeroOf[T](v) }

// ---------------------------------------------------------------- mutex etc.

// Mutex is the controlled sync.Mutex.
type Mutex struct {
	locked bool
	vc     *vclock
}

func (m *Mutex) Lock() {
	s := active()
	if s == nil {
		m.locked = true
		return
	}
	s.wait(func() bool { return !m.locked }, "mutex lock")
	m.locked = true
	if s.opts.Race && m.vc != nil {
		s.cur.vc.join(m.vc)
	}
}

func (m *Mutex) TryLock() bool {
	s := active()
	if s != nil {
		s.wait(alwaysReady, "mutex trylock")
	}
	if m.locked {
		return false
	}
	m.locked = true
	if s != nil && s.opts.Race && m.vc != nil {
		s.cur.vc.join(m.vc)
	}
	return true
}

func (m *Mutex) Unlock() {
	s := active()
	if s == nil {
		m.locked = false
		return
	}
	if !m.locked {
		s.fault("unlock of unlocked mutex", "goroutine "+s.cur.name)
		panic("sync: unlock of unlocked mutex")
	}
	if s.opts.Race {
		cp := s.cur.vc.copy()
		m.vc = &cp
		s.cur.vc.tick(s.cur.id)
	}
	m.locked = false
}

// RWMutex is the controlled sync.RWMutex.
type RWMutex struct {
	writer  bool
	readers int
	vc      *vclock
}

func (m *RWMutex) Lock() {
	s := active()
	if s == nil {
		m.writer = true
		return
	}
	s.wait(func() bool { return !m.writer && m.readers == 0 }, "rwmutex lock")
	m.writer = true
	if s.opts.Race && m.vc != nil {
		s.cur.vc.join(m.vc)
	}
}

func (m *RWMutex) Unlock() {
	s := active()
	if s == nil {
		m.writer = false
		return
	}
	if !m.writer {
		s.fault("unlock of unlocked rwmutex", "goroutine "+s.cur.name)
		panic("sync: Unlock of unlocked RWMutex")
	}
	m.release(s)
	m.writer = false
}

func (m *RWMutex) release(s *Sched) {
	if s.opts.Race {
		if m.vc == nil {
			m.vc = &vclock{}
		}
		m.vc.join(&s.cur.vc)
		s.cur.vc.tick(s.cur.id)
	}
}

func (m *RWMutex) RLock() {
	s := active()
	if s == nil {
		m.readers++
		return
	}
	s.wait(func() bool { return !m.writer }, "rwmutex rlock")
	m.readers++
	if s.opts.Race && m.vc != nil {
		s.cur.vc.join(m.vc)
	}
}

func (m *RWMutex) RUnlock() {
	s := active()
	if s == nil {
		m.readers--
		return
	}
	if m.readers <= 0 {
		s.fault("runlock of unlocked rwmutex", "goroutine "+s.cur.name)
		panic("sync: RUnlock of unlocked RWMutex")
	}
	m.release(s)
	m.readers--
}

// WaitGroup is the controlled sync.WaitGroup.
type WaitGroup struct {
	n  int
	vc *vclock
}

func (w *WaitGroup) Add(d int) {
	s := active()
	if s == nil {
		w.n += d
		return
	}
	w.n += d
	if s.opts.Race {
		if w.vc == nil {
			w.vc = &vclock{}
		}
		w.vc.join(&s.cur.vc)
		s.cur.vc.tick(s.cur.id)
	}
	if w.n < 0 {
		s.fault("negative WaitGroup counter", "goroutine "+s.cur.name)
		panic("sync: negative WaitGroup counter")
	}
}

func (w *WaitGroup) Done() { w.Add(-1) }

func (w *WaitGroup) Wait() {
	s := active()
	if s == nil {
		return
	}
	s.wait(func() bool { return w.n == 0 }, "waitgroup wait")
	if s.opts.Race && w.vc != nil {
		s.cur.vc.join(w.vc)
	}
}

// Cond is the controlled sync.Cond.
type Cond struct {
	L       Locker
	waiters []*condWaiter
}

// Locker is sync.Locker.
type Locker interface {
	Lock()
	Unlock()
}

type condWaiter struct{ woken bool }

func NewCond(l Locker) *Cond { return &Cond{L: l} }

func (c *Cond) Wait() {
	s := active()
	if s == nil {
		return
	}
	w := &condWaiter{}
	c.waiters = append(c.waiters, w)
	c.L.Unlock()
	s.wait(func() bool { return w.woken }, "cond wait")
	c.L.Lock()
}

func (c *Cond) Signal() {
	if s := active(); s != nil {
		s.wait(alwaysReady, "cond signal")
	}
	if len(c.waiters) > 0 {
		c.waiters[0].woken = true
		c.waiters = c.waiters[1:]
	}
}

func (c *Cond) Broadcast() {
	if s := active(); s != nil {
		s.wait(alwaysReady, "cond broadcast")
	}
	for _, w := range c.waiters {
		w.woken = true
	}
	c.waiters = nil
}

// Pool is the controlled sync.Pool (LIFO, never drops: a superset of what
// sync.Pool may do is not needed to find sharing bugs, reuse is what matters).
type Pool struct {
	New   func() any
	items []any
	m     Mutex
}

func (p *Pool) Get() any {
	p.m.Lock()
	defer p.m.Unlock()
	if n := len(p.items); n > 0 {
		x := p.items[n-1]
		p.items = p.items[:n-1]
		return x
	}
	if p.New != nil {
		return p.New()
	}
	return nil
}

func (p *Pool) Put(x any) {
	p.m.Lock()
	p.items = append(p.items, x)
	p.m.Unlock()
}

// Map is the controlled sync.Map.
type Map struct {
	m  map[any]any
	mu Mutex
}

func (m *Map) Load(k any) (any, bool) {
	m.mu.Lock()
	defer m.mu.Unlock()
	v, ok := m.m[k]
	return v, ok
}

func (m *Map) Store(k, v any) {
	m.mu.Lock()
	defer m.mu.Unlock()
	if m.m == nil {
		m.m = map[any]any{}
	}
	m.m[k] = v
}

func (m *Map) LoadOrStore(k, v any) (any, bool) {
	m.mu.Lock()
	defer m.mu.Unlock()
	if m.m == nil {
		m.m = map[any]any{}
	}
	if old, ok := m.m[k]; ok {
		return old, true
	}
	m.m[k] = v
	return v, false
}

func (m *Map) Delete(k any) {
	m.mu.Lock()
	defer m.mu.Unlock()
	delete(m.m, k)
}

func (m *Map) Range(f func(k, v any) bool) {
	m.mu.Lock()
	keys := MapKeys(m.m)
	m.mu.Unlock()
	for _, k := range keys {
		v, ok := m.Load(k)
		if ok && !f(k, v) {
			return
		}
	}
}

// Once is the controlled sync.Once.
type Once struct {
	done bool
	m    Mutex
}

func (o *Once) Do(f func()) {
	o.m.Lock()
	defer o.m.Unlock()
	if !o.done {
		o.done = true
		f()
	}
}

// ---------------------------------------------------------------- atomics

// AtomicPoint is the scheduling point + happens-before edge of an atomic
// operation on the word at p. The caller performs the operation itself right
// after (no other goroutine can run in between).
func AtomicPoint(p unsafe.Pointer, write bool, name string) {
	s := active()
	if s == nil {
		return
	}
	s.wait(alwaysReady, "atomic")
	if s.opts.Race {
		g := s.cur
		s.access(p, write, true, name)
		v := s.atomVC[p]
		if v == nil {
			v = &vclock{}
			s.atomVC[p] = v
		}
		g.vc.join(v)
		v.join(&g.vc)
		g.vc.tick(g.id)
	}
}

// ---------------------------------------------------------------- happens-before race detection

type vclock struct{ c []int }

func (v *vclock) get(i int) int {
	if i < len(v.c) {
		return v.c[i]
	}
	return 0
}

func (v *vclock) tick(i int) {
	for len(v.c) <= i {
		v.c = append(v.c, 0)
	}
	v.c[i]++
}

func (v *vclock) join(o *vclock) {
	if o == nil {
		return
	}
	for len(v.c) < len(o.c) {
		v.c = append(v.c, 0)
	}
	for i, x := range o.c {
		if x > v.c[i] {
			v.c[i] = x
		}
	}
}

func (v *vclock) copy() vclock { return vclock{c: append([]int(nil), v.c...)} }

type epoch struct {
	g      int
	clock  int
	atomic bool
	name   string
	gname  string
}

type accessInfo struct {
	w     *epoch
	reads []epoch
}

type rangeWrite struct {
	lo, hi uintptr
	e      epoch
}

func (s *Sched) hb(e *epoch, g *G) bool { return e.g == g.id || e.clock <= g.vc.get(e.g) }

func (s *Sched) access(p unsafe.Pointer, write, atomic bool, name string) {
	g := s.cur
	a := s.acc[p]
	if a == nil {
		a = &accessInfo{}
		s.acc[p] = a
	}
	me := epoch{g: g.id, clock: g.vc.get(g.id), atomic: atomic, name: name, gname: g.name}
	report := func(other *epoch, kind string) {
		name := name
		if name == "" {
			name = other.name
		}
		key := name + "|" + kind
		if s.raceSeen[key] {
			return
		}
		s.raceSeen[key] = true
		s.fault(fmt.Sprintf("data race on %s: %s", name, kind), fmt.Sprintf("%s by %s is not ordered with the access by %s", kind, g.name, other.gname))
	}
	if a.w != nil && !(atomic && a.w.atomic) && !s.hb(a.w, g) {
		if write {
			report(a.w, "write/write")
		} else {
			report(a.w, "write/read")
		}
	}
	if len(s.rangeW) > 0 {
		up := uintptr(p)
		for i := range s.rangeW {
			rw := &s.rangeW[i]
			if up >= rw.lo && up < rw.hi && !s.hb(&rw.e, g) {
				if write {
					report(&rw.e, "write/write")
				} else {
					report(&rw.e, "write/read")
				}
			}
		}
	}
	if write {
		for i := range a.reads {
			r := &a.reads[i]
			if !(atomic && r.atomic) && !s.hb(r, g) {
				report(r, "read/write")
			}
		}
		a.w = &me
		a.reads = a.reads[:0]
		return
	}
	for i := range a.reads {
		if a.reads[i].g == g.id {
			a.reads[i] = me
			return
		}
	}
	a.reads = append(a.reads, me)
}

// Rd marks a plain read of *p and returns p (instrumented field access).
func Rd[T any](p *T, name string) *T {
	if s := active(); s != nil && s.opts.Race {
		s.access(unsafe.Pointer(p), false, false, name)
	}
	return p
}

// Wr marks a plain write of *p and returns p.
func Wr[T any](p *T, name string) *T {
	if s := active(); s != nil && s.opts.Race {
		s.access(unsafe.Pointer(p), true, false, name)
	}
	return p
}

// WrAll marks a plain write of the whole object *p (an assignment through the
// pointer: *p = T{...}) and returns p. It conflicts with every unordered
// access to a field or element inside the object, before or after.
func WrAll[T any](p *T, name string) *T {
	if s := active(); s != nil && s.opts.Race {
		lo := uintptr(unsafe.Pointer(p))
		hi := lo + unsafe.Sizeof(*p)
		var inside []unsafe.Pointer
		for q := range s.acc {
			if up := uintptr(q); up >= lo && up < hi {
				inside = append(inside, q)
			}
		}
		sort.Slice(inside, func(i, j int) bool { return uintptr(inside[i]) < uintptr(inside[j]) })
		for _, q := range inside {
			s.access(q, true, false, name)
		}
		g := s.cur
		s.rangeW = append(s.rangeW, rangeWrite{lo, hi, epoch{g: g.id, clock: g.vc.get(g.id), name: name, gname: g.name}})
	}
	return p
}

// RdSlice marks plain reads of every element of s (a slice handed to code
// that reads its elements, e.g. strings.Join) and returns s.
func RdSlice[T any](s []T, name string) []T {
	if st := active(); st != nil && st.opts.Race {
		for i := range s {
			st.access(unsafe.Pointer(&s[i]), false, false, name)
		}
	}
	return s
}

// Append is append(s, vals...) with the element accesses it performs made
// visible to the detector: the writes into the spare capacity of s when the
// result stays in place, the reads of s when it is copied to a new array, and
// the reads of vals.
func Append[T any](s []T, name string, vals ...T) []T {
	if st := active(); st != nil && st.opts.Race {
		for i := range vals {
			st.access(unsafe.Pointer(&vals[i]), false, false, name)
		}
		if len(s)+len(vals) <= cap(s) {
			full := s[:len(s)+len(vals)]
			for i := len(s); i < len(full); i++ {
				st.access(unsafe.Pointer(&full[i]), true, false, name)
			}
		} else {
			for i := range s {
				st.access(unsafe.Pointer(&s[i]), false, false, name)
			}
		}
	}
	return append(s, vals...)
}

// ---------------------------------------------------------------- helpers used by rewritten code

func Go0(name string, f func()) { GoNamed(name, f) }
func Go1[A any](name string, f func(A), a A) {
	GoNamed(name, func() { f(a) })
}
func Go2[A, B any](name string, f func(A, B), a A, b B) {
	GoNamed(name, func() { f(a, b) })
}
func Go3[A, B, C any](name string, f func(A, B, C), a A, b B, c C) {
	GoNamed(name, func() { f(a, b, c) })
}
func Go4[A, B, C, D any](name string, f func(A, B, C, D), a A, b B, c C, d D) {
	GoNamed(name, func() { f(a, b, c, d) })
}

// ValOf converts the value returned by Select for a receive on c.
func ValOf[T any](c *Chan[T], v any) T { return zeroOf[T](v) }

// MapKeys returns the keys of m in an explorer-chosen order: every
// permutation for up to 3 keys; for more keys the sorted order, its reverse
// and every rotation of the sorted order. The sorted order is the default;
// any other order costs one deviation.
func MapKeys[K comparable, V any](m map[K]V) []K {
	keys := make([]K, 0, len(m))
	for k := range m {
		keys = append(keys, k)
	}
	sort.Slice(keys, func(i, j int) bool { return fmt.Sprint(keys[i]) < fmt.Sprint(keys[j]) })
	n := len(keys)
	if n < 2 || active() == nil {
		return keys
	}
	if n <= 3 {
		perms := [][]int{{0, 1}, {1, 0}}
		if n == 3 {
			perms = [][]int{{0, 1, 2}, {0, 2, 1}, {1, 0, 2}, {1, 2, 0}, {2, 0, 1}, {2, 1, 0}}
		}
		p := perms[Choose(len(perms), 1, "maporder")]
		out := make([]K, n)
		for i, j := range p {
			out[i] = keys[j]
		}
		return out
	}
	k := Choose(n+1, 1, "maporder")
	if k == 0 {
		return keys
	}
	out := make([]K, 0, n)
	if k == n {
		for i := n - 1; i >= 0; i-- {
			out = append(out, keys[i])
		}
		return out
	}
	out = append(out, keys[k:]...)
	return append(out, keys[:k]...)
}
