// Package vsync replaces "sync" in instrumented packages.
package vsync

import vrt "rare/verifrt"

type (
	Mutex     = vrt.Mutex
	RWMutex   = vrt.RWMutex
	WaitGroup = vrt.WaitGroup
	Once      = vrt.Once
)
