// Package vsync replaces "sync" in instrumented packages.
package vsync

import vrt "rare/verifrt"

type (
	Mutex     = vrt.Mutex
	RWMutex   = vrt.RWMutex
	WaitGroup = vrt.WaitGroup
	Once      = vrt.Once
	Cond      = vrt.Cond
	Locker    = vrt.Locker
	Pool      = vrt.Pool
	Map       = vrt.Map
)

func NewCond(l Locker) *Cond { return vrt.NewCond(l) }

// OnceFunc replaces sync.OnceFunc.
func OnceFunc(f func()) func() {
	var o Once
	return func() { o.Do(f) }
}
