// Command instrument compiles the concurrent parts of rare onto the controlled
// runtime (/verif/vrt): it loads the *current* sources of the repository with
// full type information, rewrites channel operations, go statements, select
// statements and (in selected packages) the imports of sync, sync/atomic, time,
// os/signal, os and fsnotify, writes the rewritten files to -out and an
// overlay.json that also maps the runtime in as the virtual package
// rare/verifrt. The repository itself is never modified. Any construct the
// rewriter does not understand is a hard error, so a source change cannot
// silently escape the scheduler.
package main

import (
	"bytes"
	"crypto/sha1"
	"encoding/json"
	"flag"
	"fmt"
	"go/ast"
	"go/format"
	"go/token"
	"go/types"
	"os"
	"path/filepath"
	"sort"
	"strconv"
	"strings"

	"golang.org/x/tools/go/ast/astutil"
	"golang.org/x/tools/go/packages"
)

const rtPath = "rare/verifrt"

// importSubst lists, per package path suffix, which imports are redirected.
var importSubst = map[string]map[string]string{}

var baseSubst = map[string]string{
	"sync":        rtPath + "/vsync",
	"sync/atomic": rtPath + "/vatomic",
	"time":        rtPath + "/vtime",
	"os/signal":   rtPath + "/vsignal",
}

func init() {
	for _, p := range []string{"rare/pkg/extractor", "rare/pkg/extractor/batchers", "rare/pkg/extractor/dirwalk",
		"rare/cmd/helpers", "rare/cmd", "rare", "rare/pkg/logger", "rare/pkg/slicepool"} {
		importSubst[p] = baseSubst
	}
	fr := map[string]string{}
	for k, v := range baseSubst {
		fr[k] = v
	}
	fr["os"] = rtPath + "/vos"
	fr["github.com/fsnotify/fsnotify"] = rtPath + "/vfsnotify"
	importSubst["rare/pkg/followreader"] = fr
	importSubst["rare/pkg/extractor/batchers"] = fr
	// expression packages: only the synchronisation primitives (their use of
	// package time is calendar arithmetic, not waiting)
	syncOnly := map[string]string{"sync": rtPath + "/vsync", "sync/atomic": rtPath + "/vatomic"}
	for _, p := range []string{"rare/pkg/expressions", "rare/pkg/expressions/stdlib", "rare/pkg/expressions/funcfile", "rare/pkg/expressions/funclib"} {
		importSubst[p] = syncOnly
	}
}

type rewriter struct {
	fset     *token.FileSet
	info     *types.Info
	pkg      *packages.Package
	file     *ast.File
	changed  bool
	needRT   bool
	mapRange bool
	race     bool
	errs     []string
	tmp      int
}

func (r *rewriter) errorf(n ast.Node, f string, a ...any) {
	r.errs = append(r.errs, fmt.Sprintf("%s: %s", r.fset.Position(n.Pos()), fmt.Sprintf(f, a...)))
}

func rt(name string) ast.Expr {
	return &ast.SelectorExpr{X: ast.NewIdent("verifrt"), Sel: ast.NewIdent(name)}
}

func call(fun ast.Expr, args ...ast.Expr) *ast.CallExpr { return &ast.CallExpr{Fun: fun, Args: args} }

func method(x ast.Expr, name string, args ...ast.Expr) *ast.CallExpr {
	return call(&ast.SelectorExpr{X: x, Sel: ast.NewIdent(name)}, args...)
}

func (r *rewriter) isChan(e ast.Expr) bool {
	t := r.info.TypeOf(e)
	if t == nil {
		return false
	}
	_, ok := t.Underlying().(*types.Chan)
	return ok
}

func (r *rewriter) isMap(e ast.Expr) bool {
	t := r.info.TypeOf(e)
	if t == nil {
		return false
	}
	_, ok := t.Underlying().(*types.Map)
	return ok
}

func isBuiltin(info *types.Info, fun ast.Expr, name string) bool {
	id, ok := fun.(*ast.Ident)
	if !ok || id.Name != name {
		return false
	}
	_, ok = info.Uses[id].(*types.Builtin)
	return ok
}

func (r *rewriter) fresh(base string) string {
	r.tmp++
	return fmt.Sprintf("vrt%s%d__", base, r.tmp)
}

// rewriteFile applies all passes to one file.
func (r *rewriter) rewriteFile() {
	if r.race {
		r.instrumentAccesses()
	}
	// statement-level rewrites first (they need the original node types),
	// expression-level afterwards; astutil.Apply post-order so inner nodes are
	// rewritten before the statements that contain them are restructured.
	astutil.Apply(r.file, nil, func(c *astutil.Cursor) bool {
		switch n := c.Node().(type) {
		case *ast.SendStmt:
			c.Replace(&ast.ExprStmt{X: method(n.Chan, "Send", n.Value)})
			r.changed = true
		case *ast.AssignStmt:
			// v, ok := <-ch
			if len(n.Lhs) == 2 && len(n.Rhs) == 1 {
				if ce, ok := n.Rhs[0].(*ast.CallExpr); ok {
					if se, ok := ce.Fun.(*ast.SelectorExpr); ok && se.Sel.Name == "Recv" && recvMarked[ce] {
						se.Sel.Name = "Recv2"
					}
				}
			}
		case *ast.ValueSpec:
			if len(n.Names) == 2 && len(n.Values) == 1 {
				if ce, ok := n.Values[0].(*ast.CallExpr); ok {
					if se, ok := ce.Fun.(*ast.SelectorExpr); ok && se.Sel.Name == "Recv" && recvMarked[ce] {
						se.Sel.Name = "Recv2"
					}
				}
			}
		case *ast.UnaryExpr:
			if n.Op == token.ARROW {
				ce := method(n.X, "Recv")
				recvMarked[ce] = true
				c.Replace(ce)
				r.changed = true
			}
		case *ast.CallExpr:
			switch {
			case isBuiltin(r.info, n.Fun, "close") && len(n.Args) == 1:
				c.Replace(method(n.Args[0], "Close"))
				r.changed = true
			case (isBuiltin(r.info, n.Fun, "len") || isBuiltin(r.info, n.Fun, "cap")) && len(n.Args) == 1 && r.isChan(n.Args[0]):
				name := "Len"
				if n.Fun.(*ast.Ident).Name == "cap" {
					name = "Cap"
				}
				c.Replace(method(n.Args[0], name))
				r.changed = true
			case isBuiltin(r.info, n.Fun, "make") && len(n.Args) >= 1:
				if ct, ok := n.Args[0].(*ast.StarExpr); ok && chanMarked[ct] {
					// make(chan T, n): the ChanType was already replaced by *verifrt.Chan[T]
					ix := ct.X.(*ast.IndexExpr)
					size := ast.Expr(&ast.BasicLit{Kind: token.INT, Value: "0"})
					if len(n.Args) > 1 {
						size = n.Args[1]
					}
					c.Replace(call(&ast.IndexExpr{X: rt("MakeChan"), Index: ix.Index}, size))
					r.changed, r.needRT = true, true
				} else if t := r.info.TypeOf(n.Args[0]); t != nil {
					if _, ok := t.Underlying().(*types.Chan); ok {
						r.errorf(n, "make of a named channel type is not supported")
					}
				}
			}
		case *ast.ChanType:
			se := &ast.StarExpr{X: &ast.IndexExpr{X: rt("Chan"), Index: n.Value}}
			chanMarked[se] = true
			c.Replace(se)
			r.changed, r.needRT = true, true
		case *ast.RangeStmt:
			if r.isChan(n.X) {
				c.Replace(r.rangeChan(n))
				r.changed = true
			} else if r.mapRange && r.isMap(n.X) {
				if st := r.rangeMap(n); st != nil {
					c.Replace(st)
					r.changed, r.needRT = true, true
				}
			}
		case *ast.GoStmt:
			c.Replace(r.goStmt(n))
			r.changed, r.needRT = true, true
		case *ast.SelectStmt:
			if _, labeled := c.Parent().(*ast.LabeledStmt); labeled {
				r.errorf(n, "labeled select is not supported")
			}
			c.Replace(r.selectStmt(n))
			r.changed, r.needRT = true, true
		}
		return true
	})
}

// leafType reports whether accesses to a variable of type t are tracked:
// scalar-like values only (no structs/arrays: the address of an aggregate is
// the address of its first element, which would alias), and nothing whose
// synchronisation is modelled by the runtime itself.
func leafType(t types.Type) bool {
	if t == nil {
		return false
	}
	if n, ok := t.(*types.Named); ok && n.Obj().Pkg() != nil {
		switch n.Obj().Pkg().Path() {
		case "sync", "sync/atomic":
			return false
		}
	}
	switch u := t.Underlying().(type) {
	case *types.Basic:
		return u.Kind() != types.UnsafePointer
	case *types.Pointer, *types.Slice, *types.Map, *types.Interface, *types.Signature:
		return true
	}
	return false
}

// instrumentAccesses wraps reads and writes of struct fields and package
// level variables declared in this package: x.f => *verifrt.Rd(&x.f, "T.f"),
// assignment targets => *verifrt.Wr(&x.f, "T.f").
func (r *rewriter) instrumentAccesses() {
	type repl struct {
		write bool
		name  string
		all   bool // *p = T{...}: a write of the whole object
	}
	marks := map[ast.Expr]repl{}
	appendCalls := map[*ast.CallExpr]string{}
	sliceArgs := map[ast.Expr]string{}
	var stack []ast.Node
	ast.Inspect(r.file, func(n ast.Node) bool {
		if n == nil {
			stack = stack[:len(stack)-1]
			return true
		}
		stack = append(stack, n)
		if ce, ok := n.(*ast.CallExpr); ok {
			r.noteSliceCall(ce, stack, appendCalls, sliceArgs)
		}
		var e ast.Expr
		var name string
		switch x := n.(type) {
		case *ast.StarExpr:
			// *p = T{...} with T a struct of this package
			if len(stack) < 2 {
				return true
			}
			as, ok := stack[len(stack)-2].(*ast.AssignStmt)
			if !ok {
				return true
			}
			isLhs := false
			for _, l := range as.Lhs {
				if l == ast.Expr(x) {
					isLhs = true
				}
			}
			t := r.info.TypeOf(x)
			if !isLhs || t == nil {
				return true
			}
			nt, ok := t.(*types.Named)
			if !ok || nt.Obj().Pkg() == nil || nt.Obj().Pkg().Path() != r.pkg.PkgPath {
				return true
			}
			if _, isStruct := nt.Underlying().(*types.Struct); !isStruct {
				return true
			}
			marks[x] = repl{write: true, name: nt.Obj().Name() + ".*", all: true}
			return true
		case *ast.SelectorExpr:
			sel := r.info.Selections[x]
			if sel == nil || sel.Kind() != types.FieldVal {
				return true
			}
			fld, ok := sel.Obj().(*types.Var)
			if !ok || fld.Pkg() == nil || fld.Pkg().Path() != r.pkg.PkgPath {
				return true
			}
			if !leafType(fld.Type()) {
				return true
			}
			tv, ok := r.info.Types[x]
			if !ok || !tv.Addressable() {
				return true
			}
			recv := sel.Recv()
			if p, ok := recv.(*types.Pointer); ok {
				recv = p.Elem()
			}
			tn := "?"
			if nt, ok := recv.(*types.Named); ok {
				tn = nt.Obj().Name()
			}
			e, name = x, tn+"."+fld.Name()
		case *ast.Ident:
			v, ok := r.info.Uses[x].(*types.Var)
			if !ok || v.IsField() || v.Pkg() == nil || v.Pkg().Path() != r.pkg.PkgPath {
				return true
			}
			if !leafType(v.Type()) {
				return true
			}
			if v.Parent() != v.Pkg().Scope() {
				// a local variable: tracked only where a function literal uses a
				// variable declared outside of it (state captured by a closure
				// that may run in several goroutines, e.g. a scratch buffer hoisted
				// out of a compiled expression stage)
				captured := false
				for i := len(stack) - 2; i >= 0; i-- {
					if fl, ok := stack[i].(*ast.FuncLit); ok {
						if v.Pos() < fl.Pos() || v.Pos() > fl.End() {
							captured = true
						}
						break
					}
				}
				if !captured {
					return true
				}
				// the Sel of a selector is not a use of the variable
				if len(stack) >= 2 {
					if p, ok := stack[len(stack)-2].(*ast.SelectorExpr); ok && p.Sel == x {
						return true
					}
				}
				fn := "func"
				for i := len(stack) - 1; i >= 0; i-- {
					if fd, ok := stack[i].(*ast.FuncDecl); ok {
						fn = fd.Name.Name
						break
					}
				}
				e, name = x, fn+".closure."+v.Name()
				break
			}
			// the Sel of a selector or a key in a composite literal is not a use of the variable
			if len(stack) >= 2 {
				if p, ok := stack[len(stack)-2].(*ast.SelectorExpr); ok && p.Sel == x {
					return true
				}
			}
			e, name = x, r.pkg.Name+"."+v.Name()
		default:
			return true
		}
		if len(stack) < 2 {
			return true
		}
		write := false
		switch p := stack[len(stack)-2].(type) {
		case *ast.UnaryExpr:
			if p.Op == token.AND {
				return true // address taken (atomics, method values): not an access
			}
		case *ast.AssignStmt:
			for _, l := range p.Lhs {
				if l == e {
					write = true
				}
			}
		case *ast.IncDecStmt:
			write = p.X == e
		case *ast.RangeStmt:
			if p.Key == e || p.Value == e {
				write = true
			}
		case *ast.KeyValueExpr:
			if p.Key == e {
				if _, isIdent := e.(*ast.Ident); isIdent {
					return true
				}
			}
		case *ast.SliceExpr:
			// buf[:0] re-uses the backing array: what follows writes into memory
			// every holder of the slice shares, so it counts as a write of buf
			if p.X == e && p.Low == nil && p.High != nil {
				if bl, ok := p.High.(*ast.BasicLit); ok && bl.Value == "0" {
					write = true
				}
			}
		case *ast.IndexExpr:
			// buf[i] = v on a slice (an element write through the shared header)
			if p.X == e && len(stack) >= 3 {
				if _, isSlice := r.info.TypeOf(e).Underlying().(*types.Slice); isSlice {
					switch gp := stack[len(stack)-3].(type) {
					case *ast.AssignStmt:
						for _, l := range gp.Lhs {
							if l == ast.Expr(p) {
								write = true
							}
						}
					case *ast.IncDecStmt:
						write = gp.X == ast.Expr(p)
					}
				}
			}
		case *ast.CallExpr:
			if isBuiltin(r.info, p.Fun, "copy") && len(p.Args) > 0 && p.Args[0] == e {
				write = true
			}
		}
		marks[e] = repl{write: write, name: name}
		return true
	})
	if len(marks) == 0 && len(appendCalls) == 0 && len(sliceArgs) == 0 {
		return
	}
	astutil.Apply(r.file, nil, func(c *astutil.Cursor) bool {
		e, ok := c.Node().(ast.Expr)
		if !ok {
			return true
		}
		if ce, isCall := e.(*ast.CallExpr); isCall {
			if name, ok := appendCalls[ce]; ok {
				// append(s, v...) => verifrt.Append(s, "name", v...)
				ce.Fun = rt("Append")
				ce.Args = append([]ast.Expr{ce.Args[0], &ast.BasicLit{Kind: token.STRING, Value: strconv.Quote(name)}}, ce.Args[1:]...)
				r.changed, r.needRT = true, true
			}
			return true
		}
		if name, ok := sliceArgs[e]; ok {
			if _, marked := marks[e]; !marked {
				c.Replace(call(rt("RdSlice"), e, &ast.BasicLit{Kind: token.STRING, Value: strconv.Quote(name)}))
				r.changed, r.needRT = true, true
				return true
			}
		}
		m, ok := marks[e]
		if !ok {
			return true
		}
		if m.all {
			se := e.(*ast.StarExpr)
			c.Replace(&ast.StarExpr{X: call(rt("WrAll"), se.X, &ast.BasicLit{Kind: token.STRING, Value: strconv.Quote(m.name)})})
			r.changed, r.needRT = true, true
			return true
		}
		fn := "Rd"
		if m.write {
			fn = "Wr"
		}
		var repl ast.Expr = &ast.StarExpr{X: call(rt(fn), &ast.UnaryExpr{Op: token.AND, X: e}, &ast.BasicLit{Kind: token.STRING, Value: strconv.Quote(m.name)})}
		if name, ok := sliceArgs[e]; ok {
			repl = call(rt("RdSlice"), repl, &ast.BasicLit{Kind: token.STRING, Value: strconv.Quote(name)})
		}
		c.Replace(repl)
		r.changed, r.needRT = true, true
		return true
	})
}

// elementReaders are standard-library packages whose functions read the
// elements of the slices they are given.
var elementReaders = map[string]bool{"strings": true, "bytes": true, "sort": true, "slices": true, "fmt": true}

// sliceName names the backing array an expression refers to (for reports).
func (r *rewriter) sliceName(e ast.Expr, stack []ast.Node) string {
	for {
		switch x := e.(type) {
		case *ast.ParenExpr:
			e = x.X
			continue
		case *ast.SliceExpr:
			e = x.X
			continue
		case *ast.SelectorExpr:
			if sel := r.info.Selections[x]; sel != nil && sel.Kind() == types.FieldVal {
				recv := sel.Recv()
				if p, ok := recv.(*types.Pointer); ok {
					recv = p.Elem()
				}
				if nt, ok := recv.(*types.Named); ok {
					return nt.Obj().Name() + "." + x.Sel.Name + "[]"
				}
			}
			return x.Sel.Name + "[]"
		case *ast.Ident:
			fn := "func"
			for i := len(stack) - 1; i >= 0; i-- {
				if fd, ok := stack[i].(*ast.FuncDecl); ok {
					fn = fd.Name.Name
					break
				}
			}
			return fn + "." + x.Name + "[]"
		}
		return "slice[]"
	}
}

// noteSliceCall records append calls and slice arguments of element-reading
// library calls: element accesses that go through a copied slice header are
// invisible to the field/variable instrumentation (a header copied under a
// lock and used after the unlock still shares its backing array).
func (r *rewriter) noteSliceCall(ce *ast.CallExpr, stack []ast.Node, appendCalls map[*ast.CallExpr]string, sliceArgs map[ast.Expr]string) {
	leafElem := func(e ast.Expr) bool {
		t := r.info.TypeOf(e)
		if t == nil {
			return false
		}
		sl, ok := t.Underlying().(*types.Slice)
		if !ok {
			return false
		}
		_, isIface := sl.Elem().Underlying().(*types.Interface)
		return leafType(sl.Elem()) && !isIface
	}
	if isBuiltin(r.info, ce.Fun, "append") && len(ce.Args) >= 1 && leafElem(ce.Args[0]) {
		if ce.Ellipsis.IsValid() && len(ce.Args) == 2 {
			// append([]byte, string...) has no generic equivalent
			if b, ok := r.info.TypeOf(ce.Args[1]).Underlying().(*types.Basic); ok && b.Info()&types.IsString != 0 {
				return
			}
		}
		appendCalls[ce] = r.sliceName(ce.Args[0], stack)
		return
	}
	sel, ok := ce.Fun.(*ast.SelectorExpr)
	if !ok {
		return
	}
	id, ok := sel.X.(*ast.Ident)
	if !ok {
		return
	}
	pn, ok := r.info.Uses[id].(*types.PkgName)
	if !ok || !elementReaders[pn.Imported().Path()] {
		return
	}
	for _, a := range ce.Args {
		if leafElem(a) {
			switch a.(type) {
			case *ast.Ident, *ast.SelectorExpr, *ast.SliceExpr:
				sliceArgs[a] = r.sliceName(a, stack)
			}
		}
	}
}

var (
	recvMarked = map[*ast.CallExpr]bool{}
	chanMarked = map[*ast.StarExpr]bool{}
)

// for x := range ch { body }  =>  for { x, ok := ch.Recv2(); if !ok { break }; body }
func (r *rewriter) rangeChan(n *ast.RangeStmt) ast.Stmt {
	ok := r.fresh("Ok")
	var lhs ast.Expr = ast.NewIdent("_")
	tok := token.DEFINE
	if n.Key != nil {
		if n.Tok != token.DEFINE {
			r.errorf(n, "range over channel with '=' is not supported")
		}
		lhs = n.Key
	}
	if n.Value != nil {
		r.errorf(n, "range over channel with two variables")
	}
	recv := &ast.AssignStmt{Lhs: []ast.Expr{lhs, ast.NewIdent(ok)}, Tok: tok, Rhs: []ast.Expr{method(n.X, "Recv2")}}
	brk := &ast.IfStmt{Cond: &ast.UnaryExpr{Op: token.NOT, X: ast.NewIdent(ok)}, Body: &ast.BlockStmt{List: []ast.Stmt{&ast.BranchStmt{Tok: token.BREAK}}}}
	body := &ast.BlockStmt{List: append([]ast.Stmt{recv, brk}, n.Body.List...)}
	return &ast.ForStmt{Body: body}
}

// for k, v := range m { body } => for _, k := range verifrt.MapKeys(m) { v, ok := m[k]; if !ok { continue }; body }
func (r *rewriter) rangeMap(n *ast.RangeStmt) ast.Stmt {
	if n.Tok != token.DEFINE && n.Key != nil {
		r.errorf(n, "range over map with '=' is not supported")
		return nil
	}
	if n.Key == nil {
		return nil // for range m: order is unobservable
	}
	key := n.Key
	if id, ok := key.(*ast.Ident); ok && id.Name == "_" {
		key = ast.NewIdent(r.fresh("K"))
	}
	ok := r.fresh("Ok")
	var val ast.Expr = ast.NewIdent("_")
	if n.Value != nil {
		val = n.Value
	}
	get := &ast.AssignStmt{Lhs: []ast.Expr{val, ast.NewIdent(ok)}, Tok: token.DEFINE, Rhs: []ast.Expr{&ast.IndexExpr{X: n.X, Index: key}}}
	cont := &ast.IfStmt{Cond: &ast.UnaryExpr{Op: token.NOT, X: ast.NewIdent(ok)}, Body: &ast.BlockStmt{List: []ast.Stmt{&ast.BranchStmt{Tok: token.CONTINUE}}}}
	body := &ast.BlockStmt{List: append([]ast.Stmt{get, cont}, n.Body.List...)}
	return &ast.RangeStmt{Key: ast.NewIdent("_"), Value: key, Tok: token.DEFINE, X: call(rt("MapKeys"), n.X), Body: body}
}

// go f(a, b)  =>  verifrt.Go2("f", f, a, b)   (function value and arguments are
// evaluated at the go statement, as in Go)
func (r *rewriter) goStmt(n *ast.GoStmt) ast.Stmt {
	c := n.Call
	if c.Ellipsis != token.NoPos {
		r.errorf(n, "go statement with variadic call")
	}
	if len(c.Args) > 4 {
		r.errorf(n, "go statement with more than 4 arguments")
	}
	name := "func"
	switch f := c.Fun.(type) {
	case *ast.Ident:
		name = f.Name
	case *ast.SelectorExpr:
		name = f.Sel.Name
	}
	pos := r.fset.Position(n.Pos())
	name = fmt.Sprintf("%s:%s:%d", name, filepath.Base(pos.Filename), pos.Line)
	args := []ast.Expr{&ast.BasicLit{Kind: token.STRING, Value: strconv.Quote(name)}, c.Fun}
	args = append(args, c.Args...)
	return &ast.ExprStmt{X: call(rt(fmt.Sprintf("Go%d", len(c.Args))), args...)}
}

func (r *rewriter) selectStmt(n *ast.SelectStmt) ast.Stmt {
	iv, vv, okv := r.fresh("I"), r.fresh("V"), r.fresh("Ok")
	var cases []ast.Expr
	var clauses []ast.Stmt
	hasDefault := false
	idx := 0
	for _, cl := range n.Body.List {
		cc := cl.(*ast.CommClause)
		if cc.Comm == nil {
			hasDefault = true
			clauses = append(clauses, &ast.CaseClause{List: []ast.Expr{&ast.UnaryExpr{Op: token.SUB, X: &ast.BasicLit{Kind: token.INT, Value: "1"}}}, Body: cc.Body})
			continue
		}
		var pre []ast.Stmt
		// after the expression pass a receive is ch.Recv()/Recv2() and a send is ExprStmt(ch.Send(v))
		recvOf := func(e ast.Expr) ast.Expr {
			ce, ok := e.(*ast.CallExpr)
			if !ok || !recvMarked[ce] {
				r.errorf(cc, "unsupported select case")
				return ast.NewIdent("nil")
			}
			return ce.Fun.(*ast.SelectorExpr).X
		}
		switch s := cc.Comm.(type) {
		case *ast.ExprStmt:
			ce, ok := s.X.(*ast.CallExpr)
			if ok && recvMarked[ce] {
				cases = append(cases, call(rt("RecvCase"), ce.Fun.(*ast.SelectorExpr).X))
			} else if ok {
				se, ok2 := ce.Fun.(*ast.SelectorExpr)
				if !ok2 || se.Sel.Name != "Send" {
					r.errorf(cc, "unsupported select case")
					break
				}
				cases = append(cases, call(rt("SendCase"), se.X, ce.Args[0]))
			} else {
				r.errorf(cc, "unsupported select case")
			}
		case *ast.AssignStmt:
			ch := recvOf(s.Rhs[0])
			cases = append(cases, call(rt("RecvCase"), ch))
			rhs := []ast.Expr{call(rt("ValOf"), ch, ast.NewIdent(vv))}
			if len(s.Lhs) == 2 {
				rhs = append(rhs, ast.NewIdent(okv))
			}
			pre = append(pre, &ast.AssignStmt{Lhs: s.Lhs, Tok: s.Tok, Rhs: rhs})
			if s.Tok == token.DEFINE {
				// keep "declared and not used" away when the body ignores a variable
				for _, l := range s.Lhs {
					if id, ok := l.(*ast.Ident); ok && id.Name != "_" {
						pre = append(pre, &ast.AssignStmt{Lhs: []ast.Expr{ast.NewIdent("_")}, Tok: token.ASSIGN, Rhs: []ast.Expr{ast.NewIdent(id.Name)}})
					}
				}
			}
		default:
			r.errorf(cc, "unsupported select case")
		}
		clauses = append(clauses, &ast.CaseClause{List: []ast.Expr{&ast.BasicLit{Kind: token.INT, Value: strconv.Itoa(idx)}}, Body: append(pre, cc.Body...)})
		idx++
	}
	def := "false"
	if hasDefault {
		def = "true"
	}
	sel := &ast.AssignStmt{Lhs: []ast.Expr{ast.NewIdent(iv), ast.NewIdent(vv), ast.NewIdent(okv)}, Tok: token.DEFINE,
		Rhs: []ast.Expr{call(rt("Select"), append([]ast.Expr{ast.NewIdent(def)}, cases...)...)}}
	use := &ast.AssignStmt{Lhs: []ast.Expr{ast.NewIdent("_"), ast.NewIdent("_")}, Tok: token.ASSIGN, Rhs: []ast.Expr{ast.NewIdent(vv), ast.NewIdent(okv)}}
	// a select whose every case ends in a terminating statement is itself
	// terminating; the switch that replaces it needs a default clause for that
	// (never taken: Select returns the index of one of the cases above)
	clauses = append(clauses, &ast.CaseClause{Body: []ast.Stmt{&ast.ExprStmt{X: call(ast.NewIdent("panic"), &ast.BasicLit{Kind: token.STRING, Value: `"verifrt: select returned an index that is not a case"`})}}})
	sw := &ast.SwitchStmt{Tag: ast.NewIdent(iv), Body: &ast.BlockStmt{List: clauses}}
	return &ast.BlockStmt{List: []ast.Stmt{sel, use, sw}}
}

func main() {
	repo := flag.String("repo", "/repo", "repository root")
	vrtDir := flag.String("vrt", "/verif/vrt", "runtime sources")
	out := flag.String("out", "", "output directory")
	mapRange := flag.String("maprange", "", "comma separated package paths whose map ranges are rewritten")
	setConst := flag.String("setconst", "", "comma separated <pkgpath>.<Name>=<value>: replaces the value of a package-level constant (scale only)")
	racePkgs := flag.String("race", "", "comma separated package paths whose field and package-variable accesses are instrumented for the happens-before detector")
	extra := flag.String("extra", "", "directory with extra files to add to packages: <dir>/<pkg path relative to repo>/<file>.go")
	resetGlobals := flag.String("resetglobals", "", "comma separated package paths that get a generated VerifResetGlobals() re-initialising their package-level variables (executions of one process must not see each other's state)")
	flag.Parse()
	if *out == "" {
		fmt.Fprintln(os.Stderr, "-out required")
		os.Exit(2)
	}
	os.MkdirAll(*out, 0o755)
	mr := map[string]bool{}
	for _, p := range strings.Split(*mapRange, ",") {
		if p != "" {
			mr[p] = true
		}
	}

	rg := map[string]bool{}
	for _, p := range strings.Split(*resetGlobals, ",") {
		if p != "" {
			rg[p] = true
		}
	}
	rp := map[string]bool{}
	for _, p := range strings.Split(*racePkgs, ",") {
		if p != "" {
			rp[p] = true
		}
	}
	consts := map[string]string{}
	for _, kv := range strings.Split(*setConst, ",") {
		if k, v, ok := strings.Cut(kv, "="); ok {
			consts[k] = v
		}
	}
	constsDone := map[string]bool{}

	cfg := &packages.Config{
		Mode:       packages.NeedName | packages.NeedFiles | packages.NeedCompiledGoFiles | packages.NeedSyntax | packages.NeedTypes | packages.NeedTypesInfo | packages.NeedImports | packages.NeedDeps,
		Dir:        *repo,
		Env:        append(os.Environ(), "GOFLAGS=-mod=mod", "GOPROXY=off", "GOSUMDB=off", "GOTOOLCHAIN=local"),
		BuildFlags: []string{"-tags=verif"},
	}
	pkgs, err := packages.Load(cfg, "./...")
	if err != nil {
		fmt.Fprintln(os.Stderr, "load:", err)
		os.Exit(1)
	}
	overlay := map[string]string{}
	resetFuncs := map[string][]string{}
	resetPkgName := map[string]string{}
	resetDir := map[string]string{}
	bad := false
	sort.Slice(pkgs, func(i, j int) bool { return pkgs[i].PkgPath < pkgs[j].PkgPath })
	nFiles := 0
	for _, p := range pkgs {
		if len(p.Errors) > 0 {
			for _, e := range p.Errors {
				fmt.Fprintln(os.Stderr, "load error:", e)
			}
			bad = true
			continue
		}
		if strings.HasPrefix(p.PkgPath, "rare/pkg/testutil") {
			continue
		}
		subst := importSubst[p.PkgPath]
		for i, f := range p.Syntax {
			name := p.CompiledGoFiles[i]
			if strings.HasSuffix(name, "_test.go") || !strings.HasPrefix(name, *repo) {
				continue
			}
			r := &rewriter{fset: p.Fset, info: p.TypesInfo, pkg: p, file: f, mapRange: mr[p.PkgPath], race: rp[p.PkgPath]}
			r.rewriteFile()
			for _, d := range f.Decls {
				gd, ok := d.(*ast.GenDecl)
				if !ok || gd.Tok != token.CONST {
					continue
				}
				for _, sp := range gd.Specs {
					vs := sp.(*ast.ValueSpec)
					for k, nm := range vs.Names {
						if v, ok := consts[p.PkgPath+"."+nm.Name]; ok && k < len(vs.Values) {
							vs.Values[k] = &ast.BasicLit{Kind: token.INT, Value: v}
							constsDone[p.PkgPath+"."+nm.Name] = true
							r.changed = true
						}
					}
				}
			}
			if rg[p.PkgPath] {
				fn := "verifResetGlobals" + strconv.Itoa(i)
				f.Decls = append(f.Decls, resetFunc(fn, f))
				resetFuncs[p.PkgPath] = append(resetFuncs[p.PkgPath], fn)
				resetPkgName[p.PkgPath] = f.Name.Name
				resetDir[p.PkgPath] = filepath.Dir(name)
				r.changed = true
			}
			for _, im := range f.Imports {
				path, _ := strconv.Unquote(im.Path.Value)
				if to, ok := subst[path]; ok {
					if im.Name == nil {
						base := path[strings.LastIndex(path, "/")+1:]
						im.Name = ast.NewIdent(base)
					}
					im.Path.Value = strconv.Quote(to)
					r.changed = true
				}
			}
			if len(r.errs) > 0 {
				for _, e := range r.errs {
					fmt.Fprintln(os.Stderr, "unsupported:", e)
				}
				bad = true
				continue
			}
			if !r.changed {
				continue
			}
			if r.needRT {
				astutil.AddNamedImport(p.Fset, f, "verifrt", rtPath)
			}
			var buf bytes.Buffer
			if err := format.Node(&buf, p.Fset, f); err != nil {
				fmt.Fprintln(os.Stderr, "print", name, err)
				bad = true
				continue
			}
			rel, _ := filepath.Rel(*repo, name)
			dst := filepath.Join(*out, "src", rel)
			os.MkdirAll(filepath.Dir(dst), 0o755)
			writeIfChanged(dst, buf.Bytes())
			overlay[name] = dst
			nFiles++
		}
	}
	for k := range consts {
		if !constsDone[k] {
			fmt.Fprintln(os.Stderr, "setconst: constant not found:", k)
			bad = true
		}
	}
	if bad {
		os.Exit(1)
	}
	// aggregators of the generated reset functions (one added file per package)
	for pkgPath, fns := range resetFuncs {
		var sb strings.Builder
		sb.WriteString("// Code generated by /verif/instrument; DO NOT EDIT.\n\npackage " + resetPkgName[pkgPath] + "\n\n")
		sb.WriteString("// VerifResetGlobals gives every package-level variable its initial value again.\nfunc VerifResetGlobals() {\n")
		for _, fn := range fns {
			sb.WriteString("\t" + fn + "()\n")
		}
		sb.WriteString("}\n")
		rel, _ := filepath.Rel(*repo, resetDir[pkgPath])
		dst := filepath.Join(*out, "src", rel, "verif_reset_globals_gen.go")
		os.MkdirAll(filepath.Dir(dst), 0o755)
		writeIfChanged(dst, []byte(sb.String()))
		overlay[filepath.Join(resetDir[pkgPath], "verif_reset_globals_gen.go")] = dst
	}
	for p := range rg {
		if _, ok := resetFuncs[p]; !ok {
			fmt.Fprintln(os.Stderr, "resetglobals: package not found:", p)
			bad = true
		}
	}
	if bad {
		os.Exit(1)
	}
	// the runtime as virtual package rare/verifrt
	filepath.Walk(*vrtDir, func(path string, info os.FileInfo, err error) error {
		if err != nil || info.IsDir() || !strings.HasSuffix(path, ".go") {
			return nil
		}
		rel, _ := filepath.Rel(*vrtDir, path)
		overlay[filepath.Join(*repo, "verifrt", rel)] = path
		return nil
	})
	// extra files (harness-side additions to packages of rare)
	if *extra != "" {
		filepath.Walk(*extra, func(path string, info os.FileInfo, err error) error {
			if err != nil || info.IsDir() || !strings.HasSuffix(path, ".go") {
				return nil
			}
			rel, _ := filepath.Rel(*extra, path)
			overlay[filepath.Join(*repo, rel)] = path
			return nil
		})
	}
	b, _ := json.MarshalIndent(map[string]any{"Replace": overlay}, "", " ")
	writeIfChanged(filepath.Join(*out, "overlay.json"), b)
	fmt.Printf("instrumented %d files, overlay entries %d\n", nFiles, len(overlay))
}

// resetFunc builds `func name() { v = <initialiser>; w = *new(T); ... }` for the
// package-level variables declared in f, in source order.
func resetFunc(name string, f *ast.File) *ast.FuncDecl {
	var stmts []ast.Stmt
	for _, d := range f.Decls {
		gd, ok := d.(*ast.GenDecl)
		if !ok || gd.Tok != token.VAR {
			continue
		}
		for _, sp := range gd.Specs {
			vs := sp.(*ast.ValueSpec)
			var lhs []ast.Expr
			blank := true
			for _, nm := range vs.Names {
				lhs = append(lhs, ast.NewIdent(nm.Name))
				if nm.Name != "_" {
					blank = false
				}
			}
			if blank {
				continue
			}
			switch {
			case len(vs.Values) == len(vs.Names):
				for i, nm := range vs.Names {
					if nm.Name == "_" {
						continue
					}
					stmts = append(stmts, &ast.AssignStmt{Lhs: []ast.Expr{ast.NewIdent(nm.Name)}, Tok: token.ASSIGN, Rhs: []ast.Expr{vs.Values[i]}})
				}
			case len(vs.Values) == 1:
				stmts = append(stmts, &ast.AssignStmt{Lhs: lhs, Tok: token.ASSIGN, Rhs: []ast.Expr{vs.Values[0]}})
			case len(vs.Values) == 0 && vs.Type != nil:
				for _, nm := range vs.Names {
					if nm.Name == "_" {
						continue
					}
					zero := &ast.StarExpr{X: &ast.CallExpr{Fun: ast.NewIdent("new"), Args: []ast.Expr{vs.Type}}}
					stmts = append(stmts, &ast.AssignStmt{Lhs: []ast.Expr{ast.NewIdent(nm.Name)}, Tok: token.ASSIGN, Rhs: []ast.Expr{zero}})
				}
			}
		}
	}
	return &ast.FuncDecl{Name: ast.NewIdent(name), Type: &ast.FuncType{Params: &ast.FieldList{}}, Body: &ast.BlockStmt{List: stmts}}
}

func writeIfChanged(path string, b []byte) {
	if old, err := os.ReadFile(path); err == nil && sha1.Sum(old) == sha1.Sum(b) {
		return
	}
	if err := os.WriteFile(path, b, 0o644); err != nil {
		fmt.Fprintln(os.Stderr, err)
		os.Exit(1)
	}
}
