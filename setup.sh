#!/bin/bash
# Builds the framework offline from files on disk (run once after a restore).
set -eu
cd "$(dirname "$0")"
export GOFLAGS=-mod=mod GOPROXY=off GOSUMDB=off GOTOOLCHAIN=local
mkdir -p .build/bin evidence replays
if [ -d instrument ]; then
  (cd instrument && go build -o ../.build/bin/instrument .)
fi
# warm the build cache for every harness that exists (plain ones; the vrt
# harnesses are built by ./check through the overlay)
awk '$3=="plain" {print $2}' harness/MAP | sort -u | while read -r h; do
  [ -d "harness/$h" ] || continue
  go build -tags verif -o ".build/bin/$h" "./harness/$h" 2>/dev/null || true
done
echo setup done
