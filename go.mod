module verif

go 1.23

replace rare => /repo

require rare v0.0.0-00010101000000-000000000000
