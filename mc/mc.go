// Package mc is a stateless, deviation-bounded explorer over choice points.
//
// An execution is one run of a harness body from a fresh state under one
// choice vector. Choose(n) is the only source of variation. Successors are
// produced by replaying a prefix and taking the next alternative (depth-first,
// no cloning of live objects). Alternative 0 of every point is the default and
// is free; other alternatives have a cost (a "deviation": a preemption, a
// short read, a fired timer, ...). With Bound >= 0 only vectors whose total
// cost is <= Bound are explored; Bound < 0 explores the complete tree.
package mc

import (
	"fmt"
	"strings"
)

// Divergence is the panic value raised when a replayed prefix does not meet
// the same choice points as the execution that recorded it. It is always a
// harness error (uncontrolled nondeterminism), never a property violation.
type Divergence struct{ Msg string }

func (d Divergence) Error() string { return "mc: replay divergence: " + d.Msg }

type point struct {
	n      int
	choice int
	costs  []int // nil: alternative i>0 costs 1; otherwise cost per alternative
	label  string
}

func (p *point) cost(i int) int {
	if i == 0 {
		return 0
	}
	if p.costs == nil {
		return 1
	}
	return p.costs[i]
}

// Explorer enumerates choice vectors.
type Explorer struct {
	Bound int // maximum total cost; <0 = unbounded

	stack   []point
	pos     int
	started bool
	done    bool
	fixed   int // replay-only prefix length that is never backtracked (Replay mode)
	subtree bool // explore every extension of the fixed prefix

	// accounting
	Executions   int64
	ChoicePoints int64
	MaxDepth     int
}

// New returns an explorer with the given deviation bound (<0: unbounded).
func New(bound int) *Explorer { return &Explorer{Bound: bound} }

// NewReplay returns an explorer that executes exactly one vector.
func NewReplay(vec []int) *Explorer {
	e := &Explorer{Bound: -1}
	for _, c := range vec {
		e.stack = append(e.stack, point{n: -1, choice: c})
	}
	e.fixed = len(vec)
	return e
}

// NewSubtree returns an explorer over every vector that extends prefix (the
// prefix itself is never backtracked). Together with Probe it partitions a
// bounded tree into independent units: every vector other than the all-default
// one has a unique first non-default position i and alternative a, i.e. lies
// in exactly one subtree with prefix 0^i a.
func NewSubtree(bound int, prefix []int) *Explorer {
	e := &Explorer{Bound: bound, subtree: true}
	for _, c := range prefix {
		e.stack = append(e.stack, point{n: -1, choice: c})
	}
	e.fixed = len(prefix)
	return e
}

// PointInfo describes one choice point of the last execution.
type PointInfo struct {
	N     int
	Label string
	Costs []int // nil: every non-default alternative costs 1
}

// Points returns the choice points consumed by the current execution.
func (e *Explorer) Points() []PointInfo {
	out := make([]PointInfo, e.pos)
	for i := 0; i < e.pos; i++ {
		out[i] = PointInfo{e.stack[i].n, e.stack[i].label, e.stack[i].costs}
	}
	return out
}

// Cost returns the cost of alternative a of the point.
func (p PointInfo) Cost(a int) int {
	if a == 0 {
		return 0
	}
	if p.Costs == nil {
		return 1
	}
	return p.Costs[a]
}

// Next prepares the next execution. It returns false when the space is
// exhausted. Call it before every execution, including the first.
func (e *Explorer) Next() bool {
	if e.done {
		return false
	}
	if !e.started {
		e.started = true
		e.pos = 0
		return true
	}
	if e.fixed > 0 && !e.subtree {
		e.done = true
		return false
	}
	// account the finished execution
	if len(e.stack) > e.MaxDepth {
		e.MaxDepth = len(e.stack)
	}
	// the execution may have consumed fewer points than the stack holds only
	// if it diverged; Choose panics in that case, so here pos == len(stack)
	// unless the body stopped early on purpose (Abort).
	e.stack = e.stack[:e.pos]
	// backtrack
	for i := len(e.stack) - 1; i >= e.fixed; i-- {
		p := &e.stack[i]
		used := 0
		if e.Bound >= 0 {
			for j := 0; j < i; j++ {
				used += e.stack[j].cost(e.stack[j].choice)
			}
		}
		for next := p.choice + 1; next < p.n; next++ {
			if e.Bound < 0 || used+p.cost(next) <= e.Bound {
				p.choice = next
				e.stack = e.stack[:i+1]
				e.pos = 0
				return true
			}
		}
	}
	e.done = true
	return false
}

// EndExecution must be called after the body returns (before Next); it keeps
// the counters. Next calls are safe without it but the counters then lag.
func (e *Explorer) EndExecution() {
	if e.pos < len(e.stack) {
		panic(Divergence{fmt.Sprintf("execution consumed %d points but the replayed prefix has %d", e.pos, len(e.stack))})
	}
	e.Executions++
}

func (e *Explorer) choose(n int, costs []int, label string) int {
	if n <= 0 {
		panic(fmt.Sprintf("mc: Choose(%d) at %q", n, label))
	}
	e.ChoicePoints++
	if e.pos < len(e.stack) {
		p := &e.stack[e.pos]
		if p.n == -1 { // replay vector
			p.n = n
			p.label = label
			p.costs = costs
			if p.choice >= n {
				panic(Divergence{fmt.Sprintf("point %d (%s): recorded choice %d but only %d alternatives", e.pos, label, p.choice, n)})
			}
		} else if p.n != n || p.label != label {
			panic(Divergence{fmt.Sprintf("point %d: recorded (%s,n=%d) now (%s,n=%d)", e.pos, p.label, p.n, label, n)})
		}
		e.pos++
		return p.choice
	}
	e.stack = append(e.stack, point{n: n, choice: 0, costs: costs, label: label})
	e.pos++
	return 0
}

// Choose picks one of n alternatives; every non-default alternative costs 1.
func (e *Explorer) Choose(n int, label string) int { return e.choose(n, nil, label) }

// ChooseFree picks one of n alternatives at no cost (an enumeration
// dimension rather than a deviation).
func (e *Explorer) ChooseFree(n int, label string) int {
	if n == 1 {
		return e.choose(1, nil, label)
	}
	return e.choose(n, zeroCosts(n), label)
}

// ChooseCosts picks one of len(costs) alternatives with explicit costs
// (costs[0] is ignored and treated as 0).
func (e *Explorer) ChooseCosts(costs []int, label string) int {
	c := make([]int, len(costs))
	copy(c, costs)
	return e.choose(len(costs), c, label)
}

var zc [][]int

func zeroCosts(n int) []int {
	for len(zc) <= n {
		zc = append(zc, make([]int, len(zc)))
	}
	return zc[n]
}

// Vector returns a copy of the choice vector of the current execution (the
// part consumed so far).
func (e *Explorer) Vector() []int {
	v := make([]int, e.pos)
	for i := 0; i < e.pos; i++ {
		v[i] = e.stack[i].choice
	}
	return v
}

// Depth returns the number of choice points consumed so far.
func (e *Explorer) Depth() int { return e.pos }

// Cost returns the deviation cost consumed so far in this execution.
func (e *Explorer) Cost() int {
	c := 0
	for i := 0; i < e.pos; i++ {
		c += e.stack[i].cost(e.stack[i].choice)
	}
	return c
}

// Trace renders the current vector with labels.
func (e *Explorer) Trace() string {
	var sb strings.Builder
	for i := 0; i < e.pos; i++ {
		if i > 0 {
			sb.WriteByte(' ')
		}
		fmt.Fprintf(&sb, "%s=%d/%d", e.stack[i].label, e.stack[i].choice, e.stack[i].n)
	}
	return sb.String()
}

// Units partitions the tree of a body into independent subtrees for sharding:
// it runs the all-default execution once (exec must run the body with the
// given explorer and call EndExecution) and returns one prefix per unit — the
// complete default vector (a unit of exactly one execution) and, for every
// point i and non-default alternative a whose cost fits the bound, 0^i a.
func Units(bound int, exec func(*Explorer)) [][]int {
	e := New(0)
	e.Next()
	exec(e)
	pts := e.Points()
	units := [][]int{make([]int, len(pts))}
	for i, p := range pts {
		for a := 1; a < p.N; a++ {
			if bound >= 0 && p.Cost(a) > bound {
				continue
			}
			u := make([]int, i+1)
			u[i] = a
			units = append(units, u)
		}
	}
	return units
}
