package main

// Line-length family (size sweep through the real binary): the clauses "every
// emitted match reports the name of the input it came from, its true 1-based
// line number within that input, the unmodified line text ... however lines
// were batched or time-flushed, with one reader and one worker matches are
// emitted in input order" for inputs in which one or two lines are LONG at the
// scale of the production read buffer (128 KiB) and its multiples - a size no
// other family reaches: the pipeline harness shrinks the read buffer to 4
// bytes, which exercises the regrowth logic but not anything that is written
// in terms of absolute sizes (a cap on the buffered line, a 16/32-bit length, a
// chunked copy). Inputs of 3-8 distinguishable lines, the long one(s) first /
// in the middle / last (with and without the final newline) / two of them, the
// long line L = 2^k-1, 2^k, 2^k+1 bytes, through a file argument and through a
// pipe on standard input (the time-flushing batcher), with --batch 1 / 2 /
// default and --workers 1 / 2, once with an extract expression that carries
// {src}, {line}, the tag group and a length + prefix/middle/suffix fingerprint
// of {0}, once as `filter -l` (source, line number and the whole line text).

import (
	"bytes"
	"fmt"
	"os"
	"os/exec"
	"path/filepath"
	"sort"
	"strconv"
	"strings"
	"time"

	"verif/runner"
)

// LLCase is the replayable description of one run of the family.
type LLCase struct {
	K       int    `json:"k"`     // the long lines have 2^K + D bytes
	D       int    `json:"d"`     // -1, 0, +1
	Shape   string `json:"shape"` // see llShapes
	Input   string `json:"input"` // "file" | "stdin"
	Batch   int    `json:"batch"` // 0 = the default batch size
	Workers int    `json:"workers"`
	View    string `json:"view"` // "extract" | "line"
}

type llShape struct {
	Name    string
	N       int   // number of lines
	Long    []int // 1-based numbers of the long lines
	FinalNL bool  // the last line ends in a newline
	Quick   bool  // part of the quick tier
}

var llShapes = []llShape{
	{"long-line-first-of-5", 5, []int{1}, true, true},
	{"long-line-3rd-of-6", 6, []int{3}, true, true},
	{"long-line-last-of-4", 4, []int{4}, true, true},
	{"long-line-last-of-3-no-final-newline", 3, []int{3}, false, true},
	{"long-lines-2nd-and-6th-of-8", 8, []int{2, 6}, true, true},
	{"long-lines-3rd-and-4th-of-5", 5, []int{3, 4}, true, false},
}

func llShapeByName(name string) (llShape, bool) {
	for _, s := range llShapes {
		if s.Name == name {
			return s, true
		}
	}
	return llShape{}, false
}

// ---- the input (imports nothing from rare) -----------------------------------

const llAlnum = "abcdefghijklmnopqrstuvwxyzABCDEFGHIJKLMNOPQRSTUVWXYZ012345678" // 61 symbols: a prime period, no power of two or multiple of the read buffer is a multiple of it

// llLines builds the lines of one input: line i is "r<i> " + payload; a short
// line's payload names i and has i letters, a long line is filled up to exactly
// l bytes with a period-61 pattern whose phase is i (so that a lost, repeated
// or shifted piece of it changes the length or the sampled bytes).
func llLines(sh llShape, l int) [][]byte {
	out := make([][]byte, sh.N)
	for i := 1; i <= sh.N; i++ {
		long := false
		for _, p := range sh.Long {
			long = long || p == i
		}
		head := fmt.Sprintf("r%d ", i)
		if !long {
			out[i-1] = []byte(head + fmt.Sprintf("short-line-%d-", i) + strings.Repeat(string(rune('a'+i)), i))
			continue
		}
		unit := []byte(llAlnum[i%len(llAlnum):] + llAlnum[:i%len(llAlnum)])
		need := l - len(head)
		fill := bytes.Repeat(unit, need/len(unit)+1)[:need]
		line := make([]byte, 0, l)
		line = append(append(line, head...), fill...)
		out[i-1] = line
	}
	return out
}

func llContent(sh llShape, lines [][]byte) []byte {
	var b bytes.Buffer
	for i, l := range lines {
		b.Write(l)
		if i < len(lines)-1 || sh.FinalNL {
			b.WriteByte('\n')
		}
	}
	return b.Bytes()
}

// llRecord is what one emitted match says about itself.
type llRecord struct {
	Src    string
	LineNo string
	Tag    string
	Len    string
	Pre    string
	Mid    string
	Suf    string
	Text   []byte // view "line" only: the whole printed text
}

// llWant: "the name of the input it came from, its true 1-based line number
// within that input, the unmodified line text, and capture values ({0}, {N})
// equal to those of the leftmost match" - for line i of the input.
func llWant(src string, i int, line []byte) llRecord {
	n := len(line)
	return llRecord{Src: src, LineNo: strconv.Itoa(i), Tag: "r" + strconv.Itoa(i), Len: strconv.Itoa(n),
		Pre: string(line[:8]), Mid: string(line[n/2 : n/2+8]), Suf: string(line[n-8:])}
}

const llExtract = "{src}|{line}|{1}|{len {0}}|{substr {0} 0 8}|{substr {0} {divi {len {0}} 2} 8}|{substr {0} {subi {len {0}} 8} 8}"
const llRegex = `^(\w+) (.*)$`

// llParse reads the records back from the standard output of a run.
func llParse(view string, out []byte) (recs []llRecord, junk []string) {
	if len(out) == 0 {
		return nil, nil
	}
	text := out
	if text[len(text)-1] == '\n' {
		text = text[:len(text)-1]
	}
	for _, ln := range bytes.Split(text, []byte{'\n'}) {
		short := func() string {
			if len(ln) > 80 {
				return fmt.Sprintf("%q...(%d bytes)", ln[:80], len(ln))
			}
			return fmt.Sprintf("%q", ln)
		}
		if view == "extract" {
			f := strings.Split(string(ln), "|")
			if len(f) != 7 {
				junk = append(junk, short())
				continue
			}
			recs = append(recs, llRecord{Src: f[0], LineNo: f[1], Tag: f[2], Len: f[3], Pre: f[4], Mid: f[5], Suf: f[6]})
			continue
		}
		// `filter -l`: "<source> <line number>: <line text>"
		at := bytes.Index(ln, []byte(": "))
		if at < 0 {
			junk = append(junk, short())
			continue
		}
		head, body := string(ln[:at]), ln[at+2:]
		sp := strings.LastIndexByte(head, ' ')
		tagEnd := bytes.IndexByte(body, ' ')
		if sp < 0 || tagEnd < 0 || len(body) < 16 {
			junk = append(junk, short())
			continue
		}
		n := len(body)
		recs = append(recs, llRecord{Src: head[:sp], LineNo: head[sp+1:], Tag: string(body[:tagEnd]), Len: strconv.Itoa(n),
			Pre: string(body[:8]), Mid: string(body[n/2 : n/2+8]), Suf: string(body[n-8:]), Text: body})
	}
	return recs, junk
}

// ---- one run -------------------------------------------------------------------

type llFiles struct {
	dir     string
	key     string
	path    string
	lines   [][]byte
	content []byte
}

func (f *llFiles) get(c LLCase, sh llShape) {
	key := fmt.Sprintf("%d/%d/%s", c.K, c.D, c.Shape)
	if f.key == key {
		return
	}
	if f.path != "" {
		os.Remove(f.path)
	}
	f.key = key
	f.lines = llLines(sh, 1<<c.K+c.D)
	f.content = llContent(sh, f.lines)
	f.path = filepath.Join(f.dir, fmt.Sprintf("ll-%d-%d.txt", c.K, c.D+1))
	if err := os.WriteFile(f.path, f.content, 0o644); err != nil {
		panic(err)
	}
}

func llSizeName(c LLCase) string {
	switch c.D {
	case -1:
		return fmt.Sprintf("2^%d-1", c.K)
	case 1:
		return fmt.Sprintf("2^%d+1", c.K)
	}
	return fmt.Sprintf("2^%d", c.K)
}

func llOne(w *runner.W, bin string, files *llFiles, c LLCase) {
	sh, ok := llShapeByName(c.Shape)
	if !ok || c.K < 5 || c.K > 30 {
		panic(fmt.Sprintf("line-length family: unknown case %+v", c))
	}
	w.SetCase(func() any { return Case{Kind: "linelen", LineLen: &c} })
	files.get(c, sh)
	args := []string{"--nocolor", "--noformat", "filter"}
	if c.View == "extract" {
		args = append(args, "-m", llRegex, "-e", llExtract)
	} else {
		args = append(args, "-l")
	}
	if c.Batch > 0 {
		args = append(args, "--batch", strconv.Itoa(c.Batch))
	}
	args = append(args, "--workers", strconv.Itoa(c.Workers), "--readers", "1")
	src := "<stdin>" // "`-` or no argument reads standard input under the name <stdin>"
	cmd := exec.Command(bin)
	if c.Input == "file" {
		args = append(args, files.path)
		src = files.path
	} else {
		// a pipe fed by a goroutine of os/exec: other read sizes than a file gives
		cmd.Stdin = bytes.NewReader(files.content)
	}
	cmd.Args = append(cmd.Args, args...)
	var stdout, stderr bytes.Buffer
	cmd.Stdout, cmd.Stderr = &stdout, &stderr
	cmd.Env = append(os.Environ(), "TZ=UTC")
	if err := cmd.Start(); err != nil {
		panic(err)
	}
	done := make(chan error, 1)
	go func() { done <- cmd.Wait() }()
	what := fmt.Sprintf("rare %s (%s; long lines of %s = %d bytes)", strings.Join(args, " "), c.Shape, llSizeName(c), 1<<c.K+c.D)
	sigOf := func(class string) string { return "C02/linelen/" + class + "/" + c.Input + "/size-family" }
	seen := map[string]bool{}
	report := func(class, detail string) {
		if seen[class] {
			return
		}
		seen[class] = true
		w.Violation(sigOf(class), what+": "+detail, Case{Kind: "linelen", LineLen: &c})
	}
	var runErr error
	// the scanner copies a long line once per 128 KiB read, so a 32 MiB line
	// costs seconds of CPU and the machine may be loaded: only a process that
	// is still there after 5 minutes is a hang (nothing else is decided by time)
	ticker := time.NewTicker(5 * time.Second)
	defer ticker.Stop()
	for waited := 0; ; waited += 5 {
		select {
		case runErr = <-done:
		case <-ticker.C:
			if waited >= 300 {
				cmd.Process.Kill()
				<-done
				w.Eval(false)
				report("hang", "still running after 5 minutes")
				return
			}
			w.Tick()
			continue
		}
		break
	}
	w.Add("linelen_runs", 1)
	w.Max("linelen_longest_line_bytes", int64(1<<c.K+c.D))

	var want []llRecord
	for i, l := range files.lines {
		want = append(want, llWant(src, i+1, l))
	}
	got, junk := llParse(c.View, stdout.Bytes())
	w.Eval(runErr == nil && len(got) > 0)

	isLong := func(i int) bool { // i 1-based
		for _, p := range sh.Long {
			if p == i {
				return true
			}
		}
		return false
	}
	lineKind := func(i int) string {
		if isLong(i) {
			return "long-line"
		}
		return "short-line"
	}
	if len(junk) > 0 {
		report("unexpected-output-record", fmt.Sprintf("%d output line(s) that are not records of the expected form, first %s", len(junk), junk[0]))
	}
	byTag := map[string][]int{}
	for gi, r := range got {
		byTag[r.Tag] = append(byTag[r.Tag], gi)
	}
	for gi, r := range got {
		if n, err := strconv.Atoi(strings.TrimPrefix(r.Tag, "r")); err != nil || !strings.HasPrefix(r.Tag, "r") || n < 1 || n > sh.N {
			report("unexpected-output-record", fmt.Sprintf("output record %d carries the tag %q, which no line of the input has", gi, r.Tag))
		}
	}
	for i := 1; i <= sh.N; i++ {
		exp := want[i-1]
		idx := byTag[exp.Tag]
		switch {
		case len(idx) == 0:
			// not a clause of C02 by itself (C01: "every ... line of every input is processed exactly once"); the
			// sweep is the only place a line of this size is fed to the binary at all, so it is reported here
			report(lineKind(i)+"-not-emitted", fmt.Sprintf("no record for line %d (%d bytes); %d records for %d lines", i, len(files.lines[i-1]), len(got), sh.N))
			continue
		case len(idx) > 1:
			report(lineKind(i)+"-emitted-more-than-once", fmt.Sprintf("%d records for line %d", len(idx), i))
		}
		r := got[idx[0]]
		if r.Src != exp.Src {
			report("source-name-wrong", fmt.Sprintf("line %d reported with source %q, want %q", i, r.Src, exp.Src))
		}
		if r.LineNo != exp.LineNo {
			rel := "before-any-long-line"
			switch {
			case isLong(i):
				rel = "of-long-line"
			case i > sh.Long[0]:
				rel = "after-long-line"
			}
			report("line-number-wrong/"+rel, fmt.Sprintf("the line showing %q (line %d of the input) was emitted as line %s", exp.Pre, i, r.LineNo))
		}
		if r.Len != exp.Len || r.Pre != exp.Pre || r.Mid != exp.Mid || r.Suf != exp.Suf || (r.Text != nil && !bytes.Equal(r.Text, files.lines[i-1])) {
			report(lineKind(i)+"-text-altered", fmt.Sprintf("line %d: length/first 8/middle 8/last 8 bytes reported as %s/%q/%q/%q, want %s/%q/%q/%q (whole text compared too with -l)", i, r.Len, r.Pre, r.Mid, r.Suf, exp.Len, exp.Pre, exp.Mid, exp.Suf))
		}
	}
	if c.Workers == 1 {
		// "with one reader and one worker matches are emitted in input order"
		var order []int
		for _, r := range got {
			n, _ := strconv.Atoi(strings.TrimPrefix(r.Tag, "r"))
			order = append(order, n)
		}
		if !sort.IntsAreSorted(order) {
			report("not-in-input-order-with-one-worker", fmt.Sprintf("records came for lines %v", order))
		}
	}
	// the run as a whole: nothing was wrong with the input, so no read error may be reported, every line
	// matches (`Matched: N / N`) and the exit status is 0
	errText := stderr.String()
	sum := fmt.Sprintf("Matched: %d / %d", sh.N, sh.N)
	hasSum := false
	for _, l := range strings.Split(errText, "\n") {
		if strings.TrimSpace(l) == sum {
			hasSum = true
		} else if strings.Contains(l, "rror") {
			report("read-error-reported-for-a-readable-input", fmt.Sprintf("stderr: %q", l))
		}
	}
	if !hasSum {
		report("summary-differs", fmt.Sprintf("stderr %q, want the line %q", llClip(errText), sum))
	}
	if runErr != nil {
		report("exit-status-not-0", fmt.Sprintf("%v; stderr %q", runErr, llClip(errText)))
	}
	res := "ok"
	if len(seen) > 0 {
		res = "violation"
	}
	w.Outcome("linelen", strconv.Itoa(c.K), strconv.Itoa(c.D), c.Shape, c.Input, strconv.Itoa(c.Batch), strconv.Itoa(c.Workers), c.View, strconv.Itoa(len(got)), res)
	if w.WantSample() && c.K >= 20 && c.View == "extract" && c.Workers == 1 {
		first := stdout.String()
		if at := strings.IndexByte(first, '\n'); at >= 0 {
			first = first[:at]
		}
		w.Sample(map[string]any{"linelen": c, "command": "rare " + strings.Join(args, " "), "first_record": first, "stderr": llClip(errText)})
	}
}

func llClip(s string) string {
	if len(s) > 300 {
		return s[:300] + "..."
	}
	return s
}

// ---- enumeration ---------------------------------------------------------------

type llConfig struct {
	Input   string
	Batch   int
	Workers int
	View    string
}

var llBatches = []int{1, 2, 0}

// llConfigs lists the configurations run for the r-th (size, shape) pair of a
// cost class. "full": input x batch x workers with the extract view, plus
// `filter -l` per input with (default batch, 1 worker) and (batch 1, 2
// workers) - 16 runs. "medium": input x batch with the extract view, workers
// alternating, plus `filter -l` per input - 8 runs. "light": file and stdin
// with the extract view and one `filter -l` run, batch size and worker count
// rotating with r so that over six consecutive pairs every combination occurs -
// 3 runs. "single": the (r mod 16)-th configuration of "full" - 1 run.
func llConfigs(class string, r int) []llConfig {
	var out []llConfig
	switch class {
	case "full", "single":
		for _, in := range []string{"file", "stdin"} {
			for _, b := range llBatches {
				for _, wk := range []int{1, 2} {
					out = append(out, llConfig{in, b, wk, "extract"})
				}
			}
			out = append(out, llConfig{in, 0, 1, "line"}, llConfig{in, 1, 2, "line"})
		}
		if class == "single" {
			// 7 is coprime to 16: consecutive pairs alternate file/stdin and walk through all 16
			out = out[(r*7)%len(out):][:1]
		}
	case "medium":
		for ii, in := range []string{"file", "stdin"} {
			for bi, b := range llBatches {
				out = append(out, llConfig{in, b, 1 + (r+ii+bi)%2, "extract"})
			}
			out = append(out, llConfig{in, llBatches[(r+ii)%3], 1 + (r+ii+1)%2, "line"})
		}
	default: // light
		out = append(out,
			llConfig{"file", llBatches[r%3], 1 + (r/3)%2, "extract"},
			llConfig{"stdin", llBatches[(r+1)%3], 1 + (r/3+1)%2, "extract"},
			llConfig{[]string{"file", "stdin"}[r%2], llBatches[(r+2)%3], 1 + (r/2)%2, "line"})
	}
	return out
}

// llClass: the cost of a run grows with the square of the line length (the
// scanner re-copies the partial line for every 128 KiB read: 10 ms of CPU up
// to 128 KiB, 50 ms at 1 MiB, 0.5 s at 8 MiB, 1.7 s at 16 MiB, 5 s at 32 MiB),
// so the number of configurations per size shrinks as the size grows.
func llClass(quick bool, k int) string {
	if quick {
		switch {
		case k <= 20:
			return "medium"
		case k <= 22:
			return "light"
		}
		return "single"
	}
	switch {
	case k <= 22:
		return "full"
	case k == 23:
		return "medium"
	case k == 24:
		return "light"
	}
	return "single"
}

// llDeltas: 2^k-1, 2^k, 2^k+1 - except at the largest size of the quick tier,
// where only 2^k is run (a limit AT that size would need a still longer line to
// show; the thorough tier has it).
func llDeltas(quick bool, k int) []int {
	if quick && k == llMaxK(true) {
		return []int{0}
	}
	return []int{-1, 0, 1}
}

func llMaxK(quick bool) int {
	if quick {
		return 24
	}
	return 25
}

// lineLenFamily enumerates the sweep; the unit of sharding is one process run.
func lineLenFamily(w *runner.W) {
	bin := os.Getenv("RARE_BIN")
	if bin == "" {
		w.Cap("RARE_BIN not set: the line-length sweep did not run")
		return
	}
	dir, err := os.MkdirTemp("", "verif-filterout-ll-")
	if err != nil {
		panic(err)
	}
	defer os.RemoveAll(dir)
	files := &llFiles{dir: dir}
	var unit int64
	r := 0
	for k := 12; k <= llMaxK(w.Quick()); k++ {
		class := llClass(w.Quick(), k)
		for _, d := range llDeltas(w.Quick(), k) {
			for _, sh := range llShapes {
				if w.Quick() && !sh.Quick {
					continue
				}
				r++
				for _, cf := range llConfigs(class, r) {
					unit++
					if !w.Owns(unit) {
						continue
					}
					c := LLCase{K: k, D: d, Shape: sh.Name, Input: cf.Input, Batch: cf.Batch, Workers: cf.Workers, View: cf.View}
					llOne(w, bin, files, c)
				}
				if w.Expired() {
					return
				}
			}
		}
	}
}

func llReplay(w *runner.W, c LLCase) {
	bin := os.Getenv("RARE_BIN")
	if bin == "" {
		w.Cap("RARE_BIN not set: the line-length case was not replayed")
		return
	}
	dir, err := os.MkdirTemp("", "verif-filterout-ll-")
	if err != nil {
		panic(err)
	}
	defer os.RemoveAll(dir)
	llOne(w, bin, &llFiles{dir: dir}, c)
}
