// Harness filterout decides the sequential clauses of C02 that the pipeline
// harness does not reach: default `filter` output with colour codes removed is
// byte-identical to the matched line, capture values {0} {N} {name} {@} equal
// those of the leftmost match (non-participating and non-existent groups read
// as empty), and the -I / --posix flags reach the matcher. It enumerates every
// line up to a length over a small alphabet for a pool of regexes with
// optional, nested, alternated and named groups, runs the real matcher and the
// real colouring (colour forced on), and compares with Go's regexp used
// directly. The pool contains repeated alternations, whose groups keep the text
// of an earlier iteration, so that group spans come in every order in the line.
// Independently of the pool, color.WrapIndices is driven directly with every
// index vector a regex engine can produce (wrap.go: nested or disjoint spans in
// every numbering order, absent and empty groups, up to 5 groups) and with a
// sweep of the number of groups and the line length. The real binary is run on
// the complete line set for the flag plumbing and the end-to-end output, plain
// and with --color, and (linelen.go) on small inputs in which one or two lines
// are as long as the production read buffer and up to 256 times longer: source
// name, line number and text of every record, through a file and through
// standard input, for several batch sizes and worker counts.
package main

import (
	"bytes"
	"encoding/json"
	"fmt"
	"os"
	"os/exec"
	"path/filepath"
	"regexp"
	"strings"
	"time"

	"rare/pkg/color"
	"rare/pkg/expressions/funclib"
	"rare/pkg/extractor"
	"rare/pkg/matchers"
	"rare/pkg/matchers/fastregex"
	"verif/runner"
)

type pattern struct {
	Expr  string
	Posix bool
	ICase bool
}

var patterns = []pattern{
	{`a`, false, false},
	{`(a+)|(b)`, false, false},
	{`(a)?(b)`, false, false},
	{`((a)(b))?c`, false, false},
	{`(?P<x>a+)(?P<y>b*)`, false, false},
	{`(a|ab)(c|bcd)?`, false, false},
	{`(a|ab)(c|bcd)?`, true, false}, // posix: leftmost-longest
	{`(b)(c)?`, false, true},
	{`()a()`, false, false},
	{`(a*)(b*)(c*)`, false, false},
	{`\x1b?(a)`, false, false},
	// repeated alternations: a group keeps the text of the LAST iteration it took
	// part in, so group spans come in every order in the line (a later-numbered
	// group before an earlier-numbered one, a stale inner group outside its
	// syntactic parent, empty and non-participating groups in between)
	{`(?:(a)|(b)|c)+`, false, false},
	{`((a)|b)+`, false, false},
	{`(?:(a)|(b)|(c))+`, false, false},
	{`(?:(a+)|(b*)|c)+`, false, false},
	{`(?:(a(b)?)|(c))+`, false, false},
	{`(?:(?P<k>a+) |(?P<v>é+)|b)+`, false, false},
	{`((a)|(ab)|(b))+`, true, false}, // posix (no (?: in POSIX syntax)
	{`(?:(b)|(a))+`, false, true},    // case-insensitive
	{`(?:(a)|((b)|(c)))*(B)?`, false, false},
	// more groups than there are group colours (12); the last two take part
	{`(B)?(B)?(B)?(B)?(B)?(B)?(B)?(B)?(B)?(B)?(B)?(B)?(?:(a)|(b))+`, false, false},
}

var alphabet = []string{"a", "b", "c", "B", " ", "\x1b[1m", "é"}

// Case is one replayable case. Kind "" = one line through the real matcher
// (regex family); "wrap" = color.WrapIndices driven directly with Groups on
// Line (wrap.go); "cli" / "cli-colour" = the real binary over the whole line
// set up to MaxLen symbols for Pattern; "linelen" = one run of the binary of the
// line-length sweep (linelen.go).
type Case struct {
	Kind    string  `json:"kind,omitempty"`
	Pattern pattern `json:"pattern"`
	Line    string  `json:"line"`
	Groups  []int   `json:"groups,omitempty"`
	MaxLen  int     `json:"max_len,omitempty"`
	LineLen *LLCase `json:"linelen,omitempty"` // Kind "linelen" (linelen.go)
}

var ansi = regexp.MustCompile("\x1b\\[[0-9;]*m")

// stripOnce removes exactly the codes WrapIndices can add (group colours and
// the reset) — the line itself may contain escape sequences of its own.
func stripAdded(s string) string {
	for _, c := range color.GroupColors {
		s = strings.ReplaceAll(s, string(c), "")
	}
	return strings.ReplaceAll(s, string(color.Reset), "")
}

func refRegexp(p pattern) *regexp.Regexp {
	e := p.Expr
	if p.ICase {
		e = "(?i)" + e
	}
	if p.Posix {
		return regexp.MustCompilePOSIX(e)
	}
	return regexp.MustCompile(e)
}

func group(line string, idx []int, g int) string {
	if g < 0 || g >= len(idx)/2 || idx[2*g] < 0 {
		return ""
	}
	return line[idx[2*g]:idx[2*g+1]]
}

func evalOne(w *runner.W, p pattern, m matchers.Matcher, ref *regexp.Regexp, kb map[string]*compiled, line string) {
	c := Case{Pattern: p, Line: line}
	got := m.FindSubmatchIndex([]byte(line))
	want := ref.FindStringSubmatchIndex(line)
	w.Eval(len(want) > 2)
	if fmt.Sprint(got) != fmt.Sprint(want) && !(len(got) == 0 && len(want) == 0) {
		w.Violation("C02/matcher/indices-differ-from-leftmost-match", fmt.Sprintf("pattern %q posix=%v icase=%v line %q: got %v want %v", p.Expr, p.Posix, p.ICase, line, got, want), c)
		return
	}
	if len(want) == 0 {
		w.Outcome("nomatch")
		return
	}
	// default filter output: the line with the groups coloured; colour codes removed => the line
	var shown string
	if len(got) == 2 {
		shown = color.WrapIndices(line, got)
	} else {
		shown = color.WrapIndices(line, got[2:])
	}
	// a line that itself contains the codes WrapIndices adds cannot be told apart after stripping
	ambiguous := stripAdded(line) != line
	if !ambiguous {
		passed := got
		if len(got) > 2 {
			passed = got[2:]
		}
		checkStripped(w, "C02/filter-output", fmt.Sprintf("pattern %q posix=%v icase=%v", p.Expr, p.Posix, p.ICase), line, passed, shown, c)
	}
	// every participating group must be wrapped completely or not at all: the text between codes is the line in order
	if !strings.Contains(shown, string(color.Reset)) && len(got) > 2 && anyNonEmpty(got[2:]) && !ambiguous {
		w.Violation("C02/filter-output/no-group-highlighted", fmt.Sprintf("pattern %q line %q indices %v: output %q", p.Expr, line, got, shown), c)
	}
	// capture values through the real context and key builder
	names := ref.SubexpNames()
	for key, cp := range kb {
		val := cp.eval(m, line, got)
		var exp string
		switch {
		case key == "{@}":
			var parts []string
			for g := 1; g < len(want)/2; g++ {
				parts = append(parts, group(line, want, g))
			}
			exp = strings.Join(parts, "\x00")
		case strings.HasPrefix(key, "{n:"):
			name := key[3 : len(key)-1]
			exp = "<NOT-CHECKED>"
			for gi, n := range names {
				if n == name {
					exp = group(line, want, gi)
				}
			}
			if exp == "<NOT-CHECKED>" {
				continue // unknown names give an error marker, not part of this clause
			}
		default:
			var g int
			fmt.Sscanf(key, "{%d}", &g)
			exp = group(line, want, g)
		}
		if val != exp {
			w.Violation("C02/capture-value/"+strings.Trim(strings.SplitN(key, ":", 2)[0], "{}0123456789")+"differs", fmt.Sprintf("pattern %q line %q: %s gave %q want %q (indices %v)", p.Expr, line, key, val, exp, got), c)
		}
	}
	w.Outcome(fmt.Sprint(len(want)), fmt.Sprint(want[0] == 0), fmt.Sprint(strings.Count(shown, string(color.Reset))))
	if w.WantSample() && len(want) > 4 && len(line) > 2 {
		w.Sample(map[string]any{"pattern": p.Expr, "line": line, "indices": got, "shown": shown})
	}
}

func anyNonEmpty(idx []int) bool {
	for i := 0; i+1 < len(idx); i += 2 {
		if idx[i] >= 0 && idx[i+1] > idx[i] {
			return true
		}
	}
	return false
}

type compiled struct {
	extract string
}

// buildKeys lists the group references evaluated for every line of a pattern:
// the fixed set (existing, non-existent and huge group numbers, {@}), every
// named group, and the last two groups of patterns with more than 3 groups.
func buildKeys(ref *regexp.Regexp) map[string]*compiled {
	keys := map[string]*compiled{"{0}": {"{0}"}, "{1}": {"{1}"}, "{2}": {"{2}"}, "{3}": {"{3}"}, "{7}": {"{7}"}, "{99}": {"{99}"}, "{2147483648}": {"{2147483648}"}, "{4611686018427387903}": {"{4611686018427387903}"}, "{4611686018427387904}": {"{4611686018427387904}"}, "{9223372036854775807}": {"{9223372036854775807}"}, "{@}": {"{@}"}}
	for _, nm := range ref.SubexpNames() {
		if nm != "" {
			keys["{n:"+nm+"}"] = &compiled{"{" + nm + "}"}
		}
	}
	if n := ref.NumSubexp(); n > 3 {
		for _, g := range []int{n - 1, n} {
			k := fmt.Sprintf("{%d}", g)
			keys[k] = &compiled{k}
		}
	}
	return keys
}

// eval runs the real extractor context for one line: a one-line pipeline is
// the only public way to build a SliceSpaceExpressionContext.
func (c *compiled) eval(m matchers.Matcher, line string, idx []int) string {
	in := make(chan extractor.InputBatch, 1)
	in <- extractor.InputBatch{Batch: []extractor.BString{extractor.BString(line)}, Source: "s", BatchStart: 1}
	close(in)
	ex, err := extractor.New(in, &extractor.Config{Matcher: fixedMatcher{m}, Extract: "[" + c.extract + "]", Workers: 1})
	if err != nil {
		panic(err)
	}
	out := "<NO-MATCH>"
	for b := range ex.ReadChan() {
		for _, mt := range b {
			out = strings.TrimSuffix(strings.TrimPrefix(mt.Extracted, "["), "]")
		}
	}
	return out
}

type fixedMatcher struct{ m matchers.Matcher }

func (f fixedMatcher) CreateInstance() matchers.Matcher { return f.m }

func lines(maxLen int, f func(string)) {
	var rec func(prefix string, n int)
	rec = func(prefix string, n int) {
		f(prefix)
		if n == maxLen {
			return
		}
		for _, a := range alphabet {
			rec(prefix+a, n+1)
		}
	}
	rec("", 0)
}

func worker(w *runner.W) {
	color.Enabled = true
	_ = funclib.NewKeyBuilder
	maxLen := 4
	if !w.Quick() {
		maxLen = 5
	}
	var n int64
	for _, p := range patterns {
		e := p.Expr
		if p.ICase {
			e = "(?i)" + e
		}
		cre, err := fastregex.CompileEx(e, p.Posix)
		if err != nil {
			panic(err)
		}
		ref := refRegexp(p)
		keys := buildKeys(ref)
		m := cre.CreateInstance()
		lines(maxLen, func(line string) {
			n++
			if !w.Owns(n) {
				return
			}
			w.SetCase(func() any { return Case{Pattern: p, Line: line} })
			func() {
				defer func() {
					if r := recover(); r != nil {
						w.Violation("C02/panic", fmt.Sprint(r), Case{Pattern: p, Line: line})
					}
				}()
				evalOne(w, p, m, ref, keys, line)
			}()
		})
		if w.Expired() {
			return
		}
	}
	wrapFamily(w, &n)
	if w.Expired() {
		return
	}
	wrapSweep(w, &n)
	if w.Expired() {
		return
	}
	// the command-line runs: pattern i on shard i mod N, plain and with --color
	cliPart(w, maxLen, func(i int) bool { return w.Owns(int64(i)) })
	if w.Expired() {
		return
	}
	// the line-length sweep through the real binary (linelen.go)
	lineLenFamily(w)
}

// cliPart runs the real binary per pattern over the whole line set, once
// without colour (no terminal: the output must be the matched lines themselves,
// and -I / --posix must reach the matcher) and once with the global --color
// flag (what a terminal gets): with the colour codes removed the output must
// again be the matched lines, byte for byte.
func cliPart(w *runner.W, maxLen int, owns func(i int) bool) {
	bin := os.Getenv("RARE_BIN")
	if bin == "" {
		w.Cap("RARE_BIN not set: the command-line part did not run")
		return
	}
	dir, err := os.MkdirTemp("", "verif-filterout-")
	if err != nil {
		panic(err)
	}
	defer os.RemoveAll(dir)
	// every line of the set (the only escape sequence in the alphabet, ESC[1m,
	// is not one of the codes the colouring adds, so it survives the stripping)
	var all []string
	lines(maxLen-1, func(l string) { all = append(all, l) })
	input := filepath.Join(dir, "in.txt")
	os.WriteFile(input, []byte(strings.Join(all, "\n")+"\n"), 0o644)
	unit := 0
	for _, p := range patterns {
		for _, colour := range []bool{false, true} {
			unit++
			if !owns(unit) {
				continue
			}
			cliOne(w, bin, input, all, p, colour, maxLen)
		}
	}
}

func cliOne(w *runner.W, bin, input string, all []string, p pattern, colour bool, maxLen int) {
	c := Case{Kind: "cli", Pattern: p, MaxLen: maxLen}
	var args []string
	if colour {
		c.Kind = "cli-colour"
		args = append(args, "--color")
	}
	args = append(args, "filter", "-m", p.Expr)
	if p.Posix {
		args = append(args, "--posix")
	}
	if p.ICase {
		args = append(args, "-I")
	}
	args = append(args, "--workers", "1", "--readers", "1", input)
	w.SetCase(func() any { return c })
	cmd := exec.Command(bin, args...)
	var out bytes.Buffer
	cmd.Stdout = &out
	cmd.Env = append(os.Environ(), "TZ=UTC")
	done := make(chan error, 1)
	if err := cmd.Start(); err != nil {
		panic(err)
	}
	go func() { done <- cmd.Wait() }()
	select {
	case <-done:
	case <-time.After(60 * time.Second):
		cmd.Process.Kill()
		w.Violation("C02/cli/hang", strings.Join(args, " "), c)
		return
	}
	ref := refRegexp(p)
	// a line is printed when the matcher matches and the default key {0} is
	// not empty (an empty key counts as ignored, property C01)
	var want []string
	for _, l := range all {
		if loc := ref.FindStringIndex(l); loc != nil && loc[1] > loc[0] {
			want = append(want, l)
		}
	}
	text := out.String()
	if colour {
		// no line of the set contains a group colour or the reset code, so
		// every one of these in the output was added by the colouring
		text = stripAdded(text)
	}
	got := strings.Split(strings.TrimSuffix(text, "\n"), "\n")
	if len(text) == 0 {
		got = nil
	}
	if colour {
		// non-trivial = the output really carried colour codes
		coloured := strings.Contains(out.String(), string(color.Reset))
		w.Eval(coloured)
		if coloured {
			w.Add("cli_runs_with_colour_codes", 1)
		}
	} else {
		w.Eval(len(want) > 0)
	}
	w.Add("cli_runs", 1)
	if strings.Join(got, "\n") != strings.Join(want, "\n") {
		sig := "C02/cli/default-output-differs-from-matched-lines"
		if colour {
			sig = "C02/cli/colour-output-stripped-differs-from-matched-lines"
		}
		w.Violation(sig, fmt.Sprintf("%s\nfirst difference: %s", strings.Join(args, " "), firstDiff(got, want)), c)
	}
}

func firstDiff(a, b []string) string {
	for i := 0; i < len(a) || i < len(b); i++ {
		var x, y string
		if i < len(a) {
			x = a[i]
		}
		if i < len(b) {
			y = b[i]
		}
		if x != y {
			return fmt.Sprintf("line %d: got %q want %q (got %d lines, want %d)", i, x, y, len(a), len(b))
		}
	}
	return "none"
}

func replay(w *runner.W, raw json.RawMessage) {
	var c Case
	if err := json.Unmarshal(raw, &c); err != nil {
		panic(err)
	}
	color.Enabled = true
	switch c.Kind {
	case "linelen":
		if c.LineLen != nil {
			llReplay(w, *c.LineLen)
		}
		return
	case "wrap":
		wrapOne(w, c.Line, c.Groups)
		return
	case "cli", "cli-colour":
		if c.MaxLen == 0 {
			c.MaxLen = 4
		}
		unit := 0
		for _, p := range patterns {
			for _, colour := range []bool{false, true} {
				unit++
				if p == c.Pattern && colour == (c.Kind == "cli-colour") {
					u := unit
					cliPart(w, c.MaxLen, func(i int) bool { return i == u })
					return
				}
			}
		}
		return
	}
	e := c.Pattern.Expr
	if c.Pattern.ICase {
		e = "(?i)" + e
	}
	cre, err := fastregex.CompileEx(e, c.Pattern.Posix)
	if err != nil {
		panic(err)
	}
	ref := refRegexp(c.Pattern)
	keys := buildKeys(ref)
	evalOne(w, c.Pattern, cre.CreateInstance(), ref, keys, c.Line)
}

func main() {
	runner.Main(&runner.Spec{
		Name:       "filterout",
		Properties: []string{"C02"},
		Level:      "exploration",
		Rule: func(prop, tier string) string {
			return "(1) 21 regexes (optional, nested, alternated, named and empty groups; leftmost-first and POSIX leftmost-longest; case-insensitive; repeated alternations such as (?:(a)|(b)|c)+, ((a)|b)+, (?:(a(b)?)|(c))+ whose groups keep the text of an earlier iteration, so that group spans occur in every order in the line: later-numbered before earlier-numbered, a stale inner group outside its parent, empty and non-participating groups in between; 14 groups, more than the 12 group colours) x every line up to 4 (quick) / 5 (thorough) symbols over {a,b,c,B,space,ESC[1m,é}: the real fastregex matcher must return the indices of Go's regexp on that line; color.WrapIndices (what default `filter` prints, colour forced on) with the added codes removed must equal the line; {0} {1} {2} {3} {7} {99} {2^31} {2^62-1} {2^62} {2^63-1} {@}, {name} and the last two groups evaluated through the real extractor context must equal the groups of that match (non-participating and non-existent groups empty). (2) color.WrapIndices driven directly with EVERY index vector a regex engine can produce (each group absent (-1,-1) or a span on rune boundaries incl. empty spans; any two spans nested, equal or disjoint, never partially overlapping; in EVERY numbering order): 1-3 groups x every line of 0..5 (quick) / 0..6 (thorough) symbols over {a,b,é}; 4 groups on one line of all-different symbols per length 0..5 / 0..6, 5 groups per length 0..4 / 0..5: the output with the added codes removed must equal the line, no panic. (3) size sweep of WrapIndices: 1..70, 127..257 (quick) / ..1025 (thorough) groups in 8 shapes (line order, reverse order, each inside / around the one before, all equal, every other symbol in line / reverse order, only the last one participating) and lines of 3..70, 127..4097 / ..65537 all-different symbols with 3 one-symbol groups at start, middle and end in all 6 numbering orders plus nested forms. (4) the real binary per pattern over the whole line set (up to 3 / 4 symbols), once plain (output = exactly the matched lines; -I / --posix honoured) and once with the global --color flag (output with the added codes removed = exactly the matched lines). (5) line-length sweep through the real binary (linelen.go): inputs of 3-8 distinguishable lines 'r<i> <payload>' in which the long line is the first of 5 / the 3rd of 6 / the last of 4 / the last of 3 without a final newline / the 2nd and 6th of 8 (thorough also: the 3rd and 4th of 5), the long lines having L = 2^k-1, 2^k, 2^k+1 bytes for k = 12..24 (quick; at k = 24 only 2^24 = 16 MiB) / 12..25 (thorough, up to 32 MiB + 1) - from below the 128 KiB production read buffer to 128 / 256 times its size - and a period-61 fill; `rare filter` through a file argument and through a pipe on standard input (the time-flushing batcher), --batch 1 / 2 / default, --workers 1 / 2, --readers 1, once with -m '^(\\w+) (.*)$' -e '{src}|{line}|{1}|{len {0}}|first 8|middle 8|last 8 bytes of {0}' and once as `filter -l` without a matcher (source, line number and the WHOLE line text compared). Configurations per (size, shape): quick 8 up to 1 MiB (input x batch, workers alternating, + `-l` per input), 3 for 2-4 MiB, 1 (rotating through all 16) for 8 and 16 MiB; thorough all 16 (input x batch x workers + 2 `-l` per input) up to 4 MiB, 8 for 8 MiB, 3 for 16 MiB, 1 for 32 MiB (the cost of a run grows with the square of L). Demanded of every run: exactly one record per input line with that line's source name, true 1-based line number, tag group, length and sampled bytes (whole text with -l); records in input order with one worker; `Matched: N / N`, no error line on stderr, exit status 0. Non-trivial for this family = exit status 0 with at least one record. Non-trivial otherwise = a match with at least one group / a vector with at least one non-empty group whose output carries colour codes / a --color run whose output carries colour codes."
		},
		Assumptions: func(string) []string {
			return []string{"lines that themselves contain one of the colour codes WrapIndices adds are not judged for the stripping clause (no line of the alphabets does)", "PCRE2 builds of fastregex are not covered; index vectors with partially overlapping spans (only lookaround can produce them) are outside the direct family", "line-length sweep: lines longer than 32 MiB + 1 (quick: 16 MiB) are not fed; the read sizes of the pipe on standard input are whatever the kernel delivers (the oracle does not depend on them); that every line - however long - is emitted at all, the summary and the exit status are clauses of C01 / C06 rather than of C02 and are checked here (own signatures .../long-line-not-emitted, .../summary-differs, .../exit-status-not-0) because this sweep is the only place where lines of this size reach the binary", "only the stripping clause is demanded of the colouring: which groups are highlighted and in which colour is not part of the statement (the regex family alone also expects some group to be highlighted when one is non-empty)"}
		},
		Worker:         worker,
		Replay:         replay,
		HangSeconds:    60,
		QuickBudget:    3 * time.Minute,
		ThoroughBudget: 15 * time.Minute,
	})
}
