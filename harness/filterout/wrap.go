package main

// Direct family for the clause "default `filter` output with colour codes
// removed is byte-identical to the matched line": color.WrapIndices (the
// function `filter` prints every matched line through) is driven with EVERY
// index vector a regex engine can hand it - not only with the vectors the
// regex pool happens to produce. A regex engine reports, per group, either
// (-1,-1) or a span s<=e on rune boundaries, and any two spans are nested or
// disjoint (never partially overlapping); the NUMBERING of the groups says
// nothing about their order in the line (a capture kept from an earlier
// iteration of a repeated group lies before, or outside, an earlier-numbered
// one). All such "laminar" vectors are enumerated, in every numbering order.

import (
	"fmt"
	"strings"

	"rare/pkg/color"
	"verif/runner"
)

// ---- the oracle (imports nothing from rare except the list of codes) -------

// shapeOf names the class of an index vector by the relation between the
// non-empty participating spans in numbering order (the first that applies):
// a later-numbered group starts before an earlier-numbered one and is disjoint
// from it / reaches around it, lies inside it, or all are in line order.
func shapeOf(groups []int) string {
	rank := 0
	for j := 0; j+1 < len(groups); j += 2 {
		sj, ej := groups[j], groups[j+1]
		if sj < 0 || ej <= sj {
			continue
		}
		for i := 0; i < j; i += 2 {
			si, ei := groups[i], groups[i+1]
			if si < 0 || ei <= si {
				continue
			}
			r := 0
			switch {
			case ej <= si:
				r = 3
			case sj <= si && ej >= ei && (sj < si || ej > ei):
				r = 2
			case sj < ei:
				r = 1
			}
			if r > rank {
				rank = r
			}
		}
	}
	return [...]string{"groups-in-line-order", "later-group-inside-earlier-group", "later-group-around-earlier-group", "later-group-before-earlier-group"}[rank]
}

// checkStripped: "default `filter` output with colour codes removed is
// byte-identical to the matched line" - nothing else is demanded of the
// colouring (which groups are highlighted, and in which colour, is not part of
// the statement).
func checkStripped(w *runner.W, sigPrefix, what, line string, groups []int, shown string, c Case) bool {
	stripped := stripAdded(shown)
	if stripped == line {
		return true
	}
	kind := "text-altered"
	switch {
	case len(stripped) > len(line):
		kind = "text-repeated-or-added"
	case len(stripped) < len(line):
		kind = "text-lost"
	}
	w.Violation(sigPrefix+"/colour-stripped-differs-from-line/"+shapeOf(groups)+"/"+kind,
		fmt.Sprintf("%s line %q groups %v: output %q, without the colour codes %q", what, line, groups, shown, stripped), c)
	return false
}

func wrapOne(w *runner.W, line string, groups []int) {
	c := Case{Kind: "wrap", Line: line, Groups: groups}
	w.Outcome("wrap", shapeOf(groups), fmt.Sprint(len(groups)/2))
	defer func() {
		if r := recover(); r != nil {
			w.Violation("C02/wrapindices/panic/"+shapeOf(groups), fmt.Sprintf("line %q groups %v: %v", line, groups, r), c)
		}
	}()
	shown := color.WrapIndices(line, groups)
	// non-trivial = a non-empty group and an output that really carries colour
	// (which groups are coloured is not part of the statement)
	w.Eval(anyNonEmpty(groups) && strings.Contains(shown, string(color.Reset)))
	checkStripped(w, "C02/wrapindices", "WrapIndices", line, groups, shown, c)
}

// ---- enumeration ------------------------------------------------------------

var wrapAlphabet = []string{"a", "b", "é"}

type span struct{ s, e int }

func laminar(a, b span) bool {
	if a.s < 0 || b.s < 0 || a.s == a.e || b.s == b.e {
		return true // absent and empty spans overlap nothing
	}
	if a.e <= b.s || b.e <= a.s {
		return true // disjoint (adjacent included)
	}
	return (a.s <= b.s && b.e <= a.e) || (b.s <= a.s && a.e <= b.e) // nested (equal included)
}

// spansOf lists (-1,-1) and every span between two rune boundaries of line.
func spansOf(bounds []int) []span {
	out := []span{{-1, -1}}
	for i := range bounds {
		for j := i; j < len(bounds); j++ {
			out = append(out, span{bounds[i], bounds[j]})
		}
	}
	return out
}

// vectors calls f with every laminar vector of exactly g spans.
func vectors(spans []span, g int, f func([]span)) {
	cur := make([]span, 0, g)
	var rec func()
	rec = func() {
		if len(cur) == g {
			f(cur)
			return
		}
	next:
		for _, sp := range spans {
			for _, o := range cur {
				if !laminar(o, sp) {
					continue next
				}
			}
			cur = append(cur, sp)
			rec()
			cur = cur[:len(cur)-1]
		}
	}
	rec()
}

func flat(v []span) []int {
	out := make([]int, 0, 2*len(v))
	for _, sp := range v {
		out = append(out, sp.s, sp.e)
	}
	return out
}

func symbolStrings(alpha []string, k int, f func(line string, bounds []int)) {
	var rec func(prefix string, bounds []int, n int)
	rec = func(prefix string, bounds []int, n int) {
		if n == k {
			f(prefix, bounds)
			return
		}
		for _, a := range alpha {
			rec(prefix+a, append(bounds[:len(bounds):len(bounds)], len(prefix)+len(a)), n+1)
		}
	}
	rec("", []int{0}, 0)
}

// distinct is a line of k symbols in which symbol i carries i (one of them
// multi-byte), so that loss, repetition and reordering of pieces show.
func distinct(k int) (string, []int) {
	const syms = "abcdefghijklmnopqrstuvwxyzABCDEFGHIJKLMNOPQRSTUVWXYZ0123456789"
	var sb strings.Builder
	bounds := []int{0}
	for i := 0; i < k; i++ {
		if i%5 == 2 {
			sb.WriteString("é")
		} else {
			sb.WriteByte(syms[i%len(syms)])
		}
		bounds = append(bounds, sb.Len())
	}
	return sb.String(), bounds
}

// wrapFamily: (1) 1-3 groups x every laminar vector x every line of up to K
// symbols over {a,b,é}; (2) 4 and 5 groups x every laminar vector on ONE line
// per length whose symbols are all different.
func wrapFamily(w *runner.W, n *int64) {
	maxSym, maxSym4, maxSym5 := 5, 5, 4
	if !w.Quick() {
		maxSym, maxSym4, maxSym5 = 6, 6, 5
	}
	run := func(line string, v []span) {
		*n++
		if !w.Owns(*n) {
			return
		}
		groups := flat(v)
		w.SetCase(func() any { return Case{Kind: "wrap", Line: line, Groups: groups} })
		wrapOne(w, line, groups)
		w.Add("wrapindices_vectors", 1)
	}
	for k := 0; k <= maxSym; k++ {
		symbolStrings(wrapAlphabet, k, func(line string, bounds []int) {
			spans := spansOf(bounds)
			for g := 1; g <= 3; g++ {
				vectors(spans, g, func(v []span) { run(line, v) })
			}
		})
		if w.Expired() {
			return
		}
	}
	for _, gk := range [][2]int{{4, maxSym4}, {5, maxSym5}} {
		for k := 0; k <= gk[1]; k++ {
			line, bounds := distinct(k)
			vectors(spansOf(bounds), gk[0], func(v []span) { run(line, v) })
			if w.Expired() {
				return
			}
		}
	}
}

// sweepSizes: 0..70 and 2^k-1, 2^k, 2^k+1 up to max.
func sweepSizes(max int) []int {
	var out []int
	for i := 0; i <= 70 && i <= max; i++ {
		out = append(out, i)
	}
	for p := 128; p-1 <= max; p *= 2 {
		for _, v := range []int{p - 1, p, p + 1} {
			if v <= max {
				out = append(out, v)
			}
		}
	}
	return out
}

// wrapSweep (size family): the NUMBER of groups (beyond the 12 group colours,
// beyond any fixed-size scratch) and the LENGTH of the line, for a handful of
// fixed shapes; every symbol of the line differs from its neighbours.
func wrapSweep(w *runner.W, n *int64) {
	maxGroups, maxLine := 257, 4097
	if !w.Quick() {
		maxGroups, maxLine = 1025, 65537
	}
	run := func(line string, groups []int) {
		*n++
		if !w.Owns(*n) {
			return
		}
		w.SetCase(func() any { return Case{Kind: "wrap", Line: line, Groups: groups} })
		wrapOne(w, line, groups)
		w.Add("wrapindices_size_sweep", 1)
	}
	for _, g := range sweepSizes(maxGroups) {
		if g == 0 {
			continue
		}
		// a line of 2g+1 symbols; b[i] = byte offset of symbol i
		line, b := distinct(2*g + 1)
		shapes := make([][]int, 8)
		for i := 0; i < g; i++ {
			shapes[0] = append(shapes[0], b[i], b[i+1])               // one symbol each, in line order, adjacent
			shapes[1] = append(shapes[1], b[g-1-i], b[g-i])           // one symbol each, in reverse order
			shapes[2] = append(shapes[2], b[i], b[2*g-i])             // chain: every group inside the one before
			shapes[3] = append(shapes[3], b[g-1-i], b[g+1+i])         // chain: every group around the one before
			shapes[4] = append(shapes[4], b[0], b[2*g+1])             // all the same span (the whole line)
			shapes[5] = append(shapes[5], b[2*i+1], b[2*i+2])         // every other symbol, in line order
			shapes[6] = append(shapes[6], b[2*(g-1-i)+1], b[2*(g-i)]) // every other symbol, in reverse order
			if i == g-1 {
				shapes[7] = append(shapes[7], b[2*g], b[2*g+1]) // only the last group takes part: the last symbol
			} else {
				shapes[7] = append(shapes[7], -1, -1)
			}
		}
		for _, s := range shapes {
			run(line, s)
		}
		if w.Expired() {
			return
		}
	}
	for _, k := range sweepSizes(maxLine) {
		if k < 3 {
			continue
		}
		line, b := distinct(k)
		first, mid, last := span{b[0], b[1]}, span{b[k/2], b[k/2+1]}, span{b[k-1], b[k]}
		three := []span{first, mid, last}
		perms := [][3]int{{0, 1, 2}, {0, 2, 1}, {1, 0, 2}, {1, 2, 0}, {2, 0, 1}, {2, 1, 0}}
		for _, p := range perms {
			run(line, flat([]span{three[p[0]], three[p[1]], three[p[2]]}))
		}
		whole, inner := span{b[0], b[k]}, span{b[1], b[k-1]}
		run(line, flat([]span{whole, inner, mid}))
		run(line, flat([]span{mid, inner, whole}))
		run(line, flat([]span{last, {-1, -1}, whole, first}))
		if w.Expired() {
			return
		}
	}
}
