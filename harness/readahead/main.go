// Harness readahead decides C04: exact line splitting, stable buffers, error
// reporting of both line scanners, for every byte string over {a,\r,\n} up to
// a length, every buffer size, and every way the underlying reader chunks,
// stalls or fails (all enumerated by the mc explorer; stalls and injected
// errors are deviations with a budget of 2, chunk sizes are enumerated
// completely), a size family (sizeFamily) and executions with several scanners
// whose Scan calls interleave (multi.go).
package main

import (
	"bytes"
	"encoding/json"
	"errors"
	"fmt"
	"io"
	"time"

	"rare/pkg/readahead"
	"verif/mc"
	"verif/runner"
)

var errInjected = errors.New("injected read error")

type scanner interface {
	Scan() bool
	Bytes() []byte
	OnError(readahead.OnScannerError)
}

type Case struct {
	Scanner string `json:"scanner"` // immediate | buffered
	Buf     int    `json:"buf"`
	Data    string `json:"data"`
	Vector  []int  `json:"vector"`
	Reads   string `json:"reads,omitempty"` // decoded, informational
	// size family (Data is empty then)
	Shape string `json:"shape,omitempty"`
	Len   int    `json:"len,omitempty"`
	Chunk int    `json:"chunk,omitempty"`
	EOFWD bool   `json:"eof_with_data,omitempty"`
	Stall bool   `json:"stall_before_every_read,omitempty"`
	// multi-scanner family (Scanner/Data are empty then): the unit, the
	// policy-deviation bound of its explorer and the execution's choice vector
	Multi []ScanSpec `json:"multi,omitempty"`
	Bound int        `json:"bound,omitempty"`
}

// ---- size family: everything above has streams of at most 8 bytes and buffers
// of at most 7; thresholds inside the scanners (the production buffer of
// 128 KiB, a regrow, a maximum line length) are only reachable with a size
// dimension. One parameter L, four stream shapes, a few buffer sizes and
// chunking policies; no explorer choices.

func sizeStream(shape string, l int) []byte {
	switch shape {
	case "long-line-then-short": // a*L LF b LF
		return append(append(bytes.Repeat([]byte{'a'}, l), '\n'), 'b', '\n')
	case "crlf-at-L-then-unterminated": // a*(L-1) CR LF c*L
		if l == 0 {
			return []byte("\r\n")
		}
		return append(append(bytes.Repeat([]byte{'a'}, l-1), '\r', '\n'), bytes.Repeat([]byte{'c'}, l)...)
	case "many-short-lines": // (ab LF)*L
		return bytes.Repeat([]byte("ab\n"), l)
	case "growing-lines": // lines of length 0,1,2,.. up to a total of about L bytes
		var b []byte
		for k := 0; len(b) < l; k++ {
			b = append(append(b, bytes.Repeat([]byte{'x'}, k)...), '\n')
		}
		return b
	}
	panic("shape " + shape)
}

var sizeShapes = []string{"long-line-then-short", "crlf-at-L-then-unterminated", "many-short-lines", "growing-lines"}

func sizeLens(quick bool) []int {
	var out []int
	for l := 0; l <= 70; l++ {
		out = append(out, l)
	}
	maxK := 18
	if quick {
		maxK = 17
	}
	for k := 7; k <= maxK; k++ {
		out = append(out, 1<<k-1, 1<<k, 1<<k+1)
	}
	return out
}

func sizeFamily(w *runner.W, caseNo *int64) {
	bufs := []int{16, 4096, 128 * 1024}
	chunks := []int{1 << 30, 4096, 7, 1}
	for _, shape := range sizeShapes {
		for _, l := range sizeLens(w.Quick()) {
			*caseNo++
			if !w.Owns(*caseNo) {
				continue
			}
			if w.Expired() {
				return
			}
			data := sizeStream(shape, l)
			for _, sc := range []string{"immediate", "buffered"} {
				for _, buf := range bufs {
					for _, ch := range chunks {
						if ch == 1 && len(data) > 5000 && (w.Quick() || buf != 4096) {
							continue // one-byte reads of the long streams: thorough, one buffer size
						}
						for _, mode := range []int{0, 1, 2} {
							ewd, stall := mode == 1, mode == 2
							c := Case{Scanner: sc, Buf: buf, Shape: shape, Len: l, Chunk: ch, EOFWD: ewd, Stall: stall}
							w.SetCase(func() any { return c })
							res := runWith(&chunkReader{data: data, fixed: ch, eofWithData: ewd, stallEvery: stall}, sc, buf, data)
							w.Eval(res.lines >= 1)
							w.Add("size_family_runs", 1)
							w.Add("transitions", int64(res.nData))
							if res.sig != "" {
								w.Violation(res.sig, res.detail, c)
							} else {
								w.Outcome(res.outcome)
							}
						}
					}
				}
			}
		}
	}
}

// chunkReader answers every Read by an explorer choice.
type chunkReader struct {
	ex     *mc.Explorer
	data   []byte
	pos    int
	stalls int
	err    error // the first error returned (EOF is sticky; an injected error is returned once)
	errPos int   // bytes handed over up to and including the read that returned err
	log    []string
	nData  int // reads that returned data
	after  int // reads after an error was returned
	// size family: a fixed chunking policy instead of explorer choices
	fixed       int    // > 0: every read returns min(fixed, len(p), rest) bytes
	eofWithData bool   // the last data arrives together with the end condition (io.EOF or endErr)
	stallEvery  bool   // a 0-byte answer (0, nil) before every data-carrying read
	endErr      error  // multi-scanner family: the stream ends with this error instead of io.EOF
	onData      func() // multi-scanner family: called before a data-carrying read answer is written
	stalled     bool
	reads       int
}

func (r *chunkReader) Read(p []byte) (int, error) {
	if r.fixed > 0 {
		r.reads++
		if r.err != nil {
			// after the end (io.EOF is sticky; a scanner that was given a
			// non-EOF error "ends the stream" and never asks again)
			r.after++
			return 0, io.EOF
		}
		end := error(io.EOF)
		if r.endErr != nil {
			end = r.endErr
		}
		rem := len(r.data) - r.pos
		if rem == 0 {
			r.err, r.errPos = end, r.pos
			return 0, end
		}
		if r.stallEvery && !r.stalled && len(p) > 0 {
			r.stalled = true
			return 0, nil
		}
		r.stalled = false
		n := r.fixed
		if n > len(p) {
			n = len(p)
		}
		if n > rem {
			n = rem
		}
		if n > 0 && r.onData != nil {
			r.onData()
		}
		copy(p, r.data[r.pos:r.pos+n])
		r.pos += n
		if n > 0 {
			r.nData++
		}
		if r.pos == len(r.data) && r.eofWithData {
			r.err, r.errPos = end, r.pos
			return n, end
		}
		return n, nil
	}
	if r.err == io.EOF {
		r.after++
		return 0, r.err
	}
	if r.err != nil {
		// a transient fault: the reader would go on delivering the rest of the
		// stream if asked again - a scanner that ended the stream never asks
		r.after++
		n := copy(p, r.data[r.pos:])
		r.pos += n
		r.log = append(r.log, fmt.Sprintf("after-error %d/%d", n, len(p)))
		if n == 0 {
			return 0, io.EOF
		}
		return n, nil
	}
	rem := len(r.data) - r.pos
	c := len(p)
	if rem < c {
		c = rem
	}
	type alt struct {
		n    int
		err  error
		cost int
	}
	var alts []alt
	if rem > 0 && c > 0 {
		for k := c; k >= 1; k-- {
			alts = append(alts, alt{k, nil, 0})
		}
		if c == rem {
			alts = append(alts, alt{rem, io.EOF, 0})
		}
	} else if rem == 0 {
		alts = append(alts, alt{0, io.EOF, 0})
	} else { // len(p)==0 with data remaining: only a 0-byte answer is legal
		alts = append(alts, alt{0, nil, 0})
	}
	if r.stalls < 3 && !(rem > 0 && c == 0) {
		alts = append(alts, alt{0, nil, 1})
	}
	for k := c; k >= 0; k-- {
		alts = append(alts, alt{k, errInjected, 1})
	}
	// the same with an error value that merely looks like an end of input
	alts = append(alts, alt{c, io.ErrUnexpectedEOF, 1}, alt{0, io.ErrUnexpectedEOF, 1})
	costs := make([]int, len(alts))
	for i, a := range alts {
		costs[i] = a.cost
	}
	a := alts[r.ex.ChooseCosts(costs, "read")]
	copy(p, r.data[r.pos:r.pos+a.n])
	r.pos += a.n
	if a.n == 0 && a.err == nil {
		r.stalls++
	}
	if a.n > 0 {
		r.nData++
	}
	if a.err != nil {
		r.err = a.err
		r.errPos = r.pos
	}
	r.log = append(r.log, fmt.Sprintf("%d/%d:%v", a.n, len(p), errName(a.err)))
	return a.n, a.err
}

func errName(e error) string {
	switch e {
	case nil:
		return "nil"
	case io.EOF:
		return "EOF"
	case io.ErrUnexpectedEOF:
		return "ERR(unexpected EOF)"
	}
	return "ERR"
}

// refLines is the specification: segments between '\n'; one trailing '\r'
// removed from newline-terminated lines; a final unterminated non-empty
// segment is a line as is; nothing follows a trailing newline.
func refLines(s []byte) [][]byte {
	var out [][]byte
	for len(s) > 0 {
		i := bytes.IndexByte(s, '\n')
		if i < 0 {
			out = append(out, s)
			break
		}
		l := s[:i]
		if len(l) > 0 && l[len(l)-1] == '\r' {
			l = l[:len(l)-1]
		}
		out = append(out, l)
		s = s[i+1:]
	}
	return out
}

type result struct {
	sig, detail string
	reads       []string
	nData       int
	lines       int
	outcome     string
}

func runOne(ex *mc.Explorer, sc string, buf int, data []byte) (res result) {
	return runWith(&chunkReader{ex: ex, data: data}, sc, buf, data)
}

// scanRun is one scanner over one reader: the lines it handed out (the slices
// themselves and a copy made at the moment of the return) and the error
// callbacks it made.
type scanRun struct {
	sc       string
	buf      int
	data     []byte
	r        *chunkReader
	s        scanner
	errCalls int
	errSeen  error
	got      [][]byte // the slices as handed out (held by the caller)
	snap     [][]byte // their contents at the time of the return
	ended    bool
	family   string // "" (explorer-chunked), "size-family", "multi-scanner"
}

func newScanRun(r *chunkReader, sc string, buf int, data []byte) *scanRun {
	x := &scanRun{sc: sc, buf: buf, data: data, r: r}
	if r.fixed > 0 {
		x.family = "size-family"
	}
	if sc == "immediate" {
		x.s = readahead.NewImmediate(r, buf)
	} else {
		x.s = readahead.NewBuffered(r, buf)
	}
	x.s.OnError(func(e error) { x.errCalls++; x.errSeen = e })
	return x
}

// scan asks for one more line and retains it; false when the scanner ended.
func (x *scanRun) scan() bool {
	if !x.s.Scan() {
		x.ended = true
		return false
	}
	b := x.s.Bytes()
	x.got = append(x.got, b)
	x.snap = append(x.snap, append([]byte{}, b...))
	return true
}

func (x *scanRun) tooMany() (result, bool) {
	if len(x.got) > len(x.data)+4 {
		sig := "C04/" + x.sc + "/too-many-lines"
		if x.family == "multi-scanner" {
			sig += "/" + x.family
		}
		return result{sig: sig, detail: fmt.Sprintf("more than %d lines from %q", len(x.got), x.data), reads: x.r.log}, true
	}
	return result{}, false
}

func runWith(r *chunkReader, sc string, buf int, data []byte) (res result) {
	defer func() {
		if p := recover(); p != nil {
			if d, ok := p.(mc.Divergence); ok {
				panic(d)
			}
			res = result{sig: "C04/" + sc + "/panic", detail: fmt.Sprintf("panic: %v", p), reads: r.log}
		}
	}()
	x := newScanRun(r, sc, buf, data)
	for x.scan() {
		if res, bad := x.tooMany(); bad {
			return res
		}
	}
	return x.verdict()
}

// verdict applies the oracle to a scanner that has ended (Scan returned false).
func (x *scanRun) verdict() (res result) {
	r, sc, buf, data, s := x.r, x.sc, x.buf, x.data, x.s
	got, snap := x.got, x.snap
	// the stream the scanner was given: all bytes handed over before the
	// error (or all of them)
	delivered := data[:r.pos]
	if r.err != nil && r.err != io.EOF {
		delivered = data[:r.errPos]
	}
	want := refLines(delivered)
	res.reads = r.log
	res.nData = r.nData
	res.lines = len(want)
	if x.family == "size-family" {
		res.outcome = fmt.Sprintf("size|%d|%d|%d", len(data), len(want), x.errCalls)
	} else {
		res.outcome = fmt.Sprintf("%q|%d", want, x.errCalls)
	}
	bad := func(class, msg string) result {
		if x.family == "size-family" {
			return result{sig: "C04/" + sc + "/" + class + "/size-family", reads: r.log, nData: r.nData,
				detail: fmt.Sprintf("%s\nscanner=%s buf=%d stream of %d bytes (see the case) read in chunks of %d, eof-with-data=%v\n%d lines wanted, %d returned\nonError calls=%d", msg, sc, buf, len(data), r.fixed, r.eofWithData, len(want), len(got), x.errCalls)}
		}
		sig, reads := "C04/"+sc+"/"+class, fmt.Sprint(r.log)
		if x.family != "" {
			sig += "/" + x.family
			reads = fmt.Sprintf("chunks of at most %d bytes, end condition %s, together with the last data=%v", r.fixed, errName(r.err), r.eofWithData)
		}
		return result{sig: sig, reads: r.log, nData: r.nData,
			detail: fmt.Sprintf("%s\nscanner=%s buf=%d stream=%q reads=%s\nwant lines %q\ngot at return %q\ngot after scan %q\nonError calls=%d", msg, sc, buf, delivered, reads, want, snap, got, x.errCalls)}
	}
	if len(snap) != len(want) {
		return bad("wrong-lines", "number of lines differs from the specification")
	}
	for i := range want {
		if !bytes.Equal(snap[i], want[i]) {
			return bad("wrong-lines", fmt.Sprintf("line %d differs from the specification", i))
		}
	}
	for i := range want {
		if !bytes.Equal(got[i], want[i]) {
			return bad("line-overwritten", fmt.Sprintf("line %d changed after it was handed out", i))
		}
	}
	wantErr := 0
	if r.err != nil && r.err != io.EOF {
		wantErr = 1
	}
	if x.errCalls != wantErr {
		return bad("onerror-count", fmt.Sprintf("OnError called %d times, want %d", x.errCalls, wantErr))
	}
	if wantErr == 1 && x.errSeen != r.err {
		return bad("onerror-value", "OnError received a different error")
	}
	if r.err == nil {
		return bad("ended-without-eof", "Scan returned false although the reader never reported EOF or an error")
	}
	// "A non-EOF read error is reported once, ends the stream": asking again
	// after the end neither yields lines nor reports the error again
	for k := 0; k < 3; k++ {
		if s.Scan() {
			return bad("scan-after-end", "Scan returned true after it had returned false")
		}
	}
	if x.errCalls != wantErr {
		return bad("onerror-count-after-end", fmt.Sprintf("OnError called %d times after Scan was asked again past the end, want %d", x.errCalls, wantErr))
	}
	return res
}

func alphabetStrings(maxLen int, f func(idx int64, s []byte) bool) {
	alpha := []byte{'a', '\r', '\n'}
	var idx int64
	for l := 0; l <= maxLen; l++ {
		cur := make([]int, l)
		for {
			s := make([]byte, l)
			for i, c := range cur {
				s[i] = alpha[c]
			}
			if !f(idx, s) {
				return
			}
			idx++
			i := l - 1
			for ; i >= 0; i-- {
				cur[i]++
				if cur[i] < len(alpha) {
					break
				}
				cur[i] = 0
			}
			if i < 0 {
				break
			}
		}
	}
}

type pass struct{ maxLen, maxBuf, bound int }

func worker(w *runner.W) {
	passes := []pass{{6, 6, 2}}
	if !w.Quick() {
		// bound 2 on the long streams, bound 3 on the shorter ones (the
		// bound-3 pass re-covers the bound-2 executions of its streams)
		passes = []pass{{8, 7, 2}, {6, 6, 3}}
	}
	var caseNo int64
	// the multi-scanner family first: it is the cheapest of the three and must
	// not be the one a soft deadline on a loaded machine cuts off
	multiFamily(w, &caseNo)
	for _, ps := range passes {
		alphabetStrings(ps.maxLen, func(_ int64, data []byte) bool {
			for _, sc := range []string{"immediate", "buffered"} {
				for buf := 1; buf <= ps.maxBuf; buf++ {
					if sc == "buffered" && buf < 2 {
						continue
					}
					caseNo++
					if !w.Owns(caseNo) {
						continue
					}
					if w.Expired() {
						return false
					}
					ex := mc.New(ps.bound)
					for ex.Next() {
						res := runOne(ex, sc, buf, data)
						ex.EndExecution()
						w.Eval(res.nData >= 2 && res.lines >= 1)
						if res.sig != "" {
							w.Violation(res.sig, res.detail, Case{Scanner: sc, Buf: buf, Data: string(data), Vector: ex.Vector(), Reads: fmt.Sprint(res.reads)})
						} else {
							w.Outcome(res.outcome)
						}
						if w.WantSample() && res.nData >= 3 && res.lines >= 2 {
							w.Sample(Case{Scanner: sc, Buf: buf, Data: string(data), Vector: ex.Vector(), Reads: fmt.Sprint(res.reads)})
						}
					}
					w.Add("choice_points", ex.ChoicePoints)
					w.Add("transitions", ex.ChoicePoints)
					w.Add("streams_x_bufsizes", 1)
					w.Max("max_depth", int64(ex.MaxDepth))
				}
			}
			return true
		})
		w.Max("deviation_bound_completed", int64(ps.bound))
	}
	sizeFamily(w, &caseNo)
}

func replay(w *runner.W, raw json.RawMessage) {
	var c Case
	if err := json.Unmarshal(raw, &c); err != nil {
		panic(err)
	}
	if len(c.Multi) > 0 {
		replayMulti(w, c)
		return
	}
	if c.Shape != "" {
		data := sizeStream(c.Shape, c.Len)
		res := runWith(&chunkReader{data: data, fixed: c.Chunk, eofWithData: c.EOFWD, stallEvery: c.Stall}, c.Scanner, c.Buf, data)
		if res.sig != "" {
			w.Violation(res.sig, res.detail, c)
		}
		return
	}
	ex := mc.NewReplay(c.Vector)
	ex.Next()
	res := runOne(ex, c.Scanner, c.Buf, []byte(c.Data))
	if res.sig != "" {
		w.Violation(res.sig, res.detail, c)
	}
}

func main() {
	runner.Main(&runner.Spec{
		Name:       "readahead",
		Properties: []string{"C04"},
		Level:      "model_checking",
		Rule: func(prop, tier string) string {
			return "every byte string over {a,CR,LF} up to length 6 (quick) / 8 (thorough) x scanner {immediate, buffered} x buffer size 1..6/7 (buffered from 2) x every answer sequence of the underlying reader: all chunk sizes and data+EOF (free choices), up to 2 deviations (thorough: also 3 deviations for streams up to length 6) among 0-byte stalls and an injected non-EOF error (a plain error or io.ErrUnexpectedEOF) with 0..k bytes at any read, after which the reader would go on delivering the rest of the stream if asked; executed on the real scanners, lines retained and compared after the scan; plus a size family without explorer choices: 4 stream shapes (a line of L bytes then a short one; CR LF ending exactly at L then an unterminated rest of L bytes; L lines of 2 bytes; lines of growing length up to L bytes in total) for L = 0..70 and 2^k-1, 2^k, 2^k+1 (k = 7..17 quick / 18 thorough) x buffer sizes {16, 4096, 131072 = the production size} x reads of {everything asked for, 4096, 7, 1} bytes x {last data without io.EOF, with io.EOF, a 0-byte stall before every data-carrying read (the number of stalls grows with the stream)}; after the end Scan is asked three more times (no line, no second error report); plus a multi-scanner family (what two scanners of one process can share - a package-level free list or scratch buffer - no execution with one scanner can show): 2 scanners (thorough: also 3) in one execution, kinds {immediate, buffered}^k x buffer sizes {2,3,4}^k x streams {every string over {letter, LF} up to length 3, CR LF, letter CR LF, letter CR}^k with the letter a/b/c naming the scanner (units in which no scanner can hand out a non-empty line are left out); scanner #0 is created first, after that every step is a free explorer choice among Scan of any scanner that has not ended and creation of the next scanner (all interleavings: one to its end then the other, alternating, the second created before or after the first ended); per scanner a free choice how its stream ends (io.EOF or an injected non-EOF error) and per execution up to 1 deviation (thorough: 2) among {the end condition together with the last data, 1-byte reads, both} of one scanner; oracle: the single-scanner oracle on every scanner once all have ended, every slice of every scanner compared with the copy made when it was handed out after all scanners ended and were asked past their end, and - because package-level state cannot be reset inside a process, and a caller may hold lines that long anyway - the slices of the preceding 32 executions of the unit compared again after every execution and all of the unit's at its end; thorough: the same with 2 deviations, 2 scanners x streams up to length 4 x buffer sizes {1,3,5} with 1 deviation, and 3 scanners x strings over {letter, LF} up to length 2 x buffer size 2 without deviation. non-trivial = at least 2 data-carrying reads and at least 1 line (multi-scanner executions: a read delivered data to one scanner while a non-empty line handed out by another scanner was held); every execution is a distinct (stream, buffer, answer sequence) triple resp. (unit, schedule, reader policies) triple"
		},
		Assumptions: func(string) []string {
			return []string{"the reader obeys io.Reader (n <= len(p)); after an error it keeps returning that error", "byte values outside {a,CR,LF} behave like 'a' (the scanners only compare against LF and CR)", "multi-scanner family: the scanners of one execution are driven from one goroutine, interleaved at Scan granularity (two scanners inside Scan at the same instant - a data race on shared state - is outside this family); a violation found through lines held from an earlier execution is replayed by re-running that execution alone and, if that shows nothing, the whole unit from its first execution in a fresh process"}
		},
		Worker:         worker,
		Replay:         replay,
		QuickBudget:    5 * time.Minute,
		ThoroughBudget: 25 * time.Minute,
	})
}
