package main

// Multi-scanner family. The statement "a slice handed out for one line keeps
// its contents for as long as the caller holds it" does not end with the
// scanner that handed the slice out: the program runs one scanner per input
// file, keeps the lines of a finished file queued in batches and meanwhile
// reads the next files with other scanners. Anything two scanners can share
// (a package-level free list or scratch buffer, a pooled read buffer handed
// back at the end of a stream or at a regrow) is invisible to an execution
// with one scanner. Here 2 (thorough: also 3) scanners live in one execution:
// when each further scanner is created and whose Scan is called next are
// explorer choices (all interleavings), every slice of every scanner is held
// to the end of the execution - and beyond it, while the following executions
// of the unit run in the same process - and compared with the copy made when
// it was handed out. The per-scanner splitting/error oracle is the one of the
// single-scanner families.

import (
	"bytes"
	"fmt"
	"strings"

	"verif/mc"
	"verif/runner"
)

type ScanSpec struct {
	Kind string `json:"scanner"` // immediate | buffered
	Buf  int    `json:"buf"`
	Data string `json:"data"`
}

// policy is how a scanner's reader answers: chunk size, and how the stream ends.
type policy struct {
	chunk    int  // every read returns at most this many bytes
	withData bool // the end condition arrives together with the last data
	err      bool // the stream ends with an injected non-EOF error instead of io.EOF
}

func (p policy) String() string {
	s := "reads of everything asked for"
	if p.chunk == 1 {
		s = "1-byte reads"
	}
	e := "io.EOF"
	if p.err {
		e = "an injected error"
	}
	if p.withData {
		return s + ", " + e + " together with the last data"
	}
	return s + ", " + e + " on a read of its own"
}

// deviationsFor lists the reader policies for a stream of n bytes and the
// chosen end condition; entry 0 (everything asked for, the end condition on a
// read of its own) is the default, every other one is a deviation.
func deviationsFor(n int, err bool) []policy {
	out := []policy{{1 << 30, false, err}}
	if n >= 1 {
		out = append(out, policy{1 << 30, true, err})
	}
	if n >= 2 { // 1-byte reads of a stream of 1 byte are the same answers as above
		out = append(out, policy{1, false, err}, policy{1, true, err})
	}
	return out
}

// heldLines are the slices one scanner of one execution handed out; they stay
// held while later executions of the unit run.
type heldLines struct {
	spec   ScanSpec
	got    [][]byte
	snap   [][]byte
	exec   int64
	vector []int
}

type unitState struct {
	held  []heldLines
	execs int64
}

const recheckWindow = 32 // executions re-checked after every execution (all of the unit's at its end)

// recheck compares the held slices of the executions from index `from` of
// st.held on with their snapshots; a changed one is reported once (the
// snapshot is refreshed).
func (st *unitState) recheck(from int) (sig, detail string) {
	if from < 0 {
		from = 0
	}
	for hi := from; hi < len(st.held); hi++ {
		h := &st.held[hi]
		for i := range h.got {
			if !bytes.Equal(h.got[i], h.snap[i]) {
				sig = "C04/" + h.spec.Kind + "/line-overwritten/multi-scanner"
				detail = fmt.Sprintf("a line that is still held changed while other scanners were created and scanned in the same process\nline %d of the %s scanner (buf=%d) over %q of execution %d of this unit (choice vector %v): handed out as %q, now %q; this is execution %d",
					i, h.spec.Kind, h.spec.Buf, h.spec.Data, h.exec, h.vector, h.snap[i], h.got[i], st.execs)
				h.snap[i] = append([]byte{}, h.got[i]...)
				return
			}
		}
	}
	return "", ""
}

type multiResult struct {
	sig, detail string
	nontrivial  bool
	outcome     string
	steps       int
	lines       int
}

// runMulti is one execution: scanner 0 is created, then every step is an
// explorer choice among "Scan of a live scanner" and "create the next
// scanner"; a scanner is live until its Scan returned false.
func runMulti(ex *mc.Explorer, specs []ScanSpec, st *unitState) (res multiResult) {
	k := len(specs)
	runs := make([]*scanRun, 0, k)
	pols := make([]policy, 0, k)
	var sched []int // -1: create, i: Scan of scanner i
	cur := 0
	nonEmpty := make([]int, k) // non-empty lines handed out so far per scanner
	overlap := false           // a read delivered data while another scanner's non-empty line was held
	schedule := func() string {
		var sb strings.Builder
		n := 0
		for _, a := range sched {
			if a < 0 {
				fmt.Fprintf(&sb, " new#%d(%s buf=%d %q; %s)", n, specs[n].Kind, specs[n].Buf, specs[n].Data, pols[n])
				n++
			} else {
				fmt.Fprintf(&sb, " scan#%d", a)
			}
		}
		return sb.String()
	}
	defer func() {
		if p := recover(); p != nil {
			if d, ok := p.(mc.Divergence); ok {
				panic(d)
			}
			res = multiResult{sig: "C04/" + specs[cur].Kind + "/panic/multi-scanner", detail: fmt.Sprintf("panic: %v\nschedule:%s", p, schedule())}
		}
	}()
	create := func() {
		i := len(runs)
		cur = i
		data := []byte(specs[i].Data)
		// how the stream ends (io.EOF or a non-EOF error) is a free choice,
		// how the reader chunks is a deviation from "everything asked for"
		ps := deviationsFor(len(data), ex.ChooseFree(2, "end") == 1)
		costs := make([]int, len(ps))
		for j := 1; j < len(ps); j++ {
			costs[j] = 1
		}
		p := ps[ex.ChooseCosts(costs, "reads")]
		pols = append(pols, p)
		sched = append(sched, -1)
		r := &chunkReader{data: data, fixed: p.chunk, eofWithData: p.withData}
		if p.err {
			r.endErr = errInjected
		}
		r.onData = func() {
			for j := range nonEmpty {
				if j != i && nonEmpty[j] > 0 {
					overlap = true
				}
			}
		}
		x := newScanRun(r, specs[i].Kind, specs[i].Buf, data)
		x.family = "multi-scanner"
		runs = append(runs, x)
	}
	create()
	acts := make([]int, 0, k+1)
	for {
		acts = acts[:0]
		for i, x := range runs {
			if !x.ended {
				acts = append(acts, i)
			}
		}
		if len(runs) < k {
			acts = append(acts, -1)
		}
		if len(acts) == 0 {
			break
		}
		a := acts[ex.ChooseFree(len(acts), "step")]
		res.steps++
		if a < 0 {
			create()
			continue
		}
		cur = a
		sched = append(sched, a)
		x := runs[a]
		if x.scan() {
			if len(x.got[len(x.got)-1]) > 0 {
				nonEmpty[a]++
			}
			if r, bad := x.tooMany(); bad {
				return multiResult{sig: r.sig, detail: r.detail + "\nschedule:" + schedule()}
			}
		}
	}
	// every scanner has ended; the per-scanner oracle (splitting, the held
	// lines, the error report, Scan past the end) on each
	var outc []string
	for i, x := range runs {
		cur = i
		r := x.verdict()
		if r.sig != "" {
			return multiResult{sig: r.sig, detail: r.detail + "\nscanner #" + fmt.Sprint(i) + " of the schedule:" + schedule()}
		}
		res.lines += r.lines
		outc = append(outc, x.sc[:1]+r.outcome)
	}
	res.nontrivial = overlap
	res.outcome = "multi|" + strings.Join(outc, "|")
	// the lines stay held: while the remaining Scan-past-the-end calls above
	// ran, and while the next executions of the unit run
	vec := ex.Vector()
	for i, x := range runs {
		if len(x.got) > 0 {
			st.held = append(st.held, heldLines{spec: specs[i], got: x.got, snap: x.snap, exec: st.execs, vector: vec})
		}
	}
	if len(st.held) > 1024 {
		st.held = append(st.held[:0], st.held[len(st.held)-512:]...)
	}
	if sig, detail := st.recheck(len(st.held) - recheckWindow*k); sig != "" {
		return multiResult{sig: sig, detail: detail + "\nschedule of this execution:" + schedule()}
	}
	return res
}

// ---- the enumeration

// multiStreams: every string over {letter, LF} up to maxLen, plus the CR
// shapes; the letter identifies the scanner (a, b, c) so that bytes of one
// stream showing up in a line of another are visible.
func multiStreams(letter byte, maxLen int, crShapes bool) []string {
	seen := map[string]bool{}
	var out []string
	add := func(s string) {
		if !seen[s] {
			seen[s] = true
			out = append(out, s)
		}
	}
	gen := func(alpha []byte, maxLen int) {
		for l := 0; l <= maxLen; l++ {
			idx := make([]int, l)
			for {
				b := make([]byte, l)
				for i, c := range idx {
					b[i] = alpha[c]
				}
				add(string(b))
				i := l - 1
				for ; i >= 0; i-- {
					idx[i]++
					if idx[i] < len(alpha) {
						break
					}
					idx[i] = 0
				}
				if i < 0 {
					break
				}
			}
		}
	}
	gen([]byte{letter, '\n'}, maxLen)
	if crShapes {
		for _, s := range []string{"\r\n", "L\r\n", "L\r"} {
			add(strings.ReplaceAll(s, "L", string(letter)))
		}
	}
	return out
}

type multiPass struct {
	scanners int
	maxLen   int   // streams over {letter, LF} up to this length
	crShapes bool  // plus CR LF, letter CR LF, letter CR
	bufs     []int // buffer sizes of every scanner (buffered: from 2)
	bound    int   // reader-policy deviations per execution
}

func multiPasses(quick bool) []multiPass {
	if quick {
		return []multiPass{{2, 3, true, []int{2, 3, 4}, 1}}
	}
	return []multiPass{
		{2, 3, true, []int{2, 3, 4}, 2}, // the quick pass with one more deviation (re-covers it)
		{2, 4, true, []int{1, 3, 5}, 1},
		{3, 2, false, []int{2}, 0},
	}
}

// forUnits enumerates the units (one unit = kinds x buffer sizes x streams of
// all scanners) of a pass in a fixed order.
func (ps multiPass) forUnits(f func(specs []ScanSpec) bool) {
	kinds := []string{"immediate", "buffered"}
	streams := make([][]string, ps.scanners)
	for i := range streams {
		streams[i] = multiStreams(byte('a'+i), ps.maxLen, ps.crShapes)
	}
	specs := make([]ScanSpec, ps.scanners)
	var rec func(i int) bool
	rec = func(i int) bool {
		if i == ps.scanners {
			useful := false // a unit in which no scanner can hand out a non-empty line holds nothing
			for _, s := range specs {
				for _, l := range refLines([]byte(s.Data)) {
					if len(l) > 0 {
						useful = true
					}
				}
			}
			if !useful {
				return true
			}
			return f(append([]ScanSpec{}, specs...))
		}
		for _, kind := range kinds {
			for _, buf := range ps.bufs {
				if kind == "buffered" && buf < 2 {
					continue
				}
				for _, d := range streams[i] {
					specs[i] = ScanSpec{kind, buf, d}
					if !rec(i + 1) {
						return false
					}
				}
			}
		}
		return true
	}
	rec(0)
}

// runUnit explores one unit completely; report is called for every violation.
func runUnit(w *runner.W, specs []ScanSpec, bound int, report func(sig, detail string, vector []int)) {
	st := &unitState{}
	ex := mc.New(bound)
	for ex.Next() {
		res := runMulti(ex, specs, st)
		ex.EndExecution()
		st.execs++
		if w != nil {
			w.Eval(res.nontrivial)
		}
		if res.sig != "" {
			report(res.sig, res.detail, ex.Vector())
		} else if w != nil {
			w.Outcome(res.outcome)
			w.Add("transitions", int64(res.steps))
			if w.WantSample() && res.nontrivial && res.lines >= 3 {
				w.Sample(Case{Multi: specs, Bound: bound, Vector: ex.Vector()})
			}
		}
	}
	// the end of the unit: everything still held once more
	if sig, detail := st.recheck(0); sig != "" {
		report(sig, detail+"\n(found at the end of the unit)", nil)
	}
	if w != nil {
		w.Add("multi_scanner_runs", st.execs)
		w.Add(fmt.Sprintf("multi_scanner_runs_%d_scanners_bound_%d", len(specs), bound), st.execs)
		w.Add("choice_points", ex.ChoicePoints)
		w.Add("multi_scanner_units", 1)
		w.Max("max_depth", int64(ex.MaxDepth))
	}
}

func multiFamily(w *runner.W, caseNo *int64) {
	for _, ps := range multiPasses(w.Quick()) {
		stop := false
		ps.forUnits(func(specs []ScanSpec) bool {
			*caseNo++
			if !w.Owns(*caseNo) {
				return true
			}
			if w.Expired() {
				stop = true
				return false
			}
			c := Case{Multi: specs, Bound: ps.bound}
			w.SetCase(func() any { return c })
			runUnit(w, specs, ps.bound, func(sig, detail string, vector []int) {
				w.Violation(sig, detail, Case{Multi: specs, Bound: ps.bound, Vector: vector})
			})
			return true
		})
		if stop {
			return
		}
		w.Max("multi_scanner_max_scanners", int64(ps.scanners))
	}
}

// replayMulti: the execution alone first (a fresh process, so it is the first
// use of the package); if that shows nothing the whole unit from its first
// execution, as the worker ran it.
func replayMulti(w *runner.W, c Case) {
	found := false
	if len(c.Vector) > 0 {
		st := &unitState{}
		ex := mc.NewReplay(c.Vector)
		ex.Next()
		res := runMulti(ex, c.Multi, st)
		if res.sig != "" {
			found = true
			w.Violation(res.sig, res.detail, c)
		}
	}
	if found {
		return
	}
	runUnit(nil, c.Multi, c.Bound, func(sig, detail string, vector []int) {
		w.Violation(sig, detail, Case{Multi: c.Multi, Bound: c.Bound, Vector: vector})
	})
}
