package exprgen

import (
	"strings"

	"rare/pkg/expressions"
	"rare/pkg/expressions/funclib"
	"rare/pkg/extractor"
	"rare/pkg/matchers"
	"rare/pkg/matchers/fastregex"
)

// Ctx is a named match context.
type Ctx struct {
	Name string
	Ctx  expressions.KeyBuilderContext
}

// StdKeys are the named keys of the array contexts. Real slice-space contexts
// have their own (regex group names, src, line, ., #, @).
func StdKeys() map[string]string { return stdKeys }

var stdKeys = map[string]string{"key": "K", "n": "3", "k": "2"}

// ArrayCtx builds the context `rare expression -d .. -k ..` uses.
func ArrayCtx(groups []string, keys map[string]string) expressions.KeyBuilderContext {
	return &expressions.KeyBuilderContextArray{Elements: groups, Keys: keys}
}

type captureIgnore struct{ ctx expressions.KeyBuilderContext }

func (c *captureIgnore) IgnoreMatch(ctx expressions.KeyBuilderContext) bool {
	c.ctx = ctx
	return true
}

// RealCtx runs one line through the real extractor with a real regex matcher
// and hands out the *extractor.SliceSpaceExpressionContext the extractor built
// for it (captured through the IgnoreSet interface, which receives the context
// before the extraction expression does).
func RealCtx(regex, line, source string) expressions.KeyBuilderContext {
	in := make(chan extractor.InputBatch, 1)
	capt := &captureIgnore{}
	ex, err := extractor.New(in, &extractor.Config{
		Matcher: matchers.ToFactory(fastregex.MustCompile(regex)),
		Extract: "{0}",
		Workers: 1,
		Ignore:  capt,
	})
	if err != nil {
		panic(err)
	}
	in <- extractor.InputBatch{Batch: []extractor.BString{[]byte(line)}, Source: source, BatchStart: 7}
	close(in)
	for range ex.ReadChan() {
	}
	if capt.ctx == nil {
		panic("exprgen: regex " + regex + " did not match " + line)
	}
	return capt.ctx
}

// FixedContexts are the contexts every program is evaluated on in addition to
// its own case context: all-empty (what the optimiser probes with), numeric,
// huge magnitudes, odd bytes (invalid UTF-8, NUL, blank, quote), and two real
// slice-space contexts (named group, non-participating group; negative number
// and non-UTF-8 text).
func FixedContexts() []Ctx {
	return []Ctx{
		{"empty", ArrayCtx(nil, nil)},
		{"numeric", ArrayCtx([]string{"7", "3", "2", "1"}, map[string]string{"key": "5", "n": "3", "k": "2"})},
		{"huge", ArrayCtx([]string{"9223372036854775807", "-9223372036854775808", "1e308", "-65536"}, map[string]string{"key": "9223372036854775807", "n": "-9223372036854775808", "k": "1e308"})},
		{"oddbytes", ArrayCtx([]string{"\xff\xfe", "a\x00b", " ", "\""}, map[string]string{"key": "\x00", "n": " ", "k": "\xff"})},
		{"real-a", RealCtx(`(\d+) (?P<key>\w+)( opt)?`, "42 foo", "src.log")},
		{"real-b", RealCtx(`(?P<n>-?\d+)\|(?P<k>.*)`, "-1|\xff\x00 z", "")},
	}
}

// Sentinel is a context that is planted into the pooled sub-contexts of the
// range functions before a case runs (see PlantPool). Its GetKey either
// returns a fixed value or trips.
type Sentinel struct {
	Value string
	Trip  bool
	Armed bool
}

// Tripwire is the panic value of an armed sentinel.
type Tripwire struct{}

func (s *Sentinel) GetMatch(int) string { return "" }
func (s *Sentinel) GetKey(string) string {
	if s.Trip && s.Armed {
		panic(Tripwire{})
	}
	return s.Value
}

var plantExpr *expressions.CompiledKeyBuilder

// PlantPool makes the pool state of stdlib's shared sub-context pool
// deterministic: it evaluates a 6-deep nest of @map on ctx, so that the six
// sub-context objects on top of the (LIFO) pool all have a parent chain ending
// in ctx. Without this the pooled objects carry the context of whatever
// expression used them last (or nil in a fresh process), and a helper that
// forgets to reset its sub-context would behave differently depending on the
// order in which a shard executes its cases.
func PlantPool(ctx expressions.KeyBuilderContext) {
	if plantExpr == nil {
		// not optimised: the nest has no lookups and would be folded away
		kb := funclib.NewKeyBuilderEx(false)
		n := C("@map", L("x"), R(0))
		for i := 0; i < 5; i++ {
			n = C("@map", L("x"), n)
		}
		c, err := kb.Compile(n.Print(0))
		if err != nil {
			panic(err)
		}
		plantExpr = c
	}
	plantExpr.BuildKey(ctx)
}

// PlanEntry is one context a program is evaluated on.
type PlanEntry struct {
	Ctx
	// Hazard: on this context the program is known not to return on the
	// unchanged tree (the loop variable of @range leaves int64). exprcrash runs
	// it in its sandbox, expropt leaves it out.
	Hazard bool
}

// Plan selects the contexts of a program: its own case context first, then the
// fixed contexts, minus those on which the program would exhaust resources by
// design (see ExcludedByDesign) or repeat work without adding anything.
func Plan(p *Prog, fixed []Ctx) []PlanEntry {
	own := PlanEntry{Ctx: Ctx{Name: "case", Ctx: ArrayCtx(p.Groups, StdKeys())}, Hazard: p.Hazard != ""}
	byName := func(names ...string) []PlanEntry {
		out := []PlanEntry{own}
		for _, n := range names {
			for _, f := range fixed {
				if f.Name == n {
					// a program without references behaves the same everywhere
					out = append(out, PlanEntry{Ctx: f, Hazard: own.Hazard && !p.Dynamic})
				}
			}
		}
		return out
	}
	switch {
	case p.Family == "math", p.Family == "rng":
		// the pairs of group values are the point / own context only
		return []PlanEntry{own}
	case p.Heavy:
		return []PlanEntry{own}
	case p.Family == "raw":
		return byName("empty")
	case p.Family == "for":
		// contexts whose keys n and k are numbers, so that the loop conditions
		// are not error markers (which are truthy and never end)
		return byName("numeric")
	case p.Fn == "@for":
		// d1/d2: the condition is blank in the case context; on the all-empty
		// context every group is blank as well
		return byName("empty")
	case !p.Dynamic:
		return byName("empty", "real-a")
	}
	nested := strings.Contains(p.Template, "{@range")
	if p.Family == "d1" && p.Fn == "@range" {
		out := []PlanEntry{own}
		for _, f := range fixed {
			vals := make([]string, len(p.ArgVals))
			for i, v := range p.ArgVals {
				if p.ArgIsGroup[i] {
					v = f.Ctx.GetMatch(i)
				}
				vals[i] = v
			}
			if ExcludedByDesign("@range", vals) != "" || RangeOverflows(vals) {
				// the overflowing combinations are run by the rng family
				continue
			}
			out = append(out, PlanEntry{Ctx: f})
		}
		return out
	}
	out := []PlanEntry{own}
	for _, f := range fixed {
		if nested && f.Name == "huge" {
			// a nested @range over a huge group value is a huge range by design
			continue
		}
		out = append(out, PlanEntry{Ctx: f})
	}
	return out
}
