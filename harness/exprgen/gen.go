package exprgen

import (
	"errors"
	"fmt"
	"math/big"
	"sort"
	"strconv"
	"strings"

	"rare/pkg/expressions/funclib"
	"rare/pkg/expressions/stdlib"
)

const (
	MaxInt = "9223372036854775807"
	MinInt = "-9223372036854775808"
)

// Full is the boundary pool of DESIGN §4 C08.
var Full = []string{
	"", " ", "0", "-1", "1", "2", "3.5", "-0", "1e3", "65536", MaxInt, MinInt,
	"x", "a b", "a\x00b\x00c", "\"", "\xff\xfe", strings.Repeat("7", 300),
}

// Reduced is the pool used where the full pool would be too large.
var Reduced = []string{"", "0", "-1", "2", "3.5", MaxInt, "x", "a b"}

// Tiny is the pool used for the third "other" argument of depth-2 programs in
// the quick tier.
var Tiny = []string{"", "-1", "2", "x"}

// Extras are per-function, per-position keywords without which a function's
// evaluation stage is never reached (named formats, colours, scalers, a
// parsable date, a JSON document ...). They are added to the pool of that
// position only.
var Extras = map[string]map[int][]string{
	"color":      {0: {"red"}},
	"time":       {0: {"2020-03-01T10:00:00Z", "live", "now", "delta"}, 1: {"auto", "RFC3339"}, 2: {"America/New_York", "local"}},
	"timeformat": {0: {"1583020800"}, 1: {"MONTHNAME"}, 2: {"America/New_York"}},
	"timeattr":   {0: {"1583020800"}, 1: {"quarter", "yearweek"}, 2: {"local"}},
	"buckettime": {0: {"2020-03-01T10:00:00Z"}, 1: {"days", "n"}, 2: {"auto"}, 3: {"local"}},
	"duration":   {0: {"1h30m"}},
	"bar":        {3: {"log10", "log2"}},
	"json":       {0: {`{"a":[1,2],"b":"x"}`}, 1: {"a.0", "#"}},
	"format":     {0: {"%s|%5d|%v", "%*d", "%[3]s"}},
	"lookup":     {1: {"a b\nc\n#d e"}, 2: {"#"}},
	"haskey":     {1: {"a b\nc\n#d e"}, 2: {"#"}},
	"load":       {0: {LoadFixture}},
	"!":          {0: {"[0]+1", "2(3)"}},
	"@split":     {0: {"a,b,,c"}, 1: {","}},
	"@join":      {1: {","}},
	"csv":        {0: {"a,b"}},
	"basename":   {0: {"/a/b.txt"}},
	"dirname":    {0: {"/a/b.txt"}},
	"extname":    {0: {"/a/b.txt"}},
	"bytesize":   {0: {"18446744073709551615"}},
	"bytesizesi": {0: {"18446744073709551615"}},
}

// LoadFixture is the file name {load ..} is pointed at; the harness creates it
// in its working directory.
const LoadFixture = "exprgen-fixture.txt"

// Prog is one generated program with its own case context.
type Prog struct {
	Family   string // d1 | hof | for | d2 | math | raw
	Fn       string // function under test ("" for raw)
	Arity    int
	Template string
	Groups   []string // groups of the case context ({i} refers to Groups[i])
	Dynamic  bool     // contains a group or key reference
	TimeDep  bool     // reads the wall clock ({time now|live|delta})
	Heavy    bool     // a non-terminating @for (1e6 iterations): fewer contexts
	Hazard   string   // known not to return on the unchanged tree (run only in a sandbox)
	// d1 only: the run-time value of every argument and whether it is read
	// from group i of the context
	ArgVals    []string
	ArgIsGroup []bool
}

// Block is the sharding unit: a few thousand programs at most.
type Block struct {
	ID   string
	Each func(yield func(*Prog) bool) bool
}

// Functions returns the names of funclib.Builtins, sorted.
func Functions() []string {
	var out []string
	for name := range funclib.Builtins {
		out = append(out, name)
	}
	sort.Strings(out)
	return out
}

// ArityRejected compiles {fn "" "" ..} with the real table and reports whether
// the function rejects the argument count as such.
func ArityRejected(fn string, arity int) (rejected bool) {
	defer func() {
		if recover() != nil {
			rejected = false
		}
	}()
	args := make([]*Node, arity)
	for i := range args {
		args[i] = L("")
	}
	_, err := funclib.NewKeyBuilderEx(false).Compile(C(fn, args...).Print(0))
	return err != nil && errors.Is(err, stdlib.ErrArgCount)
}

func posPool(fn string, pos int, base []string) []string {
	ex := Extras[fn][pos]
	if len(ex) == 0 {
		return base
	}
	out := append([]string{}, base...)
	return append(out, ex...)
}

// Bounds selects the size of the enumeration.
type Bounds struct {
	Tier string
	// D1FullArity: up to this arity every argument ranges over the full pool
	// (+extras); above it (up to D1MaxArity) over the reduced pool (+extras).
	D1FullArity, D1MaxArity int
	// D2Arity3Pool is the pool of the two other arguments of an arity-3
	// depth-2 program.
	D2Arity3Pool []string
	RawLen       int
}

func BoundsFor(tier string) Bounds {
	if tier == "thorough" {
		return Bounds{Tier: tier, D1FullArity: 4, D1MaxArity: 5, D2Arity3Pool: Reduced, RawLen: 8}
	}
	return Bounds{Tier: tier, D1FullArity: 3, D1MaxArity: 4, D2Arity3Pool: Tiny, RawLen: 6}
}

// ---- exclusions by construction ------------------------------------------

// countPositions lists, per function, the argument positions that ask for an
// amount of output (a repeat count, a bar length, a number of decimals).
// A value of magnitude > 65536 there requests a correspondingly large result
// by design (DESIGN §4 C08 N: "resource exhaustion by design").
var countPositions = map[string][]int{
	"repeat":     {1},
	"bar":        {2},
	"round":      {1},
	"percent":    {1},
	"bytesize":   {1},
	"bytesizesi": {1},
	"downscale":  {1},
}

func bigInt(s string) (*big.Int, bool) {
	if _, err := strconv.Atoi(s); err != nil {
		// only what the helpers themselves accept as an int
		return nil, false
	}
	v, ok := new(big.Int).SetString(s, 10)
	return v, ok
}

var limit65536 = big.NewInt(65536)

// rangeCount is the mathematical number of elements of {@range start stop incr}.
func rangeCount(start, stop, incr *big.Int) *big.Int {
	if incr.Sign() == 0 {
		return big.NewInt(0)
	}
	d := new(big.Int).Sub(stop, start)
	if d.Sign() == 0 || d.Sign() != incr.Sign() {
		return big.NewInt(0)
	}
	q, r := new(big.Int).QuoRem(d, incr, new(big.Int))
	if r.Sign() != 0 {
		q.Add(q, big.NewInt(1))
	}
	return q
}

func rangeArgs(vals []string) (start, stop, incr *big.Int, ok bool) {
	start, incr = big.NewInt(0), big.NewInt(1)
	var ok1, ok2, ok3 = true, true, true
	switch len(vals) {
	case 1:
		stop, ok2 = bigInt(vals[0])
	case 2:
		start, ok1 = bigInt(vals[0])
		stop, ok2 = bigInt(vals[1])
	case 3:
		start, ok1 = bigInt(vals[0])
		stop, ok2 = bigInt(vals[1])
		incr, ok3 = bigInt(vals[2])
	default:
		return nil, nil, nil, false
	}
	return start, stop, incr, ok1 && ok2 && ok3
}

// ExcludedByDesign reports why a call is left out of the enumeration: with
// these run-time argument values it asks for more than 65536 units of output
// (or, for @for, for rare's own cap of 1e6 iterations). vals[i] is the value of
// argument i; an unknown value is given as a non-number.
func ExcludedByDesign(fn string, vals []string) string {
	for _, pos := range countPositions[fn] {
		if pos < len(vals) {
			if v, ok := bigInt(vals[pos]); ok && new(big.Int).Abs(v).Cmp(limit65536) > 0 {
				// DESIGN: "counts >65536 other than ±MaxInt are excluded". ±MaxInt64
				// stay in for repeat (strings.Repeat refuses them at once); the
				// decimals/length arguments of the other helpers are handed to
				// strconv/loops that really produce that many characters.
				if fn == "repeat" && (vals[pos] == MaxInt || vals[pos] == MinInt) {
					continue
				}
				return "count-like argument beyond 65536"
			}
		}
	}
	switch fn {
	case "@range":
		if start, stop, incr, ok := rangeArgs(vals); ok {
			if rangeCount(start, stop, incr).Cmp(limit65536) > 0 {
				return "range of more than 65536 elements"
			}
		}
	case "@for":
		// {@for start cond incr}: a condition that is a non-blank constant never
		// ends (1e6 iterations by design); those loops are generated by the
		// dedicated for-family only. Values longer than 16 bytes would make the
		// 1e6-element result hundreds of MB.
		if len(vals) == 3 {
			if strings.TrimSpace(vals[1]) != "" {
				return "non-terminating @for"
			}
			if len(vals[0]) > 16 || len(vals[2]) > 16 {
				return "@for over a long value"
			}
		}
	}
	return ""
}

var (
	bigMaxInt, _ = new(big.Int).SetString(MaxInt, 10)
	bigMinInt, _ = new(big.Int).SetString(MinInt, 10)
)

// RangeOverflows reports whether the loop variable of {@range start stop incr}
// would leave int64 before the mathematical end of the (small) range is
// reached: the last produced value plus incr is outside int64.
func RangeOverflows(vals []string) bool {
	start, stop, incr, ok := rangeArgs(vals)
	if !ok || incr.Sign() == 0 {
		return false
	}
	n := rangeCount(start, stop, incr)
	if n.Sign() == 0 {
		return false
	}
	// value after the last element
	next := new(big.Int).Add(start, new(big.Int).Mul(n, incr))
	return next.Cmp(bigMaxInt) > 0 || next.Cmp(bigMinInt) < 0
}

// ---- family d1: every function x arity x pool x {constant, group} ---------

type argChoice struct {
	val   string
	group bool
}

func d1Prog(fn string, choices []argChoice) *Prog {
	args := make([]*Node, len(choices))
	groups := make([]string, len(choices))
	vals := make([]string, len(choices))
	dyn := false
	for i, c := range choices {
		vals[i] = c.val
		if c.group {
			args[i] = R(i)
			groups[i] = c.val
			dyn = true
		} else {
			args[i] = L(c.val)
		}
	}
	if ExcludedByDesign(fn, vals) != "" {
		return nil
	}
	if fn == "@for" && len(choices) == 3 && choices[1].group {
		// inside @for {1} is the loop index, not group 1: always truthy, the
		// loop never ends (1e6 iterations by design; see the for-family)
		return nil
	}
	isGroup := make([]bool, len(choices))
	for i, c := range choices {
		isGroup[i] = c.group
	}
	p := &Prog{Family: "d1", Fn: fn, Arity: len(choices), Template: C(fn, args...).Print(0), Groups: groups, Dynamic: dyn, ArgVals: vals, ArgIsGroup: isGroup}
	if fn == "time" {
		p.TimeDep = true
	}
	if fn == "@range" && RangeOverflows(vals) {
		// known not to return on the unchanged tree: generated by the rng
		// family (one block, so one sandbox restart instead of one per shard)
		if !hazardFamily {
			return nil
		}
		p.Family = "rng"
		p.Hazard = "@range loop variable overflows int64"
	}
	return p
}

var hazardFamily bool

// rngBlocks: every {@range ..} over the integers of the pool (constant or
// group) whose mathematical length is at most 65536 but whose loop variable
// would leave int64 after the last element.
func rngBlocks() []*Block {
	var ints []argChoice
	for _, v := range Full {
		if _, ok := bigInt(v); ok {
			ints = append(ints, argChoice{v, false}, argChoice{v, true})
		}
	}
	return []*Block{{ID: "rng", Each: func(yield func(*Prog) bool) bool {
		hazardFamily = true
		defer func() { hazardFamily = false }()
		for arity := 1; arity <= 3; arity++ {
			pools := make([][]argChoice, arity)
			for i := range pools {
				pools[i] = ints
			}
			if !product(pools, nil, func(ch []argChoice) bool {
				if p := d1Prog("@range", ch); p != nil && p.Hazard != "" {
					return yield(p)
				}
				return true
			}) {
				return false
			}
		}
		return true
	}}}
}

func d1Blocks(b Bounds) []*Block {
	var out []*Block
	for _, fn := range Functions() {
		fn := fn
		for arity := 0; arity <= b.D1MaxArity; arity++ {
			arity := arity
			base := Full
			if arity > b.D1FullArity {
				base = Reduced
			}
			if arity >= 3 && ArityRejected(fn, arity) {
				// the argument count itself is refused before any argument is
				// looked at: a smaller pool is enough to see that
				base = Reduced
				if arity > b.D1FullArity {
					base = Tiny
				}
			}
			pools := make([][]argChoice, arity)
			for i := range pools {
				for _, v := range posPool(fn, i, base) {
					pools[i] = append(pools[i], argChoice{v, false}, argChoice{v, true})
				}
			}
			if arity <= 2 {
				out = append(out, &Block{ID: fmt.Sprintf("d1/%s/%d", fn, arity), Each: func(yield func(*Prog) bool) bool {
					return product(pools, nil, func(ch []argChoice) bool {
						if p := d1Prog(fn, ch); p != nil {
							return yield(p)
						}
						return true
					})
				}})
				continue
			}
			// one block per choice of the first argument
			for k := range pools[0] {
				first := pools[0][k]
				out = append(out, &Block{ID: fmt.Sprintf("d1/%s/%d/%d", fn, arity, k), Each: func(yield func(*Prog) bool) bool {
					return product(pools[1:], []argChoice{first}, func(ch []argChoice) bool {
						if p := d1Prog(fn, ch); p != nil {
							return yield(p)
						}
						return true
					})
				}})
			}
		}
	}
	return out
}

func product(pools [][]argChoice, prefix []argChoice, f func([]argChoice) bool) bool {
	if len(pools) == 0 {
		return f(prefix)
	}
	for _, c := range pools[0] {
		if !product(pools[1:], append(prefix[:len(prefix):len(prefix)], c), f) {
			return false
		}
	}
	return true
}

// ---- family hof: sub-expressions of @map/@filter/@reduce ---------------------

var subLeaves = []*Node{R(0), R(1), R(-1), R(5), K("key"), C("time", L("live")), L("x"), L("")}
var subArgs = []*Node{R(0), R(1), R(-1), K("key"), L("0"), L("2"), L("x")}

// hofArray is the dynamic array of the hof case context.
const hofArray = "4\x00x\x00-1\x00"

func hofBlocks() []*Block {
	arrays := []*Node{L(""), L("a"), C("@", L("1"), L("2"), L("3")), R(0), K("@")}
	var out []*Block
	mk := func(hof string, extra []*Node, sub *Node, subFn string) []*Prog {
		var ps []*Prog
		for _, a := range arrays {
			args := []*Node{a, sub}
			args = append(args, extra...)
			n := C(hof, args...)
			ps = append(ps, &Prog{Family: "hof", Fn: hof, Arity: len(args), Template: n.Print(0),
				Groups: []string{hofArray, "2"}, Dynamic: n.Dynamic(), TimeDep: strings.Contains(subFn, "time")})
		}
		return ps
	}
	type hv struct {
		hof   string
		extra []*Node
	}
	variants := []hv{{"@map", nil}, {"@filter", nil}, {"@reduce", nil}, {"@reduce", []*Node{L("0")}}}
	for vi, v := range variants {
		v := v
		out = append(out, &Block{ID: fmt.Sprintf("hof/%s/%d/leaves", v.hof, vi), Each: func(yield func(*Prog) bool) bool {
			for _, s := range subLeaves {
				fn := ""
				if s.Kind == Call {
					fn = s.S
				}
				for _, p := range mk(v.hof, v.extra, s, fn) {
					if !yield(p) {
						return false
					}
				}
			}
			return true
		}})
		for _, fn := range Functions() {
			fn := fn
			out = append(out, &Block{ID: fmt.Sprintf("hof/%s/%d/%s", v.hof, vi, fn), Each: func(yield func(*Prog) bool) bool {
				for _, x := range subArgs {
					for _, p := range mk(v.hof, v.extra, C(fn, x), fn) {
						if !yield(p) {
							return false
						}
					}
					for _, y := range subArgs {
						for _, p := range mk(v.hof, v.extra, C(fn, x, y), fn) {
							if !yield(p) {
								return false
							}
						}
					}
				}
				return true
			}})
		}
	}
	return out
}

// ---- family for: {@for start cond incr} ---------------------------------------

func forBlocks() []*Block {
	starts := []*Node{L("0"), L("5"), R(0), K("n"), L(""), L("x")}
	type cn struct {
		n   *Node
		inf bool // truthy forever: the loop ends at rare's own 1e6 cap with <INF>
	}
	conds := []cn{
		{L(""), false},
		{C("lt", R(1), L("3")), false},
		{C("lt", R(0), L("3")), false},
		{C("lt", R(0), K("n")), false},
		{C("lt", R(1), K("k")), false},
		{R(-1), false},
		{C("lt", R(0), R(5)), true},
		{K("key"), true},
		{L("1"), true},
		{C("time", L("live")), true},
	}
	incrs := []*Node{C("sumi", R(0), L("1")), R(0), R(1), K("key"), R(-1), L("x"), C("sumi", R(0), K("k"))}
	var out []*Block
	for si, s := range starts {
		for ci, c := range conds {
			si, s, ci, c := si, s, ci, c
			out = append(out, &Block{ID: fmt.Sprintf("for/%d/%d", si, ci), Each: func(yield func(*Prog) bool) bool {
				for ii, inc := range incrs {
					if c.inf {
						// values never grow; only a few of the 1e6-iteration loops
						if !(si == 0 || si == 2) || !(ii == 1 || ii == 5) {
							continue
						}
					}
					if si >= 4 && ci >= 2 {
						// a non-numeric start makes every numeric condition an
						// error marker, which is truthy: never ends
						continue
					}
					n := C("@for", s, c.n, inc)
					td := strings.Contains(n.Print(0), "time")
					if !yield(&Prog{Family: "for", Fn: "@for", Arity: 3, Template: n.Print(0), Groups: []string{"1", "2"},
						Dynamic: n.Dynamic(), TimeDep: td, Heavy: c.inf}) {
						return false
					}
				}
				return true
			}})
		}
	}
	return out
}

// ---- family d2: a call as an argument of every function -------------------------

// Inner calls: foldable constants, dynamic, clock-reading, erroneous.
func innerCalls() []*Node {
	return []*Node{
		C("sumi", L("1"), L("2")),
		C("@", L("1"), L("2"), L("3")),
		C("repeat", L("ab"), L("2")),
		C("upper", L("x")),
		C("if", L(""), L("a"), L("b")),
		C("len", L("abc")),
		C("@range", L("1"), L("4")),
		C("time", L("2020-03-01T10:00:00Z")),
		C("!", L("1+2")),
		C("coalesce"),
		C("sumi", R(0), L("1")),
		C("upper", R(1)),
		C("@split", R(0), L(",")),
		C("coalesce", R(2), K("key")),
		C("if", R(0), R(1), L("z")),
		C("len", R(0)),
		C("lt", R(0), L("5")),
		C("bucket", R(0), L("10")),
		C("substr", R(1), L("0"), L("1")),
		C("json", R(0), L("a")),
		C("!", L("[0]+1")),
		C("time", L("live")),
		K("key"),
		R(5),
		R(-1),
		C("divf", L("1"), L("x")),
		C("nosuchfn", L("1")),
	}
}

func d2Blocks(b Bounds) []*Block {
	inner := innerCalls()
	innerVal := make([]string, len(inner))
	for i, in := range inner {
		innerVal[i] = "?"
		if !in.Dynamic() {
			innerVal[i] = constValue(in)
		}
	}
	var out []*Block
	modes := func(pool []string) []argChoice {
		var o []argChoice
		for _, v := range pool {
			o = append(o, argChoice{v, false}, argChoice{v, true})
		}
		return o
	}
	for _, fn := range Functions() {
		fn := fn
		for arity := 1; arity <= 3; arity++ {
			arity := arity
			pool := Reduced
			if arity == 3 {
				pool = b.D2Arity3Pool
			}
			if fn == "@range" || fn == "@for" {
				// the value of the inner call is not known to the generator, so
				// the length of the range cannot be bounded when another argument
				// is huge: no huge values next to an inner call here
				pool = withoutHuge(pool)
			}
			for pos := 0; pos < arity; pos++ {
				pos := pos
				out = append(out, &Block{ID: fmt.Sprintf("d2/%s/%d/%d", fn, arity, pos), Each: func(yield func(*Prog) bool) bool {
					others := make([][]argChoice, arity-1)
					for i := range others {
						p := i
						if i >= pos {
							p = i + 1
						}
						others[i] = modes(posPool(fn, p, pool))
					}
					return product(others, nil, func(ch []argChoice) bool {
						for ini, in := range inner {
							vals := make([]string, arity)
							{
								k := 0
								for i := 0; i < arity; i++ {
									if i == pos {
										vals[i] = innerVal[ini]
									} else {
										vals[i] = ch[k].val
										k++
									}
								}
							}
							if ExcludedByDesign(fn, vals) != "" {
								continue
							}
							if (fn == "@range" || fn == "@for") && len(innerVal[ini]) > 5 && innerVal[ini] != "?" {
								continue // a constant inner call with a large value ({time <date>})
							}
							args := make([]*Node, arity)
							// group indexes 0..2 are used by the inner calls; the
							// outer function's own group arguments use 3..
							groups := []string{"7", "a b", "", "", "", ""}
							k := 0
							for i := 0; i < arity; i++ {
								if i == pos {
									args[i] = in
									continue
								}
								c := ch[k]
								k++
								if c.group {
									args[i] = R(3 + i)
									groups[3+i] = c.val
								} else {
									args[i] = L(c.val)
								}
							}
							n := C(fn, args...)
							td := fn == "time" || (in.Kind == Call && in.S == "time" && in.Args[0].S == "live")
							if !yield(&Prog{Family: "d2", Fn: fn, Arity: arity, Template: n.Print(0), Groups: groups, Dynamic: n.Dynamic(), TimeDep: td}) {
								return false
							}
						}
						return true
					})
				}})
			}
		}
	}
	return out
}

func withoutHuge(pool []string) []string {
	var out []string
	for _, v := range pool {
		if v != MaxInt && v != MinInt {
			out = append(out, v)
		}
	}
	return out
}

// constValue evaluates a constant inner call with the real builder (the
// generator needs its value only to apply ExcludedByDesign).
func constValue(n *Node) (v string) {
	defer func() {
		if recover() != nil {
			v = "?"
		}
	}()
	c, err := funclib.NewKeyBuilderEx(false).Compile(n.Print(0))
	if err != nil || c == nil {
		return "?"
	}
	return c.BuildKey(ArrayCtx(nil, nil))
}

// ---- family leaf: references on their own and between text -----------------

func leafBlocks() []*Block {
	refs := []*Node{R(0), R(1), R(3), R(-1), R(99), R(1 << 31), R(1<<32 + 1), R(1 << 62), R(1<<62 - 1), R(1<<63 - 1), R(-1 << 63), R(-1<<63 + 1), K("9223372036854775808"), K("18446744073709551617"), K("99999999999999999999"), K("key"), K("n"), K("nosuchkey"),
		K("src"), K("line"), K("."), K("#"), K(".#"), K("#."), K("@"), K("-"), K("+1"), K("01"), K("0x1")}
	return []*Block{{ID: "leaf/all", Each: func(yield func(*Prog) bool) bool {
		for _, a := range refs {
			if !yield(&Prog{Family: "leaf", Template: a.Print(0), Groups: []string{"a\"b", "\x01\xff", "007"}, Dynamic: true}) {
				return false
			}
			for _, b := range refs {
				n := S(L("x"), a, L("{"), b, L(" }"))
				if !yield(&Prog{Family: "leaf", Template: n.Print(0), Groups: []string{"a\"b", "\x01\xff", "007"}, Dynamic: true}) {
					return false
				}
			}
		}
		return true
	}}}
}

// ---- family math: {! formula} -----------------------------------------------------

var mathBinOps = []string{"+", "-", "*", "/", "^", "%", "<<", ">>", "&", "|", "<", "<=", ">", ">=", "==", "&&", "||"}
var mathUnary = []string{"-", "!", "abs", "sin", "asin", "cos", "acos", "tan", "atan", "sqrt", "floor", "ceil", "round", "exp", "exp2", "log", "log10", "log2"}
var mathOperands = []string{"[0]", "[1]", "0", "-1", "2", "0.5", "k"}

// MathValues are the group values formulas are evaluated on (all pairs).
var MathValues = []string{"", "0", "-1", "1", "2", "3.5", "0.5", "-0.5", "1e3", "65536", MaxInt, MinInt, "1e308", "x"}

func mathFormulas() []string {
	var out []string
	for _, op := range mathBinOps {
		for _, l := range mathOperands {
			for _, r := range mathOperands {
				out = append(out, l+" "+op+" "+r)
			}
		}
	}
	for _, u := range mathUnary {
		for _, x := range mathOperands {
			if len(u) == 1 {
				out = append(out, u+x)
			} else {
				out = append(out, u+"("+x+")")
			}
		}
	}
	out = append(out, "([0]+1)*2", "2([0])", "[0]^[1]^2", "-", "!", "1+", "(", ")", "[0] [1]", "1 % (2-2)", "abs", "abs()", "[", "[]", "0x10 + 0b11", "1e400")
	return out
}

func mathBlocks() []*Block {
	fs := mathFormulas()
	var out []*Block
	const per = 40
	for i := 0; i < len(fs); i += per {
		lo, hi := i, i+per
		if hi > len(fs) {
			hi = len(fs)
		}
		out = append(out, &Block{ID: fmt.Sprintf("math/%d", lo), Each: func(yield func(*Prog) bool) bool {
			for _, f := range fs[lo:hi] {
				tmpl := C("!", L(f)).Print(0)
				for _, a := range MathValues {
					for _, bv := range MathValues {
						if !yield(&Prog{Family: "math", Fn: "!", Arity: 1, Template: tmpl, Groups: []string{a, bv}, Dynamic: strings.ContainsAny(f, "[k")}) {
							return false
						}
					}
				}
			}
			return true
		}})
	}
	return out
}

// ---- family raw: every string over a small alphabet ----------------------------

// RawAlphabet: braces, quote, backslash, blank, a letter that is no function,
// two one-character function names (! math, @ array) and a digit.
var RawAlphabet = []byte{'{', '}', '"', '\\', ' ', 'a', '!', '@', '0'}

func rawBlocks(b Bounds) []*Block {
	var out []*Block
	A := RawAlphabet
	// lengths 0..3 in one block; longer strings in one block per 3-character prefix
	out = append(out, &Block{ID: "raw/short", Each: func(yield func(*Prog) bool) bool {
		for l := 0; l <= 3 && l <= b.RawLen; l++ {
			if !rawStrings(nil, l, yield) {
				return false
			}
		}
		return true
	}})
	for i := range A {
		for j := range A {
			for k := range A {
				prefix := []byte{A[i], A[j], A[k]}
				out = append(out, &Block{ID: fmt.Sprintf("raw/%d-%d-%d", i, j, k), Each: func(yield func(*Prog) bool) bool {
					for l := 4; l <= b.RawLen; l++ {
						if !rawStrings(prefix, l, yield) {
							return false
						}
					}
					return true
				}})
			}
		}
	}
	return out
}

func rawStrings(prefix []byte, l int, yield func(*Prog) bool) bool {
	A := RawAlphabet
	buf := make([]byte, l)
	copy(buf, prefix)
	n := l - len(prefix)
	idx := make([]int, n)
	for {
		for i, c := range idx {
			buf[len(prefix)+i] = A[c]
		}
		if !yield(&Prog{Family: "raw", Template: string(buf), Groups: []string{"5", "0"}, Dynamic: true}) {
			return false
		}
		i := n - 1
		for ; i >= 0; i-- {
			idx[i]++
			if idx[i] < len(A) {
				break
			}
			idx[i] = 0
		}
		if i < 0 {
			return true
		}
	}
}

// WellFormedBlocks is the program set shared by C08 and C10: depth <= 2,
// constant / dynamic / mixed arguments.
func WellFormedBlocks(b Bounds) []*Block {
	var out []*Block
	out = append(out, forBlocks()...)
	out = append(out, leafBlocks()...)
	out = append(out, hofBlocks()...)
	out = append(out, mathBlocks()...)
	out = append(out, longBlocks(b)...)
	out = append(out, mixBlocks(b)...)
	out = append(out, d2Blocks(b)...)
	out = append(out, d1Blocks(b)...)
	return out
}

// AllBlocks adds the malformed strings and the @range calls that are known
// not to return on the unchanged tree (C08 only; run in a sandbox).
func AllBlocks(b Bounds) []*Block {
	out := append(rngBlocks(), WellFormedBlocks(b)...)
	return append(out, rawBlocks(b)...)
}

// Describe states the enumeration for the evidence rule.
func Describe(b Bounds) string {
	return fmt.Sprintf("programs: (d1) every function of funclib.Builtins (%d, read at run time) x arity 0..%d x every argument from the boundary pool of %d values "+
		"(empty, blank, 0, -1, 1, 2, 3.5, -0, 1e3, 65536, MaxInt64, MinInt64, x, 'a b', NUL-list, quote, invalid UTF-8, 300 digits) plus per-position keywords (formats, colours, zones, a date, a JSON document), "+
		"each given as a quoted constant or as a group reference {i} of the case context; full pool up to arity %d, reduced pool of %d values above it; an arity >= 3 that the function refuses as such (its probe {fn \"\" \"\" ..} answers ErrArgCount) gets the reduced pool, and the 4-value pool above the full arity; "+
		"(hof) @map/@filter/@reduce (with and without initial value) over 5 arrays x sub-expressions {0},{1},{-1},{5},{key},{time live},x,'' and every function at arity 1..2 over {0},{1},{-1},{key},0,2,x; "+
		"(for) @for over 6 starts x 10 conditions x 7 increments (non-terminating conditions only with 8 non-growing combinations); "+
		"(d2) every function x arity 1..3 x every position holding one of %d inner calls (foldable constants, dynamic, {time live}, key, erroneous), other arguments from the reduced pool (%d values at arity 3) as constant or group; "+
		"(leaf) 31 group/key references ({0},{-1},{99}, group numbers at 2^31, 2^32+1, 2^62-1, 2^62, 2^63-1, -2^63, -2^63+1 and just beyond int64/uint64,{key},{src},{line},{.},{#},{.#},{@}, names that look like numbers ...) alone and in pairs between literal text; "+
		"(long) templates of 1..%d segments laid out by 10 cycles of {literal, foldable constant call, group, key, call on a group}, as the template itself and as the one quoted argument of a call (the segments are then the stages of the argument's own builder); (mix) every function x arity 1..2 (thorough: 3) x every position holding a value (the position's keywords, numbers, dates, lists, a JSON document, a path, a format) split at up to 4 points into constant text and a group reference inside one quoted argument (`\"2020-03-01T{0}\"`: the optimiser's all-empty probe sees a proper part of the run-time value), head or tail in the group, the other arguments from a small pool; (rng, C08 only) every @range over the integers of the pool whose length is <= 65536 but whose loop variable would leave int64; (math) %d formulas (17 binary operators x 7x7 operands, 18 unary, malformed shapes) x all pairs of %d group values",
		len(Functions()), b.D1MaxArity, len(Full), b.D1FullArity, len(Reduced), len(innerCalls()), len(b.D2Arity3Pool), LongMax(b.Tier), len(mathFormulas()), len(MathValues))
}
