// Package exprgen is the shared program generator of the expression harnesses
// (exprcrash: C08, expropt: C10). It enumerates well-formed rare templates
// from a small tree grammar whose function table is read from the real
// funclib.Builtins at run time, and the match contexts they are evaluated on.
//
// Printing rules (learned by reading Compile/splitTokenizedArguments and
// recorded in DESIGN §6): an escape is consumed once per scanning pass; a
// literal that sits inside d nested statements passes 2d+1 passes (Compile of
// the template, then split + Compile for every enclosing statement), so it is
// printed with 2d+1 layers of backslash escaping of `\ { } "` inside one pair of
// quotes; nested calls are printed bare (quotes do not nest).
package exprgen

import (
	"strconv"
	"strings"
)

// Kind of a tree node.
type Kind int

const (
	Lit  Kind = iota // constant text
	Ref              // {i}
	Key              // {name}
	Call             // {fn args...}
	Seq              // concatenation of children at the same depth (top-level text)
	Mix              // "prefix{i}suffix": one quoted argument made of constant text around a group reference
	rawArg           // {fn "children"}: one quoted argument holding the children as its own template (children must not need escaping)
)

// Node is one node of a template tree.
type Node struct {
	Kind Kind
	S    string // Lit: text; Key: name; Call: function name
	Idx  int    // Ref: group index
	Args []*Node
	Bare bool // Lit: print without quotes (only for simple words)
	Suf  string // Mix: text after the reference (S is the text before it)
}

func L(s string) *Node              { return &Node{Kind: Lit, S: s} }
func W(s string) *Node              { return &Node{Kind: Lit, S: s, Bare: true} }
func R(i int) *Node                 { return &Node{Kind: Ref, Idx: i} }
func K(name string) *Node           { return &Node{Kind: Key, S: name} }
func C(fn string, a ...*Node) *Node { return &Node{Kind: Call, S: fn, Args: a} }
func S(a ...*Node) *Node            { return &Node{Kind: Seq, Args: a} }
func M(pre string, i int, suf string) *Node {
	return &Node{Kind: Mix, S: pre, Idx: i, Suf: suf}
}

// esc adds one layer of escaping.
func esc(s string) string {
	if !strings.ContainsAny(s, "\\{}\"") {
		return s
	}
	var sb strings.Builder
	sb.Grow(len(s) + 8)
	for i := 0; i < len(s); i++ {
		c := s[i]
		if c == '\\' || c == '{' || c == '}' || c == '"' {
			sb.WriteByte('\\')
		}
		sb.WriteByte(c)
	}
	return sb.String()
}

// EscN adds n layers of escaping.
func EscN(s string, n int) string {
	for i := 0; i < n; i++ {
		s = esc(s)
	}
	return s
}

func simpleWord(s string) bool {
	if s == "" {
		return false
	}
	for i := 0; i < len(s); i++ {
		c := s[i]
		if !(c >= 'a' && c <= 'z' || c >= 'A' && c <= 'Z' || c >= '0' && c <= '9' || c == '_' || c == '.' || c == '%' || c == '/' || c == ',' || c == ':' || c == '+' || c == '-') {
			return false
		}
	}
	return true
}

// Print renders the tree as template text; depth is the number of enclosing
// statements (0 for the template itself).
func (n *Node) Print(depth int) string {
	var sb strings.Builder
	n.print(&sb, depth)
	return sb.String()
}

func (n *Node) print(sb *strings.Builder, depth int) {
	switch n.Kind {
	case Lit:
		if depth == 0 {
			sb.WriteString(EscN(n.S, 1))
			return
		}
		if n.Bare && simpleWord(n.S) {
			sb.WriteString(n.S)
			return
		}
		sb.WriteByte('"')
		sb.WriteString(EscN(n.S, 2*depth+1))
		sb.WriteByte('"')
	case Ref:
		sb.WriteByte('{')
		sb.WriteString(strconv.Itoa(n.Idx))
		sb.WriteByte('}')
	case Key:
		sb.WriteByte('{')
		sb.WriteString(n.S)
		sb.WriteByte('}')
	case Call:
		sb.WriteByte('{')
		sb.WriteString(n.S)
		for _, a := range n.Args {
			sb.WriteByte(' ')
			a.print(sb, depth+1)
		}
		sb.WriteByte('}')
	case Seq:
		for _, a := range n.Args {
			a.print(sb, depth)
		}
	case Mix:
		if depth == 0 {
			sb.WriteString(EscN(n.S, 1) + "{" + strconv.Itoa(n.Idx) + "}" + EscN(n.Suf, 1))
			return
		}
		// the text passes the same 2d+1 scanning passes as a quoted literal; the
		// reference is read by the last of them (the argument's own compile),
		// so its braces are protected from the 2d passes before it
		sb.WriteByte('"')
		sb.WriteString(EscN(n.S, 2*depth+1))
		sb.WriteString(EscN("{"+strconv.Itoa(n.Idx)+"}", 2*depth-2))
		sb.WriteString(EscN(n.Suf, 2*depth+1))
		sb.WriteByte('"')
	case rawArg:
		sb.WriteString("{" + n.S + " \"")
		for _, a := range n.Args {
			a.print(sb, 0)
		}
		sb.WriteString("\"}")
	}
}

// Binder positions: argument indexes of a higher-order function whose
// sub-expression is evaluated with {0}/{1} rebound to the element/memo/index.
var Binders = map[string][]int{
	"@map":    {1},
	"@filter": {1},
	"@reduce": {1},
	"@for":    {1, 2},
}

func isBinder(fn string, arg int) bool {
	for _, b := range Binders[fn] {
		if b == arg {
			return true
		}
	}
	return false
}

// Dynamic reports whether the tree contains a group or key reference.
func (n *Node) Dynamic() bool {
	switch n.Kind {
	case Ref, Key, Mix:
		return true
	}
	for _, a := range n.Args {
		if a.Dynamic() {
			return true
		}
	}
	return false
}

// Funcs appends the function names used in the tree, innermost first.
func (n *Node) Funcs(out []string) []string {
	for _, a := range n.Args {
		out = a.Funcs(out)
	}
	if n.Kind == Call {
		out = append(out, n.S)
	}
	return out
}

// Subst returns the tree with every {i} outside binder positions replaced by
// args[i] (or the empty constant when the call has fewer arguments): "the body
// with {0}, {1}, .. replaced by the call's arguments ... and missing arguments
// empty" (C10). References inside a binder position are bound by the
// higher-order function and are left alone.
func (n *Node) Subst(args []*Node) *Node {
	switch n.Kind {
	case Ref:
		if n.Idx >= 0 && n.Idx < len(args) {
			return args[n.Idx]
		}
		return L("")
	case Lit, Key, Mix: // Mix is not used inside function bodies
		return n
	}
	c := &Node{Kind: n.Kind, S: n.S, Idx: n.Idx, Bare: n.Bare, Args: make([]*Node, len(n.Args))}
	for i, a := range n.Args {
		if n.Kind == Call && isBinder(n.S, i) {
			c.Args[i] = a
		} else {
			c.Args[i] = a.Subst(args)
		}
	}
	return c
}

// Inline replaces calls to user functions (defs: name -> body tree) by their
// substituted bodies, recursively.
func (n *Node) Inline(defs map[string]*Node) *Node {
	switch n.Kind {
	case Lit, Key, Ref, Mix:
		return n
	}
	args := make([]*Node, len(n.Args))
	for i, a := range n.Args {
		args[i] = a.Inline(defs)
	}
	if n.Kind == Call {
		if body, ok := defs[n.S]; ok {
			return body.Inline(defs).Subst(args)
		}
	}
	return &Node{Kind: n.Kind, S: n.S, Idx: n.Idx, Bare: n.Bare, Args: args}
}
