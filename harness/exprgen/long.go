package exprgen

import (
	"fmt"
	"strconv"
)

// ---- family long: templates and arguments with many stages --------------------
//
// Everything else in this generator has a handful of stages per template. The
// compiled key builder concatenates one result per stage, and the optimiser
// merges runs of constant stages, so anything in either that depends on the
// *number* of stages (chunking, pre-sized scratch space, merge windows) is only
// reachable with a size dimension. A long program is n segments laid out by one
// of the cycles below, either as the template itself or as the single quoted
// argument of a call (where the segments become the stages of the argument's
// own compiled builder).

// LongMax is the largest number of segments per tier.
func LongMax(tier string) int {
	if tier == "thorough" {
		return 300
	}
	return 100
}

// longCycles: l = literal text, c = foldable constant call, d = group
// reference, k = key reference, e = call on a group (dynamic call).
var longCycles = []string{"d", "ld", "cl", "lcd", "c", "dk", "e", "lce", "cd", "l"}

func longSegment(kind byte, i int) *Node {
	switch kind {
	case 'l':
		return L("," + strconv.Itoa(i) + ";")
	case 'c':
		return C("sumi", W(strconv.Itoa(i)), W("1"))
	case 'd':
		return R(i % 3)
	case 'k':
		return K("key")
	case 'e':
		return C("sumi", R(i%3), W(strconv.Itoa(i)))
	}
	panic("bad segment kind")
}

func longSeq(cycle string, n int) []*Node {
	out := make([]*Node, n)
	for i := range out {
		out[i] = longSegment(cycle[i%len(cycle)], i+1)
	}
	return out
}

func longBlocks(b Bounds) []*Block {
	max := LongMax(b.Tier)
	var out []*Block
	for _, cyc := range longCycles {
		cyc := cyc
		for _, shape := range []string{"top", "arg", "arg2"} {
			shape := shape
			out = append(out, &Block{ID: fmt.Sprintf("long/%s/%s", shape, cyc), Each: func(yield func(*Prog) bool) bool {
				for n := 1; n <= max; n++ {
					seq := longSeq(cyc, n)
					var root *Node
					switch shape {
					case "top":
						root = S(seq...)
					case "arg":
						// segments are bare inside the quoted argument: print at
						// depth 0 and wrap, so that the argument's own compile sees
						// n stages (literals here contain no characters that need
						// escaping)
						root = &Node{Kind: rawArg, S: "coalesce", Args: seq}
					case "arg2":
						root = S(R(0), &Node{Kind: rawArg, S: "upper", Args: seq}, L("|"), K("key"))
					}
					p := &Prog{Family: "long", Fn: shape + "/" + cyc, Arity: n, Template: root.Print(0), Groups: []string{"5", "-7", "x"}, Dynamic: root.Dynamic()}
					if !yield(p) {
						return false
					}
				}
				return true
			}})
		}
	}
	return out
}
