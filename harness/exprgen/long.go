package exprgen

import (
	"fmt"
	"strconv"
)

// ---- family long: templates and arguments with many stages --------------------
//
// Everything else in this generator has a handful of stages per template. The
// compiled key builder concatenates one result per stage, and the optimiser
// merges runs of constant stages, so anything in either that depends on the
// *number* of stages (chunking, pre-sized scratch space, merge windows) is only
// reachable with a size dimension. A long program is n segments laid out by one
// of the cycles below, either as the template itself or as the single quoted
// argument of a call (where the segments become the stages of the argument's
// own compiled builder).

// LongMax is the largest number of segments per tier.
func LongMax(tier string) int {
	if tier == "thorough" {
		return 300
	}
	return 100
}

// longCycles: l = literal text, c = foldable constant call, d = group
// reference, k = key reference, e = call on a group (dynamic call).
var longCycles = []string{"d", "ld", "cl", "lcd", "c", "dk", "e", "lce", "cd", "l"}

func longSegment(kind byte, i int) *Node {
	switch kind {
	case 'l':
		return L("," + strconv.Itoa(i) + ";")
	case 'c':
		return C("sumi", W(strconv.Itoa(i)), W("1"))
	case 'd':
		return R(i % 3)
	case 'k':
		return K("key")
	case 'e':
		return C("sumi", R(i%3), W(strconv.Itoa(i)))
	}
	panic("bad segment kind")
}

func longSeq(cycle string, n int) []*Node {
	out := make([]*Node, n)
	for i := range out {
		out[i] = longSegment(cycle[i%len(cycle)], i+1)
	}
	return out
}

func longBlocks(b Bounds) []*Block {
	max := LongMax(b.Tier)
	var out []*Block
	for _, cyc := range longCycles {
		cyc := cyc
		for _, shape := range []string{"top", "arg", "arg2"} {
			shape := shape
			out = append(out, &Block{ID: fmt.Sprintf("long/%s/%s", shape, cyc), Each: func(yield func(*Prog) bool) bool {
				for n := 1; n <= max; n++ {
					seq := longSeq(cyc, n)
					var root *Node
					switch shape {
					case "top":
						root = S(seq...)
					case "arg":
						// segments are bare inside the quoted argument: print at
						// depth 0 and wrap, so that the argument's own compile sees
						// n stages (literals here contain no characters that need
						// escaping)
						root = &Node{Kind: rawArg, S: "coalesce", Args: seq}
					case "arg2":
						root = S(R(0), &Node{Kind: rawArg, S: "upper", Args: seq}, L("|"), K("key"))
					}
					p := &Prog{Family: "long", Fn: shape + "/" + cyc, Arity: n, Template: root.Print(0), Groups: []string{"5", "-7", "x"}, Dynamic: root.Dynamic()}
					if !yield(p) {
						return false
					}
				}
				return true
			}})
		}
	}
	return out
}

// ---- family mix: one argument is constant text around a group reference --------
//
// The optimiser probes a stage with a context whose every look-up is empty. An
// argument that is a whole constant or a whole group is either fully known or
// fully empty to that probe; an argument like "2024-01-02T{0}" shows it a
// proper *part* of the run-time value (a shorter date, a number with fewer
// digits, an unterminated JSON document, half a delimiter). Anything a stage
// learns from what it is shown while being probed (a cached format, a
// pre-parsed number) must not leak into evaluation.

// mixValues: per-position extras of the function plus values whose parts are
// themselves meaningful.
var mixBase = []string{"1337", "-12.50", "2020-03-01T10:00:00Z", "2020-03-01 10:00:00", "01/02/2006", "a,b,,c", "a b", "x", "65536", "1h30m", `{"a":[1,2],"b":"x"}`, "/a/b.txt", "%s|%5d|%v", "a\x00b\x00c", "0x10", "1e3", MaxInt}

func mixSplits(v string) [][2]string {
	n := len(v)
	var out [][2]string
	seen := map[int]bool{}
	for _, k := range []int{1, n / 2, n - 1, 11} {
		if k <= 0 || k >= n || seen[k] {
			continue
		}
		seen[k] = true
		out = append(out, [2]string{v[:k], v[k:]})
	}
	return out
}

func mixBlocks(b Bounds) []*Block {
	var out []*Block
	maxArity := 2
	others := []argChoice{{"", false}, {"2", false}, {"x", true}}
	if b.Tier == "thorough" {
		maxArity = 3
		others = []argChoice{{"", false}, {"2", false}, {"x", false}, {"-1", true}, {"x", true}, {"", true}}
	}
	for _, fn := range Functions() {
		fn := fn
		out = append(out, &Block{ID: "mix/" + fn, Each: func(yield func(*Prog) bool) bool {
			for arity := 1; arity <= maxArity; arity++ {
				if arity == 3 && ArityRejected(fn, arity) {
					continue
				}
				for pos := 0; pos < arity; pos++ {
					vals := posPool(fn, pos, mixBase)
					// other positions: their extras as constants, plus the small pool
					pools := make([][]argChoice, 0, arity-1)
					for o := 0; o < arity; o++ {
						if o == pos {
							continue
						}
						pool := append([]argChoice{}, others...)
						for _, x := range Extras[fn][o] {
							pool = append(pool, argChoice{x, false})
						}
						pools = append(pools, pool)
					}
					for _, v := range vals {
						for _, sp := range mixSplits(v) {
							// the group holds the tail, or the head
							for _, tailInGroup := range []bool{true, false} {
								ok := product(pools, nil, func(rest []argChoice) bool {
									args := make([]*Node, arity)
									groups := make([]string, arity)
									argVals := make([]string, arity)
									ri := 0
									for i := 0; i < arity; i++ {
										if i == pos {
											if tailInGroup {
												args[i] = M(sp[0], i, "")
												groups[i] = sp[1]
											} else {
												args[i] = M("", i, sp[1])
												groups[i] = sp[0]
											}
											argVals[i] = v
											continue
										}
										c := rest[ri]
										ri++
										argVals[i] = c.val
										if c.group {
											args[i] = R(i)
											groups[i] = c.val
										} else {
											args[i] = L(c.val)
										}
									}
									if ExcludedByDesign(fn, argVals) != "" {
										return true
									}
									if fn == "@for" || fn == "@range" || fn == "repeat" || fn == "bar" {
										// counts and loop bounds assembled from parts: the part the
										// group holds decides the size; exprcrash's d1 family owns these
										return true
									}
									p := &Prog{Family: "mix", Fn: fn, Arity: arity, Template: C(fn, args...).Print(0), Groups: groups, Dynamic: true, TimeDep: fn == "time"}
									return yield(p)
								})
								if !ok {
									return false
								}
							}
						}
					}
				}
			}
			return true
		}})
	}
	return out
}
