package main

// Two alphabets of the C09 harness that exist because of what code tends to do
// with characters, not because of what the syntax says about them. Nothing
// here imports rare.
//
// (1) ALIAS RUNES of an ASCII character c: non-ASCII runes that a narrowing
// conversion or a mask turns into c. S1 "`\x` makes any character literal (\n,
// \t, \r give control characters)": only the LETTERS n, t, r are special after
// a backslash and only the ASCII characters { } " \ and white space are syntax,
// so Ů (U+016E), Ѯ (U+046E), 乮 (U+4E6E), U+1F46E are ordinary characters
// although uint8(r) == 'n' for all of them. Classes:
//   low-7-bits   c|0x80                               (r & 0x7F == c)
//   low-byte     U+0100|c, U+0400|c, U+4E00|c, U+1F400|c   (uint8(r) == c; UTF-8 of 2, 2, 3, 4 bytes; the
//                last encoded byte has the low 6 bits of c)
//   low-16-bits  U+10000|c, U+100000|c                (uint16(r) == c)
//   utf8-byte    the smallest rune of every UTF-8 length whose encoding contains the byte c|0x80 (no
//                encoding of a non-ASCII rune contains the byte c itself)
//   fullwidth    the fullwidth form U+FF01..U+FF5E of c, U+3000 for the blank (compatibility folding)
//
// (2) PUNCTUATION WORDS: S2 "arguments are split on unquoted, unbraced
// whitespace, double quotes form one argument ... a lone word or integer is a
// key/group lookup": the only syntax characters are { } " \ and white space,
// so every other punctuation character - in particular those that are quotes,
// brackets, separators or sigils in other languages - is an ordinary character
// of a word.

import (
	"fmt"
	"unicode"
	"unicode/utf8"
)

type aliasTarget struct {
	c    rune
	name string
}

// the three special escape letters, the syntax characters, the separators,
// and a digit / function letter / apostrophe as ordinary representatives
var aliasTargets = []aliasTarget{
	{'n', "letter-n"}, {'r', "letter-r"}, {'t', "letter-t"},
	{'{', "open-brace"}, {'}', "close-brace"}, {'"', "quote"}, {'\\', "backslash"},
	{' ', "blank"}, {'\t', "tab"}, {'\n', "line-feed"}, {'\r', "carriage-return"},
	{'0', "digit-0"}, {'f', "letter-f"}, {'\'', "apostrophe"},
}

type aliasRune struct {
	r      rune
	target aliasTarget
	class  string
	space  bool // unicode white space: as part of a statement "exotic white space" is not settled
}

func (a aliasRune) label() string { return "alias-of-" + a.target.name + "/" + a.class }

// firstRuneWithByte[n][b]: the smallest rune with an n-byte UTF-8 encoding
// that contains the byte b (0: none), by a scan of all runes.
var firstRuneWithByte [5][256]rune

func scanRuneBytes() {
	if firstRuneWithByte[2][0xC2] != 0 {
		return
	}
	var buf [4]byte
	for r := rune(0x80); r <= unicode.MaxRune; r++ {
		if r >= 0xD800 && r <= 0xDFFF {
			continue
		}
		n := utf8.EncodeRune(buf[:], r)
		for _, x := range buf[:n] {
			if firstRuneWithByte[n][x] == 0 {
				firstRuneWithByte[n][x] = r
			}
		}
	}
}

// runesWithByte: the smallest rune of every UTF-8 length whose encoding
// contains byte b.
func runesWithByte(b byte) []rune {
	scanRuneBytes()
	var out []rune
	for n := 2; n <= 4; n++ {
		if r := firstRuneWithByte[n][b]; r != 0 {
			out = append(out, r)
		}
	}
	return out
}

var aliasCache = map[bool][]aliasRune{}

// aliasRunes lists the alias runes (quick: one or two of every class and
// every UTF-8 length; thorough: all of the above).
func aliasRunes(quick bool) []aliasRune {
	if v, ok := aliasCache[quick]; ok {
		return v
	}
	var out []aliasRune
	seen := map[rune]bool{}
	add := func(r rune, t aliasTarget, class string) {
		if r < 0x80 || !utf8.ValidRune(r) || seen[r] {
			return
		}
		seen[r] = true
		out = append(out, aliasRune{r: r, target: t, class: class, space: unicode.IsSpace(r)})
	}
	for _, t := range aliasTargets {
		add(t.c|0x80, t, "low-7-bits")
		for _, base := range []rune{0x0100, 0x0400, 0x4E00, 0x1F400} {
			add(base|t.c, t, "low-byte")
		}
		add(0x10000|t.c, t, "low-16-bits")
		if !quick {
			add(0x100000|t.c, t, "low-16-bits")
			add(0x0200|t.c, t, "low-byte")
			add(0xAC00|t.c, t, "low-byte")
			add(0x2F800|t.c, t, "low-byte")
		}
		for _, r := range runesWithByte(byte(t.c) | 0x80) {
			add(r, t, "utf8-byte")
		}
		switch {
		case t.c == ' ':
			add(0x3000, t, "fullwidth")
		case t.c > 0x20 && t.c < 0x7F:
			add(t.c+0xFEE0, t, "fullwidth")
		}
	}
	aliasCache[quick] = out
	return out
}

// aliasStrings: the literal strings of part A built from one alias rune: alone,
// doubled, between other text, next to the character it aliases (both orders)
// and next to a backslash.
func aliasStrings(a aliasRune) []string {
	r, c := string(a.r), string(a.target.c)
	return []string{r, r + r, "a" + r + "b", r + c, c + r, "a" + r + c + r + "b", `\` + r, r + `\`, "{" + r + "}"}
}

func aliasRuleText(quick bool) string {
	byClass := map[string]int{}
	var order []string
	ex := ""
	for _, a := range aliasRunes(quick) {
		if byClass[a.class] == 0 {
			order = append(order, a.class)
		}
		byClass[a.class]++
		if a.target.c == 'n' {
			ex += fmt.Sprintf(" U+%04X", a.r)
		}
	}
	s := ""
	for _, c := range order {
		s += fmt.Sprintf(" %s:%d", c, byClass[c])
	}
	names := ""
	for i, t := range aliasTargets {
		if i > 0 {
			names += ", "
		}
		names += t.name
	}
	return fmt.Sprintf("%d alias runes of the ASCII characters {%s} (non-ASCII runes of 2, 3 and 4 UTF-8 bytes that a narrowing conversion or mask turns into the character: c|0x80; U+0100|c, U+0400|c, U+4E00|c, U+1F400|c; U+10000|c; the smallest rune of each UTF-8 length whose encoding contains the byte c|0x80; the fullwidth form; by class%s; for n:%s)", len(aliasRunes(quick)), names, s, ex)
}

// ---------------------------------------------------------------- punctuation words

type punct struct {
	ch   string
	name string
}

// every printable ASCII punctuation character that is not syntax ({ } " \),
// and the typographic / fullwidth quotes
var punctChars = []punct{
	{"'", "apostrophe"}, {"`", "backtick"}, {"~", "tilde"}, {"!", "exclamation-mark"}, {"@", "at-sign"}, {"#", "hash"},
	{"$", "dollar"}, {"%", "percent"}, {"^", "caret"}, {"&", "ampersand"}, {"*", "asterisk"}, {"(", "open-parenthesis"},
	{")", "close-parenthesis"}, {"-", "minus"}, {"+", "plus"}, {"=", "equals"}, {"[", "open-bracket"}, {"]", "close-bracket"},
	{"|", "pipe"}, {";", "semicolon"}, {":", "colon"}, {",", "comma"}, {".", "dot"}, {"<", "less-than"}, {">", "greater-than"},
	{"/", "slash"}, {"?", "question-mark"}, {"_", "underscore"},
	{"‘", "left-single-quote"}, {"’", "right-single-quote"}, {"“", "left-double-quote"}, {"”", "right-double-quote"},
	{"«", "left-guillemet"}, {"»", "right-guillemet"}, {"＂", "fullwidth-quote"}, {"＇", "fullwidth-apostrophe"},
}

type punctLeaf struct {
	t    *tree
	name string // of the punctuation character (for the signature)
}

// punctLeaves: words made of / starting with / ending in / containing /
// wrapped in the character (`it's`, `'a`, `a'`, `'`, `'a'`, `”`), and the
// look-ups {'} {a'b}.
func punctLeaves(quick bool) []punctLeaf {
	var out []punctLeaf
	for _, p := range punctChars {
		words := []string{p.ch, p.ch + "a", "a" + p.ch, "a" + p.ch + "b"}
		keys := []string{p.ch}
		if !quick {
			words = append(words, p.ch+"a"+p.ch, p.ch+p.ch)
			keys = append(keys, "a"+p.ch+"b", p.ch+"a")
		}
		for _, w := range words {
			out = append(out, punctLeaf{&tree{kind: lWord, text: w}, p.name})
		}
		for _, k := range keys {
			out = append(out, punctLeaf{&tree{kind: lKey, text: k}, p.name})
		}
	}
	return out
}

func punctRuleText() string {
	s := ""
	for _, p := range punctChars {
		s += " " + p.ch
	}
	return s
}

func punctLeafRule(quick bool) string {
	if quick {
		return "{p, pa, ap, apb as words (quoted or not), {p} as key}"
	}
	return "{p, pa, ap, apb, pap, pp as words (quoted or not), {p}, {apb}, {pa} as keys}"
}
