package main

// Part I of the C09 harness: integer-like lone tokens around the boundaries of
// the integer types.
//
// S2 "a lone word or integer is a key/group lookup": an all-digit (optionally
// signed) token T in `{T}` is a word or an integer, so whatever else is open
// (whether 20 digits still count as "an integer" is not settled by the
// statement) `{T}` is a look-up, and it can only be
//   (a) the look-up of the group whose number is exactly the numeric value of
//       T (possible only when that value is representable as an int; a value
//       that is not cannot be handed to GetMatch - there "no such group", i.e.
//       the empty string without any look-up, is accepted as reading (a)), or
//   (b) the look-up of the key whose name is exactly the text T.
// Tokens the reference already calls integers (-?[0-9]{1,9}) must be read (a).
// A look-up of any OTHER group or key (a wrapped-around index, a truncated
// name) is what "evaluates exactly as the tree dictates" excludes. The context
// logs every look-up it is asked for.

import (
	"fmt"
	"math/big"
	"strconv"
	"strings"

	"rare/pkg/expressions"
)

type lookup struct {
	group bool
	idx   int
	key   string
}

func (l lookup) String() string {
	if l.group {
		return "group " + strconv.Itoa(l.idx)
	}
	return fmt.Sprintf("key %q", l.key)
}

// groupValue is matchValue for every int (itoa of ref.go does not take MinInt).
func groupValue(i int) string { return "<m" + strconv.Itoa(i) + ">" }

type logCtx struct{ log []lookup }

func (c *logCtx) GetMatch(i int) string {
	c.log = append(c.log, lookup{group: true, idx: i})
	return groupValue(i)
}

func (c *logCtx) GetKey(k string) string {
	c.log = append(c.log, lookup{key: k})
	return keyValue(k)
}

// ------------------------------------------------------------------ tokens

type intToken struct {
	text  string
	val   *big.Int
	fits  bool // representable as an int of this platform
	index int  // the value as an int when fits
	must  bool // the reference calls it an integer: reading (a) is demanded
	class string
}

var (
	bigOne   = big.NewInt(1)
	intMin   = new(big.Int).Neg(new(big.Int).Lsh(bigOne, uint(strconv.IntSize-1)))
	intMax   = new(big.Int).Sub(new(big.Int).Lsh(bigOne, uint(strconv.IntSize-1)), bigOne)
	pow2_31  = new(big.Int).Lsh(bigOne, 31)
	pow2_63  = new(big.Int).Lsh(bigOne, 63)
	pow2_64  = new(big.Int).Lsh(bigOne, 64)
	bigTen   = big.NewInt(10)
	minInt32 = new(big.Int).Neg(pow2_31)
	minInt64 = new(big.Int).Neg(pow2_63)
)

func pow(b *big.Int, e int64) *big.Int { return new(big.Int).Exp(b, big.NewInt(e), nil) }

// newIntToken: text is [+-]?[0-9]+.
func newIntToken(text string) intToken {
	digits := strings.TrimLeft(text, "+-")
	v, ok := new(big.Int).SetString(digits, 10)
	if !ok {
		panic("not an integer-like token: " + text)
	}
	if strings.HasPrefix(text, "-") {
		v.Neg(v)
	}
	t := intToken{text: text, val: v}
	t.fits = v.Cmp(intMin) >= 0 && v.Cmp(intMax) <= 0
	if t.fits {
		t.index = int(v.Int64())
	}
	_, isInt, odd := refInteger(text)
	t.must = isInt && !odd
	// magnitude class (for signatures): which integer type still holds the value
	switch {
	case v.Cmp(minInt32) >= 0 && v.Cmp(pow2_31) < 0:
		t.class = "fits-int32"
	case v.Cmp(minInt64) >= 0 && v.Cmp(pow2_63) < 0:
		t.class = "fits-int64"
	case v.CmpAbs(pow2_64) < 0:
		t.class = "magnitude-fits-uint64-only"
	default:
		t.class = "magnitude-beyond-uint64"
	}
	return t
}

// reading of one occurrence of {T}: what it evaluates to and which look-up (if
// any) that takes.
type reading struct {
	name  string
	value string
	look  *lookup
}

func (t intToken) readings() []reading {
	var out []reading
	if t.fits {
		out = append(out, reading{"group", groupValue(t.index), &lookup{group: true, idx: t.index}})
	}
	if !t.must {
		out = append(out, reading{"key", keyValue(t.text), &lookup{key: t.text}})
		if !t.fits {
			out = append(out, reading{"no-such-group", "", nil})
		}
	}
	return out
}

// intBoundaries: the values around which tokens are generated; withSmallK are
// the ones that also get the offsets +0..+maxK (2^64+k aliases group k when an
// index wraps around modulo 2^64).
type intBoundary struct {
	name   string
	v      *big.Int
	smallK bool
}

func intBoundaries(quick bool) []intBoundary {
	two := big.NewInt(2)
	mul := func(a *big.Int, m int64) *big.Int { return new(big.Int).Mul(a, big.NewInt(m)) }
	b := []intBoundary{
		{"0", big.NewInt(0), true},
		{"10^9", pow(bigTen, 9), false}, // 9 / 10 digits: the reference's own boundary
		{"2^31", pow(two, 31), false},
		{"2^32", pow(two, 32), true},
		{"2^53", pow(two, 53), false},
		{"2^62", pow(two, 62), false},
		{"10^18", pow(bigTen, 18), false},
		{"2^63", pow(two, 63), true},
		{"10^19", pow(bigTen, 19), false},
		{"2^64", pow(two, 64), true},
		{"2*2^64", mul(pow2_64, 2), true}, // still 20 digits
		{"5*2^64", mul(pow2_64, 5), true}, // the last multiple with 20 digits
		{"10^20", pow(bigTen, 20), true},  // 20 / 21 digits
		{"10*2^64", mul(pow2_64, 10), true},
		{"10^21", pow(bigTen, 21), false},
		{"2^96", pow(two, 96), false},
		{"2^128", pow(two, 128), true},
		{"10^39", pow(bigTen, 39), false},
	}
	if !quick {
		b = append(b,
			intBoundary{"2^15", pow(two, 15), false},
			intBoundary{"2^16", pow(two, 16), true},
			intBoundary{"2^24", pow(two, 24), false},
			intBoundary{"3*2^32", mul(pow(two, 32), 3), true},
			intBoundary{"2^52", pow(two, 52), false},
			intBoundary{"3*2^64", mul(pow2_64, 3), true},
			intBoundary{"4*2^64", mul(pow2_64, 4), true},
			intBoundary{"2^65", pow(two, 65), true},
			intBoundary{"10^22", pow(bigTen, 22), false},
			intBoundary{"2^127", pow(two, 127), false},
			intBoundary{"2^256", pow(two, 256), true},
		)
	}
	return b
}

type intParams struct {
	around, smallK int   // offsets -around..+around (0..+smallK for the smallK boundaries)
	padN           []int // this many leading zeros
	padTo          []int // leading zeros up to this many digits (when the number is shorter)
}

func intParamsOf(quick bool) intParams {
	if quick {
		return intParams{around: 3, smallK: 12, padN: []int{0, 1, 2}, padTo: []int{20, 21}}
	}
	return intParams{around: 16, smallK: 40, padN: []int{0, 1, 2, 3}, padTo: []int{10, 19, 20, 21, 22, 40}}
}

func showInts(a []int) string {
	out := make([]string, len(a))
	for i, n := range a {
		out[i] = strconv.Itoa(n)
	}
	return strings.Join(out, "/")
}

func intRuleBoundaries(quick bool) string {
	var out []string
	for _, b := range intBoundaries(quick) {
		if b.smallK {
			out = append(out, b.name+"*")
		} else {
			out = append(out, b.name)
		}
	}
	return strings.Join(out, ", ")
}

func intRuleContexts() string {
	var out []string
	for _, c := range intContexts {
		out = append(out, "`"+c.tpl+"`")
	}
	return strings.Join(out, ", ")
}

// intTokens enumerates the token family: boundary + offset, with sign and
// leading-zero variants; every distinct text once, in a fixed order.
func intTokens(quick bool, f func(t intToken, origin string) bool) {
	ip := intParamsOf(quick)
	around, smallK, padTo, padN := ip.around, ip.smallK, ip.padTo, ip.padN
	signs := []string{"", "-", "+"}
	seen := map[string]bool{}
	for _, b := range intBoundaries(quick) {
		hi := around
		if b.smallK {
			hi = smallK
		}
		for off := -around; off <= hi; off++ {
			v := new(big.Int).Add(b.v, big.NewInt(int64(off)))
			if v.Sign() < 0 {
				continue
			}
			digits := v.String()
			var padded []string
			for _, n := range padN {
				padded = append(padded, strings.Repeat("0", n)+digits)
			}
			for _, l := range padTo {
				if len(digits) < l {
					padded = append(padded, strings.Repeat("0", l-len(digits))+digits)
				}
			}
			for _, p := range padded {
				for _, sg := range signs {
					text := sg + p
					if seen[text] {
						continue
					}
					seen[text] = true
					origin := fmt.Sprintf("%s%+d", b.name, off)
					if sg != "" {
						origin = sg + "(" + origin + ")"
					}
					if !f(newIntToken(text), origin) {
						return
					}
				}
			}
		}
	}
}

// ------------------------------------------------------------------ contexts

// intContext: a template around the token. tpl and want are given with the
// placeholders T (the token text) and P (what the look-up returns); fixed are
// the other look-ups the template performs.
type intContext struct {
	name  string
	tpl   string
	want  string
	fixed []lookup
	noRef bool // T is not inside braces of its own: literal text, no look-up of T
}

var g0, g1 = lookup{group: true, idx: 0}, lookup{group: true, idx: 1}

var intContexts = []intContext{
	{name: "alone", tpl: "{T}", want: "P"},
	{name: "alone-padded", tpl: "{ T }", want: "P"},
	{name: "between-literal-text", tpl: "xT{T}T y", want: "xTPT y"},
	{name: "between-lookups", tpl: "{1}{T}{0}", want: "<m1>P<m0>", fixed: []lookup{g0, g1}},
	{name: "argument", tpl: "{f {T}}", want: "f(P)"},
	{name: "quoted-argument", tpl: `{f "{T}"}`, want: "f(P)"},
	{name: "first-argument", tpl: "{f {T} a}", want: "f(P|a)"},
	{name: "last-argument", tpl: "{g a {T}}", want: "g(a|P)"},
	{name: "argument-twice", tpl: "{f {T} {T}}", want: "f(P|P)"},
	{name: "argument-with-text", tpl: "{f x{T}y {0}}", want: "f(xPy|<m0>)", fixed: []lookup{g0}},
	{name: "nested-argument", tpl: "x{f {g {T}}}", want: "xf(g(P))"},
	{name: "word-argument", tpl: "{f T}", want: "f(T)", noRef: true},
	{name: "quoted-word-argument", tpl: `{f "T" {1}}`, want: "f(T|<m1>)", fixed: []lookup{g1}, noRef: true},
}

func (c intContext) template(t intToken) string { return strings.ReplaceAll(c.tpl, "T", t.text) }

func (c intContext) wanted(t intToken, value string) string {
	// P first: the token text contains no 'P', the look-up value may contain digits only
	return strings.ReplaceAll(strings.ReplaceAll(c.want, "T", t.text), "P", value)
}

func intContextByName(name string) (intContext, bool) {
	for _, c := range intContexts {
		if c.name == name {
			return c, true
		}
	}
	return intContext{}, false
}

// ------------------------------------------------------------------ check

// intToken checks one token in one context; returns the reading observed.
func (c *checker) intToken(t intToken, ctx intContext, origin string) (ok bool, observed string) {
	tpl := ctx.template(t)
	cs := Case{Kind: "inttoken", Template: tpl, Token: t.text, Ctx: ctx.name, Note: origin}
	rds := t.readings()
	if ctx.noRef {
		rds = []reading{{"literal", t.text, nil}}
	}
	var adm []string
	for _, r := range rds {
		adm = append(adm, r.name)
	}
	sigBase := "C09/integer-token/" + t.class
	if ctx.noRef {
		sigBase = "C09/integer-token-as-word/" + t.class
	}
	for _, opt := range []bool{true, false} {
		var lc logCtx
		r := runWith(builders[opt], tpl, &lc)
		if r.panicked != "" {
			c.w.Violation(panicSig(tpl, r), fmt.Sprintf("%s of template %q (optimize=%v) panicked: %s [token %s]", r.phase, tpl, opt, r.panicked, origin), cs)
			return false, "panic"
		}
		if r.err != nil {
			// S2: a lone word or integer is a key/group lookup, not an error
			c.w.Violation(sigBase+"/compile-error", fmt.Sprintf("template %q (optimize=%v, token %s, context %s): an all-digit lone token is a key/group look-up, but Compile reports: %v", tpl, opt, origin, ctx.name, r.err), cs)
			return false, "error"
		}
		// every look-up performed must be an admissible one of T or one the context makes
		var foreign *lookup
		for i := range lc.log {
			l := lc.log[i]
			good := false
			for _, f := range ctx.fixed {
				good = good || l == f
			}
			for _, rd := range rds {
				good = good || (rd.look != nil && l == *rd.look)
			}
			if !good {
				foreign = &lc.log[i]
				break
			}
		}
		observed = ""
		for _, rd := range rds {
			if r.out == ctx.wanted(t, rd.value) {
				observed = rd.name
				break
			}
		}
		if foreign != nil {
			kind := "a-different-key-looked-up"
			if foreign.group {
				kind = "a-different-group-looked-up"
			}
			c.w.Violation(sigBase+"/"+kind, fmt.Sprintf("template %q (optimize=%v, token %s = %s, context %s) looks up %s and evaluates to %q; admissible readings of the token: %s (group look-up of exactly its value, or key look-up of exactly its text)", tpl, opt, origin, t.val.String(), ctx.name, foreign, r.out, strings.Join(adm, ", ")), cs)
			return false, "foreign"
		}
		if observed == "" {
			c.w.Violation(sigBase+"/wrong-value", fmt.Sprintf("template %q (optimize=%v, token %s, context %s) evaluates to %q after the look-ups %v; admissible readings of the token: %s, giving %q", tpl, opt, origin, ctx.name, r.out, lc.log, strings.Join(adm, ", "), ctx.wanted(t, rds[0].value)), cs)
			return false, "wrong"
		}
	}
	return true, observed
}

// runWith compiles template with kb and evaluates it against ctx.
func runWith(kb *expressions.KeyBuilder, template string, ctx expressions.KeyBuilderContext) (res runResult) {
	res.phase = "compile"
	defer func() {
		if r := recover(); r != nil {
			res.panicked = fmt.Sprint(r)
		}
	}()
	ckb, errs := kb.Compile(template)
	if errs != nil {
		res.err = errs
		if ckb != nil {
			res.phase = "buildkey"
			res.out = ckb.BuildKey(ctx)
		}
		return
	}
	if ckb == nil {
		res.err = fmt.Errorf("Compile returned neither a builder nor an error")
		return
	}
	res.phase = "buildkey"
	res.out = ckb.BuildKey(ctx)
	return
}
