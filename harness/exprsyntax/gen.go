package main

// Generator side of the C09 harness: expression trees, their printing with
// every admissible whitespace / quoting variant (the variants are choice
// points of the mc explorer), literal strings with two escaping styles, and
// single-character mutations. Nothing here imports rare.

import (
	"strings"

	"verif/mc"
)

type leafKind int

const (
	lWord   leafKind = iota // a        (may be quoted)
	lQuoted                 // "b c"    (must be quoted)
	lEmpty                  // ""       (S2 "including the empty string")
	lGroup0                 // {0}
	lGroup1                 // {1}
	lKey                    // {k}
	lMixed                  // p{1}     (literal text and a lookup in one argument; may be quoted)
	lCall
)

type tree struct {
	kind leafKind
	fn   string
	text string // lWord: the word (default "a"); lKey: the key (default "k")
	args []*tree
}

func (t *tree) word() string {
	if t.text != "" {
		return t.text
	}
	if t.kind == lKey {
		return "k"
	}
	return "a"
}

var leafKinds = []leafKind{lWord, lQuoted, lEmpty, lGroup0, lGroup1, lKey, lMixed}

// value is what "the tree dictates" (S2) on the recording context.
func (t *tree) value() string {
	switch t.kind {
	case lWord:
		return t.word()
	case lQuoted:
		return "b c"
	case lEmpty:
		return ""
	case lGroup0:
		return matchValue(0)
	case lGroup1:
		return matchValue(1)
	case lKey:
		return keyValue(t.word())
	case lMixed:
		return "p" + matchValue(1)
	}
	parts := make([]string, len(t.args))
	for i, a := range t.args {
		parts[i] = a.value()
	}
	return t.fn + "(" + strings.Join(parts, "|") + ")"
}

func (t *tree) String() string {
	switch t.kind {
	case lWord:
		return t.word()
	case lQuoted:
		return `"b c"`
	case lEmpty:
		return `""`
	case lGroup0:
		return "{0}"
	case lGroup1:
		return "{1}"
	case lKey:
		return "{" + t.word() + "}"
	case lMixed:
		return "p{1}"
	}
	parts := make([]string, len(t.args))
	for i, a := range t.args {
		parts[i] = a.String()
	}
	return t.fn + "(" + strings.Join(parts, ",") + ")"
}

func (t *tree) depth() int {
	d := 0
	for _, a := range t.args {
		if x := a.depth(); x > d {
			d = x
		}
	}
	if t.kind == lCall {
		return d + 1
	}
	return 0
}

// variant kinds (for signatures and statistics)
const (
	vkSepDouble = 1 << iota
	vkSepTab
	vkSepNewline
	vkQuoteWord
	vkQuoteRef
	vkQuoteCall
	vkPadLead
	vkPadTrail
	vkWrap
)

var vkNames = []struct {
	bit  int
	name string
}{
	{vkSepDouble, "double-space"}, {vkSepTab, "tab"}, {vkSepNewline, "newline"}, {vkQuoteWord, "quoted-word"}, {vkQuoteRef, "quoted-lookup"},
	{vkQuoteCall, "quoted-call"}, {vkPadLead, "leading-space"}, {vkPadTrail, "trailing-space"}, {vkWrap, "literal-neighbours"},
}

func variantName(used int) string {
	if used == 0 {
		return "plain"
	}
	n, name := 0, ""
	for _, v := range vkNames {
		if used&v.bit != 0 {
			n++
			name = v.name
		}
	}
	if n == 1 {
		return name
	}
	return "combined"
}

type printer struct {
	ex      *mc.Explorer
	seps    []string
	sepBits []int
	used    int
}

func (p *printer) sep() string {
	i := p.ex.Choose(len(p.seps), "sep")
	p.used |= p.sepBits[i]
	return p.seps[i]
}

func (p *printer) quoteChoice(bit int, label string) bool {
	if p.ex.Choose(2, label) == 1 {
		p.used |= bit
		return true
	}
	return false
}

func (p *printer) arg(t *tree) string {
	switch t.kind {
	case lWord:
		if p.quoteChoice(vkQuoteWord, "quote-word") {
			return `"` + t.word() + `"`
		}
		return t.word()
	case lQuoted:
		return `"b c"`
	case lEmpty:
		return `""`
	case lGroup0, lGroup1, lKey, lMixed:
		s := t.String()
		if p.quoteChoice(vkQuoteRef, "quote-lookup") {
			return `"` + s + `"`
		}
		return s
	}
	s := p.call(t)
	// quotes do not nest: a call is printed quoted only when it contains no quotes
	if !strings.Contains(s, `"`) && p.quoteChoice(vkQuoteCall, "quote-call") {
		return `"` + s + `"`
	}
	return s
}

func (p *printer) call(t *tree) string {
	var sb strings.Builder
	sb.WriteByte('{')
	pad := p.ex.Choose(4, "pad")
	if pad&1 != 0 {
		p.used |= vkPadLead
		sb.WriteByte(' ')
	}
	sb.WriteString(t.fn)
	for _, a := range t.args {
		sb.WriteString(p.sep())
		sb.WriteString(p.arg(a))
	}
	if pad&2 != 0 {
		p.used |= vkPadTrail
		sb.WriteByte(' ')
	}
	sb.WriteByte('}')
	return sb.String()
}

// top prints a whole template and returns the expected output.
func (p *printer) top(t *tree) (template, want string) {
	s := p.call(t)
	if p.ex.Choose(2, "wrap") == 1 {
		p.used |= vkWrap
		// S1 literal text directly next to statements, and two statements in a row
		return "x" + s + "y {1}{0}", "x" + t.value() + "y " + matchValue(1) + matchValue(0)
	}
	return s, t.value()
}

// ---------------------------------------------------------------- tree sets

func leaves() []*tree {
	out := make([]*tree, len(leafKinds))
	for i, k := range leafKinds {
		out[i] = &tree{kind: k}
	}
	return out
}

// calls enumerates fn(args) with 1..maxArgs arguments from pool.
func calls(fn string, pool []*tree, maxArgs int, f func(*tree)) {
	for n := 1; n <= maxArgs; n++ {
		idx := make([]int, n)
		for {
			t := &tree{kind: lCall, fn: fn, args: make([]*tree, n)}
			for i, k := range idx {
				t.args[i] = pool[k]
			}
			f(t)
			i := n - 1
			for ; i >= 0; i-- {
				idx[i]++
				if idx[i] < len(pool) {
					break
				}
				idx[i] = 0
			}
			if i < 0 {
				break
			}
		}
	}
}

func (t *tree) innerCalls() int {
	n := 0
	for _, a := range t.args {
		if a.kind == lCall {
			n++
		}
	}
	return n
}

// ---------------------------------------------------------------- literals

// escapeMinimal: only what must be escaped outside braces (S1).
func escapeMinimal(s string) string {
	var sb strings.Builder
	for _, r := range s {
		switch r {
		case '\\', '{', '}':
			sb.WriteByte('\\')
			sb.WriteRune(r)
		default:
			sb.WriteRune(r)
		}
	}
	return sb.String()
}

// escapeAll: S1 "`\x` makes any character literal": a backslash before every
// character, except that \n \t \r are the control characters (so the letters
// n, t, r are written plainly and the control characters by their escapes).
func escapeAll(s string) string {
	var sb strings.Builder
	for _, r := range s {
		switch r {
		case 'n', 't', 'r':
			sb.WriteRune(r)
		case '\n':
			sb.WriteString(`\n`)
		case '\t':
			sb.WriteString(`\t`)
		case '\r':
			sb.WriteString(`\r`)
		default:
			sb.WriteByte('\\')
			sb.WriteRune(r)
		}
	}
	return sb.String()
}

// allStrings enumerates every string over alphabet with minLen..maxLen symbols.
func allStrings(alphabet []string, minLen, maxLen int, f func(s string) bool) {
	for l := minLen; l <= maxLen; l++ {
		idx := make([]int, l)
		for {
			var sb strings.Builder
			for _, k := range idx {
				sb.WriteString(alphabet[k])
			}
			if !f(sb.String()) {
				return
			}
			i := l - 1
			for ; i >= 0; i-- {
				idx[i]++
				if idx[i] < len(alphabet) {
					break
				}
				idx[i] = 0
			}
			if i < 0 {
				break
			}
		}
	}
}

// mutations: every single-character deletion and every insertion of one of
// ins at every position.
func mutations(s string, ins []string, f func(m string, kind string)) {
	r := []rune(s)
	for i := range r {
		f(string(r[:i])+string(r[i+1:]), "delete")
	}
	for i := 0; i <= len(r); i++ {
		for _, c := range ins {
			f(string(r[:i])+c+string(r[i:]), "insert")
		}
	}
}
