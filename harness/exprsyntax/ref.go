package main

// Reference reading of the template syntax for C09. Nothing here imports rare.
//
// Statement (properties.jsonl C09), the sentences encoded:
//  S1 "Text outside braces is emitted literally and `\x` makes any character
//      literal (\n, \t, \r give control characters), so for any string s its
//      escaped rendering evaluates to s."
//  S2 "Inside braces arguments are split on unquoted, unbraced whitespace,
//      double quotes form one argument (including the empty string), a lone
//      word or integer is a key/group lookup, and braces nest; hence an
//      expression tree printed with this syntax evaluates exactly as the tree
//      dictates."
//  S3 "Unterminated or empty statements and unknown functions are reported as
//      compile errors."
//
// The reference is three-valued. For a template it answers
//   VALUE    a parse (sequence of literal / lookup / call nodes),
//   MUSTERR  S3 applies (unterminated, empty statement, unknown function),
//   UNSPEC   the statement does not settle the reading; only "no crash" is
//            demanded.
// UNSPEC is chosen whenever a construct occurs that the statement is silent
// about:
//   * a backslash inside a statement (how escapes interact with nesting) and a
//     backslash as the last character of the template,
//   * a closing brace outside any statement,
//   * a quote that does not start an argument, text directly after a closing
//     quote, an unterminated quote, quoted text whose braces do not balance,
//   * a statement with a single argument that is quoted or is itself a
//     statement, a quoted or braced function name,
//   * +5 / more than 9 digits as "integer" (whether it is the group or the key
//     look-up; that it is one of the two, with exactly that number / that name,
//     is demanded by part I in inttok.go), white space other than space, tab,
//     CR, LF.
// UNSPEC dominates MUSTERR dominates VALUE when parts are combined.

import (
	"strings"
	"unicode"
)

type verdict int

const (
	vValue verdict = iota
	vMustErr
	vUnspec
)

func (v verdict) String() string { return [...]string{"value", "must-error", "unspecified"}[v] }

type tkind int

const (
	kLit tkind = iota
	kGroup
	kKey
	kCall
)

type tnode struct {
	k    tkind
	text string // literal text, key name, function name
	idx  int
	args [][]tnode
}

type refResult struct {
	v   verdict
	why string // class of the must-error / unspecified reason (no case data)
	seq []tnode
}

func (r *refResult) raise(v verdict, why string) {
	if v > r.v {
		r.v, r.why = v, why
	}
}

func refUnescape(r rune) rune {
	switch r {
	case 'n':
		return '\n'
	case 't':
		return '\t'
	case 'r':
		return '\r'
	}
	return r
}

func isSep(r rune) bool { return r == ' ' || r == '\t' || r == '\n' || r == '\r' }

// refTemplate parses template text. top is true for the text the user wrote
// (escapes allowed, S1) and false for argument text.
func refTemplate(s []rune, funcs map[string]bool, top bool) refResult {
	var res refResult
	var lit []rune
	flush := func() {
		if len(lit) > 0 {
			res.seq = append(res.seq, tnode{k: kLit, text: string(lit)})
			lit = nil
		}
	}
	for i := 0; i < len(s); i++ {
		r := s[i]
		switch {
		case r == '\\':
			if !top {
				res.raise(vUnspec, "backslash-inside-statement")
				continue
			}
			if i+1 >= len(s) {
				res.raise(vUnspec, "trailing-backslash")
				continue
			}
			i++
			lit = append(lit, refUnescape(s[i])) // S1
		case r == '{':
			// S2 "braces nest": find the matching brace
			depth, j := 1, i+1
			bs := false
			for ; j < len(s); j++ {
				if s[j] == '\\' {
					bs = true
					j++ // whatever it escapes is not a brace for anybody
					continue
				}
				if s[j] == '{' {
					depth++
				} else if s[j] == '}' {
					depth--
					if depth == 0 {
						break
					}
				}
			}
			if bs {
				res.raise(vUnspec, "backslash-inside-statement")
				if j >= len(s) {
					return res
				}
			}
			if j >= len(s) {
				res.raise(vMustErr, "unterminated") // S3
				return res
			}
			flush()
			st := refStatement(s[i+1:j], funcs)
			res.raise(st.v, st.why)
			res.seq = append(res.seq, st.seq...)
			i = j
		case r == '}':
			res.raise(vUnspec, "closing-brace-outside-statement")
			lit = append(lit, r)
		default:
			lit = append(lit, r) // S1 "Text outside braces is emitted literally"
		}
	}
	flush()
	return res
}

type rarg struct {
	text   []rune
	quoted bool
}

func balanced(s []rune) bool {
	d := 0
	for _, r := range s {
		if r == '{' {
			d++
		} else if r == '}' {
			d--
			if d < 0 {
				return false
			}
		}
	}
	return d == 0
}

// refStatement parses the text between one pair of braces (brace-balanced, no
// backslash).
func refStatement(c []rune, funcs map[string]bool) refResult {
	var res refResult
	for _, r := range c {
		if unicode.IsSpace(r) && !isSep(r) {
			res.raise(vUnspec, "exotic-whitespace")
		}
		if r == '\\' {
			res.raise(vUnspec, "backslash-inside-statement")
		}
	}
	if res.v == vUnspec {
		return res
	}
	var args []rarg
	for i := 0; i < len(c); {
		if isSep(c[i]) { // S2 "split on unquoted, unbraced whitespace"
			i++
			continue
		}
		if c[i] == '"' { // S2 "double quotes form one argument (including the empty string)"
			j := i + 1
			for j < len(c) && c[j] != '"' {
				j++
			}
			if j >= len(c) {
				res.raise(vUnspec, "unterminated-quote")
				return res
			}
			if j+1 < len(c) && !isSep(c[j+1]) {
				res.raise(vUnspec, "text-after-closing-quote")
				return res
			}
			q := c[i+1 : j]
			if !balanced(q) {
				res.raise(vUnspec, "unbalanced-braces-in-quotes")
				return res
			}
			args = append(args, rarg{text: q, quoted: true})
			i = j + 1
			continue
		}
		// a word: up to unquoted white space at brace depth 0
		depth, j := 0, i
		for j < len(c) {
			r := c[j]
			if depth == 0 && isSep(r) {
				break
			}
			if r == '"' {
				if depth == 0 {
					res.raise(vUnspec, "quote-inside-word")
					return res
				}
				k := j + 1
				for k < len(c) && c[k] != '"' {
					k++
				}
				if k >= len(c) {
					res.raise(vUnspec, "unterminated-quote")
					return res
				}
				if !balanced(c[j+1 : k]) {
					res.raise(vUnspec, "unbalanced-braces-in-quotes")
					return res
				}
				j = k + 1
				continue
			}
			if r == '{' {
				depth++
			} else if r == '}' {
				depth--
			}
			j++
		}
		args = append(args, rarg{text: c[i:j]})
		i = j
	}
	switch {
	case len(args) == 0:
		res.raise(vMustErr, "empty-statement") // S3
		return res
	case len(args) == 1:
		a := args[0]
		w := string(a.text)
		if a.quoted {
			res.raise(vUnspec, "lone-quoted-argument")
			return res
		}
		if strings.ContainsAny(w, "{}") {
			res.raise(vUnspec, "lone-braced-argument")
			return res
		}
		// S2 "a lone word or integer is a key/group lookup"
		if n, isInt, odd := refInteger(w); odd {
			res.raise(vUnspec, "odd-integer")
		} else if isInt {
			res.seq = []tnode{{k: kGroup, idx: n}}
		} else {
			res.seq = []tnode{{k: kKey, text: w}}
		}
		return res
	}
	name := string(args[0].text)
	if args[0].quoted || strings.ContainsAny(name, "{}") {
		res.raise(vUnspec, "function-name-not-a-word")
		return res
	}
	call := tnode{k: kCall, text: name}
	for _, a := range args[1:] {
		sub := refTemplate(a.text, funcs, false)
		res.raise(sub.v, sub.why)
		call.args = append(call.args, sub.seq)
	}
	if !funcs[name] {
		res.raise(vMustErr, "unknown-function") // S3
		return res
	}
	res.seq = []tnode{call}
	return res
}

// refInteger: -?[0-9]{1,9} is an integer; things an integer parser may or may
// not take (+5, 20 digits) are "odd".
func refInteger(w string) (n int, isInt, odd bool) {
	s := w
	neg := false
	if strings.HasPrefix(s, "-") {
		neg = true
		s = s[1:]
	} else if strings.HasPrefix(s, "+") {
		rest := s[1:]
		if rest != "" && strings.Trim(rest, "0123456789") == "" {
			return 0, false, true
		}
		return 0, false, false
	}
	if s == "" || strings.Trim(s, "0123456789") != "" {
		return 0, false, false
	}
	if len(s) > 9 {
		return 0, false, true
	}
	for _, c := range s {
		n = n*10 + int(c-'0')
	}
	if neg {
		n = -n
	}
	return n, true, false
}

// recording context / functions of the reference side
func matchValue(i int) string  { return "<m" + itoa(i) + ">" }
func keyValue(k string) string { return "<k:" + k + ">" }

func itoa(i int) string {
	if i < 0 {
		return "-" + itoa(-i)
	}
	if i < 10 {
		return string(rune('0' + i))
	}
	return itoa(i/10) + string(rune('0'+i%10))
}

// refEvalSeq is the value "the tree dictates": recording functions return
// name(arg|arg|...).
func refEvalSeq(seq []tnode) string {
	var sb strings.Builder
	for _, n := range seq {
		switch n.k {
		case kLit:
			sb.WriteString(n.text)
		case kGroup:
			sb.WriteString(matchValue(n.idx))
		case kKey:
			sb.WriteString(keyValue(n.text))
		case kCall:
			sb.WriteString(n.text)
			sb.WriteByte('(')
			for i, a := range n.args {
				if i > 0 {
					sb.WriteByte('|')
				}
				sb.WriteString(refEvalSeq(a))
			}
			sb.WriteByte(')')
		}
	}
	return sb.String()
}
