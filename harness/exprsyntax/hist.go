package main

// Part H of the C09 harness: histories on ONE KeyBuilder.
//
// Everything else in this harness compiles against builders whose functions
// were all registered up front. What a template means, however, is decided by
// the template text and the functions registered AT THE TIME of the Compile
// (S2 "evaluates exactly as the tree dictates", S3 "unknown functions are
// reported as compile errors"); Func/Funcs may be called between compiles
// (rare does exactly that while loading a funcs file). Anything a KeyBuilder
// remembers from one Compile to the next is only reachable through a history,
// so this part enumerates every operation sequence up to a depth over
//   Compile(t)      t from a handful of templates mentioning f, g, h
//   Func(name, v)   name in {f, h}, v in {1, 2}: a recording function whose
//                   output names its version (f1(..), f2(..))
//   Funcs({f:1,h:2}) both at once
// on one builder that starts with only g registered, and checks after every
// Compile
//   * absolute: a function of the template is unregistered <=> compile error
//     (S3); otherwise the value is the one the tree dictates with the CURRENT
//     versions (S2),
//   * differential: error-or-value is what a FRESH KeyBuilder holding the same
//     function table gives for that template (state reached by the history
//     vs. the same table reached from the initial state).

import (
	"fmt"
	"sort"
	"strings"

	"rare/pkg/expressions"
)

var histTemplates = []string{
	`{f a}`,               // f alone
	`{h {0}}`,             // h alone, on a group
	`{g {f a}}`,           // f nested: the text of the first template as an argument
	`{g "{f a}" {h {0}}}`, // ... as a quoted argument, next to h
	`{f {h {0}}}`,         // h nested below f
	`x{f a}y{h {0}}`,      // both at top level between literal text
}

type histOp struct {
	name    string
	compile string         // template to compile ("" for a registration)
	set     map[string]int // functions to register: name -> version
	viaMap  bool           // through Funcs() instead of Func()
}

func histOps() []histOp {
	var ops []histOp
	for _, t := range histTemplates {
		ops = append(ops, histOp{name: "Compile(" + t + ")", compile: t})
	}
	for _, fn := range []string{"f", "h"} {
		for v := 1; v <= 2; v++ {
			ops = append(ops, histOp{name: fmt.Sprintf("Func(%s,v%d)", fn, v), set: map[string]int{fn: v}})
		}
	}
	ops = append(ops, histOp{name: "Funcs({f:v1,h:v2})", set: map[string]int{"f": 1, "h": 2}, viaMap: true})
	return ops
}

func histRuleOps() string {
	var out []string
	for _, o := range histOps() {
		out = append(out, o.name)
	}
	return strings.Join(out, ", ")
}

func histDepth(quick bool) int {
	if quick {
		return 4
	}
	return 6
}

// function table of the model: name -> version (g is version 0 from the start)
type funcTable map[string]int

func (ft funcTable) String() string {
	var names []string
	for n := range ft {
		names = append(names, n)
	}
	sort.Strings(names)
	parts := make([]string, len(names))
	for i, n := range names {
		parts[i] = versionName(n, ft[n])
	}
	return "{" + strings.Join(parts, ",") + "}"
}

func (ft funcTable) known() map[string]bool {
	out := map[string]bool{}
	for n := range ft {
		out[n] = true
	}
	return out
}

func versionName(name string, v int) string {
	if v == 0 {
		return name
	}
	return name + itoa(v)
}

func register(kb *expressions.KeyBuilder, name string, v int) {
	kb.Func(name, recorder(versionName(name, v)))
}

func freshBuilder(optimize bool, ft funcTable) *expressions.KeyBuilder {
	kb := expressions.NewKeyBuilderEx(optimize)
	names := make([]string, 0, len(ft))
	for n := range ft {
		names = append(names, n)
	}
	sort.Strings(names)
	for _, n := range names {
		register(kb, n, ft[n])
	}
	return kb
}

// refEvalSeqV is refEvalSeq with the function names replaced by the names of
// their current versions.
func refEvalSeqV(seq []tnode, ft funcTable) string {
	var sb strings.Builder
	for _, n := range seq {
		if n.k != kCall {
			sb.WriteString(refEvalSeq([]tnode{n}))
			continue
		}
		sb.WriteString(versionName(n.text, ft[n.text]))
		sb.WriteByte('(')
		for i, a := range n.args {
			if i > 0 {
				sb.WriteByte('|')
			}
			sb.WriteString(refEvalSeqV(a, ft))
		}
		sb.WriteByte(')')
	}
	return sb.String()
}

// whereFn describes the position in a history; only evaluated for a report.
type whereFn func() string

func (f whereFn) String() string { return f() }

// histReference: the reference reading of tpl under the function table ft and,
// when it is a value, the value; computed once per (template, table).
var histRefCache = map[string]struct {
	ref  refResult
	want string
}{}

func histReference(tpl string, ft funcTable) (refResult, string) {
	key := tpl + "\x00" + ft.String()
	if e, ok := histRefCache[key]; ok {
		return e.ref, e.want
	}
	ref := refTemplate([]rune(tpl), ft.known(), true)
	want := ""
	if ref.v == vValue {
		want = refEvalSeqV(ref.seq, ft)
	}
	histRefCache[key] = struct {
		ref  refResult
		want string
	}{ref, want}
	return ref, want
}

type histStats struct {
	transitions, compiles, compilesAfterRegistration int64
	tables                                           map[string]bool
}

// history runs one operation sequence on one builder and checks every Compile.
func (c *checker) history(ops []histOp, optimize bool, st *histStats) (ok bool) {
	names := make([]string, len(ops))
	for i, o := range ops {
		names[i] = o.name
	}
	cs := Case{Kind: "history", Ops: names, Optimize: optimize}
	ft := funcTable{"g": 0}
	kb := freshBuilder(optimize, ft)
	registered := false
	for step, op := range ops {
		if st != nil {
			st.transitions++
		}
		if op.compile == "" {
			if op.viaMap {
				m := map[string]expressions.KeyBuilderFunction{}
				for n, v := range op.set {
					m[n] = recorder(versionName(n, v))
				}
				kb.Funcs(m)
			} else {
				for n, v := range op.set {
					register(kb, n, v)
				}
			}
			for n, v := range op.set {
				ft[n] = v
			}
			registered = true
			if st != nil {
				st.tables[ft.String()] = true
			}
			continue
		}
		if st != nil {
			st.compiles++
			if registered {
				st.compilesAfterRegistration++
			}
		}
		tpl := op.compile
		step := step
		where := whereFn(func() string {
			return fmt.Sprintf("step %d of [%s] (optimize=%v, functions now %s)", step+1, strings.Join(names[:step+1], " ; "), optimize, ft)
		})
		got := runWith(kb, tpl, recCtx{})
		if got.panicked != "" {
			c.w.Violation("C09/history/panic/"+got.phase, fmt.Sprintf("%s: %s of %q panicked: %s", where, got.phase, tpl, got.panicked), cs)
			return false
		}
		// absolute oracle
		ref, want := histReference(tpl, ft)
		switch ref.v {
		case vMustErr:
			if got.err == nil {
				// S3 "unknown functions are reported as compile errors"
				c.w.Violation("C09/history/unregistered-function-not-reported", fmt.Sprintf("%s: %q compiles without error and gives %q, but it has an %s", where, tpl, got.out, ref.why), cs)
				return false
			}
		case vValue:
			if got.err != nil {
				// S3 only unknown functions (and malformed statements) are errors
				c.w.Violation("C09/history/compile-error-although-every-function-is-registered", fmt.Sprintf("%s: %q should evaluate to %q but Compile reports: %v", where, tpl, want, got.err), cs)
				return false
			}
			if got.out != want {
				// S2 "evaluates exactly as the tree dictates"
				c.w.Violation("C09/history/value-not-of-the-current-functions", fmt.Sprintf("%s: %q evaluates to %q, the registered functions dictate %q", where, tpl, got.out, want), cs)
				return false
			}
		default:
			panic("harness self-check: history template not settled by the reference: " + tpl)
		}
		// differential oracle: a fresh builder with the same function table
		fresh := runWith(freshBuilder(optimize, ft), tpl, recCtx{})
		if fresh.panicked != "" {
			c.w.Violation("C09/history/panic/fresh-builder", fmt.Sprintf("%s: %q on a fresh builder panicked: %s", where, tpl, fresh.panicked), cs)
			return false
		}
		switch {
		case (got.err == nil) != (fresh.err == nil):
			c.w.Violation("C09/history/differs-from-fresh-builder/error-presence", fmt.Sprintf("%s: %q gives error %v, a fresh builder with the same functions gives error %v", where, tpl, got.err, fresh.err), cs)
			return false
		case got.err != nil && got.err.Error() != fresh.err.Error():
			c.w.Violation("C09/history/differs-from-fresh-builder/error-text", fmt.Sprintf("%s: %q reports %q, a fresh builder with the same functions reports %q", where, tpl, got.err.Error(), fresh.err.Error()), cs)
			return false
		case got.out != fresh.out:
			c.w.Violation("C09/history/differs-from-fresh-builder/value", fmt.Sprintf("%s: %q evaluates to %q, on a fresh builder with the same functions to %q", where, tpl, got.out, fresh.out), cs)
			return false
		}
		if st != nil {
			c.w.Outcome("hist", tpl, ft.String(), got.out, fmt.Sprint(got.err != nil))
		}
	}
	return true
}
