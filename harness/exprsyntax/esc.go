package main

// Part E of the C09 harness: leaves that need escaping inside call arguments
// (nesting depth >= 1) and unquoted non-ASCII words. Nothing here imports
// rare.
//
// Statement: S1 "`\x` makes any character literal (\n, \t, \r give control
// characters)" and S2 "an expression tree printed with this syntax evaluates
// exactly as the tree dictates". Printing a tree whose leaves contain
// backslashes, braces, quotes, blanks or control characters needs the rule by
// which escapes nest; it is the documented one (DESIGN §6 "an escape is
// consumed once per nesting level", docs/usage/expressions.md "Characters can
// be escaped with `\`"): every pass that reads a piece of text consumes one
// level of `\x`:
//   (1) the scan of a template (outside and inside its statements): `\x` -> x,
//       with \n \t \r -> control characters; unescaped braces nest;
//   (2) the split of a statement into arguments: `\x` -> x (x is then neither
//       quote, brace nor separator);
//   (3) every argument is itself a template -> (1) again.
// The printer applies the inverse of each pass to everything that is not
// syntax of that level ("literal" cells), so a literal backslash in an
// argument of a depth-d call is written with 2^(2d+1) backslashes (a literal
// brace with 2^(2d+1)-1 before it), and the value must be the tree value.
//
// Words: S2 "a lone word ... is a key/group lookup", "arguments are split on
// unquoted, unbraced whitespace": a word is a sequence of characters, so
// `voilà`, `Ångström`, `Škoda`, `😅` (UTF-8 encodings containing the bytes
// 0x85 / 0xA0, which are white space only as code points U+0085 / U+00A0) are
// single words.

import (
	"strings"
	"unicode"

	"verif/mc"
)

type cell struct {
	r rune
	s bool // syntax of some enclosing level: passes through every inverse unchanged
}

func lit(s string) []cell {
	out := make([]cell, 0, len(s))
	for _, r := range s {
		out = append(out, cell{r: r})
	}
	return out
}

func syn(s string) []cell {
	out := make([]cell, 0, len(s))
	for _, r := range s {
		out = append(out, cell{r: r, s: true})
	}
	return out
}

func cellsString(c []cell) string {
	var sb strings.Builder
	for _, x := range c {
		sb.WriteRune(x.r)
	}
	return sb.String()
}

// invScan: text that the template scan (pass 1/3) turns back into c. With all
// set every literal character is written as `\x` (S1 "`\x` makes any character
// literal"), except the letters n, t, r (which `\x` turns into control
// characters) and, unless rawControls, the control characters themselves
// (written \n \t \r).
func invScan(c []cell, rawControls, all bool) []cell {
	out := make([]cell, 0, len(c)*2)
	for _, x := range c {
		if x.s {
			out = append(out, x)
			continue
		}
		switch x.r {
		case '\\', '{', '}':
			out = append(out, cell{r: '\\'}, cell{r: x.r})
		case '\n', '\t', '\r':
			if rawControls {
				if all {
					out = append(out, cell{r: '\\'})
				}
				out = append(out, x)
			} else {
				out = append(out, cell{r: '\\'}, cell{r: map[rune]rune{'\n': 'n', '\t': 't', '\r': 'r'}[x.r]})
			}
		case 'n', 't', 'r':
			out = append(out, x)
		default:
			if all {
				out = append(out, cell{r: '\\'})
			}
			out = append(out, x)
		}
	}
	return out
}

// invSplit: text that the argument split (pass 2) turns back into c as ONE
// argument. With all set every literal character is written as `\x`; the
// letters n, t, r are left alone (the statement does not say whether the
// split gives the letter or the control character for them).
func invSplit(c []cell, quoted, all bool) []cell {
	out := make([]cell, 0, len(c)*2)
	for _, x := range c {
		if x.s {
			out = append(out, x)
			continue
		}
		switch x.r {
		case '\\', '"', '{', '}':
			out = append(out, cell{r: '\\'}, cell{r: x.r})
		case ' ', '\n', '\t', '\r':
			if quoted && !all {
				out = append(out, x)
			} else {
				out = append(out, cell{r: '\\'}, cell{r: x.r})
			}
		case 'n', 't', 'r':
			out = append(out, x)
		default:
			// white space other than blank, tab, CR, LF: S2 does not say whether it
			// separates arguments, S1 says that escaped it is literal
			if all || (!quoted && unicode.IsSpace(x.r)) {
				out = append(out, cell{r: '\\'})
			}
			out = append(out, x)
		}
	}
	return out
}

type ekind int

const (
	eText ekind = iota
	eLookup
	eSeq
	eCall
)

type etree struct {
	k     ekind
	text  string // eText: the literal; eLookup: the key / group number; eCall: function
	parts []*etree
	label string
}

func (t *etree) value() string {
	switch t.k {
	case eText:
		return t.text
	case eLookup:
		if n, isInt, _ := refInteger(t.text); isInt {
			return matchValue(n)
		}
		return keyValue(t.text)
	case eSeq:
		var sb strings.Builder
		for _, p := range t.parts {
			sb.WriteString(p.value())
		}
		return sb.String()
	}
	parts := make([]string, len(t.parts))
	for i, a := range t.parts {
		parts[i] = a.value()
	}
	return t.text + "(" + strings.Join(parts, "|") + ")"
}

func (t *etree) String() string {
	switch t.k {
	case eText:
		return "text" + strings.ReplaceAll(strings.ReplaceAll(strings.ReplaceAll("["+t.text+"]", "\n", "<LF>"), "\t", "<TAB>"), "\r", "<CR>")
	case eLookup:
		return "{" + t.text + "}"
	case eSeq:
		parts := make([]string, len(t.parts))
		for i, a := range t.parts {
			parts[i] = a.String()
		}
		return strings.Join(parts, "+")
	}
	parts := make([]string, len(t.parts))
	for i, a := range t.parts {
		parts[i] = a.String()
	}
	return t.text + "(" + strings.Join(parts, ",") + ")"
}

func (t *etree) depth() int {
	d := 0
	for _, a := range t.parts {
		if x := a.depth(); x > d {
			d = x
		}
	}
	if t.k == eCall {
		return d + 1
	}
	return d
}

const (
	evQuoted = 1 << iota
	evRawControls
	evSepTab
	evWrap
	evEscAll
	evEscLeaf
)

// escape styles of the part-E printer
const (
	escNeeded = iota // a backslash only where a pass needs one
	escAll           // every pass: a backslash before every literal character
	escLeaf          // the innermost pass (the leaf's own text): every character; outer passes: where needed
)

type eprinter struct {
	ex   *mc.Explorer
	used int
	raw  bool
	all  int
}

func hasSyntaxQuote(c []cell) bool {
	for _, x := range c {
		if x.s && x.r == '"' {
			return true
		}
	}
	return false
}

// written returns the template text (as cells) that compiles to t.
func (p *eprinter) written(t *etree) []cell {
	switch t.k {
	case eText:
		return invScan(lit(t.text), p.raw, p.all != escNeeded)
	case eLookup:
		// the statement's own two passes (scan, split) read the key
		out := syn("{")
		out = append(out, invScan(invSplit(lit(t.text), false, p.all != escNeeded), p.raw, p.all != escNeeded)...)
		return append(out, syn("}")...)
	case eSeq:
		var out []cell
		for _, x := range t.parts {
			out = append(out, p.written(x)...)
		}
		return out
	}
	// a call: content as the splitter must see it ...
	s := lit(t.text)
	for _, a := range t.parts {
		if p.ex.Choose(2, "sep") == 1 {
			p.used |= evSepTab
			s = append(s, syn("\t")...)
		} else {
			s = append(s, syn(" ")...)
		}
		aw := p.written(a)
		// quotes do not nest; an empty argument needs quotes
		quoted := len(aw) == 0
		if !quoted && !hasSyntaxQuote(aw) && p.ex.Choose(2, "quote") == 1 {
			quoted = true
			p.used |= evQuoted
		}
		if quoted {
			s = append(s, syn(`"`)...)
			s = append(s, invSplit(aw, true, p.all == escAll)...)
			s = append(s, syn(`"`)...)
		} else {
			s = append(s, invSplit(aw, false, p.all == escAll)...)
		}
	}
	// ... and as it must be written inside the braces so that the scan delivers it
	out := syn("{")
	out = append(out, invScan(s, p.raw, p.all == escAll)...)
	return append(out, syn("}")...)
}

func (p *eprinter) top(t *etree) (template, want string) {
	if p.ex.Choose(2, "controls") == 1 {
		p.raw = true
		p.used |= evRawControls
	}
	switch p.all = p.ex.Choose(3, "escape-style"); p.all {
	case escAll:
		p.used |= evEscAll
	case escLeaf:
		p.used |= evEscLeaf
	}
	s := cellsString(p.written(t))
	if p.ex.Choose(2, "wrap") == 1 {
		p.used |= evWrap
		return `\\` + s + `\{{0}`, `\` + t.value() + `{` + matchValue(0)
	}
	return s, t.value()
}

func eVariantName(used int) string {
	names := []string{}
	for _, v := range []struct {
		bit  int
		name string
	}{{evQuoted, "quoted"}, {evRawControls, "raw-controls"}, {evSepTab, "tab"}, {evWrap, "literal-neighbours"},
		{evEscAll, "every-character-escaped"}, {evEscLeaf, "leaf-characters-escaped"}} {
		if used&v.bit != 0 {
			names = append(names, v.name)
		}
	}
	switch len(names) {
	case 0:
		return "plain"
	case 1:
		return names[0]
	}
	return "combined"
}

// leafClass names what a leaf exercises (for signatures).
func eLeaves() []*etree {
	tx := func(label, s string) *etree { return &etree{k: eText, text: s, label: label} }
	lk := func(label, s string) *etree { return &etree{k: eLookup, text: s, label: label} }
	seq := func(label string, parts ...*etree) *etree { return &etree{k: eSeq, parts: parts, label: label} }
	return []*etree{
		tx("backslash", `c\d`),
		tx("backslash", `C:\\temp\new`),
		tx("brace", `o{p}`),
		tx("control", "l\nm"),
		tx("control", "\tz\r"),
		tx("quote", `q"r`),
		tx("blank", `s t`),
		tx("backslash-before-special", `\"\{\ \n`),
		tx("non-ascii-word", "voilà"),    // C3 A0
		tx("non-ascii-word", "Ångström"), // C3 85 ...
		tx("non-ascii-word", "Škoda"),    // C5 A0
		tx("non-ascii-word", "😅🤠"),       // F0 9F 98 85, F0 9F A4 A0
		tx("non-ascii-word", "é"),
		lk("non-ascii-key", "voilà"),
		lk("non-ascii-key", "Å"),
		lk("non-ascii-key", "Š😅"),
		lk("ascii-lookup", "1"),
		seq("escape-next-to-lookup", tx("", `w\`), lk("", "0")),
		seq("escape-next-to-lookup", lk("", "k"), tx("", "\n{"), lk("", "à")),
	}
}

func eCallOf(fn string, args ...*etree) *etree {
	labels := map[string]bool{}
	lab := ""
	for _, a := range args {
		if !labels[a.label] && a.label != "" {
			labels[a.label] = true
			if lab != "" {
				lab = "mixed"
			} else {
				lab = a.label
			}
		}
	}
	return &etree{k: eCall, text: fn, parts: args, label: lab}
}
