// Harness exprsyntax decides C09: template syntax (literals, escapes, quotes,
// nesting) parses as documented.
//
// Nine enumerations (see Rule): (A) literal/escape round trip of every string
// over a small alphabet in two escaping styles, and of strings around the
// "alias runes" of the special ASCII characters (alias.go); (W) words made of
// punctuation that is not syntax (apostrophe, backtick, ...) in calls; (B) expression trees printed
// with every whitespace/quoting variant (choice points of the mc explorer)
// evaluated with recording functions registered in a private KeyBuilder;
// (C) every single-character deletion / insertion in printed templates and
// (E) trees whose leaves need escaping inside call arguments (backslash,
// braces, quote, blank, control characters) or are unquoted non-ASCII words,
// printed with the per-pass escaping rule; (D) every raw string over a syntax
// alphabet, C and D judged by an independent
// three-valued reading of the statement (value / must be a compile error /
// not settled by the statement); (L) templates / arguments / calls of many
// stages; (I) integer-like lone tokens around the boundaries of the integer
// types, with a context that logs the look-ups (inttok.go); (H) every short
// operation sequence Compile/Func/Funcs on ONE KeyBuilder, each Compile
// compared with the reference and with a fresh builder holding the same
// functions (hist.go). Nothing may panic.
package main

import (
	"encoding/json"
	"fmt"
	"strconv"
	"strings"
	"time"

	"rare/pkg/expressions"
	"verif/mc"
	"verif/runner"
)

// ------------------------------------------------------------------ running rare

type recCtx struct{}

func (recCtx) GetMatch(i int) string  { return matchValue(i) }
func (recCtx) GetKey(k string) string { return keyValue(k) }

func recorder(name string) expressions.KeyBuilderFunction {
	return func(args []expressions.KeyBuilderStage) (expressions.KeyBuilderStage, error) {
		return func(ctx expressions.KeyBuilderContext) string {
			parts := make([]string, len(args))
			for i, a := range args {
				parts[i] = a(ctx)
			}
			return name + "(" + strings.Join(parts, "|") + ")"
		}, nil
	}
}

var knownFuncs = map[string]bool{"f": true, "g": true}

func newBuilder(optimize bool) *expressions.KeyBuilder {
	kb := expressions.NewKeyBuilderEx(optimize)
	for name := range knownFuncs {
		kb.Func(name, recorder(name))
	}
	return kb
}

var builders = map[bool]*expressions.KeyBuilder{true: newBuilder(true), false: newBuilder(false)}

type runResult struct {
	out      string
	err      error
	panicked string
	phase    string
}

func run(template string, optimize bool) (res runResult) {
	res.phase = "compile"
	defer func() {
		if r := recover(); r != nil {
			res.panicked = fmt.Sprint(r)
		}
	}()
	kb, errs := builders[optimize].Compile(template)
	if errs != nil {
		res.err = errs
		return
	}
	if kb == nil {
		res.err = fmt.Errorf("Compile returned neither a builder nor an error")
		return
	}
	res.phase = "buildkey"
	res.out = kb.BuildKey(recCtx{})
	return
}

// panicSig: phase, input class, runtime error class.
func panicSig(template string, r runResult) string {
	// input class: escape handling is the only part of Compile that looks at
	// the character after the current one
	in := "no-backslash"
	if strings.Contains(template, `\`) {
		in = "template-with-backslash"
	}
	cls := "other"
	switch {
	case strings.Contains(r.panicked, "index out of range"):
		cls = "index-out-of-range"
	case strings.Contains(r.panicked, "slice bounds out of range"):
		cls = "slice-bounds-out-of-range"
	case strings.Contains(r.panicked, "nil pointer"):
		cls = "nil-dereference"
	}
	return "C09/panic/" + r.phase + "/" + in + "/" + cls
}

// ------------------------------------------------------------------ cases

// Case is the replayable description of one check.
type Case struct {
	Kind     string   `json:"kind"` // expect | text | inttoken | history
	Template string   `json:"template"`
	Want     string   `json:"want,omitempty"`
	Sig      string   `json:"sig,omitempty"`    // expect: signature of a mismatch
	Origin   string   `json:"origin,omitempty"` // text: mutation | raw
	Note     string   `json:"note,omitempty"`
	Token    string   `json:"token,omitempty"` // inttoken: the token and the name of the context around it
	Ctx      string   `json:"ctx,omitempty"`
	Ops      []string `json:"ops,omitempty"` // history: operation names, applied in order to one builder
	Optimize bool     `json:"optimize,omitempty"`
}

type checker struct{ w *runner.W }

// expect: the template must compile without error and evaluate to want (both
// with and without optimisation).
func (c *checker) expect(template, want, sig, note string) (ok bool) {
	cs := Case{Kind: "expect", Template: template, Want: want, Sig: sig, Note: note}
	ok = true
	for _, opt := range []bool{true, false} {
		r := run(template, opt)
		switch {
		case r.panicked != "":
			c.w.Violation(panicSig(template, r), fmt.Sprintf("%s of template %q (optimize=%v) panicked: %s [%s]", r.phase, template, opt, r.panicked, note), cs)
			ok = false
		case r.err != nil:
			c.w.Violation(sig+"/compile-error", fmt.Sprintf("template %q (optimize=%v) should evaluate to %q but Compile reports: %v [%s]", template, opt, want, r.err, note), cs)
			ok = false
		case r.out != want:
			c.w.Violation(sig+"/wrong-value", fmt.Sprintf("template %q (optimize=%v) evaluates to %q, the statement dictates %q [%s]", template, opt, r.out, want, note), cs)
			ok = false
		}
		if !ok {
			return
		}
	}
	return
}

// judged: the template is read by the reference; S3 errors must be reported,
// determined values must be produced, nothing may panic.
func (c *checker) judged(template, origin string) (v verdict, outcome string) {
	cs := Case{Kind: "text", Template: template, Origin: origin}
	ref := refTemplate([]rune(template), knownFuncs, true)
	want := ""
	if ref.v == vValue {
		want = refEvalSeq(ref.seq)
	}
	outcome = ref.v.String() + ":" + ref.why
	for _, opt := range []bool{true, false} {
		r := run(template, opt)
		if r.panicked != "" {
			c.w.Violation(panicSig(template, r), fmt.Sprintf("%s of template %q (optimize=%v) panicked: %s (reference: %s %s)", r.phase, template, opt, r.panicked, ref.v, ref.why), cs)
			return ref.v, outcome + ":panic"
		}
		switch ref.v {
		case vMustErr:
			if r.err == nil {
				// S3 "Unterminated or empty statements and unknown functions are reported as compile errors"
				c.w.Violation("C09/"+origin+"/no-compile-error/"+ref.why, fmt.Sprintf("template %q (optimize=%v) compiles without error and gives %q, but it has an %s", template, opt, r.out, ref.why), cs)
				return ref.v, outcome
			}
		case vValue:
			if r.err != nil {
				c.w.Violation("C09/"+origin+"/well-formed-rejected", fmt.Sprintf("template %q (optimize=%v) should evaluate to %q but Compile reports: %v", template, opt, want, r.err), cs)
				return ref.v, outcome
			}
			if r.out != want {
				c.w.Violation("C09/"+origin+"/wrong-value", fmt.Sprintf("template %q (optimize=%v) evaluates to %q, the statement dictates %q", template, opt, r.out, want), cs)
				return ref.v, outcome
			}
			outcome = "value:" + want
		}
	}
	return ref.v, outcome
}

// ------------------------------------------------------------------ tiers

type tierParams struct {
	litAlphabet   []string
	litLen        int
	litAlphabet2  []string // a second, wider alphabet with a smaller length
	litLen2       int
	seps          []string
	sepBits       []int
	d1Bound3      int  // deviation bound for depth-1 trees with three arguments (-1: every combination)
	b21, b22      int  // deviation bounds for depth-2 trees with 2 arguments and 1 / 2 inner calls
	b31           int  // ... with 3 arguments and 1 inner call
	fullDepth2    bool // depth-2 trees with 3 arguments and 2..3 inner calls
	fullBound     int  // their deviation bound
	mutIns        []string
	mutBound      int // mutate every print with at most this many deviations (depth-1 trees)
	mutDepth2     bool
	escBound      int // deviation bound for the depth-2 trees of part E with two leaves (-1: every combination)
	rawAlphabet   []string
	rawLen        int
	rawAlphabet2  []string
	rawLen2       int
	rawAlphabet3  []string // with the quote characters of other languages (' `): only the strings containing one
	rawLen3       int
	aliasBound    int // part E, alias runes: deviation bound for the depth-2 trees with two leaves (-1: every combination)
	aliasPartner  int // ... number of partner leaves
	pw2, pw3, pwD int // punctuation words: deviation bounds for depth-1 trees with 2 / 3 arguments and for depth-2 trees
}

func params(quick bool) tierParams {
	base := []string{"a", " ", "{", "}", `\`, `"`, "n", "\n", "é"}
	// à = C3 A0, Å = C3 85, 😅 = F0 9F 98 85: encodings containing the bytes 0xA0 / 0x85
	wide := append(append([]string{}, base...), "\t", "t", "0", "\r", "à", "Å", "😅")
	raw := []string{"{", "}", `"`, " ", "f", "0", `\`}
	rawNoBs := []string{"{", "}", `"`, " ", "f", "0", "\t"}
	rawQuotes := []string{"{", "}", `"`, " ", "f", "0", "'", "`"}
	if quick {
		return tierParams{litAlphabet: base, litLen: 5, litAlphabet2: wide, litLen2: 3,
			seps: []string{" ", "  ", "\t", "\n"}, sepBits: []int{0, vkSepDouble, vkSepTab, vkSepNewline}, d1Bound3: 3,
			b21: 2, b22: 2, b31: 1, mutIns: []string{"{", "}", `"`, `\`, " ", "q", "'", "`"}, mutBound: 0,
			escBound: -1, rawAlphabet: raw, rawLen: 7, rawAlphabet2: rawNoBs, rawLen2: 7, rawAlphabet3: rawQuotes, rawLen3: 6,
			aliasBound: 2, aliasPartner: 2, pw2: 2, pw3: 1, pwD: 1}
	}
	return tierParams{litAlphabet: base, litLen: 6, litAlphabet2: wide, litLen2: 5,
		seps: []string{" ", "  ", "\t", "\n"}, sepBits: []int{0, vkSepDouble, vkSepTab, vkSepNewline},
		d1Bound3: -1, b21: 4, b22: 3, b31: 2, fullDepth2: true, fullBound: 1, mutIns: []string{"{", "}", `"`, `\`, " ", "q", "\t", "'", "`"}, mutBound: 1, mutDepth2: true,
		escBound: -1, rawAlphabet: raw, rawLen: 9, rawAlphabet2: rawNoBs, rawLen2: 8, rawAlphabet3: rawQuotes, rawLen3: 7,
		aliasBound: -1, aliasPartner: 3, pw2: -1, pw3: 2, pwD: 2}
}

func worker(w *runner.W) {
	c := &checker{w: w}
	tp := params(w.Quick())
	part := w.Param("part", "all")
	var caseNo int64
	own := func() bool { caseNo++; return w.Owns(caseNo) }

	// ---- A: literal round trip (S1)
	litFamily := "" // "/alias-of-.../class" for the alias-rune strings
	litCase := func(s string) bool {
		if !own() {
			return true
		}
		if w.Expired() {
			return false
		}
		w.SetCase(func() any { return Case{Kind: "expect", Template: escapeMinimal(s), Want: s} })
		for _, st := range []struct {
			name string
			esc  func(string) string
		}{{"minimal-escapes", escapeMinimal}, {"every-character-escaped", escapeAll}} {
			e := st.esc(s)
			ok := c.expect(e, s, "C09/literal"+litFamily+"/"+st.name, "round trip of "+fmt.Sprintf("%q", s))
			// the same literal around and between statements
			ok = c.expect(e+"{0}"+e+"{k}", s+matchValue(0)+s+keyValue("k"), "C09/literal-next-to-statement"+litFamily+"/"+st.name, "round trip of "+fmt.Sprintf("%q", s)) && ok
			w.Eval(ok && s != "")
			w.Add("literal_templates", 2)
			if litFamily != "" {
				w.Add("alias_rune_literal_templates", 2)
			}
		}
		w.Outcome("lit", s)
		if w.WantSample() && len(s) >= 5 && strings.ContainsAny(s, `\{"`) {
			w.Sample(map[string]string{"string": s, "minimal": escapeMinimal(s), "all": escapeAll(s)})
		}
		return true
	}
	if part == "all" || part == "literal" {
		allStrings(tp.litAlphabet, 0, tp.litLen, litCase)
		allStrings(tp.litAlphabet2, 1, tp.litLen2, litCase)
		w.Max("max_literal_length", int64(tp.litLen))
		// alias runes: S1 only the LETTERS n, t, r are special after a backslash
		for _, a := range aliasRunes(w.Quick()) {
			litFamily = "/" + a.label()
			for _, s := range aliasStrings(a) {
				if !litCase(s) {
					return
				}
			}
		}
		litFamily = ""
		w.Max("alias_runes", int64(len(aliasRunes(w.Quick()))))
	}

	// ---- B: expression trees x print variants (S2), C: their mutations (S3)
	lv := leaves()
	var inner []*tree
	calls("g", lv, 2, func(t *tree) { inner = append(inner, t) })
	pool := append(append([]*tree{}, lv...), inner...)

	treeSig := "" // "" = C09/tree/<variant>; the punctuation-word family names the character instead
	treeCase := func(t *tree, bound int, mutate bool, mutBound int) bool {
		if !own() {
			return true
		}
		if w.Expired() {
			return false
		}
		ex := mc.New(bound)
		for ex.Next() {
			p := &printer{ex: ex, seps: tp.seps, sepBits: tp.sepBits}
			tpl, want := p.top(t)
			ex.EndExecution()
			vn := variantName(p.used)
			w.SetCase(func() any { return Case{Kind: "expect", Template: tpl, Want: want} })
			sig := "C09/tree/" + vn
			if treeSig != "" {
				sig = treeSig
				w.Add("punctuation_word_prints", 1)
			}
			ok := c.expect(tpl, want, sig, "tree "+t.String()+", variant "+vn)
			w.Eval(ok)
			w.Add("tree_prints", 1)
			w.Outcome("tree", want, vn)
			// harness self-check: the reference reading of the printed text is the tree
			ref := refTemplate([]rune(tpl), knownFuncs, true)
			if ref.v != vValue || refEvalSeq(ref.seq) != want {
				panic(fmt.Sprintf("harness self-check: reference reads %q as %s %s %q, tree dictates %q", tpl, ref.v, ref.why, refEvalSeq(ref.seq), want))
			}
			if w.WantSample() && t.depth() == 2 && p.used&vkQuoteCall != 0 && p.used&vkSepTab != 0 {
				w.Sample(map[string]string{"tree": t.String(), "template": tpl, "value": want})
			}
			if mutate && ex.Cost() <= mutBound {
				mutations(tpl, tp.mutIns, func(m, kind string) {
					w.SetCase(func() any { return Case{Kind: "text", Template: m, Origin: "mutation"} })
					v, out := c.judged(m, "mutation")
					w.Eval(v != vUnspec)
					w.Add("mutations", 1)
					w.Add("mutations_"+strings.ReplaceAll(v.String(), "-", "_"), 1)
					w.Outcome("mut", out)
				})
			}
		}
		w.Add("choice_points", ex.ChoicePoints)
		w.Add("trees", 1)
		if treeSig != "" {
			w.Add("punctuation_word_trees", 1)
		} else {
			w.Add(fmt.Sprintf("prints_depth%d_args%d_inner%d", t.depth(), len(t.args), t.innerCalls()), ex.Executions)
		}
		return true
	}
	if part == "all" || part == "trees" {
		stop := false
		// depth 1: f/g with 1..3 leaf arguments, every variant
		for _, fn := range []string{"f", "g"} {
			calls(fn, lv, 3, func(t *tree) {
				b := -1
				if len(t.args) == 3 {
					b = tp.d1Bound3
				}
				if !stop && !treeCase(t, b, true, tp.mutBound) {
					stop = true
				}
			})
		}
		// depth 2: f with 1..3 arguments from leaves and g(1..2 leaves)
		calls("f", pool, 3, func(t *tree) {
			if stop || t.depth() < 2 {
				return
			}
			ic := t.innerCalls()
			switch {
			case len(t.args) == 1:
				stop = !treeCase(t, -1, tp.mutDepth2, 0)
			case len(t.args) == 2 && ic == 1:
				stop = !treeCase(t, tp.b21, tp.mutDepth2, 0)
			case len(t.args) == 2:
				stop = !treeCase(t, tp.b22, tp.mutDepth2, 0)
			case ic == 1:
				stop = !treeCase(t, tp.b31, false, 0)
			case tp.fullDepth2:
				stop = !treeCase(t, tp.fullBound, false, 0)
			}
		})
		if stop {
			return
		}
	}

	// ---- W: words made of / containing punctuation that is not syntax (S2)
	if part == "all" || part == "words" {
		call := func(fn string, args ...*tree) *tree { return &tree{kind: lCall, fn: fn, args: args} }
		ok := true
		each := func(t *tree, bound int) {
			if ok && !treeCase(t, bound, false, 0) {
				ok = false
			}
		}
		pls := punctLeaves(w.Quick())
		for _, pl := range pls {
			x := pl.t
			treeSig = "C09/punctuation-word/" + pl.name
			each(call("f", x), -1)
			each(call("g", x, x), tp.pw2)
			each(call("f", call("g", x)), tp.pw2)
			each(call("f", call("g", x), x), tp.pwD)
			each(call("f", x, call("g", x)), tp.pwD)
			each(call("f", call("g", x), call("g", x)), tp.pwD)
			each(call("f", call("g", x, x)), tp.pwD)
			for _, y := range lv {
				each(call("f", x, y), tp.pw2)
				each(call("f", y, x), tp.pw2)
				each(call("g", x, y, x), tp.pw3)
				each(call("g", y, x, y), tp.pw3)
				each(call("f", call("g", x), y), tp.pwD)
				each(call("f", y, call("g", x)), tp.pwD)
				each(call("f", call("g", x, y)), tp.pwD)
				each(call("f", call("g", y, x)), tp.pwD)
				each(call("f", x, call("g", y)), tp.pwD)
				each(call("f", call("g", y), x), tp.pwD)
			}
		}
		treeSig = ""
		w.Max("punctuation_word_leaves", int64(len(pls)))
		if !ok {
			return
		}
	}

	// ---- E: escapes inside call arguments, unquoted non-ASCII words (S1 + S2)
	escCase := func(t *etree, bound int) bool {
		if !own() {
			return true
		}
		if w.Expired() {
			return false
		}
		ex := mc.New(bound)
		for ex.Next() {
			p := &eprinter{ex: ex}
			tpl, want := p.top(t)
			ex.EndExecution()
			vn := eVariantName(p.used)
			w.SetCase(func() any { return Case{Kind: "expect", Template: tpl, Want: want} })
			ok := c.expect(tpl, want, "C09/argument-text/"+t.label, "tree "+t.String()+", variant "+vn)
			w.Eval(ok)
			w.Add("escape_tree_prints", 1)
			if strings.HasPrefix(t.label, "alias-of-") {
				w.Add("alias_rune_tree_prints", 1)
			}
			w.Outcome("esc", want, vn)
			if w.WantSample() && t.depth() == 2 && p.used&evQuoted != 0 && strings.Contains(tpl, `\\\\`) && len(tpl) < 120 {
				w.Sample(map[string]string{"tree": t.String(), "template": tpl, "value": want})
			}
		}
		w.Add("escape_trees", 1)
		w.Add("choice_points", ex.ChoicePoints)
		return true
	}
	if part == "all" || part == "escapes" {
		el := eLeaves()
		ok := true
		each := func(t *etree, bound int) {
			if ok && !escCase(t, bound) {
				ok = false
			}
		}
		for _, x := range el {
			if x.k == eLookup { // `{voilà}` on its own
				each(x, -1)
			}
			each(eCallOf("f", x), -1)
			each(eCallOf("f", eCallOf("g", x)), -1)
			each(eCallOf("f", eCallOf("g", eCallOf("f", x))), -1)
			for _, y := range el {
				each(eCallOf("f", x, y), -1)
				each(eCallOf("f", eCallOf("g", x), y), tp.escBound)
				each(eCallOf("f", y, eCallOf("g", x)), tp.escBound)
				each(eCallOf("f", eCallOf("g", x, y)), tp.escBound)
			}
		}
		// alias runes as argument text and keys: alone, between other text and
		// next to the character they alias, next to a partner leaf
		partners := []*etree{el[6], el[16], el[0]}[:tp.aliasPartner] // `s t`, {1}, c\d
		for _, a := range aliasRunes(w.Quick()) {
			r, ch := string(a.r), string(a.target.c)
			lab := a.label()
			x := &etree{k: eText, text: r, label: lab}
			m := &etree{k: eText, text: "a" + r + ch + r + "b", label: lab}
			if !a.space {
				k := &etree{k: eLookup, text: "a" + r, label: lab}
				each(k, -1)
				each(eCallOf("f", k), -1)
				each(eCallOf("f", eCallOf("g", k, x)), -1)
			}
			each(eCallOf("f", x), -1)
			each(eCallOf("f", eCallOf("g", x)), -1)
			each(eCallOf("f", eCallOf("g", eCallOf("f", x))), -1)
			each(eCallOf("f", m), -1)
			each(eCallOf("f", eCallOf("g", m)), -1)
			for _, y := range partners {
				for _, t := range []*etree{eCallOf("f", m, y), eCallOf("f", y, m), eCallOf("f", eCallOf("g", m), y), eCallOf("f", y, eCallOf("g", m)),
					eCallOf("f", eCallOf("g", m, y)), eCallOf("f", eCallOf("g", y, m))} {
					t.label = lab // the partner is plain; a failure is about the alias rune
					b := tp.aliasBound
					if t.depth() == 1 {
						b = -1
					}
					each(t, b)
				}
			}
		}
		if !ok {
			return
		}
	}

	// ---- L: many stages / many arguments (S1 + S2): everything above has a
	// handful of stages per template; anything in the compiler or the compiled
	// builder that depends on the *number* of stages or arguments is only
	// reachable with a size dimension
	if part == "all" || part == "long" {
		maxN := 300
		if w.Quick() {
			maxN = 100
		}
		type seg struct{ text, val string }
		segOf := func(kind byte, i int) seg {
			switch kind {
			case 'l':
				t := "," + itoa(i) + ";"
				return seg{t, t}
			case 'd':
				return seg{"{" + itoa(i%3) + "}", matchValue(i % 3)}
			case 'k':
				return seg{"{k}", keyValue("k")}
			case 'c':
				return seg{"{g w" + itoa(i) + "}", "g(w" + itoa(i) + ")"}
			case 'e':
				return seg{"{g {" + itoa(i%3) + "} w" + itoa(i) + "}", "g(" + matchValue(i%3) + "|w" + itoa(i) + ")"}
			}
			panic("segment kind")
		}
		for _, cyc := range []string{"d", "ld", "cl", "lcd", "c", "dk", "e", "lce", "cd", "l"} {
			for n := 1; n <= maxN; n++ {
				if !own() {
					continue
				}
				if w.Expired() {
					return
				}
				var tb, vb strings.Builder
				var args, vals []string
				for i := 1; i <= n; i++ {
					sg := segOf(cyc[(i-1)%len(cyc)], i)
					tb.WriteString(sg.text)
					vb.WriteString(sg.val)
					args = append(args, sg.text)
					vals = append(vals, sg.val)
				}
				tpl, want := tb.String(), vb.String()
				w.SetCase(func() any { return Case{Kind: "expect", Template: tpl, Want: want} })
				ok := c.expect(tpl, want, "C09/long/template-of-many-stages", fmt.Sprintf("%d segments, cycle %s", n, cyc))
				ok = c.expect(`{f "`+tpl+`"}`, "f("+want+")", "C09/long/argument-of-many-stages", fmt.Sprintf("%d segments, cycle %s", n, cyc)) && ok
				ok = c.expect("{0}{g x \""+tpl+"\"}|{k}", matchValue(0)+"g(x|"+want+")|"+keyValue("k"), "C09/long/argument-of-many-stages", fmt.Sprintf("%d segments, cycle %s", n, cyc)) && ok
				// the same segments as n separate arguments of one call
				ok = c.expect("{f "+strings.Join(args, " ")+"}", "f("+strings.Join(vals, "|")+")", "C09/long/call-with-many-arguments", fmt.Sprintf("%d arguments, cycle %s", n, cyc)) && ok
				w.Eval(ok)
				w.Add("long_templates", 4)
				w.Outcome("long", cyc, itoa(n))
				if w.WantSample() && n == 40 {
					w.Sample(map[string]string{"template": tpl, "value": want})
				}
			}
		}
		w.Max("max_long_segments", int64(maxN))
		// nesting depth ("braces nest"): calls nested d deep, alone, with sibling
		// arguments before and after the nested call, and with a lookup innermost;
		// d = 1..70 and around the powers of two (a recursion budget or a
		// fixed-size stack in the compiler is only reachable with a depth sweep),
		// each followed by a shallow template on the same long-lived builder
		var depths []int
		for d := 1; d <= 70; d++ {
			depths = append(depths, d)
		}
		maxD := 1025
		if w.Quick() {
			maxD = 257
		}
		for k := 127; k <= maxD; k = (k+1)*2 - 1 {
			depths = append(depths, k, k+1, k+2)
		}
		for _, d := range depths {
			for shape := 0; shape < 4; shape++ {
				if !own() {
					continue
				}
				if w.Expired() {
					return
				}
				var tb, vb strings.Builder
				for i := 0; i < d; i++ {
					name := "f"
					if (i+shape)%3 == 2 {
						name = "g"
					}
					switch shape {
					case 0, 3:
						tb.WriteString("{" + name + " ")
						vb.WriteString(name + "(")
					case 1:
						tb.WriteString("{" + name + " a" + itoa(i%7) + " ")
						vb.WriteString(name + "(a" + itoa(i%7) + "|")
					case 2:
						tb.WriteString("{" + name + " {0} ")
						vb.WriteString(name + "(" + matchValue(0) + "|")
					}
				}
				if shape == 3 {
					tb.WriteString("{1}")
					vb.WriteString(matchValue(1))
				} else {
					tb.WriteString("x")
					vb.WriteString("x")
				}
				for i := 0; i < d; i++ {
					if shape == 2 {
						tb.WriteString(" z}")
						vb.WriteString("|z)")
					} else {
						tb.WriteString("}")
						vb.WriteString(")")
					}
				}
				tpl, want := tb.String(), vb.String()
				w.SetCase(func() any { return Case{Kind: "expect", Template: tpl, Want: want} })
				ok := c.expect(tpl, want, "C09/long/calls-nested-deeply", fmt.Sprintf("depth %d, shape %d", d, shape))
				// whatever the deep template did to the builder, a shallow one still compiles
				ok = c.expect("{f {0} {g x}}|{k}", "f("+matchValue(0)+"|g(x))|"+keyValue("k"), "C09/long/shallow-template-after-a-deep-one", fmt.Sprintf("after depth %d, shape %d", d, shape)) && ok
				w.Eval(ok)
				w.Add("long_templates", 2)
				w.Outcome("deep", itoa(shape), itoa(d))
			}
		}
		w.Max("max_nesting_depth", int64(depths[len(depths)-1]))
	}

	// ---- I: integer-like lone tokens around the integer boundaries (S2)
	if part == "all" || part == "integers" {
		stop := false
		var nTokens int64
		intTokens(w.Quick(), func(t intToken, origin string) bool {
			nTokens++
			if !own() {
				return true
			}
			if w.Expired() {
				stop = true
				return false
			}
			for _, ctx := range intContexts {
				ctx := ctx
				w.SetCase(func() any { return Case{Kind: "inttoken", Template: ctx.template(t), Token: t.text, Ctx: ctx.name} })
				ok, observed := c.intToken(t, ctx, origin)
				w.Eval(ok)
				w.Add("integer_token_templates", 1)
				w.Add("integer_token_read_as_"+strings.ReplaceAll(observed, "-", "_"), 1)
				w.Outcome("int", t.class, ctx.name, observed, fmt.Sprint(t.must), fmt.Sprint(len(strings.TrimLeft(t.text, "+-"))))
				if w.WantSample() && ctx.name == "argument-with-text" && !t.fits && t.val.Sign() > 0 {
					w.Sample(map[string]string{"token": t.text, "about": origin, "template": ctx.template(t), "read_as": observed})
				}
			}
			w.Add("integer_tokens", 1)
			w.Max("max_integer_token_digits", int64(len(strings.TrimLeft(t.text, "+-"))))
			return true
		})
		if stop {
			return
		}
	}

	// ---- H: histories on one KeyBuilder (S2 + S3)
	if part == "all" || part == "history" {
		ops := histOps()
		depth := histDepth(w.Quick())
		idx := make([]int, depth)
		seq := make([]histOp, depth)
		st := &histStats{tables: map[string]bool{}}
		for {
			if own() {
				if w.Expired() {
					return
				}
				for i, k := range idx {
					seq[i] = ops[k]
				}
				w.SetCase(func() any {
					names := make([]string, depth)
					for i, o := range seq {
						names[i] = o.name
					}
					return Case{Kind: "history", Ops: names}
				})
				before := st.compilesAfterRegistration
				ok := true
				for _, opt := range []bool{true, false} {
					ok = c.history(seq, opt, st) && ok
				}
				w.Eval(ok && st.compilesAfterRegistration > before)
				w.Add("history_sequences", 1)
				// states: every distinct history (operation prefix) is one state of the
				// builder; a prefix is counted by the sequence that extends it with the
				// first operation only, so the shards' counts add up to the number of
				// distinct prefixes
				for l := depth; l >= 0; l-- {
					w.Add("states", 1)
					if l > 0 && idx[l-1] != 0 {
						break
					}
				}
				if w.WantSample() && ok && idx[0] == 0 && idx[1] == 6 && idx[2] == 0 && idx[depth-1] == 2 {
					names := make([]string, depth)
					for i, o := range seq {
						names[i] = o.name
					}
					w.Sample(map[string]any{"history": names})
				}
			}
			i := depth - 1
			for ; i >= 0; i-- {
				idx[i]++
				if idx[i] < len(ops) {
					break
				}
				idx[i] = 0
			}
			if i < 0 {
				break
			}
		}
		w.Add("transitions", st.transitions)
		w.Add("history_compiles_checked", st.compiles)
		w.Add("history_compiles_after_a_registration", st.compilesAfterRegistration)
		w.Max("history_depth", int64(depth))
		w.Max("history_function_tables", int64(len(st.tables)))
	}

	// ---- D: raw strings over the syntax alphabet
	rawFamily := ""
	rawCase := func(s string) bool {
		if !own() {
			return true
		}
		if w.Expired() {
			return false
		}
		w.SetCase(func() any { return Case{Kind: "text", Template: s, Origin: "raw"} })
		v, out := c.judged(s, "raw")
		w.Eval(v != vUnspec && strings.Contains(s, "{"))
		w.Add("raw_strings", 1)
		if rawFamily != "" {
			w.Add(rawFamily, 1)
		}
		w.Add("raw_strings_"+strings.ReplaceAll(v.String(), "-", "_"), 1)
		w.Outcome("raw", out)
		return true
	}
	if part == "all" || part == "raw" {
		allStrings(tp.rawAlphabet, 0, tp.rawLen, rawCase)
		allStrings(tp.rawAlphabet2, 1, tp.rawLen2, func(s string) bool {
			if !strings.Contains(s, "\t") {
				caseNo++ // already covered by the first alphabet
				return true
			}
			return rawCase(s)
		})
		allStrings(tp.rawAlphabet3, 1, tp.rawLen3, func(s string) bool {
			if !strings.ContainsAny(s, "'`") {
				caseNo++ // already covered by the first alphabet
				return true
			}
			rawFamily = "raw_strings_with_foreign_quotes"
			return rawCase(s)
		})
		w.Max("max_raw_length", int64(tp.rawLen))
	}
}

func replay(w *runner.W, raw json.RawMessage) {
	var cs Case
	if err := json.Unmarshal(raw, &cs); err != nil {
		panic(err)
	}
	c := &checker{w: w}
	switch cs.Kind {
	case "expect":
		sig := cs.Sig
		if sig == "" {
			sig = "C09/replay"
		}
		c.expect(cs.Template, cs.Want, sig, cs.Note)
	case "text":
		c.judged(cs.Template, cs.Origin)
	case "inttoken":
		ctx, ok := intContextByName(cs.Ctx)
		if !ok {
			panic("unknown integer-token context " + cs.Ctx)
		}
		c.intToken(newIntToken(cs.Token), ctx, cs.Note)
	case "history":
		byName := map[string]histOp{}
		for _, o := range histOps() {
			byName[o.name] = o
		}
		seq := make([]histOp, len(cs.Ops))
		for i, n := range cs.Ops {
			o, ok := byName[n]
			if !ok {
				panic("unknown history operation " + n)
			}
			seq[i] = o
		}
		// a violation names the optimisation setting it was seen with; a hang/crash case does not
		if c.history(seq, cs.Optimize, nil) && !cs.Optimize {
			c.history(seq, true, nil)
		}
	default:
		panic("unknown case kind " + cs.Kind)
	}
}

func boundText(b int) string {
	if b < 0 {
		return "every combination"
	}
	return fmt.Sprintf("at most %d non-default choices", b)
}

func show(a []string) string {
	out := make([]string, len(a))
	for i, s := range a {
		out[i] = fmt.Sprintf("%q", s)
	}
	return strings.Join(out, ",")
}

func main() {
	runner.Main(&runner.Spec{
		Name:       "exprsyntax",
		Properties: []string{"C09"},
		Level:      "exploration",
		Rule: func(prop, tier string) string {
			tp := params(tier != "thorough")
			ip := intParamsOf(tier != "thorough")
			d1 := "all combinations"
			if tp.d1Bound3 >= 0 {
				d1 = fmt.Sprintf("at most %d non-default choices", tp.d1Bound3)
			}
			eb := "every combination"
			if tp.escBound >= 0 {
				eb = fmt.Sprintf("at most %d non-default choices", tp.escBound)
			}
			full := "not enumerated"
			if tp.fullDepth2 {
				full = fmt.Sprintf("at most %d deviations", tp.fullBound)
			}
			return fmt.Sprintf("(A) every string with 0..%d symbols over {%s} and 1..%d symbols over {%s}, rendered with minimal escapes (only \\ { }) and with every character escaped, alone and as `E{0}E{k}`, must evaluate to the string; the same for 9 strings per alias rune R of an ASCII character c (R, RR, aRb, Rc, cR, aRcRb, \\R, R\\, {R}) over %s; (B) expression trees f(args)/g(args) with 1..3 arguments over leaves {a, \"b c\", \"\", {0}, {1}, {k}, p{1}} and, below f, calls g(1..2 leaves); printed with every combination of argument separator {%s}, optional quoting of words, lookups and quote-free calls, leading/trailing blank inside the braces, and literal neighbours (`xTy {1}{0}`): all combinations for depth-1 trees (three arguments: %s) and depth-2 trees with one argument, at most %d non-default choices for depth-2 trees with 2 arguments and one inner call, at most %d for 2 arguments/two inner calls, at most %d for 3 arguments/one inner call, 3 arguments with more inner calls: %s; evaluated with recording functions in a private KeyBuilder (optimisation on and off) against the value of the tree; (W) punctuation words: for every character p of {%s} (all printable ASCII punctuation that is not syntax, typographic and fullwidth quotes) the leaves %s; for each such leaf x and every leaf y of (B) the trees f(x), g(x,x), f(g(x)), f(g(x),x), f(x,g(x)), f(g(x),g(x)), f(g(x,x)), f(x,y), f(y,x), g(x,y,x), g(y,x,y), f(g(x),y), f(y,g(x)), f(g(x,y)), f(g(y,x)), f(x,g(y)), f(g(y),x) printed with the variants of (B): f(x) every combination, two-argument depth-1 trees and f(g(x)) %s, three-argument trees %s, other depth-2 trees %s; a word is just text / a key of exactly that name; (C) every single-character deletion and every insertion of one of {%s} at every position of the plain print of the depth-1 trees (prints with at most %d non-default choices) and, in the thorough tier, of the depth-2 trees with at most 2 arguments, judged by the reference reading; (E) trees whose leaves need escaping inside call arguments or are unquoted non-ASCII words: leaves {c\\d, C:\\\\temp\\new, o{p}, l<LF>m, <TAB>z<CR>, q\"r, 's t', \\\"\\{\\ \\n, voilà, Ångström, Škoda, 😅🤠, é, {voilà}, {Å}, {Š😅}, {1}, w\\{0}, {k}<LF>{{à}} (UTF-8 encodings containing the bytes 0x85/0xA0, a 4-byte rune); trees: each lookup alone, f(x), f(g(x)), f(g(f(x))), f(x,y), f(g(x),y), f(y,g(x)), f(g(x,y)) for all leaves x,y; printed by applying, for every enclosing pass (template scan, argument split, argument compilation: 2d+1 passes at call depth d), the inverse of that pass to all text that is not syntax of that level; every combination of quoted/unquoted per argument, blank/tab separators, control characters raw or as \\n \\t \\r, escape style {a backslash only where a pass needs one; in every pass a backslash before every literal character except the letters n t r; that only in the innermost pass (the leaf's own text and a key's two passes)}, and literal neighbours `\\\\T\\{{0}` (depth-2 trees with two leaves: %s); additionally for every alias rune R of c: key {aR} alone, f({aR}), f(g({aR},R)) [not for R that is Unicode white space], f(R), f(g(R)), f(g(f(R))), f(m), f(g(m)) with m = aRcRb, and with each partner y of the first %d of {s t, {1}, c\\d}: f(m,y), f(y,m) in every combination and f(g(m),y), f(y,g(m)), f(g(m,y)), f(g(y,m)) with %s (white space other than blank/tab/CR/LF is written escaped when unquoted); must evaluate to the tree value; (D) every string with 0..%d symbols over {%s} and the strings with a tab among 1..%d symbols over {%s} and the strings with an apostrophe or backtick among 1..%d symbols over {%s}, judged by the reference reading (value / must be a compile error / not settled); (L) templates of 1..%d segments laid out by 10 cycles of {literal, constant call, group, key, call on a group}, as the template itself, as one quoted argument of a call, and as that many separate arguments of one call, must evaluate to the concatenation / the call the segments dictate, and calls nested d deep for d = 1..70 and 2^k-1, 2^k, 2^k+1 up to 257 (thorough 1025) in 4 shapes (alone, with a sibling argument before, with a lookup before and a word after, with a lookup innermost), each followed by a shallow template on the same long-lived builder; (I) integer-like lone tokens: every value b+o for b in {%s}, o in -%d..+%d (-%d..+%d for the boundaries marked *, whose upper neighbours a wrapped-around or truncated index would alias to a small group), printed with sign {none,-,+} and with %s leading zeros and zero-padded to %s digits, each in the templates {%s} (T the token); the context logs every look-up: a template without its own braces around T keeps T as text, otherwise every look-up performed must be the group whose number is exactly the token's value or the key named exactly the token's text (for a value no int can hold: the key, or nothing at all with an empty result), the result must be the one that reading gives, tokens -?[0-9]{1,9} must be the group look-up, and Compile must not report an error; (H) histories on ONE KeyBuilder that starts with only g registered: every sequence of exactly %d operations (all shorter ones are their prefixes) over {%s}, with optimisation on and off; after every Compile: a function of the template is unregistered at that moment <=> compile error, otherwise the value is the tree value with the currently registered versions (recording functions f1/f2/h1/h2 name their version), and error presence, error text and BuildKey output equal those of a FRESH KeyBuilder given the same function table; states = distinct operation prefixes, transitions = operations applied to the builder under test; no panic anywhere. non-trivial = (A) non-empty string evaluated, (B,W,E,I) compiled and compared, (C,D) the reference reading settles the template (value or must-error) [D: and it contains a statement], (H) the sequence has a Compile after a registration and every check passed",
				tp.litLen, show(tp.litAlphabet), tp.litLen2, show(tp.litAlphabet2), aliasRuleText(tier != "thorough"), show(tp.seps), d1, tp.b21, tp.b22, tp.b31, full,
				punctRuleText(), punctLeafRule(tier != "thorough"), boundText(tp.pw2), boundText(tp.pw3), boundText(tp.pwD),
				show(tp.mutIns), tp.mutBound, eb, tp.aliasPartner, boundText(tp.aliasBound), tp.rawLen, show(tp.rawAlphabet), tp.rawLen2, show(tp.rawAlphabet2), tp.rawLen3, show(tp.rawAlphabet3), map[bool]int{true: 100, false: 300}[tier != "thorough"],
				intRuleBoundaries(tier != "thorough"), ip.around, ip.around, ip.around, ip.smallK, showInts(ip.padN), showInts(ip.padTo), intRuleContexts(),
				histDepth(tier != "thorough"), histRuleOps())
		},
		Assumptions: func(string) []string {
			return []string{
				"recording functions f and g accept any number of arguments and return name(arg|arg|...); the context returns <mN> for group N and <k:name> for key name",
				"the statement does not settle: a backslash inside a statement or as the last character, a closing brace outside a statement, a quote in the middle of a word or text directly after a closing quote, an unterminated quote, quoted text with unbalanced braces, a statement whose only argument is quoted or braced, a quoted or braced function name, +N or more than 9 digits as an integer (parts C, D: only 'no panic'; part I: the look-up must still be the group of exactly that value or the key of exactly that text); only 'no panic' is demanded for templates containing these",
				"inside statements an escape is consumed once per pass that reads the text (scan of the enclosing template, split into arguments, compilation of the argument as a template; DESIGN §6 'an escape is consumed once per nesting level'); part E prints with the inverse of exactly these passes and demands the tree value",
				fmt.Sprintf("part I: the recording context answers <mN> for every int N and logs each look-up; int is %d bits in this build; a value outside int cannot be passed to GetMatch, so for it 'group of exactly that value' can only show as no look-up and an empty result", strconv.IntSize),
				"part H: Func/Funcs may be called between two Compile calls of one KeyBuilder (funcfile.LoadDefinitions alternates Compile and Func on one builder) and a Compile means the template with the functions registered at that moment; the comparison with a fresh builder includes the text of the compile error and the output of the partially usable builder Compile returns next to an error",
				"parts A, E (alias runes): after a backslash only the ASCII letters n, t, r are special and only the ASCII characters { } \" \\ and white space are syntax; every other rune - whatever its low byte, low 7 or 16 bits or UTF-8 bytes are - is an ordinary character; escaping a character that needs no escape is allowed in every pass (S1 '`\\x` makes any character literal'), including the characters of a function name or key; whether the argument split turns \\n \\t \\r into letters or control characters is not settled, so the every-character style leaves the letters n t r unescaped",
				"part W and the apostrophe/backtick strings of parts C, D: only DOUBLE quotes quote (S2); ' ` and all other punctuation except { } \" \\ are ordinary characters of a word, a function name or a key",
				"parts B-D: generated quoted leaves contain blanks but none of { } \" \\; a call is printed inside quotes only when it contains no quotes (quotes do not nest)",
			}
		},
		Worker:         worker,
		Replay:         replay,
		HangSeconds:    30,
		QuickBudget:    3 * time.Minute,
		ThoroughBudget: 14 * time.Minute,
	})
}
