package main

import (
	"fmt"
	"regexp"
	"runtime"
	"strings"
	"syscall"
	"time"
)

// guardResult is how one execution of code under test ended.
type guardResult struct {
	panicked bool // only a harness panic gets here: runInner catches the code under test
	panicVal string
	hung     bool
	hungWhy  string
}

const (
	// a render that has burnt this much CPU time of the process, or has not
	// returned after hangWall on the wall clock, is not going to end. The CPU
	// clock is what decides on a loaded machine: a starved goroutine does not
	// advance it, so load alone cannot make a case look hung.
	hangTimeout  = 10 * time.Second
	hangWall     = 3 * time.Minute
	hangHeapGrow = 512 << 20 // a render of a 3-sample state that allocates this much is not going to end
)

var reNums = regexp.MustCompile(`-?\d+`)

var clsCache = map[string]string{}

func panicClass(msg string) string {
	if c, ok := clsCache[msg]; ok {
		return c
	}
	cls := msg
	if i := strings.Index(cls, "runtime error: "); i >= 0 {
		cls = cls[i+len("runtime error: "):]
	}
	cls = reNums.ReplaceAllString(cls, "N")
	if i := strings.Index(cls, " with "); i >= 0 { // "index out of range [N] with length N"
		cls = cls[:i]
	}
	cls = strings.Trim(strings.Map(func(r rune) rune {
		switch {
		case r >= 'a' && r <= 'z', r >= 'A' && r <= 'Z', r >= '0' && r <= '9':
			return r
		}
		return '-'
	}, cls), "-")
	for strings.Contains(cls, "--") {
		cls = strings.ReplaceAll(cls, "--", "-")
	}
	if len(cls) > 48 {
		cls = cls[:48]
	}
	if len(clsCache) < 1000 {
		clsCache[msg] = cls
	}
	return cls
}

// panicOrigin walks the panicking goroutine's frames (called from the deferred
// function): the innermost frame that is not the runtime decides. A rare
// function (possibly reached through the standard library) is a finding; a
// frame of this harness first means the harness itself is broken (fn = "").
func panicOrigin() string {
	pcs := make([]uintptr, 48)
	n := runtime.Callers(3, pcs)
	frames := runtime.CallersFrames(pcs[:n])
	for {
		fr, more := frames.Next()
		f := fr.Function
		switch {
		case strings.HasPrefix(f, "runtime.") || strings.HasPrefix(f, "runtime/"):
		case strings.HasPrefix(f, "main."):
			return ""
		case strings.HasPrefix(f, "rare/"):
			f = strings.TrimPrefix(f, "rare/pkg/")
			f = strings.TrimPrefix(f, "rare/")
			f = strings.TrimPrefix(f, "multiterm/")
			return strings.NewReplacer("(*", "", ")", "").Replace(f)
		}
		if !more {
			return ""
		}
	}
}

var timer = time.NewTimer(time.Hour)

// cpuTime is the CPU time (user + system) this process has consumed.
func cpuTime() time.Duration {
	var ru syscall.Rusage
	if err := syscall.Getrusage(syscall.RUSAGE_SELF, &ru); err != nil {
		return 0
	}
	return time.Duration(ru.Utime.Nano() + ru.Stime.Nano())
}

// guarded runs f in its own goroutine. A panic is caught and classified. If f
// neither returns within hangTimeout nor keeps the heap bounded, it is reported
// as hung; its goroutine is then leaked and the caller must stop the worker.
func guarded(f func()) guardResult {
	done := make(chan guardResult, 1)
	go func() {
		defer func() {
			if p := recover(); p != nil {
				done <- guardResult{panicked: true, panicVal: fmt.Sprint(p)}
				return
			}
			done <- guardResult{}
		}()
		f()
	}()
	if !timer.Stop() {
		select {
		case <-timer.C:
		default:
		}
	}
	timer.Reset(20 * time.Millisecond)
	select {
	case r := <-done:
		return r
	case <-timer.C:
	}
	start := time.Now()
	cpu0 := cpuTime()
	var ms runtime.MemStats
	runtime.ReadMemStats(&ms)
	base := ms.HeapAlloc
	for {
		select {
		case r := <-done:
			return r
		case <-time.After(20 * time.Millisecond):
		}
		runtime.ReadMemStats(&ms)
		if ms.HeapAlloc > base+hangHeapGrow {
			return guardResult{hung: true, hungWhy: fmt.Sprintf("still running after %v with the heap grown by more than %d MiB (output buffer grows without bound)", time.Since(start).Round(time.Millisecond), hangHeapGrow>>20)}
		}
		if cpuTime()-cpu0 > hangTimeout {
			return guardResult{hung: true, hungWhy: fmt.Sprintf("did not return within %v of CPU time", hangTimeout)}
		}
		if time.Since(start) > hangWall {
			return guardResult{hung: true, hungWhy: fmt.Sprintf("did not return within %v", hangWall)}
		}
	}
}
