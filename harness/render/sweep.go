package main

// SIZE sweeps and HISTORY shapes for C14. Fixed, simple states parametrised by
// a size n (number of rows / columns / stacked segments, key length, value
// magnitude), judged by the same oracles as the exhaustive small histories.
// Element i carries i (key "<i>" / "r<i>" / "s<i>", value i+1), so that loss,
// duplication, reordering and aliasing of rows, columns and segments show up.
// The signatures of these cases end in /size-family or /history-family.

import (
	"math"
	"sort"
	"strconv"
	"strings"
)

const (
	tagSize    = "size-family"
	tagHistory = "history-family"
)

// sizes: 0..70 and 2^k-1, 2^k, 2^k+1 for k = 7.. up to max.
func sizes(max int) []int {
	var out []int
	for n := 0; n <= 70 && n <= max; n++ {
		out = append(out, n)
	}
	for p := 128; p-1 <= max; p *= 2 {
		for _, n := range []int{p - 1, p, p + 1} {
			if n <= max {
				out = append(out, n)
			}
		}
	}
	return out
}

// sweepLimits: the row / column limits tried against n elements.
func sweepLimits(n int) []int {
	var out []int
	seen := map[int]bool{}
	for _, l := range []int{0, 1, 2, 5, 10, n - 1, n, n + 1} {
		if l >= 0 && !seen[l] {
			seen[l] = true
			out = append(out, l)
		}
	}
	return out
}

func itoa(i int) string { return strconv.Itoa(i) }

// a sweep unit: one history with its render points and configurations
type sweepUnit struct {
	family  string
	hist    []string
	renders [][]int
	cfgs    []Cfg
	tag     string
	diff    bool
	both    bool // also with a second renderer instance used alternately
}

func rendersFor(n int) [][]int {
	if n >= 2 {
		return [][]int{{n}, {n / 2, n}}
	}
	return [][]int{{n}}
}

// ------------------------------------------------------------ rows and columns

// dimUnits: n columns (dim "cols") or n rows (dim "rows") for one family.
func dimUnits(family string, n int) []sweepUnit {
	var out []sweepUnit
	lims := sweepLimits(n)
	switch family {
	case "table", "heatmap", "spark":
		for _, dim := range []string{"cols", "rows"} {
			var h []string
			for i := 0; i < n; i++ {
				if dim == "cols" {
					h = append(h, join(itoa(i), "r", itoa(i+1)))
					if i%3 == 0 {
						h = append(h, join(itoa(i), "q", "1"))
					}
				} else {
					h = append(h, join("1", "r"+itoa(i), itoa(i+1)))
					if i%3 == 0 {
						h = append(h, join("2", "r"+itoa(i), "1"))
					}
				}
			}
			var cfgs []Cfg
			for _, l := range lims {
				rows, cols := 5, l
				if dim == "rows" {
					rows, cols = l, 5
				}
				for _, cu := range cu2 {
					switch family {
					case "table":
						cfgs = append(cfgs, Cfg{Color: cu[0], Unicode: true, Rows: rows, Cols: cols, Extra: l%2 == 0})
						if !cu[0] {
							cfgs = append(cfgs, Cfg{Color: cu[0], Unicode: true, Rows: rows, Cols: cols, Format: exprFormat})
						}
					case "heatmap":
						cfgs = append(cfgs, Cfg{Scale: "linear", Color: cu[0], Unicode: cu[1], Rows: rows, Cols: cols})
						cfgs = append(cfgs, Cfg{Scale: "log2", Color: cu[0], Unicode: cu[1], Rows: rows, Cols: cols})
					case "spark":
						cfgs = append(cfgs, Cfg{Scale: "linear", Color: cu[0], Unicode: cu[1], Rows: rows, Cols: cols})
						cfgs = append(cfgs, Cfg{Scale: "log10", Color: cu[0], Unicode: cu[1], Rows: rows, Cols: cols, NoTruncate: true})
					}
				}
			}
			out = append(out, sweepUnit{family: family, hist: h, renders: rendersFor(len(h)), cfgs: cfgs, tag: tagSize})
		}
	case "histo":
		var h []string
		for i := 0; i < n; i++ {
			h = append(h, join("r"+itoa(i), itoa(i+1)))
		}
		var cfgs []Cfg
		for _, l := range lims {
			for _, cu := range cu2 {
				cfgs = append(cfgs, Cfg{Scale: "linear", Color: cu[0], Unicode: cu[1], Rows: l, Extra: true}, Cfg{Scale: "log10", Color: cu[0], Unicode: cu[1], Rows: l, Extra: true, Sort: "text"}, Cfg{Scale: "linear", Color: cu[0], Unicode: cu[1], Rows: l, Format: exprFormat, Sort: "text"})
			}
		}
		out = append(out, sweepUnit{family: family, hist: h, renders: rendersFor(len(h)), cfgs: cfgs, tag: tagSize})
	case "bars":
		var h []string
		for i := 0; i < n; i++ {
			h = append(h, join("r"+itoa(i), "x", itoa(i+1)), join("r"+itoa(i), "y", itoa(n-i)))
		}
		var cfgs []Cfg
		for _, cu := range cu2 {
			cfgs = append(cfgs, Cfg{Color: cu[0], Unicode: cu[1], Stacked: true}, Cfg{Color: cu[0], Unicode: cu[1]}, Cfg{Color: cu[0], Unicode: cu[1], Scale: "log10", Format: exprFormat})
		}
		out = append(out, sweepUnit{family: family, hist: h, renders: rendersFor(len(h)), cfgs: cfgs, tag: tagSize})
	case "reduce":
		var h []string
		for i := 0; i < n; i++ {
			h = append(h, join("r"+itoa(i), itoa(i+1)))
		}
		var cfgs []Cfg
		for _, l := range lims {
			for _, col := range []bool{true, false} {
				cfgs = append(cfgs, Cfg{Color: col, Unicode: true, Rows: l, Cols: 4}, Cfg{Color: col, Unicode: true, Rows: l, Cols: 2})
			}
		}
		out = append(out, sweepUnit{family: family, hist: h, renders: rendersFor(len(h)), cfgs: cfgs, tag: tagSize})
	}
	return out
}

// ------------------------------------------------------------------ key length

var keyKinds = []string{"ascii", "multibyte", "esc-wrapped", "esc-inside", "invalid-utf8"}

// invalidBytes: the undecodable byte of every third position of an
// "invalid-utf8" sweep key: Latin-1 letters/signs that are lone continuation
// bytes (0xB0, 0x80, 0xA0), lone lead bytes of 2-, 3-, 4-byte sequences (0xE9 is
// also Latin-1 e acute), 0xFF. The byte after it is always ASCII, so each of
// them is undecodable on its own: one column each.
var invalidBytes = []byte{0xb0, 0xe9, 0xff, 0x80, 0xc3, 0xf0, 0xa0}

// sweepKey: a key of n visible runes.
func sweepKey(kind string, n int) string {
	var sb strings.Builder
	multi := []rune("éßñ→ü✤")
	if kind == "esc-wrapped" {
		sb.WriteString("\x1b[31m")
	}
	for i := 0; i < n; i++ {
		if kind == "esc-inside" && i%7 == 3 {
			sb.WriteString("\x1b[1;4m")
		}
		if kind == "multibyte" {
			sb.WriteRune(multi[i%len(multi)])
		} else if kind == "invalid-utf8" && i%3 == 1 {
			sb.WriteByte(invalidBytes[(i/3)%len(invalidBytes)])
		} else {
			sb.WriteByte(byte('a' + i%26))
		}
	}
	if kind == "esc-wrapped" || kind == "esc-inside" {
		sb.WriteString("\x1b[0m")
	}
	return sb.String()
}

func keyLenUnits(family string, n int) []sweepUnit {
	var out []sweepUnit
	for _, kind := range keyKinds {
		k := sweepKey(kind, n)
		switch family {
		case "table", "heatmap", "spark":
			for _, pos := range []string{"col", "row"} {
				var h []string
				if pos == "col" {
					h = []string{join(k, "r", "5"), join("a", "r", "3"), join(k, "q", "1"), join("b", "q", "2")}
				} else {
					h = []string{join("a", k, "5"), join("a", "r", "3"), join("b", k, "1"), join("b", "q", "2")}
				}
				var cfgs []Cfg
				for _, cu := range cu2 {
					switch family {
					case "table":
						cfgs = append(cfgs, Cfg{Color: cu[0], Unicode: true, Rows: 5, Cols: 5, Extra: true}, Cfg{Color: cu[0], Unicode: true, Rows: 5, Cols: 5, Format: exprFormat})
					case "heatmap":
						for _, cols := range []int{5, 2, 1} {
							cfgs = append(cfgs, Cfg{Scale: "linear", Color: cu[0], Unicode: cu[1], Rows: 5, Cols: cols})
						}
					case "spark":
						cfgs = append(cfgs, Cfg{Scale: "linear", Color: cu[0], Unicode: cu[1], Rows: 5, Cols: 5}, Cfg{Scale: "linear", Color: cu[0], Unicode: cu[1], Rows: 5, Cols: 2, NoTruncate: true})
					}
				}
				out = append(out, sweepUnit{family: family, hist: h, renders: [][]int{{4}, {1, 4}, {2, 4}}, cfgs: cfgs, tag: tagSize})
			}
		case "histo":
			h := []string{join(k, "5"), join("a", "3"), join(k+"z", "1")}
			var cfgs []Cfg
			for _, cu := range cu2 {
				cfgs = append(cfgs, Cfg{Scale: "linear", Color: cu[0], Unicode: cu[1], Rows: 5, Extra: true}, Cfg{Scale: "linear", Color: cu[0], Unicode: cu[1], Rows: 5, Extra: true, Format: exprFormat, Sort: "text"})
			}
			out = append(out, sweepUnit{family: family, hist: h, renders: [][]int{{3}, {1, 3}, {2, 3}}, cfgs: cfgs, tag: tagSize})
		case "bars":
			h := []string{join(k, "x", "5"), join("a", "x", "3"), join(k, "y", "1"), join("a", k, "2")}
			var cfgs []Cfg
			for _, cu := range cu2 {
				cfgs = append(cfgs, Cfg{Color: cu[0], Unicode: cu[1], Stacked: true}, Cfg{Color: cu[0], Unicode: cu[1]})
			}
			out = append(out, sweepUnit{family: family, hist: h, renders: [][]int{{4}, {1, 4}, {2, 4}}, cfgs: cfgs, tag: tagSize})
		case "reduce":
			h := []string{join(k, "5"), join("a", k), join(k+"z", "1")}
			var cfgs []Cfg
			for _, col := range []bool{true, false} {
				cfgs = append(cfgs, Cfg{Color: col, Unicode: true, Rows: 5, Cols: 5}, Cfg{Color: col, Unicode: true, Rows: 5, Cols: 2})
			}
			out = append(out, sweepUnit{family: family, hist: h, renders: [][]int{{3}, {1, 3}, {2, 3}}, cfgs: cfgs, tag: tagSize})
		}
	}
	return out
}

// ------------------------------------------------------------- value magnitude

// magnitudes: every power of ten and power of two, each -1, +0, +1, both
// signs, up to MaxInt64 (and MinInt64+1; MinInt64 itself with -0).
func magnitudes() []int64 {
	seen := map[int64]bool{}
	var out []int64
	add := func(v int64) {
		if !seen[v] {
			seen[v] = true
			out = append(out, v)
		}
	}
	addAround := func(p int64) {
		for _, d := range []int64{-1, 0, 1} {
			if d > 0 && p > math.MaxInt64-d {
				continue
			}
			v := p + d
			add(v)
			add(-v)
		}
	}
	for p := int64(1); ; p *= 10 {
		addAround(p)
		if p > math.MaxInt64/10 {
			break
		}
	}
	for k := 0; k <= 62; k++ {
		addAround(int64(1) << k)
	}
	add(math.MaxInt64)
	add(-math.MaxInt64)
	add(math.MinInt64)
	sort.Slice(out, func(i, j int) bool { return out[i] < out[j] })
	return out
}

func i64(v int64) string { return strconv.FormatInt(v, 10) }

// magUnits: small states around one magnitude v: v alone, v next to 1, v next
// to its neighbour in the magnitude list, v next to -v.
func magUnits(family string, v, neighbour int64) []sweepUnit {
	var out []sweepUnit
	others := []string{"", "1", i64(neighbour)}
	if v != math.MinInt64 {
		others = append(others, i64(-v))
	}
	for _, o := range others {
		var h []string
		var cfgs []Cfg
		switch family {
		case "histo":
			h = []string{join("a", i64(v))}
			if o != "" {
				h = append(h, join("b", o))
			}
			for _, sc := range scaleNames {
				for _, f := range []string{"", exprFormat} {
					cfgs = append(cfgs, Cfg{Scale: sc, Color: f == "", Unicode: f == "", Rows: 5, Extra: true, Format: f, Sort: "text"})
				}
			}
		case "bars":
			h = []string{join("a", "x", i64(v))}
			if o != "" {
				// a row whose positive parts add up beyond MaxInt64 has no
				// representable total (the aggregator's and the renderer's sums
				// wrap around): not generated, see Assumptions
				if ov, _ := strconv.ParseInt(o, 10, 64); !(v > 0 && ov > 0 && v > math.MaxInt64-ov) {
					h = append(h, join("a", "y", o))
				}
				h = append(h, join("b", "x", o))
			}
			for _, f := range []string{"", exprFormat} {
				cfgs = append(cfgs, Cfg{Color: f == "", Unicode: f == "", Stacked: true, Format: f})
				for _, sc := range []string{"", "log2", "log10"} {
					cfgs = append(cfgs, Cfg{Scale: sc, Color: f == "", Unicode: f == "", Format: f})
				}
			}
		case "table":
			h = []string{join("a", "r", i64(v))}
			if o != "" {
				h = append(h, join("b", "r", o), join("a", "q", o))
			}
			for _, f := range []string{"", exprFormat} {
				cfgs = append(cfgs, Cfg{Color: f == "", Unicode: true, Rows: 5, Cols: 5, Extra: true, Format: f})
			}
		case "heatmap", "spark":
			h = []string{join("a", "r", i64(v))}
			if o != "" {
				h = append(h, join("b", "r", o), join("a", "q", o))
			}
			for _, sc := range scaleNames {
				for _, f := range []string{"", exprFormat} {
					cfgs = append(cfgs, Cfg{Scale: sc, Color: f == "", Unicode: f == "", Rows: 5, Cols: 5, Format: f})
				}
			}
		case "reduce":
			h = []string{join("a", i64(v))}
			if o != "" {
				h = append(h, join("b", o), join("a", o))
			}
			cfgs = []Cfg{{Color: true, Unicode: true, Rows: 5, Cols: 5}, {Color: false, Unicode: true, Rows: 5, Cols: 5}}
		}
		out = append(out, sweepUnit{family: family, hist: h, renders: [][]int{{len(h)}}, cfgs: cfgs, tag: tagSize})
	}
	return out
}

// ------------------------------------------------------------ stacked segments

// segUnits: a bargraph with n sub-keys (n stacked segments / n grouped bars per
// row). Shapes: all values 1; value i+1 (and a second row with n-i); one large
// value followed by ones.
func segUnits(n int) []sweepUnit {
	var out []sweepUnit
	for _, shape := range []string{"ones", "asc", "big-first"} {
		var h []string
		for i := 0; i < n; i++ {
			switch shape {
			case "ones":
				h = append(h, join("a", "s"+itoa(i), "1"))
			case "asc":
				h = append(h, join("a", "s"+itoa(i), itoa(i+1)), join("b", "s"+itoa(i), itoa(n-i)))
			case "big-first":
				v := "1"
				if i == 0 {
					v = "1000"
				}
				h = append(h, join("a", "s"+itoa(i), v))
			}
		}
		var cfgs []Cfg
		for _, cu := range cu4 {
			cfgs = append(cfgs, Cfg{Color: cu[0], Unicode: cu[1], Stacked: true})
			if cu[0] == cu[1] {
				cfgs = append(cfgs, Cfg{Color: cu[0], Unicode: cu[1]}, Cfg{Color: cu[0], Unicode: cu[1], Stacked: true, Format: exprFormat})
			}
		}
		out = append(out, sweepUnit{family: "bars", hist: h, renders: rendersFor(len(h)), cfgs: cfgs, tag: tagSize})
	}
	return out
}

// --------------------------------------------------------------------- history

const histLongKey = "a-row-key-that-is-thirty-runes"

// scrollHist: a table filled column by column (a time series). Row "r0" has
// cells (the largest of the table) only in the first columns, the row with the
// long key only in columns 1..3, row "s" in every column, row "q" from column 4
// on. With a column limit the spark command's Trim drops the old columns: rows
// disappear, the maximum decreases, the longest key goes away.
func scrollHist(cols int, reverse bool) []string {
	var h []string
	for t := 0; t < cols; t++ {
		c := itoa(t)
		if reverse {
			c = itoa(cols - 1 - t)
		}
		if t <= 2 {
			h = append(h, join(c, "r0", itoa(100>>t)))
		}
		if t >= 1 && t <= 3 {
			h = append(h, join(c, histLongKey, itoa(7+t)))
		}
		h = append(h, join(c, "s", itoa(t%4+1)))
		if t >= 4 {
			h = append(h, join(c, "q", itoa(t)))
		}
	}
	return h
}

// upDownHist3: cells of a small table going up and down (negative increments):
// maxima decrease, the order of rows and columns by value changes, cells and
// whole rows return to zero.
func upDownHist3() []string {
	return []string{
		join("a", "r", "5"), join("b", "r", "3"), join("a", "q", "70"), join("c", histLongKey, "2"),
		join("a", "q", "-60"), join("a", "r", "-5"), join("b", "q", "1"), join("a", "q", "-9"),
		join("c", histLongKey, "-2"), join("b", "r", "900"), join("b", "r", "-899"), join("d", "t", "4"),
		join("a", "q", "-1"), join("d", "t", "-4"), join("a", "r", "1"),
	}
}

// upDownHist2: the same for the key/value aggregators (histogram, reduce).
func upDownHist2() []string {
	return []string{
		join("a", "5"), join("b", "3"), join(histLongKey, "70"), join("c", "2"),
		join(histLongKey, "-70"), join("a", "-4"), join("d", "12345678"), join("b", "-3"),
		join(histLongKey, "-1"), join("d", "-12345670"), join("e", "1"), join(histLongKey, "6"),
		join("c", "-2"), join("a", "-1"), join("b", "9"),
	}
}

// upDownBars: key / sub-key / value.
func upDownBars() []string {
	return []string{
		join("a", "x", "5"), join("b", "x", "3"), join("a", "y", "70"), join(histLongKey, "x", "2"),
		join("a", "y", "-60"), join("a", "x", "-5"), join("b", "y", "1"), join("a", "y", "-9"),
		join(histLongKey, "x", "-2"), join("b", "x", "900"), join("b", "x", "-899"), join("c", "z", "4"),
		join("a", "y", "-1"), join("c", "z", "-4"), join("a", "x", "1"),
	}
}

// distractHist: the data of the second renderer instance (other keys, larger
// values, a longer key, more rows).
func distractHist(family string) []string {
	switch family {
	case "histo", "reduce":
		return []string{join("zz", "1000"), join("distracting-key-that-is-quite-a-bit-longer", "77"), join("y", "31"), join("zz", "-4"), join("x", "2"), join("w", "1")}
	case "bars":
		return []string{join("zz", "p", "1000"), join("distracting-key-that-is-quite-a-bit-longer", "q", "77"), join("y", "p", "31"), join("zz", "q", "4"), join("x", "o", "2"), join("w", "n", "1")}
	}
	return []string{join("7", "zz", "1000"), join("8", "distracting-key-that-is-quite-a-bit-longer", "77"), join("9", "y", "31"), join("7", "y", "4"), join("10", "x", "2"), join("11", "w", "1")}
}

func historyCfgs(family string) []Cfg {
	var out []Cfg
	for _, cu := range cu2 {
		switch family {
		case "table":
			for _, p := range [][2]int{{5, 5}, {2, 2}, {1, 3}} {
				out = append(out, Cfg{Color: cu[0], Unicode: true, Rows: p[0], Cols: p[1], Extra: true}, Cfg{Color: cu[0], Unicode: true, Rows: p[0], Cols: p[1], Format: exprFormat})
			}
		case "heatmap":
			for _, p := range [][2]int{{5, 5}, {2, 2}, {1, 3}} {
				out = append(out, Cfg{Scale: "linear", Color: cu[0], Unicode: cu[1], Rows: p[0], Cols: p[1]}, Cfg{Scale: "log2", Color: cu[0], Unicode: cu[1], Rows: p[0], Cols: p[1]}, Cfg{Scale: "linear", Color: cu[0], Unicode: cu[1], Rows: p[0], Cols: p[1], FixMin: true, Min: 1})
				// the scale legend over a long history: both bounds pinned / one bound
				// pinned, log scale, expression format
				out = append(out, Cfg{Scale: "log10", Color: cu[0], Unicode: cu[1], Rows: p[0], Cols: p[1], FixMin: true, FixMax: true, Min: 1, Max: 50, Format: exprFormat}, Cfg{Scale: "log2", Color: cu[0], Unicode: cu[1], Rows: p[0], Cols: p[1], FixMax: true, Max: 50, Format: exprFormat})
			}
		case "spark":
			for _, p := range [][2]int{{5, 5}, {5, 1}, {5, 2}, {5, 3}, {2, 2}, {1, 3}} {
				out = append(out, Cfg{Scale: "linear", Color: cu[0], Unicode: cu[1], Rows: p[0], Cols: p[1]}, Cfg{Scale: "linear", Color: cu[0], Unicode: cu[1], Rows: p[0], Cols: p[1], Format: exprFormat})
				if p[0] == 5 {
					out = append(out, Cfg{Scale: "log2", Color: cu[0], Unicode: cu[1], Rows: p[0], Cols: p[1], NoTruncate: true})
				}
			}
		case "histo":
			for _, rows := range []int{5, 2, 1} {
				out = append(out, Cfg{Scale: "linear", Color: cu[0], Unicode: cu[1], Rows: rows, Extra: true}, Cfg{Scale: "linear", Color: cu[0], Unicode: cu[1], Rows: rows, Extra: true, Sort: "text"}, Cfg{Scale: "log2", Color: cu[0], Unicode: cu[1], Rows: rows, Format: exprFormat, Sort: "text"})
			}
		case "bars":
			out = append(out, Cfg{Color: cu[0], Unicode: cu[1], Stacked: true}, Cfg{Color: cu[0], Unicode: cu[1]}, Cfg{Color: cu[0], Unicode: cu[1], Scale: "log2", Format: exprFormat})
		case "reduce":
			for _, p := range [][2]int{{5, 5}, {3, 2}, {20, 10}} {
				out = append(out, Cfg{Color: cu[0], Unicode: true, Rows: p[0], Cols: p[1]})
			}
		}
	}
	return out
}

// historyUnits: one long-lived renderer over a history, rendered after every
// sample (or after every second one), judged after EVERY render: a case per
// prefix that ends at a render point. With and without a second instance used
// alternately.
func historyUnits(family string, quick bool) []sweepUnit {
	var hists [][]string
	switch family {
	case "table", "heatmap", "spark":
		n := 9
		if !quick {
			n = 14
		}
		hists = [][]string{scrollHist(n, false), scrollHist(n, true), upDownHist3()}
	case "histo", "reduce":
		hists = [][]string{upDownHist2()}
	case "bars":
		hists = [][]string{upDownBars()}
	}
	diff := family == "table" || family == "heatmap" || family == "spark"
	cfgs := historyCfgs(family)
	var out []sweepUnit
	for _, h := range hists {
		for _, step := range []int{1, 2} {
			for m := 1; m <= len(h); m++ {
				if m%step != 0 && m != len(h) {
					continue
				}
				var r []int
				for i := step; i < m; i += step {
					r = append(r, i)
				}
				r = append(r, m)
				out = append(out, sweepUnit{family: family, hist: h[:m], renders: [][]int{r}, cfgs: cfgs, tag: tagHistory, diff: diff, both: true})
			}
		}
	}
	return out
}
