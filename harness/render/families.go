package main

// One function per renderer family. Each mirrors the call sequence of the
// corresponding command in /repo/cmd (file named in the comment), renders on a
// multiterm.VirtualTerm after the sample prefixes listed in Case.Renders, and
// then judges the lines the final render is responsible for.

import (
	"encoding/hex"
	"encoding/json"
	"fmt"
	"math"
	"sort"
	"strconv"
	"strings"
	"unicode/utf8"

	"rare/cmd/helpers"
	"rare/pkg/aggregation"
	"rare/pkg/aggregation/sorting"
	"rare/pkg/color"
	"rare/pkg/expressions/funclib"
	"rare/pkg/humanize"
	"rare/pkg/multiterm"
	"rare/pkg/multiterm/termformat"
	"rare/pkg/multiterm/termrenderers"
	"rare/pkg/multiterm/termscaler"
	"rare/pkg/multiterm/termunicode"
)

// Cfg is the configuration part of a case (the command line flags).
type Cfg struct {
	Scale   string `json:"scale,omitempty"` // linear | log2 | log10
	Color   bool   `json:"color"`
	Unicode bool   `json:"unicode"`
	Format  string `json:"format,omitempty"` // "" (default humanized) | "<{0}|{1}|{2}>"
	Rows    int    `json:"rows"`
	Cols    int    `json:"cols"`

	Sort       string `json:"sort,omitempty"`       // histo --sort (default: value)
	Extra      bool   `json:"extra,omitempty"`      // histo -x; table -x (row and column totals)
	Stacked    bool   `json:"stacked,omitempty"`    // bargraph -s
	NoTruncate bool   `json:"notruncate,omitempty"` // spark --notruncate
	FixMin     bool   `json:"fixmin,omitempty"`     // heatmap --min
	FixMax     bool   `json:"fixmax,omitempty"`     // heatmap --max
	Min        int64  `json:"min,omitempty"`
	Max        int64  `json:"max,omitempty"`
}

type Case struct {
	Family  string   `json:"family"`
	Hist    []string `json:"hist,omitempty"`    // strings given to Aggregator.Sample, in order
	Renders []int    `json:"renders,omitempty"` // the render callback runs after this many samples; the last one is len(hist)
	Cfg     Cfg      `json:"cfg"`
	// scaler / unicode laws
	Grid []int64 `json:"grid,omitempty"`
	// Tag marks the cases of the size sweeps and history shapes (sweep.go):
	// "size-family" / "history-family" is appended to their signatures.
	Tag string `json:"tag,omitempty"`
	// Diff (table, heatmap, spark): after the final render the same aggregator
	// state is rendered by a fresh renderer on a fresh terminal; the long-lived
	// renderer's data lines must be the same up to padding.
	Diff bool `json:"diff,omitempty"`
	// Distract: before every render another renderer instance of the same
	// family (own terminal, own aggregator, other data) does a complete run:
	// two instances used alternately.
	Distract bool `json:"distract,omitempty"`
	// magnitude / stacked laws (laws.go)
	Vals []int64 `json:"vals,omitempty"`
}

// Samples may hold bytes that are not valid UTF-8, which encoding/json would
// silently replace by U+FFFD: such a history is additionally stored as hex
// (hist_hex), and read back from there, so that a replay re-executes exactly
// the case.
type casePlain Case

type caseWire struct {
	casePlain
	HistHex []string `json:"hist_hex,omitempty"`
}

func (c Case) MarshalJSON() ([]byte, error) {
	a := caseWire{casePlain: casePlain(c)}
	for _, h := range c.Hist {
		if !utf8.ValidString(h) {
			a.HistHex = make([]string, len(c.Hist))
			for i, x := range c.Hist {
				a.HistHex[i] = hex.EncodeToString([]byte(x))
			}
			break
		}
	}
	return json.Marshal(a)
}

func (c *Case) UnmarshalJSON(b []byte) error {
	var a caseWire
	if err := json.Unmarshal(b, &a); err != nil {
		return err
	}
	*c = Case(a.casePlain)
	if len(a.HistHex) > 0 {
		c.Hist = make([]string, len(a.HistHex))
		for i, x := range a.HistHex {
			raw, err := hex.DecodeString(x)
			if err != nil {
				return err
			}
			c.Hist[i] = string(raw)
		}
	}
	return nil
}

type finding struct{ sig, detail string }

type report struct {
	findings   []finding
	nontrivial bool
	outcome    []string
	hung       bool
	notDrawn   int // rows the command asked for that the final render did not draw
	staleMax   int // renders whose formatter max was the running maximum of earlier renders
	otherRow   int // lines that show another key (with its correct number) than the one asked for
}

func (r *report) fail(sig, format string, a ...any) {
	for _, f := range r.findings {
		if f.sig == sig {
			return
		}
	}
	r.findings = append(r.findings, finding{sig, fmt.Sprintf(format, a...)})
}

func setGlobals(c Cfg) {
	color.Enabled = c.Color
	termunicode.UnicodeEnabled = c.Unicode
	humanize.Enabled = true
	multiterm.AutoTrim = false
}

func scalerOf(c Cfg) termscaler.Scaler {
	s, err := helpers.BuildScaler(c.Scale)
	if err != nil {
		panic("harness: " + err.Error())
	}
	return s
}

// formatters and sorters are built once per name (as a command does once per
// run); they carry no state between calls that matters here.
var fmtCache = map[string]termformat.Formatter{}
var sortCache = map[string]sorting.NameValueSorter{}

func formatterOf(c Cfg) termformat.Formatter {
	if f, ok := fmtCache[c.Format]; ok {
		return f
	}
	f, err := helpers.BuildFormatter(c.Format)
	if err != nil {
		panic("harness: " + err.Error())
	}
	fmtCache[c.Format] = f
	return f
}

func sorterOf(name string) sorting.NameValueSorter {
	if s, ok := sortCache[name]; ok {
		return s
	}
	s, err := helpers.BuildSorter(name)
	if err != nil {
		panic("harness: " + err.Error())
	}
	sortCache[name] = s
	return s
}

// want is the text the chosen formatter must show for a value: "displayed
// numbers equal the aggregated numbers under the chosen formatter". For the
// expression formatter the reference is independent; the default formatter is
// humanize.Hi itself (its own correctness is C11's business).
func want(c Cfg, v, min, max int64) string {
	if c.Format == "" {
		return humanize.Hi(v)
	}
	return refFormat(v, min, max)
}

// matchNum: does the token show value v under the chosen formatter? For the
// expression formatter it also returns the (min, max) the formatter was given
// (mm = true); which pair a renderer must pass is judged by the caller.
func matchNum(c Cfg, tok string, v int64) (ok bool, mn, mx int64, mm bool) {
	if c.Format == "" {
		return tok == humanize.Hi(v), 0, 0, false
	}
	pv, mn, mx, ok := parseRefFormat(tok)
	return ok && pv == v, mn, mx, true
}

// mmTracker collects the (min, max) pairs the formatter received on the judged
// lines of one render. "displayed numbers equal the aggregated numbers under
// the chosen formatter": a formatter is a function of (value, min, max), so
// every line must have been formatted with the same range, and that range must
// cover the values displayed (the renderers pass 0 and their running maximum).
type mmTracker struct {
	have     bool
	mn, mx   int64
	where    string
	maxShown int64
}

func (t *mmTracker) add(rep *report, fam string, mm bool, mn, mx, val int64, where string) {
	if !mm {
		return
	}
	if !t.have {
		t.have, t.mn, t.mx, t.where, t.maxShown = true, mn, mx, where, val
	} else if mn != t.mn || mx != t.mx {
		rep.fail("C14/"+fam+"/formatter-range-differs-between-lines", "%s was formatted with (min %d, max %d), %s with (min %d, max %d): lines drawn before the maximum changed were not re-drawn", t.where, t.mn, t.mx, where, mn, mx)
	}
	if val > t.maxShown {
		t.maxShown = val
	}
	if val > mx {
		rep.fail("C14/"+fam+"/formatter-max-below-displayed-value", "%s shows value %d formatted with max %d", where, val, mx)
	}
}

// valueClass names the class of numbers in play (part of signatures, so that
// one known finding cannot hide another).
func valueClass(vals ...int64) string {
	huge, neg := false, false
	for _, v := range vals {
		if v >= 1<<53 || v <= -(1<<53) {
			huge = true
		}
		if v < 0 {
			neg = true
		}
	}
	switch {
	case huge && neg:
		return "huge-and-negative-values"
	case huge:
		return "huge-values"
	case neg:
		return "negative-values"
	}
	return "small-nonnegative-values"
}

func keyClass(c Cfg, keys ...string) string {
	esc, invalid := false, false
	for _, k := range keys {
		if strings.Contains(k, "\x1b") {
			esc = true
		}
		if !utf8.ValidString(k) {
			invalid = true
		}
	}
	if invalid {
		// a class of its own: a known finding about plain or escape-carrying keys
		// must not hide a defect that needs undecodable bytes
		return "invalid-utf8-in-key"
	}
	if esc && !c.Color {
		return "escape-in-key-with-colour-off"
	}
	if esc {
		return "escape-in-key"
	}
	return "plain-keys"
}

// recTerm is a VirtualTerm that remembers during which render every line was
// last written, so that the oracle judges only lines the final render drew.
type recTerm struct {
	*multiterm.VirtualTerm
	epoch int
	last  map[int]int
}

func newRecTerm() *recTerm {
	return &recTerm{VirtualTerm: multiterm.NewVirtualTerm(), last: map[int]int{}}
}

func (r *recTerm) WriteForLine(line int, s string) {
	r.last[line] = r.epoch
	r.VirtualTerm.WriteForLine(line, s)
}

func (r *recTerm) WriteForLinef(line int, format string, args ...interface{}) {
	r.WriteForLine(line, fmt.Sprintf(format, args...))
}

// fresh: the line was written during the latest render.
func (r *recTerm) fresh(line int) bool { e, ok := r.last[line]; return ok && e == r.epoch }

// drive feeds the history and calls render at the render points.
func drive(c Case, vt *recTerm, agg aggregation.Aggregator, render func()) {
	next := 0
	for i, s := range c.Hist {
		agg.Sample(s)
		if next < len(c.Renders) && c.Renders[next] == i+1 {
			if c.Distract {
				distract(c)
			}
			vt.epoch++
			render()
			next++
		}
	}
	if len(c.Hist) == 0 {
		if c.Distract {
			distract(c)
		}
		vt.epoch++
		render()
	}
}

// distract runs another instance of the same renderer family, same
// configuration (so the process globals stay as they are), on other data. Its
// own screen is not judged here (the same states are judged elsewhere); what
// matters is that the instance under judgement is not influenced by it.
func distract(c Case) {
	d := Case{Family: c.Family, Cfg: c.Cfg, Hist: distractHist(c.Family)}
	d.Renders = []int{len(d.Hist) / 2, len(d.Hist)}
	var rep report
	switch c.Family {
	case "histo":
		runHisto(d, &rep)
	case "bars":
		runBars(d, &rep)
	case "table":
		runTable(d, &rep)
	case "heatmap":
		runHeatmap(d, &rep)
	case "spark":
		runSpark(d, &rep)
	case "reduce":
		runReduce(d, &rep)
	}
}

func screen(vt *recTerm) []string {
	out := make([]string, vt.LineCount())
	for i := range out {
		out[i] = vt.Get(i)
	}
	return out
}

type monoPoint struct {
	val     int64
	measure int
	what    string
}

// checkMonotone: "bars ... grow with the value" / "Scaled magnitudes ... are
// monotone in the value": a larger value is never drawn smaller.
func checkMonotone(rep *report, sig string, pts []monoPoint) {
	if len(pts) > 64 && monotoneSorted(pts) {
		return // the quadratic scan below is only needed to name the pair
	}
	for i := range pts {
		for j := range pts {
			if pts[i].val <= pts[j].val && pts[i].measure > pts[j].measure {
				rep.fail(sig+"/"+valueClass(pts[i].val, pts[j].val), "value %d (%s) is drawn larger (%d) than value %d (%s, %d)", pts[i].val, pts[i].what, pts[i].measure, pts[j].val, pts[j].what, pts[j].measure)
				return
			}
		}
	}
}

// monotoneSorted decides the same predicate as the pairwise scan of
// checkMonotone in O(n log n): ordered by value, equal values have equal
// measures and the measure never decreases.
func monotoneSorted(pts []monoPoint) bool {
	idx := make([]int, len(pts))
	for i := range idx {
		idx[i] = i
	}
	sort.Slice(idx, func(a, b int) bool {
		if pts[idx[a]].val != pts[idx[b]].val {
			return pts[idx[a]].val < pts[idx[b]].val
		}
		return pts[idx[a]].measure < pts[idx[b]].measure
	})
	for k := 1; k < len(idx); k++ {
		p, q := pts[idx[k-1]], pts[idx[k]]
		if p.measure > q.measure || p.val == q.val && p.measure != q.measure {
			return false
		}
	}
	return true
}

// ---- differential oracle of the history family

// squeeze: a rendered line up to padding (runs of blanks).
func squeeze(l string) string { return strings.Join(strings.Fields(l), " ") }

// dataRegion: the lines above the first footer line, blank lines left out.
func dataRegion(lines []string) []string {
	var out []string
	for _, l := range lines {
		if l == "footer-0" {
			break
		}
		if q := squeeze(l); q != "" {
			out = append(out, q)
		}
	}
	return out
}

// diffFresh: "For any aggregated state ... every renderer ...": what is drawn
// is a function of the aggregated state and the configuration. The long-lived
// renderer (which has rendered earlier, larger or smaller states) must show, up
// to padding, the data lines a fresh renderer shows for the same state: no row
// of an earlier state left on screen, no number, cell or more-note computed from
// an earlier state. Column widths may be wider than a fresh renderer's (they
// only grow, columns still line up: judged by checkGrid), so blanks are squeezed.
func diffFresh(rep *report, fam string, vt *recTerm, fresh func(ft *recTerm)) {
	ft := newRecTerm()
	fresh(ft)
	got, want := dataRegion(screen(vt)), dataRegion(screen(ft))
	if len(got) > len(want) {
		same := true
		for i := range want {
			if got[i] != want[i] {
				same = false
			}
		}
		if same {
			rep.fail("C14/"+fam+"/row-of-an-earlier-state-still-shown", "the renderer shows %d data lines, a fresh renderer shows %d for the same aggregated state; left over: %q\nfresh:\n%s", len(got), len(want), got[len(want):], fmtLines(want))
			return
		}
	}
	if len(got) != len(want) {
		rep.fail("C14/"+fam+"/render-differs-from-fresh-renderer", "the renderer shows %d data lines, a fresh renderer %d for the same aggregated state\nfresh:\n%s", len(got), len(want), fmtLines(want))
		return
	}
	for i := range want {
		if got[i] != want[i] {
			rep.fail("C14/"+fam+"/render-differs-from-fresh-renderer", "line %d is %q, a fresh renderer draws %q for the same aggregated state", i, got[i], want[i])
			return
		}
	}
}

// ------------------------------------------------------------------ histogram
// cmd/histo.go: histoFunction + writeHistoOutput

func runHisto(c Case, rep *report) {
	setGlobals(c.Cfg)
	vt := newRecTerm()
	counter := aggregation.NewCounter()
	topItems := c.Cfg.Rows
	writer := termrenderers.NewHistogram(vt, topItems)
	writer.ShowBar = c.Cfg.Extra
	writer.ShowPercentage = c.Cfg.Extra
	writer.Scaler = scalerOf(c.Cfg)
	writer.Formatter = formatterOf(c.Cfg)
	sortName := c.Cfg.Sort
	if sortName == "" {
		sortName = "value" // the command's default
	}
	sorter := sorterOf(sortName)
	const atLeast = int64(0)

	var shown []aggregation.MatchPair
	render := func() {
		// writeHistoOutput
		items := counter.ItemsSortedBy(topItems, sorter)
		line := 0
		writer.UpdateTotal(counter.Total())
		shown = shown[:0]
		for _, match := range items {
			count := match.Item.Count()
			if count >= atLeast {
				writer.WriteForLine(line, match.Name, count)
				shown = append(shown, match)
				line++
			}
		}
		writer.WriteFooter(0, "footer-0")
		writer.WriteFooter(1, "footer-1")
	}
	drive(c, vt, counter, render)
	writer.Close()

	// ---- oracle on the lines of the final render
	var pts []monoPoint
	var mmt mmTracker
	notDrawn, judged := 0, 0
	for i, it := range shown {
		if !vt.fresh(i) {
			notDrawn++ // the final render did not draw this row: nothing displayed, nothing judged
			continue
		}
		line := vt.Get(i)
		v := visible(line)
		key := visible(it.Name)
		shows, num, mn, mx, mm := histoLineShows(c.Cfg, v, key, it.Item.Count())
		if !shows {
			// Either the number of this row is wrong, or the final render drew
			// the line for another (earlier) item. The statement does not say
			// which rows must be shown, but the number on the line must be the
			// aggregated number of the key the line names.
			other := false
			for _, o := range counter.Items() {
				if ok, _, _, _, _ := histoLineShows(c.Cfg, v, visible(o.Name), o.Item.Count()); o.Name != it.Name && ok {
					other = true
					break
				}
			}
			switch {
			case other:
				rep.otherRow++
			case key != "" && strings.HasPrefix(v, key+" "):
				rep.fail("C14/histo/number-differs-from-formatter", "line %d %q: want formatter(%d) after the key", i, v, it.Item.Count())
			default:
				rep.fail("C14/histo/stale-row-shows-outdated-number", "line %d %q was drawn by the final render; it should show key %q (value %d), and the number it shows is not the aggregated number of any other key", i, v, key, it.Item.Count())
			}
			continue
		}
		judged++
		mmt.add(rep, "histo", mm, mn, mx, it.Item.Count(), fmt.Sprintf("line %d", i))
		rest := strings.TrimLeft(v[len(key):], " ")
		_, bar := trailingBar(rest[len(num):], c.Cfg.Unicode)
		cells, measure, ok := barMeasure(bar, c.Cfg.Unicode)
		if !ok {
			rep.fail("C14/histo/malformed-bar", "line %d %q: bar %q is not full blocks followed by at most one partial block", i, v, bar)
			continue
		}
		if !c.Cfg.Extra && cells > 0 {
			rep.fail("C14/histo/bar-without-flag", "line %d %q shows a bar although bars are off", i, v)
		}
		// "bars never exceed their maximum width"
		if cells > 50 {
			rep.fail("C14/histo/bar-exceeds-width/"+valueClass(it.Item.Count()), "line %d: bar of %d cells, maximum 50", i, cells)
		}
		pts = append(pts, monoPoint{it.Item.Count(), measure, fmt.Sprintf("line %d", i)})
		rep.outcome = append(rep.outcome, num, fmt.Sprint(measure))
	}
	checkMonotone(rep, "C14/histo/bar-not-monotone", pts)
	if mmt.have && mmt.maxShown > 0 && mmt.mx != mmt.maxShown {
		rep.staleMax++ // the running maximum of earlier renders, not the maximum of the final state
	}
	rep.notDrawn = notDrawn
	rep.nontrivial = judged >= 1
	if len(rep.findings) > 0 {
		rep.findings[0].detail += "\nscreen:\n" + fmtLines(screen(vt))
	}
}

// histoLineShows: the visible line is "key, spaces, number, (space ... | end)"
// and the number is formatter(val). Returns the number token and, for the
// expression formatter, the (min, max) it was formatted with.
func histoLineShows(c Cfg, v, key string, val int64) (ok bool, num string, mn, mx int64, mm bool) {
	if !strings.HasPrefix(v, key) {
		return
	}
	rest := strings.TrimLeft(v[len(key):], " ")
	if key != "" && len(rest) == len(v)-len(key) {
		return // no space between key and number: a longer key
	}
	num = rest
	if i := strings.IndexByte(rest, ' '); i >= 0 {
		num = rest[:i]
	}
	ok, mn, mx, mm = matchNum(c, num, val)
	return
}

// ------------------------------------------------------------------ bargraph
// cmd/bargraph.go: bargraphFunction

func runBars(c Case, rep *report) {
	setGlobals(c.Cfg)
	vt := newRecTerm()
	counter := aggregation.NewSubKeyCounter()
	writer := termrenderers.NewBarGraph(vt)
	writer.Stacked = c.Cfg.Stacked
	if c.Cfg.Scale != "" { // c.IsSet(scale): rejected together with --stacked by the command
		if c.Cfg.Stacked {
			panic("harness: scale with stacked is not reachable")
		}
		writer.Scaler = scalerOf(c.Cfg)
	}
	writer.Formatter = formatterOf(c.Cfg)
	sorter := sorterOf("numeric")

	var rows []aggregation.SubKeyNamedItem
	var rowVals [][]int64
	render := func() {
		line := 0
		writer.SetKeys(counter.SubKeys()...)
		rows = counter.ItemsSorted(sorter)
		rowVals = rowVals[:0]
		for _, row := range rows {
			writer.WriteBar(line, row.Name, row.Item.Items()...)
			rowVals = append(rowVals, append([]int64{}, row.Item.Items()...))
			line++
		}
		writer.WriteFooter(0, "footer-0")
		writer.WriteFooter(1, "footer-1")
	}
	drive(c, vt, counter, render)
	writer.Close()

	subKeys := counter.SubKeys()
	k := len(subKeys)
	prefix := 0
	if k > 1 || (k == 1 && subKeys[0] != "") {
		prefix = 1 // the legend line
	}
	fam := "bars-grouped"
	if c.Cfg.Stacked {
		fam = "bars-stacked"
	}
	if prefix == 1 {
		// the key line above the bars: "for any aggregated state": it lists the
		// sub-keys of the state the final render drew, in the order of the
		// segments / grouped bars, each behind its key glyph
		var sb strings.Builder
		for i, sk := range subKeys {
			if i > 0 {
				sb.WriteString("  ")
			}
			sb.WriteString(visible(termunicode.BarKey(i)) + " " + visible(sk))
		}
		if got := strings.TrimLeft(visible(vt.Get(0)), " "); got != sb.String() {
			rep.fail("C14/"+fam+"/key-line-does-not-list-the-sub-keys", "line 0 shows %q, the sub-keys of the rendered state are %q: want %q", got, subKeys, sb.String())
		}
	}
	var pts []monoPoint
	var mmt mmTracker
	for idx, row := range rows {
		key := visible(row.Name)
		vals := rowVals[idx]
		if c.Cfg.Stacked {
			raw := vt.Get(prefix + idx)
			v := visible(raw)
			var total int64
			for _, x := range vals {
				total += x
			}
			tok := v[strings.LastIndexByte(v, ' ')+1:]
			numOK, mn, mx, mm := matchNum(c.Cfg, tok, total)
			num := "  " + tok
			if !strings.HasPrefix(v, key) {
				rep.fail("C14/"+fam+"/row-does-not-show-its-key", "line %d %q does not start with key %q", prefix+idx, v, key)
				continue
			}
			if !numOK || !strings.HasSuffix(v, num) || len(v) < len(key)+len(num) {
				rep.fail("C14/"+fam+"/number-differs-from-formatter", "line %d %q: want it to end with two spaces and formatter(%d)", prefix+idx, v, total)
				continue
			}
			mmt.add(rep, fam, mm, mn, mx, total, fmt.Sprintf("row %q", key))
			bar := strings.Trim(v[len(key):len(v)-len(num)], " ")
			segs, ok := stackedSegments(raw, bar, c.Cfg, len(vals))
			if !ok {
				rep.fail("C14/"+fam+"/malformed-bar", "line %d %q: cannot decode %d stacked segments from %q", prefix+idx, raw, len(vals), bar)
				continue
			}
			sum := 0
			for i, n := range segs {
				sum += n
				if c.Cfg.Color || len(vals) <= 16 { // otherwise the segments cannot be told apart
					pts = append(pts, monoPoint{vals[i], n, fmt.Sprintf("row %q segment %d", key, i)})
				}
			}
			// "bars never exceed their maximum width"
			if sum > 50 {
				rep.fail("C14/"+fam+"/bar-exceeds-width/"+valueClass(vals...), "line %d: stacked bar of %d cells (segments %v for values %v), maximum 50", prefix+idx, sum, segs, vals)
			}
			rep.outcome = append(rep.outcome, num, fmt.Sprint(segs))
			continue
		}
		for i, val := range vals {
			ln := prefix + idx*k + i
			v := visible(vt.Get(ln))
			tok := v[strings.LastIndexByte(v, ' ')+1:]
			numOK, mn, mx, mm := matchNum(c.Cfg, tok, val)
			num := " " + tok
			if i == 0 && !strings.HasPrefix(v, key) {
				rep.fail("C14/"+fam+"/row-does-not-show-its-key", "line %d %q does not start with key %q", ln, v, key)
				continue
			}
			if !numOK || !strings.HasSuffix(v, num) {
				rep.fail("C14/"+fam+"/number-differs-from-formatter", "line %d %q: want it to end with a space and formatter(%d)", ln, v, val)
				continue
			}
			mmt.add(rep, fam, mm, mn, mx, val, fmt.Sprintf("row %q sub %d", key, i))
			body := v[:len(v)-len(num)]
			if i == 0 {
				if len(body) < len(key) {
					rep.fail("C14/"+fam+"/row-does-not-show-its-key", "line %d %q too short", ln, v)
					continue
				}
				body = body[len(key):]
			}
			bar := strings.Trim(body, " ")
			cells, measure, ok := barMeasure(bar, c.Cfg.Unicode)
			if !ok {
				rep.fail("C14/"+fam+"/malformed-bar", "line %d %q: %q is not a bar", ln, v, bar)
				continue
			}
			if cells > 50 {
				rep.fail("C14/"+fam+"/bar-exceeds-width/"+valueClass(val), "line %d: bar of %d cells, maximum 50", ln, cells)
			}
			pts = append(pts, monoPoint{val, measure, fmt.Sprintf("row %q sub %d", key, i)})
			rep.outcome = append(rep.outcome, num, fmt.Sprint(measure))
		}
	}
	checkMonotone(rep, "C14/"+fam+"/bar-not-monotone", pts)
	rep.nontrivial = len(rows) >= 1
	if len(rep.findings) > 0 {
		rep.findings[0].detail += "\nscreen:\n" + fmtLines(screen(vt))
	}
}

// stackedSegments decodes the per-value segment lengths of a stacked bar.
// Colour off: segment i is drawn with the i-th of 0-9A-F (cycling); colour on:
// every segment is "SGR blocks reset".
func stackedSegments(raw, bar string, c Cfg, n int) ([]int, bool) {
	segs := make([]int, n)
	if !c.Color && n > 16 {
		// the 16 segment characters repeat: which segment a character belongs
		// to cannot be read off the bar. Only the total length is judged then
		// (all cells are attributed to the first segment).
		const digits = "0123456789ABCDEF"
		for _, r := range bar {
			if strings.IndexRune(digits, r) < 0 {
				return nil, false
			}
			segs[0]++
		}
		return segs, true
	}
	if !c.Color {
		const digits = "0123456789ABCDEF"
		last := -1
		for _, r := range bar {
			i := strings.IndexRune(digits, r)
			if i < 0 {
				return nil, false
			}
			// find the segment index >= last with this digit
			found := -1
			for s := 0; s < n; s++ {
				if s%16 == i && s >= last {
					found = s
					break
				}
			}
			if found < 0 {
				return nil, false
			}
			segs[found]++
			last = found
		}
		return segs, true
	}
	block := "|"
	if c.Unicode {
		block = string(fullBlockRune)
	}
	for _, r := range bar {
		if string(r) != block {
			return nil, false
		}
	}
	// walk the raw tokens from the right: [... segments ...] "  " number
	toks := tokenize(raw)
	// collect runs of block runes delimited by SGR tokens; the key area is
	// skipped by only considering runs opened by a non-reset SGR token that
	// directly precedes blocks or a reset.
	var runs []int
	i := 0
	// segment: an SGR that is not the reset, zero or more block runes, the reset
	for ; i < len(toks); i++ {
		if !toks[i].sgr || toks[i].s == "\x1b[0m" {
			continue
		}
		j := i + 1
		cnt := 0
		for j < len(toks) && !toks[j].sgr && toks[j].s == block {
			cnt++
			j++
		}
		if j < len(toks) && toks[j].sgr && toks[j].s == "\x1b[0m" {
			runs = append(runs, cnt)
			i = j
		}
	}
	if len(runs) < n {
		return nil, false
	}
	runs = runs[len(runs)-n:] // the segments are the last n runs of the line
	total := 0
	for _, x := range runs {
		total += x
	}
	if total != len([]rune(bar)) {
		return nil, false
	}
	return runs, true
}

// ------------------------------------------------------------------ tabulate
// cmd/tabulate.go: tabulateFunction

func runTable(c Case, rep *report) {
	setGlobals(c.Cfg)
	counter := aggregation.NewTable("\x00")
	vt := newRecTerm()
	writer := termrenderers.NewDataTable(vt, c.Cfg.Cols, c.Cfg.Rows)
	writer.ShowRowTotals = c.Cfg.Extra
	writer.ShowColTotals = c.Cfg.Extra
	rowSorter := sorterOf("value")
	colSorter := sorterOf("value")
	if c.Cfg.Format != "" {
		writer.SetFormatter(formatterOf(c.Cfg))
	}
	render := func() {
		writer.WriteTable(counter, rowSorter, colSorter)
		writer.WriteFooter(0, "footer-0")
		writer.WriteFooter(1, "footer-1")
	}
	drive(c, vt, counter, render)
	writer.Close()

	cols := counter.OrderedColumns(colSorter)
	if len(cols) > c.Cfg.Cols {
		cols = cols[:c.Cfg.Cols]
	}
	rows := counter.OrderedRows(rowSorter)
	if len(rows) > c.Cfg.Rows {
		rows = rows[:c.Cfg.Rows]
	}
	// tabulate with --format passes the table's ComputeMinMax of the state it renders
	tmin, tmax := counter.ComputeMinMax()
	var cells [][]wcell
	var keys []string
	hdr := []string{""}
	for _, cn := range cols {
		hdr = append(hdr, visible(cn))
		keys = append(keys, cn)
	}
	last := ""
	if c.Cfg.Extra {
		last = "Total"
	}
	hdr = append(hdr, last)
	cells = append(cells, cellsOf(hdr...))
	for _, r := range rows {
		keys = append(keys, r.Name())
		row := []string{visible(r.Name())}
		for _, cn := range cols {
			row = append(row, want(c.Cfg, r.Value(cn), tmin, tmax))
		}
		if c.Cfg.Extra {
			row = append(row, want(c.Cfg, r.Sum(), tmin, tmax))
		} else {
			row = append(row, "")
		}
		cells = append(cells, cellsOf(row...))
	}
	if c.Cfg.Extra {
		row := []string{"Total"}
		for _, cn := range cols {
			row = append(row, want(c.Cfg, counter.ColTotal(cn), tmin, tmax))
		}
		row = append(row, want(c.Cfg, counter.Sum(), tmin, tmax))
		cells = append(cells, cellsOf(row...))
	}
	lines := make([]string, len(cells))
	for i := range cells {
		lines[i] = visible(vt.Get(i))
	}
	checkGrid(rep, "table", c.Cfg, lines, cells, keys)
	if c.Diff {
		diffFresh(rep, "table", vt, func(ft *recTerm) {
			w2 := termrenderers.NewDataTable(ft, c.Cfg.Cols, c.Cfg.Rows)
			w2.ShowRowTotals = c.Cfg.Extra
			w2.ShowColTotals = c.Cfg.Extra
			if c.Cfg.Format != "" {
				w2.SetFormatter(formatterOf(c.Cfg))
			}
			w2.WriteTable(counter, rowSorter, colSorter)
			w2.WriteFooter(0, "footer-0")
			w2.WriteFooter(1, "footer-1")
		})
	}
	rep.nontrivial = len(rows) >= 1 && len(cols) >= 1
	rep.outcome = append(rep.outcome, lines...)
	if len(rep.findings) > 0 {
		rep.findings[0].detail += "\nscreen:\n" + fmtLines(screen(vt))
	}
}

// checkGrid judges a rendered table: first the content of every line
// ("displayed numbers equal the aggregated numbers under the chosen
// formatter"), then the alignment ("table columns line up").
func checkGrid(rep *report, fam string, cfg Cfg, lines []string, cells [][]wcell, keys []string) {
	contentOK := true
	for i, l := range lines {
		var wantF []string
		hasWild := false
		for _, cl := range cells[i] {
			if cl.text == wild {
				hasWild = true
				continue
			}
			wantF = append(wantF, strings.Fields(cl.text)...)
		}
		got := strings.Fields(l)
		if hasWild {
			// every predicted field must appear in order
			k := 0
			for _, g := range got {
				if k < len(wantF) && g == wantF[k] {
					k++
				}
			}
			if k != len(wantF) {
				contentOK = false
				rep.fail("C14/"+fam+"/cell-content-differs", "line %d shows %q, want the cells %q", i, l, wantF)
			}
			continue
		}
		if strings.Join(got, " ") != strings.Join(wantF, " ") {
			contentOK = false
			rep.fail("C14/"+fam+"/cell-content-differs", "line %d shows %q, want the cells %q", i, l, wantF)
		}
	}
	if !contentOK {
		return
	}
	if alignOffsets(lines, cells) == nil {
		rep.fail("C14/tablewriter/columns-do-not-line-up/"+keyClass(cfg, keys...), "no common column offsets exist for the lines\n%s", fmtLines(lines))
	}
}

// ------------------------------------------------------------------ heatmap
// cmd/heatmap.go: heatmapFunction

func runHeatmap(c Case, rep *report) {
	setGlobals(c.Cfg)
	counter := aggregation.NewTable("\x00")
	rowSorter := sorterOf("numeric")
	colSorter := sorterOf("numeric")
	vt := newRecTerm()
	writer := termrenderers.NewHeatmap(vt, c.Cfg.Rows, c.Cfg.Cols)
	writer.FixedMin = c.Cfg.FixMin
	writer.FixedMax = c.Cfg.FixMax
	if c.Cfg.FixMin || c.Cfg.FixMax {
		writer.UpdateMinMax(c.Cfg.Min, c.Cfg.Max)
	}
	writer.Scaler = scalerOf(c.Cfg)
	writer.Formatter = formatterOf(c.Cfg)
	render := func() {
		writer.WriteTable(counter, rowSorter, colSorter)
		writer.WriteFooter(0, "footer-0")
		writer.WriteFooter(1, "footer-1")
	}
	drive(c, vt, counter, render)
	writer.Close()

	cols := counter.OrderedColumns(colSorter)
	colCount := len(cols)
	if colCount > c.Cfg.Cols {
		colCount = c.Cfg.Cols
	}
	rows := counter.OrderedRows(rowSorter)
	rowCount := len(rows)
	if rowCount > c.Cfg.Rows {
		rowCount = c.Cfg.Rows
	}
	var pts []monoPoint
	for i := 0; i < rowCount; i++ {
		raw := vt.Get(2 + i)
		v := visible(raw)
		key := visible(rows[i].Name())
		if !strings.HasPrefix(v, key) {
			rep.fail("C14/heatmap/row-does-not-show-its-key", "line %d %q does not start with key %q", 2+i, v, key)
			continue
		}
		body := strings.TrimLeft(v[len(key):], " ")
		cellRunes := []rune(body)
		// "heatmap ... rows contain one cell per displayed column"
		if len(cellRunes) != colCount {
			rep.fail("C14/heatmap/cell-count-differs-from-columns", "line %d %q has %d cells, %d columns are displayed", 2+i, v, len(cellRunes), colCount)
			continue
		}
		idxs, ok := heatIndexes(raw, cellRunes, c.Cfg)
		if !ok {
			rep.fail("C14/heatmap/malformed-cell", "line %d %q: cells %q are not heat cells", 2+i, raw, body)
			continue
		}
		for j := 0; j < colCount; j++ {
			val := rows[i].Value(cols[j])
			if idxs != nil {
				pts = append(pts, monoPoint{val, idxs[j], fmt.Sprintf("row %d col %d", i, j)})
			}
		}
		rep.outcome = append(rep.outcome, fmt.Sprint(idxs))
	}
	checkMonotone(rep, "C14/heatmap/cells-not-monotone", pts)
	// "the '(n more)' notes equal the number of rows or columns not shown"
	if len(rows) > rowCount {
		wantNote := fmt.Sprintf("(%d more)", len(rows)-rowCount)
		if got := visible(vt.Get(2 + rowCount)); got != wantNote {
			rep.fail("C14/heatmap/rows-more-note", "line %d shows %q, want %q (%d rows, %d shown)", 2+rowCount, got, wantNote, len(rows), rowCount)
		}
	}
	hdr := visible(vt.Get(1))
	if len(cols) > colCount {
		wantNote := fmt.Sprintf(" (%d more)", len(cols)-colCount)
		if !strings.HasSuffix(hdr, wantNote) {
			rep.fail("C14/heatmap/cols-more-note", "header %q, want it to end with %q (%d columns, %d shown)", hdr, wantNote, len(cols), colCount)
		}
	} else if strings.HasSuffix(hdr, " more)") && !colNameEndsWithMore(cols) {
		rep.fail("C14/heatmap/cols-more-note", "header %q has a more-note although all %d columns are shown", hdr, len(cols))
	}
	checkHeatLegend(rep, c, vt, counter, cols, colCount)
	if c.Diff {
		diffFresh(rep, "heatmap", vt, func(ft *recTerm) {
			w2 := termrenderers.NewHeatmap(ft, c.Cfg.Rows, c.Cfg.Cols)
			w2.FixedMin = c.Cfg.FixMin
			w2.FixedMax = c.Cfg.FixMax
			if c.Cfg.FixMin || c.Cfg.FixMax {
				w2.UpdateMinMax(c.Cfg.Min, c.Cfg.Max)
			}
			w2.Scaler = scalerOf(c.Cfg)
			w2.Formatter = formatterOf(c.Cfg)
			w2.WriteTable(counter, rowSorter, colSorter)
			w2.WriteFooter(0, "footer-0")
			w2.WriteFooter(1, "footer-1")
		})
	}
	rep.nontrivial = rowCount >= 1 && colCount >= 1
	rep.outcome = append(rep.outcome, hdr)
	if len(rep.findings) > 0 {
		rep.findings[0].detail += "\nscreen:\n" + fmtLines(screen(vt))
	}
}

// ---- the heatmap's scale legend (line 0)

// legendEntry: one "cell number" pair of the legend.
type legendEntry struct {
	tok    string // the number as displayed
	val    int64  // the value the number stands for under the chosen formatter
	mn, mx int64  // expression formatter: the (min, max) it was given
	idx    int    // palette / glyph index of the cell (-1: not decodable)
}

// parseHi reads a number printed by the default formatter (humanize.Hi) back.
func parseHi(tok string) (int64, bool) {
	v, err := strconv.ParseInt(strings.ReplaceAll(tok, ",", ""), 10, 64)
	return v, err == nil && humanize.Hi(v) == tok
}

// legendTopRepresentable: the legend's last value is the upper end of the
// scale (linear: the maximum; log scales: the next power of the base at or
// above it). Where that number does not fit into int64 there is no legend value
// to judge (recorded in FINDINGS.md "Not reported": legend values are not
// aggregated numbers); only the format of the legend's numbers is judged then.
func legendTopRepresentable(scale string, emin, emax int64) bool {
	hi := emax
	if emax <= emin { // a degenerate range is drawn as [min, min+1]
		if emin == math.MaxInt64 {
			return false
		}
		hi = emin + 1
	}
	switch scale {
	case "log2":
		return float64(hi) <= 0x1p62
	case "log10":
		return float64(hi) <= 1e18
	}
	return float64(hi) < 0x1p63
}

// checkHeatLegend judges line 0 of a heatmap as it stands after the final
// render: "indent, then 'cell number' pairs separated by four blanks".
//   - "displayed numbers equal the aggregated numbers under the chosen
//     formatter": every number of the legend is a rendering of an integer by the
//     CHOSEN formatter (--format), given the range the cells are scaled with
//     (the fixed bounds where given, else the table's minimum / maximum);
//   - "Scaled magnitudes ... are monotone in the value": the legend's values
//     never decrease from left to right and neither do its cells; the legend
//     brackets the range (first <= minimum - for a log scale everything <= 1 is
//     one position -, last >= maximum);
//   - the legend is a legend: the cell it shows next to value v is the cell the
//     renderer draws for a table cell of value v under the same --scale and
//     range (decided by the real renderer on a probe table holding exactly the
//     legend's values);
//   - legend and column header of the same frame start in the same column.
func checkHeatLegend(rep *report, c Case, vt *recTerm, counter *aggregation.TableAggregator, cols []string, colCount int) {
	if vt.LineCount() == 0 {
		rep.fail("C14/heatmap/legend-missing", "no line 0 after the final render")
		return
	}
	cfg := c.Cfg
	raw := vt.Get(0)
	v := visible(raw)
	rest := strings.TrimLeft(v, " ")
	indent := len(v) - len(rest)
	if rest == "" {
		rep.fail("C14/heatmap/legend-missing", "line 0 %q holds no legend after the final render", v)
		return
	}
	tmin, tmax := counter.ComputeMinMax()
	emin, emax := tmin, tmax
	if cfg.FixMin {
		emin = cfg.Min
	}
	if cfg.FixMax {
		emax = cfg.Max
	}
	parts := strings.Split(rest, "    ")
	entries := make([]legendEntry, 0, len(parts))
	var glyphs []rune
	for _, p := range parts {
		rs := []rune(p)
		if len(rs) < 3 || rs[1] != ' ' {
			rep.fail("C14/heatmap/legend-malformed", "legend %q: entry %q is not 'cell blank number'", v, p)
			return
		}
		e := legendEntry{tok: string(rs[2:]), idx: -1}
		ok := false
		if cfg.Format == "" {
			e.val, ok = parseHi(e.tok)
		} else {
			e.val, e.mn, e.mx, ok = parseRefFormat(e.tok)
		}
		if !ok {
			rep.fail("C14/heatmap/legend-number-not-under-chosen-formatter", "legend %q: %q is not a number as the chosen formatter (%s) prints it", v, e.tok, map[bool]string{true: "default", false: cfg.Format}[cfg.Format == ""])
			return
		}
		if cfg.Format != "" && !(e.mn == emin && e.mx == emax) && !(e.mn == tmin && e.mx == tmax) {
			rep.fail("C14/heatmap/legend-formatted-with-another-range", "legend %q: %q was formatted with (min %d, max %d); the cells are scaled with (min %d, max %d), the table's range is (%d, %d)", v, e.tok, e.mn, e.mx, emin, emax, tmin, tmax)
			return
		}
		glyphs = append(glyphs, rs[0])
		entries = append(entries, e)
	}
	if len(entries) > 6 {
		rep.fail("C14/heatmap/legend-malformed", "legend %q has %d entries", v, len(entries))
		return
	}
	idxs, ok := heatIndexes(raw, glyphs, cfg)
	if !ok {
		rep.fail("C14/heatmap/legend-malformed", "legend %q: the cells %q are not heat cells", raw, string(glyphs))
		return
	}
	for i := range entries {
		if idxs != nil {
			entries[i].idx = idxs[i]
		}
	}
	// legend and header of one frame are indented alike
	if colCount >= 1 && !strings.HasPrefix(visible(cols[0]), " ") {
		hdr := visible(vt.Get(1))
		hIndent := len(hdr) - len(strings.TrimLeft(hdr, " "))
		if hIndent != indent {
			rep.fail("C14/heatmap/legend-indent-differs-from-header", "after the final render the legend starts in column %d, the column header in column %d", indent, hIndent)
		}
	}
	rep.outcome = append(rep.outcome, "legend", fmt.Sprint(len(entries)))
	if !legendTopRepresentable(cfg.Scale, emin, emax) {
		return
	}
	for i := 1; i < len(entries); i++ {
		if entries[i].val < entries[i-1].val {
			rep.fail("C14/heatmap/legend-values-decrease", "legend %q: %d follows %d (range %d..%d)", v, entries[i].val, entries[i-1].val, emin, emax)
			return
		}
		if entries[i].idx >= 0 && entries[i].idx < entries[i-1].idx {
			rep.fail("C14/heatmap/legend-cells-not-monotone", "legend %q: the cell of %d is colder (%d) than the cell of %d (%d)", v, entries[i].val, entries[i].idx, entries[i-1].val, entries[i-1].idx)
			return
		}
	}
	if emin < emax {
		lo := emin
		if cfg.Scale != "linear" && cfg.Scale != "" && lo < 1 {
			lo = 1 // a log scale draws everything <= 1 at the position of 1
		}
		first, last := entries[0].val, entries[len(entries)-1].val
		// compared in float64 with a relative tolerance of 2^-45 of the magnitude
		// of the ends: scale positions are float64 arithmetic (and logarithms), so
		// beyond 2^48 the ends are only the nearest computable numbers
		// (MinInt64..1 ends at 0, log2 of 0..2^49+1 ends at 2^49)
		tol := (math.Abs(float64(emax)) + math.Abs(float64(emin))) * 0x1p-45
		if float64(first) > float64(lo)+tol || float64(last) < float64(emax)-tol {
			rep.fail("C14/heatmap/legend-does-not-cover-the-range", "legend %q runs from %d to %d, the cells are scaled with the range %d..%d (%s)", v, first, last, emin, emax, cfg.Scale)
			return
		}
	}
	// the probe: a fresh renderer with the same scale and the range pinned to the
	// effective one (--min emin --max emax) draws a row whose cells are exactly
	// the legend's values
	if idxs == nil {
		return
	}
	ptab := aggregation.NewTable("\x00")
	for i, e := range entries {
		ptab.Sample(join(itoa(i), "p", i64(e.val)))
	}
	pt := newRecTerm()
	pw := termrenderers.NewHeatmap(pt, 1, len(entries))
	pw.FixedMin, pw.FixedMax = true, true
	pw.UpdateMinMax(emin, emax)
	pw.Scaler = scalerOf(cfg)
	pw.Formatter = formatterOf(cfg)
	pw.WriteTable(ptab, sorterOf("numeric"), sorterOf("numeric"))
	praw := pt.Get(2)
	pv := strings.TrimLeft(strings.TrimPrefix(visible(praw), "p"), " ")
	pidx, ok := heatIndexes(praw, []rune(pv), cfg)
	if !ok || len(pidx) != len(entries) {
		panic(fmt.Sprintf("harness: probe row %q does not hold %d cells", praw, len(entries)))
	}
	for i, e := range entries {
		if pidx[i] != e.idx {
			rep.fail("C14/heatmap/legend-cell-differs-from-the-cell-of-that-value", "legend %q shows cell %d next to %s; with --scale %s and the range %d..%d a table cell of value %d is drawn as cell %d", v, e.idx, e.tok, cfg.Scale, emin, emax, e.val, pidx[i])
			return
		}
	}
}

func colNameEndsWithMore(cols []string) bool {
	for _, c := range cols {
		if strings.HasSuffix(c, " more)") {
			return true
		}
	}
	return false
}

// heatIndexes decodes the palette index of every cell; nil,true when the
// palette colour is not one the oracle knows (then only the count is judged).
func heatIndexes(raw string, cellRunes []rune, c Cfg) ([]int, bool) {
	out := make([]int, len(cellRunes))
	if !c.Color {
		for i, r := range cellRunes {
			k := indexRune(heatASCII, r)
			if k < 0 {
				return nil, false
			}
			out[i] = k
		}
		return out, true
	}
	block := '#'
	if c.Unicode {
		block = fullBlockRune
	}
	for _, r := range cellRunes {
		if r != block {
			return nil, false
		}
	}
	// colours: the last len(cells) "38;5;N" sequences of the line
	var cols []int
	for _, t := range tokenize(raw) {
		if t.sgr && strings.HasPrefix(t.s, "\x1b[38;5;") {
			n := 0
			fmt.Sscanf(t.s, "\x1b[38;5;%dm", &n)
			k := -1
			for i, p := range heatPalette {
				if p == n {
					k = i
				}
			}
			cols = append(cols, k)
		}
	}
	if len(cols) < len(cellRunes) {
		return nil, false
	}
	cols = cols[len(cols)-len(cellRunes):]
	for _, k := range cols {
		if k < 0 {
			return nil, true
		}
	}
	return cols, true
}

// ------------------------------------------------------------------ spark
// cmd/spark.go: sparkFunction

func runSpark(c Case, rep *report) {
	setGlobals(c.Cfg)
	counter := aggregation.NewTable("\x00")
	rowSorter := sorterOf("value")
	colSorter := sorterOf("numeric")
	numCols := c.Cfg.Cols
	vt := newRecTerm()
	writer := termrenderers.NewSpark(vt, c.Cfg.Rows, numCols)
	writer.Scaler = scalerOf(c.Cfg)
	writer.Formatter = formatterOf(c.Cfg)
	render := func() {
		if !c.Cfg.NoTruncate {
			if keepCols := counter.OrderedColumns(colSorter); len(keepCols) > numCols {
				keepCols = keepCols[len(keepCols)-numCols:]
				keepLookup := make(map[string]struct{})
				for _, item := range keepCols {
					keepLookup[item] = struct{}{}
				}
				counter.Trim(func(col, row string, val int64) bool {
					_, ok := keepLookup[col]
					return !ok
				})
			}
		}
		writer.WriteTable(counter, rowSorter, colSorter)
		writer.WriteFooter(0, "footer-0")
		writer.WriteFooter(1, "footer-1")
	}
	drive(c, vt, counter, render)
	writer.Close()

	cols := counter.OrderedColumns(colSorter)
	if len(cols) > numCols {
		cols = cols[len(cols)-numCols:]
	}
	rows := counter.OrderedRows(rowSorter)
	rowCount := len(rows)
	if rowCount > c.Cfg.Rows {
		rowCount = c.Cfg.Rows
	}
	if len(cols) == 0 {
		// nothing is displayed per column; the statement only demands completion
		rep.nontrivial = false
		return
	}
	// spark passes the table's ComputeMinMax of the (trimmed) state it renders
	smin, smax := counter.ComputeMinMax()
	var cells [][]wcell
	var keys []string
	cells = append(cells, []wcell{{text: ""}, {text: "First"}, {text: wild}, {text: "Last"}})
	for i := 0; i < rowCount; i++ {
		r := rows[i]
		keys = append(keys, r.Name())
		cells = append(cells, []wcell{{text: visible(r.Name())}, {text: want(c.Cfg, r.Value(cols[0]), smin, smax)}, {text: wild, minLen: len(cols)}, {text: want(c.Cfg, r.Value(cols[len(cols)-1]), smin, smax)}})
	}
	lines := make([]string, len(cells))
	for i := range cells {
		lines[i] = visible(vt.Get(i))
	}
	keys = append(keys, cols...)
	checkGrid(rep, "spark", c.Cfg, lines, cells, keys)
	if len(rep.findings) == 0 {
		off := alignOffsets(lines, cells)
		tab := sparkASCII
		if c.Cfg.Unicode {
			tab = sparkUnicode
		}
		var pts []monoPoint
		start := -1
		for i := 0; i < rowCount; i++ {
			rl := []rune(lines[i+1])
			// the offsets of a free-content column are only bounded by its
			// neighbours; the sparkline is the non-blank part in between
			seg := string(rl[off[2]:off[3]])
			cell := strings.Trim(seg, " ")
			lead := len([]rune(seg)) - len([]rune(strings.TrimLeft(seg, " ")))
			cr := []rune(cell)
			// "sparkline rows contain one cell per displayed column"
			if len(cr) != len(cols) {
				rep.fail("C14/spark/cell-count-differs-from-columns", "line %d %q: sparkline %q has %d cells, %d columns are displayed", i+1, lines[i+1], cell, len(cr), len(cols))
				continue
			}
			// "table columns line up": all sparklines start in the same column
			if start >= 0 && off[2]+lead != start {
				rep.fail("C14/tablewriter/columns-do-not-line-up/"+keyClass(c.Cfg, keys...), "sparkline of line %d starts at column %d, another at %d\n%s", i+1, off[2]+lead, start, fmtLines(lines))
			}
			start = off[2] + lead
			for j, r := range cr {
				k := indexRune(tab, r)
				if k < 0 {
					rep.fail("C14/spark/malformed-cell", "line %d: %q is not a sparkline glyph", i+1, string(r))
					break
				}
				val := rows[i].Value(cols[j])
				pts = append(pts, monoPoint{val, k, fmt.Sprintf("row %d col %d", i, j)})
			}
			rep.outcome = append(rep.outcome, cell)
		}
		checkMonotone(rep, "C14/spark/cells-not-monotone", pts)
	}
	// "(n more)" equals the number of rows not shown
	if len(rows) > rowCount {
		wantNote := fmt.Sprintf("(%d more)", len(rows)-rowCount)
		found := false
		for i := rowCount + 1; i < vt.LineCount(); i++ {
			if visible(vt.Get(i)) == wantNote {
				found = true
			}
		}
		if !found {
			rep.fail("C14/spark/rows-more-note", "no line below the %d displayed rows shows %q (%d rows)", rowCount, wantNote, len(rows))
		}
	}
	if c.Diff {
		diffFresh(rep, "spark", vt, func(ft *recTerm) {
			w2 := termrenderers.NewSpark(ft, c.Cfg.Rows, numCols)
			w2.Scaler = scalerOf(c.Cfg)
			w2.Formatter = formatterOf(c.Cfg)
			w2.WriteTable(counter, rowSorter, colSorter) // the state as the command's Trim left it
			w2.WriteFooter(0, "footer-0")
			w2.WriteFooter(1, "footer-1")
		})
	}
	rep.nontrivial = rowCount >= 1
	rep.outcome = append(rep.outcome, lines...)
	if len(rep.findings) > 0 {
		rep.findings[0].detail += "\nscreen:\n" + fmtLines(screen(vt))
	}
}

// ------------------------------------------------------------------ reduce
// cmd/reduce.go: reduceFunction, table output

var reduceGroups = []string{"k={1}"}
var reduceAccums = []string{"sum={sumi {.} {2}}", "last={2}", "n={sumi {.} 1}"}

func parseKV(s string) (string, string) {
	i := strings.IndexByte(s, '=')
	return s[:i], s[i+1:]
}

func runReduce(c Case, rep *report) {
	setGlobals(c.Cfg)
	vt := newRecTerm()
	aggr := aggregation.NewAccumulatingGroup(funclib.NewKeyBuilder())
	for _, g := range reduceGroups {
		name, val := parseKV(g)
		if err := aggr.AddGroupExpr(name, val); err != nil {
			panic("harness: " + err.Error())
		}
	}
	for _, a := range reduceAccums {
		name, val := parseKV(a)
		if err := aggr.AddDataExpr(name, val, "0"); err != nil {
			panic("harness: " + err.Error())
		}
	}
	sorter := sorting.ByContextual()
	table := termrenderers.NewTable(vt, c.Cfg.Cols, c.Cfg.Rows)
	header := make([]string, aggr.ColCount())
	{
		for i, groupCol := range aggr.GroupCols() {
			header[i] = color.Wrap(color.Underline+color.BrightYellow, groupCol)
		}
		for i, dataCol := range aggr.DataCols() {
			header[aggr.GroupColCount()+i] = color.Wrap(color.Underline+color.BrightBlue, dataCol)
		}
		table.WriteRow(0, header...)
	}
	var shown [][]string
	render := func() {
		shown = shown[:0]
		for i, group := range aggr.Groups(sorter) {
			rowBuf := make([]string, aggr.ColCount())
			data := aggr.Data(group)
			for idx, item := range group.Parts() {
				rowBuf[idx] = color.Wrap(color.BrightWhite, item)
			}
			copy(rowBuf[aggr.GroupColCount():], data)
			table.WriteRow(i+1, rowBuf...)
			shown = append(shown, rowBuf)
		}
		table.WriteFooter(0, "footer-0")
		table.WriteFooter(1, "footer-1")
	}
	drive(c, vt, aggr, render)
	vt.Close()

	maxCols := c.Cfg.Cols
	all := append([][]string{header}, shown...)
	var cells [][]wcell
	var keys []string
	for i, r := range all {
		if i >= c.Cfg.Rows {
			break
		}
		var row []string
		for j, x := range r {
			if j >= maxCols {
				break
			}
			row = append(row, visible(x))
			keys = append(keys, x)
		}
		cells = append(cells, cellsOf(row...))
	}
	lines := make([]string, len(cells))
	for i := range cells {
		lines[i] = visible(vt.Get(i))
	}
	if maxCols > 0 && len(cells) > 0 {
		checkGrid(rep, "reduce-table", c.Cfg, lines, cells, keys)
	}
	rep.nontrivial = len(cells) >= 2 && maxCols >= 2
	rep.outcome = append(rep.outcome, lines...)
	if len(rep.findings) > 0 {
		rep.findings[0].detail += "\nscreen:\n" + fmtLines(screen(vt))
	}
}
