package main

// Scaler laws (termscaler) and drawing primitives (termunicode) checked on a
// grid, independent of any aggregator.

import (
	"fmt"
	"math"
	"sort"
	"strings"

	"rare/pkg/multiterm/termscaler"
	"rare/pkg/multiterm/termunicode"
)

func gridValues(quick bool) []int64 {
	g := []int64{-3, -2, -1, 0, 1, 2, 3, 10, -10, 1000, -1000, 1000000000, -1000000000, math.MaxInt64, math.MinInt64}
	if !quick {
		g = append(g, 4, 5, 7, 8, 9, 16, 100, 1<<31, 1<<53, 1<<53+1, 1<<57, 1<<58, 1<<62, math.MaxInt64-1, math.MinInt64+1, -(1 << 53), -(1 << 62))
	}
	sort.Slice(g, func(i, j int) bool { return g[i] < g[j] })
	return g
}

var scaleNames = []string{"linear", "log2", "log10"}

var magGrid = magnitudes()

// bucketSweep / lengthSweep: the numbers of buckets (>= 1) and the maximum
// lengths (>= 0) of the size sweep of the scaler laws.
var bucketSweep, lengthSweep = func() ([]int, []int) {
	var b, l []int
	for _, n := range sizes(257) {
		if n >= 1 {
			b = append(b, n)
		}
		l = append(l, n)
	}
	return b, l
}()

// magPairs: the (min, max) ranges of the magnitude sweep: a handful of minima
// against every magnitude as the maximum, every magnitude as the minimum
// against a handful of maxima. sweep = the number of buckets is swept too.
type magPair struct {
	min, max int64
	sweep    bool
}

func magPairs() []magPair {
	var out []magPair
	for _, v := range magGrid {
		for _, mn := range []int64{math.MinInt64, -1, 0, 1} {
			out = append(out, magPair{mn, v, mn == 0 && v > 0})
		}
		out = append(out, magPair{v, math.MaxInt64, false}, magPair{v, 0, false})
		if v < math.MaxInt64 {
			out = append(out, magPair{v, v + 1, false})
		}
	}
	return out
}

// stackedVectors: the value vectors of the stacked-bar law: small shapes, and
// around every positive magnitude v: v alone, v with v-1, two halves, v among ones.
func stackedVectors() [][]int64 {
	out := [][]int64{{0}, {1}, {1, 1}, {1, 2, 3}, {5, 0, 5}, {-1, 4}, {3, -3, 3}, {1, 1, 1, 1, 1, 1, 1, 1, 1, 1, 1, 1, 1, 1, 1, 1, 1, 1}, {9, 8, 7, 6, 5, 4, 3, 2, 1}}
	for _, v := range magGrid {
		if v <= 0 {
			continue
		}
		out = append(out, []int64{v})
		if v >= 2 && v <= math.MaxInt64/2 {
			out = append(out, []int64{v, v - 1})
		}
		out = append(out, []int64{v / 2, v - v/2}, []int64{1, v / 3, 1, v / 3})
	}
	return out
}

var stackedVecs = stackedVectors()

func sumPos(vals []int64) (s int64) {
	for _, v := range vals {
		if v > 0 {
			s += v
		}
	}
	return
}

// runStackedLaw: termunicode.BarWriteStacked for one maximum length and every
// value vector, with the maximum a renderer passes (the largest positive row
// sum: this row's, twice it, MaxInt64). "bars never exceed their maximum width
// and grow with the value".
func runStackedLaw(c Case, rep *report) {
	setGlobals(c.Cfg)
	maxLen := c.Cfg.Cols
	seen := map[int]bool{}
	for _, vals := range stackedVecs {
		sp := sumPos(vals)
		maxVals := []int64{sp, math.MaxInt64}
		if sp <= math.MaxInt64/2 {
			maxVals = append(maxVals, 2*sp)
		}
		for _, mv := range maxVals {
			var sb strings.Builder
			termunicode.BarWriteStacked(&sb, mv, int64(maxLen), vals...)
			raw := sb.String()
			segs, ok := stackedSegments(raw, visible(raw), c.Cfg, len(vals))
			if !ok {
				rep.fail("C14/termunicode/BarWriteStacked/malformed-bar", "BarWriteStacked(max %d, len %d, %v) = %q", mv, maxLen, vals, raw)
				return
			}
			sum := 0
			var pts []monoPoint
			for i, n := range segs {
				sum += n
				if c.Cfg.Color || len(vals) <= 16 {
					pts = append(pts, monoPoint{vals[i], n, fmt.Sprintf("segment %d", i)})
				}
			}
			if sum > maxLen {
				rep.fail("C14/termunicode/BarWriteStacked/bar-exceeds-width/"+valueClass(vals...), "BarWriteStacked(max %d, len %d, %v) wrote %d cells %v", mv, maxLen, vals, sum, segs)
			}
			checkMonotone(rep, "C14/termunicode/BarWriteStacked/bar-not-monotone", pts)
			seen[sum] = true
		}
	}
	rep.nontrivial = len(seen) >= 3
	rep.outcome = append(rep.outcome, fmt.Sprint(len(seen)))
}

// runScalerLaws: case = (scaler, min, max); all val of the grid.
// "Scaled magnitudes lie in [0,1] and are monotone in the value".
func runScalerLaws(c Case, rep *report) {
	s, ok := termscaler.ScalerByName(c.Cfg.Scale)
	if !ok {
		panic("harness: scaler")
	}
	min, max := c.Cfg.Min, c.Cfg.Max
	if len(c.Grid) == 0 { // the magnitude sweep: every power of ten and of two -1, +0, +1, both signs
		c.Grid = magGrid
	}
	bucketCounts := []int{4, 9, 10, 16}
	var lengths []int
	if c.Cfg.Cols > 0 { // sweep of the number of buckets / the maximum length
		bucketCounts, lengths = bucketSweep, lengthSweep
	}
	prevB := make([]int, len(bucketCounts))
	prevL := make([]int, len(lengths))
	prev := math.Inf(-1)
	var prevVal int64
	prevBucket, prevLen := -1, -1
	distinct := map[float64]bool{}
	for i, val := range c.Grid {
		u := s.Scale(val, min, max)
		distinct[u] = true
		if math.IsNaN(u) || u < 0 || u > 1 {
			rep.fail("C14/scaler/"+c.Cfg.Scale+"/scale-outside-unit-interval", "Scale(%d, %d, %d) = %v", val, min, max, u)
			return
		}
		if i > 0 && u < prev {
			rep.fail("C14/scaler/"+c.Cfg.Scale+"/scale-not-monotone", "Scale(%d, %d, %d) = %v but Scale(%d, ...) = %v", prevVal, min, max, prev, val, u)
			return
		}
		// Bucket "Return [0, bucket-1]", LengthVal "Return [0, maxLen]"
		for k, n := range bucketCounts {
			b := termscaler.Bucket(n, u) // = s.Bucket(n, val, min, max), which is checked for n = 16 below
			if k < 4 {
				b = s.Bucket(n, val, min, max)
			}
			if b < 0 || b > n-1 {
				rep.fail("C14/scaler/"+c.Cfg.Scale+"/bucket-out-of-range", "Bucket(%d, %d, %d, %d) = %d", n, val, min, max, b)
			}
			if i > 0 && b < prevB[k] {
				rep.fail("C14/scaler/"+c.Cfg.Scale+"/bucket-not-monotone", "Bucket(%d, ...): val %d -> %d, val %d -> %d (min %d max %d)", n, prevVal, prevB[k], val, b, min, max)
			}
			prevB[k] = b
		}
		for k, n := range lengths {
			l := termscaler.LengthVal(n, u) // = s.LengthVal(n, val, min, max), which is checked for n = 50 below
			if l < 0 || l > n {
				rep.fail("C14/scaler/"+c.Cfg.Scale+"/length-out-of-range", "LengthVal(%d, %d, %d, %d) = %d", n, val, min, max, l)
			}
			if i > 0 && l < prevL[k] {
				rep.fail("C14/scaler/"+c.Cfg.Scale+"/bucket-not-monotone", "LengthVal(%d, ...): val %d -> %d, val %d -> %d (min %d max %d)", n, prevVal, prevL[k], val, l, min, max)
			}
			prevL[k] = l
		}
		b16 := s.Bucket(16, val, min, max)
		l50 := s.LengthVal(50, val, min, max)
		if l50 < 0 || l50 > 50 {
			rep.fail("C14/scaler/"+c.Cfg.Scale+"/length-out-of-range", "LengthVal(50, %d, %d, %d) = %d", val, min, max, l50)
		}
		if i > 0 && (b16 < prevBucket || l50 < prevLen) {
			rep.fail("C14/scaler/"+c.Cfg.Scale+"/bucket-not-monotone", "val %d -> bucket %d length %d, val %d -> bucket %d length %d (min %d max %d)", prevVal, prevBucket, prevLen, val, b16, l50, min, max)
		}
		prev, prevVal, prevBucket, prevLen = u, val, b16, l50
	}
	// ScaleKeys with the only bucket count a command uses (heatmap legend: 6)
	keys := s.ScaleKeys(6, min, max)
	if len(keys) == 0 || len(keys) > 6 {
		rep.fail("C14/scaler/"+c.Cfg.Scale+"/scalekeys-count", "ScaleKeys(6, %d, %d) returned %d keys", min, max, len(keys))
	}
	rep.nontrivial = len(distinct) >= 3
	rep.outcome = append(rep.outcome, fmt.Sprint(len(distinct)), fmt.Sprint(keys))
}

// unitGrid: unit values fed to the drawing primitives: a regular grid plus the
// neighbours of every bucket boundary.
func unitGrid() []float64 {
	var g []float64
	for i := 0; i <= 450; i++ {
		g = append(g, float64(i)/450)
	}
	for _, n := range []int{3, 8, 9, 15} {
		for i := 0; i <= n; i++ {
			x := float64(i) / float64(n)
			g = append(g, x, math.Nextafter(x, 0), math.Nextafter(x, 1))
		}
	}
	var out []float64
	for _, x := range g {
		if x >= 0 && x <= 1 {
			out = append(out, x)
		}
	}
	sort.Float64s(out)
	return out
}

// runUnicodeLaws: BarWrite / HeatWrite / SparkWrite for every unit value of
// the grid under one (colour, unicode) setting and one maximum bar length.
func runUnicodeLaws(c Case, rep *report) {
	setGlobals(c.Cfg)
	maxLen := c.Cfg.Cols
	prevBar, prevHeat, prevSpark := -1, -1, -1
	sparkTab := sparkASCII
	if c.Cfg.Unicode {
		sparkTab = sparkUnicode
	}
	seen := map[int]bool{}
	for _, u := range unitGrid() {
		var sb strings.Builder
		termunicode.BarWrite(&sb, u, maxLen)
		cells, measure, ok := barMeasure(sb.String(), c.Cfg.Unicode)
		if !ok {
			rep.fail("C14/termunicode/BarWrite/malformed-bar", "BarWrite(%v, %d) = %q", u, maxLen, sb.String())
			return
		}
		if cells > maxLen {
			rep.fail("C14/termunicode/BarWrite/bar-exceeds-width", "BarWrite(%v, %d) wrote %d cells", u, maxLen, cells)
		}
		if measure < prevBar {
			rep.fail("C14/termunicode/BarWrite/bar-not-monotone", "BarWrite(%v, %d) is shorter than for a smaller value", u, maxLen)
		}
		prevBar = measure
		seen[measure] = true

		sb.Reset()
		termunicode.HeatWrite(&sb, u)
		hv := visible(sb.String())
		idx, ok := heatIndexes(sb.String(), []rune(hv), c.Cfg)
		if !ok || len([]rune(hv)) != 1 {
			rep.fail("C14/termunicode/HeatWrite/not-one-cell", "HeatWrite(%v) = %q", u, sb.String())
			return
		}
		if idx != nil {
			if idx[0] < prevHeat {
				rep.fail("C14/termunicode/HeatWrite/not-monotone", "HeatWrite(%v) is colder than for a smaller value", u)
			}
			prevHeat = idx[0]
		}

		sb.Reset()
		termunicode.SparkWrite(&sb, u)
		sr := []rune(sb.String())
		if len(sr) != 1 || indexRune(sparkTab, sr[0]) < 0 {
			rep.fail("C14/termunicode/SparkWrite/not-one-cell", "SparkWrite(%v) = %q", u, sb.String())
			return
		}
		if k := indexRune(sparkTab, sr[0]); k < prevSpark {
			rep.fail("C14/termunicode/SparkWrite/not-monotone", "SparkWrite(%v) is lower than for a smaller value", u)
		} else {
			prevSpark = k
		}
	}
	rep.nontrivial = len(seen) >= 3
	rep.outcome = append(rep.outcome, fmt.Sprint(len(seen)), fmt.Sprint(prevHeat), fmt.Sprint(prevSpark))
}
