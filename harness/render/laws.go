package main

// Scaler laws (termscaler) and drawing primitives (termunicode) checked on a
// grid, independent of any aggregator.

import (
	"fmt"
	"math"
	"sort"
	"strings"

	"rare/pkg/multiterm/termscaler"
	"rare/pkg/multiterm/termunicode"
)

func gridValues(quick bool) []int64 {
	g := []int64{-3, -2, -1, 0, 1, 2, 3, 10, -10, 1000, -1000, 1000000000, -1000000000, math.MaxInt64, math.MinInt64}
	if !quick {
		g = append(g, 4, 5, 7, 8, 9, 16, 100, 1<<31, 1<<53, 1<<53+1, 1<<57, 1<<58, 1<<62, math.MaxInt64-1, math.MinInt64+1, -(1 << 53), -(1 << 62))
	}
	sort.Slice(g, func(i, j int) bool { return g[i] < g[j] })
	return g
}

var scaleNames = []string{"linear", "log2", "log10"}

// runScalerLaws: case = (scaler, min, max); all val of the grid.
// "Scaled magnitudes lie in [0,1] and are monotone in the value".
func runScalerLaws(c Case, rep *report) {
	s, ok := termscaler.ScalerByName(c.Cfg.Scale)
	if !ok {
		panic("harness: scaler")
	}
	min, max := c.Cfg.Min, c.Cfg.Max
	prev := math.Inf(-1)
	var prevVal int64
	prevBucket, prevLen := -1, -1
	distinct := map[float64]bool{}
	for i, val := range c.Grid {
		u := s.Scale(val, min, max)
		distinct[u] = true
		if math.IsNaN(u) || u < 0 || u > 1 {
			rep.fail("C14/scaler/"+c.Cfg.Scale+"/scale-outside-unit-interval", "Scale(%d, %d, %d) = %v", val, min, max, u)
			return
		}
		if i > 0 && u < prev {
			rep.fail("C14/scaler/"+c.Cfg.Scale+"/scale-not-monotone", "Scale(%d, %d, %d) = %v but Scale(%d, ...) = %v", prevVal, min, max, prev, val, u)
			return
		}
		// Bucket "Return [0, bucket-1]", LengthVal "Return [0, maxLen]"
		for _, n := range []int{4, 9, 10, 16} {
			if b := s.Bucket(n, val, min, max); b < 0 || b > n-1 {
				rep.fail("C14/scaler/"+c.Cfg.Scale+"/bucket-out-of-range", "Bucket(%d, %d, %d, %d) = %d", n, val, min, max, b)
			}
		}
		b16 := s.Bucket(16, val, min, max)
		l50 := s.LengthVal(50, val, min, max)
		if l50 < 0 || l50 > 50 {
			rep.fail("C14/scaler/"+c.Cfg.Scale+"/length-out-of-range", "LengthVal(50, %d, %d, %d) = %d", val, min, max, l50)
		}
		if i > 0 && (b16 < prevBucket || l50 < prevLen) {
			rep.fail("C14/scaler/"+c.Cfg.Scale+"/bucket-not-monotone", "val %d -> bucket %d length %d, val %d -> bucket %d length %d (min %d max %d)", prevVal, prevBucket, prevLen, val, b16, l50, min, max)
		}
		prev, prevVal, prevBucket, prevLen = u, val, b16, l50
	}
	// ScaleKeys with the only bucket count a command uses (heatmap legend: 6)
	keys := s.ScaleKeys(6, min, max)
	if len(keys) == 0 || len(keys) > 6 {
		rep.fail("C14/scaler/"+c.Cfg.Scale+"/scalekeys-count", "ScaleKeys(6, %d, %d) returned %d keys", min, max, len(keys))
	}
	rep.nontrivial = len(distinct) >= 3
	rep.outcome = append(rep.outcome, fmt.Sprint(len(distinct)), fmt.Sprint(keys))
}

// unitGrid: unit values fed to the drawing primitives: a regular grid plus the
// neighbours of every bucket boundary.
func unitGrid() []float64 {
	var g []float64
	for i := 0; i <= 450; i++ {
		g = append(g, float64(i)/450)
	}
	for _, n := range []int{3, 8, 9, 15} {
		for i := 0; i <= n; i++ {
			x := float64(i) / float64(n)
			g = append(g, x, math.Nextafter(x, 0), math.Nextafter(x, 1))
		}
	}
	var out []float64
	for _, x := range g {
		if x >= 0 && x <= 1 {
			out = append(out, x)
		}
	}
	sort.Float64s(out)
	return out
}

// runUnicodeLaws: BarWrite / HeatWrite / SparkWrite for every unit value of
// the grid under one (colour, unicode) setting and one maximum bar length.
func runUnicodeLaws(c Case, rep *report) {
	setGlobals(c.Cfg)
	maxLen := c.Cfg.Cols
	prevBar, prevHeat, prevSpark := -1, -1, -1
	sparkTab := sparkASCII
	if c.Cfg.Unicode {
		sparkTab = sparkUnicode
	}
	seen := map[int]bool{}
	for _, u := range unitGrid() {
		var sb strings.Builder
		termunicode.BarWrite(&sb, u, maxLen)
		cells, measure, ok := barMeasure(sb.String(), c.Cfg.Unicode)
		if !ok {
			rep.fail("C14/termunicode/BarWrite/malformed-bar", "BarWrite(%v, %d) = %q", u, maxLen, sb.String())
			return
		}
		if cells > maxLen {
			rep.fail("C14/termunicode/BarWrite/bar-exceeds-width", "BarWrite(%v, %d) wrote %d cells", u, maxLen, cells)
		}
		if measure < prevBar {
			rep.fail("C14/termunicode/BarWrite/bar-not-monotone", "BarWrite(%v, %d) is shorter than for a smaller value", u, maxLen)
		}
		prevBar = measure
		seen[measure] = true

		sb.Reset()
		termunicode.HeatWrite(&sb, u)
		hv := visible(sb.String())
		idx, ok := heatIndexes(sb.String(), []rune(hv), c.Cfg)
		if !ok || len([]rune(hv)) != 1 {
			rep.fail("C14/termunicode/HeatWrite/not-one-cell", "HeatWrite(%v) = %q", u, sb.String())
			return
		}
		if idx != nil {
			if idx[0] < prevHeat {
				rep.fail("C14/termunicode/HeatWrite/not-monotone", "HeatWrite(%v) is colder than for a smaller value", u)
			}
			prevHeat = idx[0]
		}

		sb.Reset()
		termunicode.SparkWrite(&sb, u)
		sr := []rune(sb.String())
		if len(sr) != 1 || indexRune(sparkTab, sr[0]) < 0 {
			rep.fail("C14/termunicode/SparkWrite/not-one-cell", "SparkWrite(%v) = %q", u, sb.String())
			return
		}
		if k := indexRune(sparkTab, sr[0]); k < prevSpark {
			rep.fail("C14/termunicode/SparkWrite/not-monotone", "SparkWrite(%v) is lower than for a smaller value", u)
		} else {
			prevSpark = k
		}
	}
	rep.nontrivial = len(seen) >= 3
	rep.outcome = append(rep.outcome, fmt.Sprint(len(seen)), fmt.Sprint(prevHeat), fmt.Sprint(prevSpark))
}
