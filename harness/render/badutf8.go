package main

// INVALID-UTF-8 family for C14: keys and cells that are not valid UTF-8 (Latin-1
// / CP1252 log text, truncated multi-byte sequences), in every renderer family,
// as the longest and as a shorter key of the state, arriving before and after
// the other keys. Judged by the same oracles as everything else; the signatures
// of these cases end in /invalid-utf8-family.
//
// What "line up" means for such text is decided by what a terminal shows: every
// byte that is not part of a valid UTF-8 sequence is drawn as ONE replacement
// glyph, i.e. occupies one column. That is also what Go's rune decoding yields
// (utf8.RuneError per byte) and what ref.go's visible() encodes (each such byte
// becomes one U+FFFD). See Assumptions.

const tagInvalid = "invalid-utf8-family"

type badKey struct{ class, key string }

// badKeys: every class of undecodable byte, alone, at the end and in the middle
// of a key, mixed with ASCII, with valid multi-byte text and with a colour.
// Visible widths 1..6.
var badKeys = []badKey{
	// a lone continuation byte (0x80..0xBF)
	{"lone-continuation", "\x80"},
	{"lone-continuation", "\xa0"},
	{"lone-continuation", "\xbf"},
	// a lone lead byte of a 2-, 3-, 4-byte sequence
	{"lone-lead", "\xc3"},
	{"lone-lead", "\xe2"},
	{"lone-lead", "\xf0"},
	// a truncated 2/3/4-byte sequence at the end of a key
	{"truncated-at-end", "ab\xc3"},
	{"truncated-at-end", "ab\xe2\x82"},
	{"truncated-at-end", "ab\xf0\x9f\x98"},
	// ... and in the middle
	{"truncated-in-middle", "a\xc3b"},
	{"truncated-in-middle", "a\xe2\x82b"},
	{"truncated-in-middle", "a\xf0\x9f\x98b"},
	// an overlong encoding (of '/'), bytes that never occur in UTF-8
	{"overlong", "\xc0\xaf"},
	{"overlong", "a\xc0\xafb"},
	{"never-valid-byte", "\xff"},
	{"never-valid-byte", "a\xffb\xfe"},
	// Latin-1 / CP1252 text: degree sign, pound sign + no-break space, e acute
	{"latin1-text", "25\xb0C"},
	{"latin1-text", "\xa35\xa0"},
	{"latin1-text", "caf\xe9"},
	// mixed with valid multi-byte text
	{"mixed-with-multibyte", "é\x80→\xe2\x82ü"},
	{"mixed-with-multibyte", "→\xbf"},
	// inside a colour
	{"inside-colour", "\x1b[31m\xb0q\x1b[0m"},
}

// the valid keys next to which an invalid one is put: shorter than most of
// them, longer than all of them (ASCII and multi-byte), empty
var badCompanions = []string{"a", "abcdefgh", "é→ü✤é→ü✤", ""}

// invalidStates: the key lists of the family. Every invalid key next to every
// companion in both orders of arrival (so it is the longest key and a shorter
// one, first and last), every ordered pair of invalid keys, every invalid key
// between a short and a long valid one; the thorough tier adds every pair of
// invalid keys next to the long valid key.
func invalidStates(quick bool) [][]string {
	var out [][]string
	for _, b := range badKeys {
		out = append(out, []string{b.key})
		for _, c := range badCompanions {
			out = append(out, []string{b.key, c}, []string{c, b.key})
		}
		out = append(out, []string{"a", b.key, "abcdefgh"}, []string{"abcdefgh", b.key, "a"})
	}
	for i, b := range badKeys {
		for j, c := range badKeys {
			if i != j {
				out = append(out, []string{b.key, c.key})
			}
		}
	}
	if !quick {
		for i, b := range badKeys {
			for j, c := range badKeys {
				if i < j {
					out = append(out, []string{b.key, "abcdefgh", c.key}, []string{c.key, b.key, "abcdefgh"})
				}
			}
		}
	}
	return out
}

// prefixRenders: the final render, and one intermediate render after every
// proper non-empty prefix of the samples (a wider key arrives after narrower
// ones were drawn and the other way round).
func prefixRenders(n, perKey int) [][]int {
	out := [][]int{{n}}
	for m := perKey; m < n; m += perKey {
		out = append(out, []int{m, n})
	}
	return out
}

// invalidUnits: the units of the family for one renderer family.
func invalidUnits(family string, quick bool) []sweepUnit {
	var out []sweepUnit
	add := func(h []string, perKey int, cfgs []Cfg) {
		out = append(out, sweepUnit{family: family, hist: h, renders: prefixRenders(len(h), perKey), cfgs: cfgs, tag: tagInvalid})
	}
	for _, keys := range invalidStates(quick) {
		switch family {
		case "table", "heatmap", "spark":
			var cfgs []Cfg
			for _, cu := range cu2 {
				switch family {
				case "table":
					cfgs = append(cfgs, Cfg{Color: cu[0], Unicode: true, Rows: 5, Cols: 5, Extra: true}, Cfg{Color: cu[0], Unicode: true, Rows: 5, Cols: 2, Format: exprFormat})
				case "heatmap":
					cfgs = append(cfgs, Cfg{Scale: "linear", Color: cu[0], Unicode: cu[1], Rows: 5, Cols: 5}, Cfg{Scale: "linear", Color: cu[0], Unicode: cu[1], Rows: 2, Cols: 2})
				case "spark":
					cfgs = append(cfgs, Cfg{Scale: "linear", Color: cu[0], Unicode: cu[1], Rows: 5, Cols: 5}, Cfg{Scale: "linear", Color: cu[0], Unicode: cu[1], Rows: 2, Cols: 2, NoTruncate: true})
				}
			}
			var hc, hr []string
			for i, k := range keys {
				hc = append(hc, join(k, "r", itoa(i+2)), join(k, "q", "1"))   // column keys
				hr = append(hr, join("c1", k, itoa(i+2)), join("c2", k, "1")) // row keys
			}
			add(hc, 2, cfgs)
			add(hr, 2, cfgs)
		case "histo":
			var cfgs []Cfg
			for _, cu := range cu2 {
				cfgs = append(cfgs, Cfg{Scale: "linear", Color: cu[0], Unicode: cu[1], Rows: 5, Extra: true}, Cfg{Scale: "linear", Color: cu[0], Unicode: cu[1], Rows: 5, Extra: true, Format: exprFormat, Sort: "text"}, Cfg{Scale: "linear", Color: cu[0], Unicode: cu[1], Rows: 2})
			}
			var h []string
			for i, k := range keys {
				h = append(h, join(k, itoa(i+2)))
			}
			add(h, 1, cfgs)
		case "bars":
			var cfgs []Cfg
			for _, cu := range cu2 {
				cfgs = append(cfgs, Cfg{Color: cu[0], Unicode: cu[1], Stacked: true}, Cfg{Color: cu[0], Unicode: cu[1]})
			}
			var hk, hs []string
			for i, k := range keys {
				hk = append(hk, join(k, "x", itoa(i+2)), join(k, "y", "1")) // row keys
				hs = append(hs, join("a", k, itoa(i+2)), join("b", k, "1")) // sub-keys (legend)
			}
			add(hk, 2, cfgs)
			add(hs, 2, cfgs)
		case "reduce":
			var cfgs []Cfg
			for _, col := range []bool{true, false} {
				cfgs = append(cfgs, Cfg{Color: col, Unicode: true, Rows: 5, Cols: 5}, Cfg{Color: col, Unicode: true, Rows: 3, Cols: 2})
			}
			var hk, hc []string
			for i, k := range keys {
				hk = append(hk, join(k, itoa(i+2)))   // group keys (first column)
				hc = append(hc, join("g"+itoa(i), k)) // data cells: the "last" accumulator shows the text itself
			}
			add(hk, 1, cfgs)
			add(hc, 1, cfgs)
		}
	}
	return out
}

func badKeyClasses() []string {
	var out []string
	seen := map[string]bool{}
	for _, b := range badKeys {
		if !seen[b.class] {
			seen[b.class] = true
			out = append(out, b.class)
		}
	}
	return out
}

func badKeyList() []string {
	var out []string
	for _, b := range badKeys {
		out = append(out, b.key)
	}
	return out
}
