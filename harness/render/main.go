// Harness render decides C14: every renderer of pkg/multiterm/termrenderers
// (histogram, stacked/grouped bargraph, data table, heatmap, sparkline, the
// reduce table) completes and draws proportionally within bounds for every
// aggregator state reachable from small sample histories, driven through the
// call sequences of the commands on a multiterm.VirtualTerm; plus the scaler
// laws and the drawing primitives on a grid.
package main

import (
	"encoding/json"
	"fmt"
	"math"
	"runtime"
	"strings"
	"sync/atomic"
	"time"

	"verif/runner"
)

const (
	keyLong = "kkkkkkkkkklmlmlmlmlmnononononopqpqpqpqpq" // 40 runes
	keyEsc  = "\x1b[31mq\x1b[0m"                         // a key that carries its own colour
	maxI64  = "9223372036854775807"
	big57   = "144115188075855872" // 1<<57
	big58   = "288230376151711744" // 1<<58
)

func join(parts ...string) string { return strings.Join(parts, "\x00") }

// samples2 builds "key NUL value" samples; value "" means no value part.
func samples2(keys, vals []string) []string {
	var out []string
	for _, k := range keys {
		for _, v := range vals {
			if v == "" {
				out = append(out, k)
			} else {
				out = append(out, join(k, v))
			}
		}
	}
	return out
}

func samples3(a, b, vals []string) []string {
	var out []string
	for _, x := range a {
		for _, y := range b {
			for _, v := range vals {
				if v == "" {
					out = append(out, join(x, y))
				} else {
					out = append(out, join(x, y, v))
				}
			}
		}
	}
	return out
}

var (
	histoSamples  = samples2([]string{"", "a", "é", keyLong, keyEsc}, []string{"", "0", "-2", "3", maxI64})
	barsSamples   = samples3([]string{"", "a", keyLong, keyEsc}, []string{"", "x", "y"}, []string{"", "0", "-1", big57, big58})
	tableSamples  = samples3([]string{"", "a", "bcd", keyEsc}, []string{"", "r", keyLong, keyEsc}, []string{"", "0", "-1", "5", maxI64})
	reduceSamples = samples2([]string{"", "a", keyLong, keyEsc}, []string{"", "0", "-1", "5"})
	// "signed" tables for heatmap and sparkline: cells that mix negative, zero
	// (explicit 0 and, by omission, absent cells, which count as 0) and positive
	// totals; repeated samples add up, so every small sum is reached. The range
	// of such a table starts below zero, all-negative tables with an absent
	// cell have their maximum at the absent cell.
	signedVals    = []string{"", "0", "-5", "-1", "3"}
	signedSamples = samples3([]string{"a", "b", "c"}, []string{"r", "q"}, signedVals)
	signedSmall   = samples3([]string{"a", "b"}, []string{"r", "q"}, signedVals)
	// "legend" tables for the heatmap's scale legend: values spread over the
	// decades (absent value = 1, 7, 1000: distinct positions under linear, log2
	// and log10), a one-rune and a four-rune row key (the key column widens
	// between two frames), two columns.
	legendSamples = samples3([]string{"a", "b"}, []string{"r", "wxyz"}, []string{"", "7", "1000"})
	// pools for the "wide" states: one sample per chosen key
	widePool = []string{"", "a", "b", "cd", "efg", "hijklmnop", keyEsc}
)

var cu4 = [][2]bool{{true, true}, {false, true}, {true, false}, {false, false}}
var cu2 = [][2]bool{{true, true}, {false, false}}
var limitPairs = [][2]int{{0, 0}, {1, 1}, {2, 2}, {5, 5}, {1, 5}, {5, 1}, {0, 5}, {5, 0}}

type heatFix struct {
	fmin, fmax bool
	min, max   int64
}

var heatFixes = []heatFix{{}, {true, true, 0, 2}, {true, false, 1, 0}, {true, true, 5, 1}}

func cfgsFor(family string, reduced, quick bool) []Cfg {
	var out []Cfg
	pairs, fixes, sparkFormats := limitPairs, heatFixes, []string{"", exprFormat}
	if quick {
		pairs, fixes, sparkFormats = limitPairs[:6], []heatFix{heatFixes[0], heatFixes[1], heatFixes[3]}, []string{""}
	}
	switch family {
	case "histo":
		if reduced {
			for _, cu := range cu2 {
				for _, sc := range []string{"linear", "log2"} {
					for _, rows := range []int{2, 5} {
						out = append(out, Cfg{Scale: sc, Color: cu[0], Unicode: cu[1], Rows: rows, Extra: true}, Cfg{Scale: sc, Color: cu[0], Unicode: cu[1], Rows: rows, Extra: true, Sort: "text"})
						if sc == "linear" { // max-dependent formatter, bars off and on, maximum not on line 0
							out = append(out, Cfg{Scale: sc, Color: cu[0], Unicode: cu[1], Rows: rows, Format: exprFormat, Sort: "text"}, Cfg{Scale: sc, Color: cu[0], Unicode: cu[1], Rows: rows, Extra: true, Format: exprFormat, Sort: "text"})
						}
					}
				}
			}
			return out
		}
		for _, sc := range scaleNames {
			for _, cu := range cu4 {
				for _, rows := range []int{0, 1, 2, 5} {
					for _, extra := range []bool{false, true} {
						for _, f := range []string{"", exprFormat} {
							out = append(out, Cfg{Scale: sc, Color: cu[0], Unicode: cu[1], Rows: rows, Extra: extra, Format: f})
							if extra || f != "" { // bars shown or a formatter that depends on the maximum: also a sort under which the largest value is not first
								out = append(out, Cfg{Scale: sc, Color: cu[0], Unicode: cu[1], Rows: rows, Extra: extra, Format: f, Sort: "text"})
							}
						}
					}
				}
			}
		}
	case "bars":
		cus, fs, scs := cu4, []string{"", exprFormat}, []string{"", "log2", "log10"}
		if reduced {
			cus, fs, scs = cu2, []string{""}, []string{""}
		}
		for _, cu := range cus {
			for _, f := range fs {
				out = append(out, Cfg{Stacked: true, Color: cu[0], Unicode: cu[1], Format: f})
				for _, sc := range scs {
					out = append(out, Cfg{Scale: sc, Color: cu[0], Unicode: cu[1], Format: f})
				}
			}
		}
	case "table":
		if reduced {
			for _, col := range []bool{true, false} {
				out = append(out, Cfg{Color: col, Unicode: true, Rows: 5, Cols: 5, Extra: true}, Cfg{Color: col, Unicode: true, Rows: 2, Cols: 1, Format: exprFormat})
			}
			return out
		}
		for _, col := range []bool{true, false} {
			for _, p := range limitPairs {
				for _, extra := range []bool{false, true} {
					for _, f := range []string{"", exprFormat} {
						out = append(out, Cfg{Color: col, Unicode: true, Rows: p[0], Cols: p[1], Extra: extra, Format: f})
					}
				}
			}
		}
	case "heatmap":
		if reduced {
			for _, cu := range cu2 {
				for _, sc := range []string{"linear", "log2"} {
					for _, p := range [][2]int{{5, 5}, {1, 1}, {2, 1}} {
						out = append(out, Cfg{Scale: sc, Color: cu[0], Unicode: cu[1], Rows: p[0], Cols: p[1]})
					}
				}
			}
			return out
		}
		for _, sc := range scaleNames {
			for _, cu := range cu4 {
				for _, p := range pairs {
					for _, fx := range fixes {
						out = append(out, Cfg{Scale: sc, Color: cu[0], Unicode: cu[1], Rows: p[0], Cols: p[1], FixMin: fx.fmin, FixMax: fx.fmax, Min: fx.min, Max: fx.max})
					}
				}
			}
		}
	case "spark":
		if reduced {
			for _, cu := range cu2 {
				for _, sc := range []string{"linear", "log2"} {
					for _, p := range [][2]int{{5, 5}, {1, 1}, {2, 1}} {
						out = append(out, Cfg{Scale: sc, Color: cu[0], Unicode: cu[1], Rows: p[0], Cols: p[1]})
					}
				}
			}
			return out
		}
		for _, sc := range scaleNames {
			for _, cu := range cu4 {
				for _, p := range pairs {
					for _, nt := range []bool{false, true} {
						for _, f := range sparkFormats {
							out = append(out, Cfg{Scale: sc, Color: cu[0], Unicode: cu[1], Rows: p[0], Cols: p[1], NoTruncate: nt, Format: f})
						}
					}
				}
			}
		}
	case "reduce":
		for _, col := range []bool{true, false} {
			for _, p := range [][2]int{{0, 0}, {1, 1}, {2, 2}, {3, 2}, {5, 5}, {2, 5}, {5, 2}, {20, 10}} {
				out = append(out, Cfg{Color: col, Unicode: true, Rows: p[0], Cols: p[1]})
			}
		}
	}
	return out
}

// signedFixes: heatmap --min/--max for the signed tables: automatic range;
// a fixed minimum below every cell; a fixed range around zero wider than the
// data; one narrower than the data (clamps on both sides); a fixed maximum
// below zero alone and together with a fixed minimum (zero and absent cells lie
// above the range); a fixed minimum just below zero.
var signedFixes = []heatFix{{}, {true, false, -10, 0}, {true, true, -10, 10}, {true, true, -3, 2}, {false, true, 0, -2}, {true, true, -7, -2}, {true, false, -1, 0}}

var signedLimits = [][2]int{{5, 5}, {2, 2}, {1, 5}, {5, 1}}

// signedCfgs: configurations of the signed passes (heatmap, spark).
func signedCfgs(family string, reduced, quick bool) []Cfg {
	var out []Cfg
	cus, lims, fixes := cu4, signedLimits, signedFixes
	if quick || reduced {
		cus, lims, fixes = cu2, signedLimits[:2], signedFixes[:6]
	}
	if reduced {
		lims, fixes = signedLimits[:1], []heatFix{signedFixes[0], signedFixes[1], signedFixes[3]}
	}
	for _, sc := range scaleNames {
		for _, cu := range cus {
			for _, p := range lims {
				switch family {
				case "heatmap":
					for _, fx := range fixes {
						out = append(out, Cfg{Scale: sc, Color: cu[0], Unicode: cu[1], Rows: p[0], Cols: p[1], FixMin: fx.fmin, FixMax: fx.fmax, Min: fx.min, Max: fx.max})
					}
				case "spark":
					for _, nt := range []bool{false, true} {
						out = append(out, Cfg{Scale: sc, Color: cu[0], Unicode: cu[1], Rows: p[0], Cols: p[1], NoTruncate: nt})
					}
				default:
					panic("harness: no signed pass for " + family)
				}
			}
		}
	}
	return out
}

// legendFixes: heatmap --min/--max for the legend tables (cells 1..~3000): no
// bound; --min alone (below every cell; inside the data); --max alone (inside
// the data; above every cell); both (wider than the data; narrower: clamps on
// both sides; from 1 to a power of ten and of two; a degenerate range).
var legendFixes = []heatFix{{}, {true, false, 0, 0}, {true, false, 5, 0}, {false, true, 0, 100}, {false, true, 0, 5000},
	{true, true, 0, 5000}, {true, true, 3, 500}, {true, true, 1, 10000}, {true, true, 1, 1024}, {true, true, 7, 7}}

// legendCfgs: every combination of {no fixed bound, --min, --max, both} x scale
// x formatter {default, expression} (and colour/unicode, limits).
func legendCfgs(reduced, quick bool) []Cfg {
	var out []Cfg
	cus, lims, fixes := cu4, [][2]int{{5, 5}, {1, 1}, {2, 1}}, legendFixes
	if quick {
		cus, lims = cu2, lims[:2]
	}
	if reduced {
		cus, lims, fixes = cu2, lims[:1], []heatFix{legendFixes[0], legendFixes[2], legendFixes[3], legendFixes[5], legendFixes[6]}
	}
	for _, sc := range scaleNames {
		for _, cu := range cus {
			for _, p := range lims {
				for _, fx := range fixes {
					for _, f := range []string{"", exprFormat} {
						out = append(out, Cfg{Scale: sc, Color: cu[0], Unicode: cu[1], Rows: p[0], Cols: p[1], FixMin: fx.fmin, FixMax: fx.fmax, Min: fx.min, Max: fx.max, Format: f})
					}
				}
			}
		}
	}
	return out
}

func cfgsOf(ps pass, quick bool) []Cfg {
	if ps.legend {
		return legendCfgs(ps.reduced, quick)
	}
	if ps.signed {
		return signedCfgs(ps.family, ps.reduced, quick)
	}
	return cfgsFor(ps.family, ps.reduced, quick)
}

// wideCfgs: configurations for the wide states (many keys, limits around the
// number of keys).
func wideCfgs(family string) []Cfg {
	var out []Cfg
	for _, cu := range cu2 {
		for lim := 0; lim <= 8; lim++ {
			switch family {
			case "histo":
				out = append(out, Cfg{Scale: "linear", Color: cu[0], Unicode: cu[1], Rows: lim, Extra: true}, Cfg{Scale: "linear", Color: cu[0], Unicode: cu[1], Rows: lim, Extra: true, Sort: "text"}, Cfg{Scale: "linear", Color: cu[0], Unicode: cu[1], Rows: lim, Format: exprFormat, Sort: "text"})
			case "bars":
				if lim < 2 {
					out = append(out, Cfg{Color: cu[0], Unicode: cu[1], Stacked: lim == 0})
				}
			case "table":
				out = append(out, Cfg{Color: cu[0], Unicode: cu[1], Rows: lim, Cols: 8 - lim, Extra: lim%2 == 0}, Cfg{Color: cu[0], Unicode: cu[1], Rows: 8, Cols: lim})
			case "heatmap":
				out = append(out, Cfg{Scale: "linear", Color: cu[0], Unicode: cu[1], Rows: 8 - lim, Cols: lim}, Cfg{Scale: "log10", Color: cu[0], Unicode: cu[1], Rows: lim, Cols: 20})
			case "spark":
				out = append(out, Cfg{Scale: "linear", Color: cu[0], Unicode: cu[1], Rows: 8 - lim, Cols: lim, NoTruncate: true}, Cfg{Scale: "linear", Color: cu[0], Unicode: cu[1], Rows: lim, Cols: 3})
			}
		}
	}
	return out
}

type pass struct {
	family  string
	samples []string
	minLen  int
	maxLen  int
	reduced bool
	signed  bool // the signed-table passes (signedCfgs)
	legend  bool // the heatmap legend passes (legendCfgs)
}

func passes(quick bool) []pass {
	ps := []pass{
		{family: "histo", samples: histoSamples, minLen: 0, maxLen: 2, reduced: false},
		{family: "histo", samples: histoSamples, minLen: 3, maxLen: 3, reduced: true},
		{family: "bars", samples: barsSamples, minLen: 0, maxLen: 2, reduced: false},
		{family: "bars", samples: barsSamples, minLen: 3, maxLen: 3, reduced: true},
		{family: "table", samples: tableSamples, minLen: 0, maxLen: 2, reduced: false},
		{family: "spark", samples: tableSamples, minLen: 0, maxLen: 2, reduced: false},
		{family: "reduce", samples: reduceSamples, minLen: 0, maxLen: 3, reduced: false},
		{family: "heatmap", samples: tableSamples, minLen: 0, maxLen: 2, reduced: false},
		{family: "heatmap", samples: signedSmall, minLen: 0, maxLen: 3, signed: true},
		{family: "spark", samples: signedSmall, minLen: 0, maxLen: 3, signed: true},
		{family: "heatmap", samples: legendSamples, minLen: 0, maxLen: 2, legend: true},
		{family: "heatmap", samples: legendSamples, minLen: 3, maxLen: 3, reduced: true, legend: true},
	}
	if !quick {
		ps = []pass{
			{family: "histo", samples: histoSamples, minLen: 0, maxLen: 3, reduced: false},
			{family: "bars", samples: barsSamples, minLen: 0, maxLen: 3, reduced: false},
			{family: "table", samples: tableSamples, minLen: 0, maxLen: 2, reduced: false},
			{family: "table", samples: tableSamples, minLen: 3, maxLen: 3, reduced: true},
			{family: "spark", samples: tableSamples, minLen: 0, maxLen: 2, reduced: false},
			{family: "spark", samples: tableSamples, minLen: 3, maxLen: 3, reduced: true},
			{family: "reduce", samples: reduceSamples, minLen: 0, maxLen: 4, reduced: false},
			{family: "heatmap", samples: tableSamples, minLen: 0, maxLen: 2, reduced: false},
			{family: "heatmap", samples: tableSamples, minLen: 3, maxLen: 3, reduced: true},
			{family: "heatmap", samples: signedSamples, minLen: 0, maxLen: 3, signed: true},
			{family: "spark", samples: signedSamples, minLen: 0, maxLen: 3, signed: true},
			{family: "heatmap", samples: signedSmall, minLen: 4, maxLen: 4, reduced: true, signed: true},
			{family: "spark", samples: signedSmall, minLen: 4, maxLen: 4, reduced: true, signed: true},
			{family: "heatmap", samples: legendSamples, minLen: 0, maxLen: 3, legend: true},
			{family: "heatmap", samples: legendSamples, minLen: 4, maxLen: 4, reduced: true, legend: true},
		}
	}
	return ps
}

// renderSets: every subset of {1..n-1} plus n.
func renderSets(n int) [][]int {
	if n == 0 {
		return [][]int{nil}
	}
	var out [][]int
	for mask := 0; mask < 1<<(n-1); mask++ {
		var r []int
		for i := 1; i < n; i++ {
			if mask&(1<<(i-1)) != 0 {
				r = append(r, i)
			}
		}
		out = append(out, append(r, n))
	}
	return out
}

// canonical: between two render points the aggregators only fold (addition is
// commutative), so only histories whose samples are in non-decreasing alphabet
// order inside every segment are executed.
func canonical(idx []int, renders []int) bool {
	start := 0
	for _, r := range renders {
		for i := start + 1; i < r; i++ {
			if idx[i] < idx[i-1] {
				return false
			}
		}
		start = r
	}
	return true
}

func hasBlankColumn(family string, hist []string) bool {
	if family != "heatmap" {
		return false
	}
	for _, s := range hist {
		if s == "" || s[0] == 0 {
			return true
		}
	}
	return false
}

func famName(c Case) string {
	if c.Family == "bars" {
		if c.Cfg.Stacked {
			return "bars-stacked"
		}
		return "bars-grouped"
	}
	return c.Family
}

// runInner executes one case on the calling goroutine; a panic of the code
// under test becomes a finding, a panic of the harness is re-raised.
func runInner(c Case) (rep report) {
	defer func() {
		if p := recover(); p != nil {
			fn := panicOrigin()
			msg := fmt.Sprint(p)
			if fn == "" {
				panic("harness: panic outside rare: " + msg)
			}
			rep = report{}
			rep.fail("C14/panic/"+famName(c)+"/"+fn+"/"+panicClass(msg), "panic: %s", msg)
		}
	}()
	switch c.Family {
	case "histo":
		runHisto(c, &rep)
	case "bars":
		runBars(c, &rep)
	case "table":
		runTable(c, &rep)
	case "heatmap":
		runHeatmap(c, &rep)
	case "spark":
		runSpark(c, &rep)
	case "reduce":
		runReduce(c, &rep)
	case "scaler":
		runScalerLaws(c, &rep)
	case "unicode":
		runUnicodeLaws(c, &rep)
	case "stackedlaw":
		runStackedLaw(c, &rep)
	default:
		panic("harness: unknown family " + c.Family)
	}
	return
}

// runCases executes the cases one after the other in one guarded goroutine.
// It returns the reports of the completed cases; hung is true when the case
// after them did not finish (its report is the hang finding).
func runCases(cases []Case) (reps []report, hung bool) {
	reps = make([]report, 0, len(cases)+1)
	var cur atomic.Int64
	done := make([]report, len(cases))
	g := guarded(func() {
		for i := range cases {
			cur.Store(int64(i))
			done[i] = runInner(cases[i])
		}
	})
	if g.panicked {
		panic("harness: " + g.panicVal)
	}
	if !g.hung {
		return done, false
	}
	k := int(cur.Load())
	reps = append(reps, done[:k]...)
	buf := make([]byte, 1<<16)
	buf = buf[:runtime.Stack(buf, true)]
	st := string(buf)
	if i := strings.Index(st, "rare/pkg/multiterm/termrenderers"); i >= 0 {
		j := strings.LastIndex(st[:i], "goroutine ")
		if j < 0 {
			j = 0
		}
		st = st[j:]
		if len(st) > 1200 {
			st = st[:1200]
		}
	} else {
		st = ""
	}
	rep := report{hung: true}
	rep.fail("C14/"+famName(cases[k])+"/hang", "the render %s\n%s", g.hungWhy, st)
	return append(reps, rep), true
}

func emit(w *runner.W, c Case, rep report) {
	w.Eval(rep.nontrivial)
	for _, f := range rep.findings {
		b, _ := json.Marshal(c)
		if len(b) > 4000 {
			b = append(b[:4000], "..."...)
		}
		w.Violation(tagSig(c, f.sig), f.detail+"\ncase: "+string(b), c)
	}
	if c.Tag != "" {
		w.Add("cases_"+strings.ReplaceAll(c.Tag, "-", "_"), 1)
	}
	if len(rep.findings) == 0 {
		w.Outcome(append([]string{c.Family, fmt.Sprint(c.Cfg.Color, c.Cfg.Unicode)}, rep.outcome...)...)
	}
	w.Add("cases_"+c.Family, 1)
	if rep.otherRow > 0 {
		w.Add("lines_showing_another_row_with_its_correct_number", int64(rep.otherRow))
	}
	if rep.staleMax > 0 {
		w.Add("histo_formatter_max_is_running_maximum_of_earlier_renders", int64(rep.staleMax))
	}
	if rep.notDrawn > 0 {
		w.Add("rows_not_drawn_by_final_render", int64(rep.notDrawn))
	}
	if rep.nontrivial && w.WantSample() && len(c.Hist) >= 2 {
		w.Sample(c)
	}
}

// enumerate calls f for every (history, render set) unit of a pass; f returns
// false to stop.
func enumerate(ps pass, f func(hist []string, renders []int, idx []int) bool) bool {
	for n := ps.minLen; n <= ps.maxLen; n++ {
		idx := make([]int, n)
		sets := renderSets(n)
		for {
			for _, rs := range sets {
				if !canonical(idx, rs) {
					continue
				}
				hist := make([]string, n)
				for i, k := range idx {
					hist[i] = ps.samples[k]
				}
				if !f(hist, rs, idx) {
					return false
				}
			}
			i := n - 1
			for ; i >= 0; i-- {
				idx[i]++
				if idx[i] < len(ps.samples) {
					break
				}
				idx[i] = 0
			}
			if i < 0 {
				break
			}
		}
	}
	return true
}

// wideHistories: for a family, one sample per key of every subset of the pool
// (in pool order), optionally with a second row.
func wideHistories(family string) [][]string {
	var out [][]string
	for mask := 1; mask < 1<<len(widePool); mask++ {
		var h, h2 []string
		for i, k := range widePool {
			if mask&(1<<i) == 0 {
				continue
			}
			switch family {
			case "histo":
				h = append(h, join(k, fmt.Sprint((i*3)%7+1))) // values not ordered like the keys
			case "bars":
				h = append(h, join("a", k, fmt.Sprint(i+1)))
				h2 = append(h2, join(k, "x", fmt.Sprint(i+1)))
			default: // table families: k is the column
				h = append(h, join(k, "r", fmt.Sprint(i+1)))
				h2 = append(h2, join("c", k, fmt.Sprint(i+1)))
			}
		}
		out = append(out, h)
		if h2 != nil {
			out = append(out, h2)
		}
	}
	return out
}

func worker(w *runner.W) {
	var caseNo int64
	stop := false
	execAll := func(cases []Case) bool {
		w.SetCase(func() any { return cases[0] })
		reps, hung := runCases(cases)
		for i, rep := range reps {
			emit(w, cases[i], rep)
		}
		if hung {
			// the hung goroutine cannot be stopped: abandon the shard
			w.Cap("a render hung (" + cases[len(reps)-1].Family + "); this worker stopped enumerating after reporting it")
			stop = true
			return false
		}
		return true
	}
	exec := func(c Case) bool { return execAll([]Case{c}) }
	unit := func(family string, hist []string, renders []int, cfgs []Cfg) bool {
		caseNo++
		if !w.Owns(caseNo) {
			return true
		}
		if w.Expired() {
			stop = true
			return false
		}
		cases := make([]Case, len(cfgs))
		for i, cf := range cfgs {
			cases[i] = Case{Family: family, Hist: hist, Renders: renders, Cfg: cf}
		}
		return execAll(cases)
	}

	// laws
	grid := gridValues(w.Quick())
	for _, sc := range scaleNames {
		for _, mn := range grid {
			for _, mx := range grid {
				caseNo++
				if !w.Owns(caseNo) {
					continue
				}
				if !exec(Case{Family: "scaler", Cfg: Cfg{Scale: sc, Min: mn, Max: mx}, Grid: grid}) {
					return
				}
			}
		}
	}
	for _, cu := range cu4 {
		for _, maxLen := range []int{0, 1, 2, 7, 50} {
			caseNo++
			if !w.Owns(caseNo) {
				continue
			}
			if !exec(Case{Family: "unicode", Cfg: Cfg{Color: cu[0], Unicode: cu[1], Cols: maxLen}}) {
				return
			}
		}
	}
	// size sweeps of the laws: every maximum bar length, every magnitude as
	// value / minimum / maximum, every number of buckets
	sp := sweepParams(w.Quick())
	for _, cu := range cu4 {
		for _, maxLen := range sizes(sp.maxBarLen) {
			for _, fam := range []string{"unicode", "stackedlaw"} {
				caseNo++
				if !w.Owns(caseNo) {
					continue
				}
				if !exec(Case{Family: fam, Cfg: Cfg{Color: cu[0], Unicode: cu[1], Cols: maxLen}, Tag: tagSize}) {
					return
				}
			}
		}
	}
	for _, sc := range scaleNames {
		for _, mp := range magPairs() {
			caseNo++
			if !w.Owns(caseNo) {
				continue
			}
			cols := 0
			if mp.sweep {
				cols = 1
			}
			if !exec(Case{Family: "scaler", Cfg: Cfg{Scale: sc, Min: mp.min, Max: mp.max, Cols: cols}, Tag: tagSize}) {
				return
			}
		}
	}

	// sweep 1: everything except heatmap histories with a blank column key;
	// sweep 2: those (they are known to be able to hang, and a hang ends the shard)
	for sweep := 1; sweep <= 2 && !stop; sweep++ {
		// shortest histories first, so that the first witness of a signature is small
		for n := 0; n <= 8 && !stop; n++ {
			for _, ps := range passes(w.Quick()) {
				if stop {
					break
				}
				if n < ps.minLen || n > ps.maxLen {
					continue
				}
				one := ps
				one.minLen, one.maxLen = n, n
				cfgs := cfgsOf(ps, w.Quick())
				enumerate(one, func(hist []string, renders []int, _ []int) bool {
					if hasBlankColumn(ps.family, hist) != (sweep == 2) {
						return true
					}
					return unit(ps.family, hist, renders, cfgs)
				})
			}
		}
		for _, fam := range []string{"histo", "bars", "table", "spark", "heatmap"} {
			if stop {
				break
			}
			cfgs := wideCfgs(fam)
			for _, h := range wideHistories(fam) {
				if hasBlankColumn(fam, h) != (sweep == 2) {
					continue
				}
				if !unit(fam, h, []int{len(h)}, cfgs) {
					break
				}
			}
		}
		if sweep == 1 && !stop {
			sweepFamilies(w.Quick(), func(u sweepUnit) bool {
				for _, r := range u.renders {
					for _, distract := range []bool{false, true} {
						if distract && !u.both {
							continue
						}
						caseNo++
						if !w.Owns(caseNo) {
							continue
						}
						if w.Expired() {
							stop = true
							return false
						}
						cases := make([]Case, len(u.cfgs))
						for i, cf := range u.cfgs {
							cases[i] = Case{Family: u.family, Hist: u.hist, Renders: r, Cfg: cf, Tag: u.tag, Diff: u.diff, Distract: distract}
						}
						if !execAll(cases) {
							return false
						}
					}
				}
				return true
			})
		}
	}
}

type sweepP struct {
	maxDim    int // rows / columns
	maxKeyLen int
	maxSegs   int // sub-keys of a bargraph
	maxBarLen int
	scrollLen int
}

func sweepParams(quick bool) sweepP {
	if quick {
		return sweepP{maxDim: 257, maxKeyLen: 257, maxSegs: 257, maxBarLen: 257}
	}
	return sweepP{maxDim: 1025, maxKeyLen: 1025, maxSegs: 1025, maxBarLen: 1025}
}

var allFamilies = []string{"histo", "bars", "table", "spark", "heatmap", "reduce"}

// sweepFamilies enumerates the units of the size sweeps and history shapes
// (sweep.go) in a fixed order; f returns false to stop.
func sweepFamilies(quick bool, f func(u sweepUnit) bool) {
	sp := sweepParams(quick)
	each := func(us []sweepUnit) bool {
		for _, u := range us {
			if !f(u) {
				return false
			}
		}
		return true
	}
	for _, n := range sizes(sp.maxDim) {
		for _, fam := range allFamilies {
			if !each(dimUnits(fam, n)) {
				return
			}
		}
	}
	for _, n := range sizes(sp.maxKeyLen) {
		if n == 0 {
			continue
		}
		for _, fam := range allFamilies {
			if !each(keyLenUnits(fam, n)) {
				return
			}
		}
	}
	for _, n := range sizes(sp.maxSegs) {
		if !each(segUnits(n)) {
			return
		}
	}
	for i, v := range magGrid {
		nb := magGrid[(i+len(magGrid)-1)%len(magGrid)]
		for _, fam := range allFamilies {
			if !each(magUnits(fam, v, nb)) {
				return
			}
		}
	}
	for _, fam := range allFamilies {
		if !each(historyUnits(fam, quick)) {
			return
		}
	}
	for _, fam := range allFamilies {
		if !each(invalidUnits(fam, quick)) {
			return
		}
	}
}

func replay(w *runner.W, raw json.RawMessage) {
	var c Case
	if err := json.Unmarshal(raw, &c); err != nil {
		panic(err)
	}
	reps, _ := runCases([]Case{c})
	for _, f := range reps[0].findings {
		w.Violation(tagSig(c, f.sig), f.detail, c)
	}
}

// tagSig: the signatures of the sweep families carry the family.
func tagSig(c Case, sig string) string {
	if c.Tag == "" {
		return sig
	}
	return sig + "/" + c.Tag
}

func qs(ss []string) string {
	var out []string
	for _, s := range ss {
		out = append(out, fmt.Sprintf("%q", s))
	}
	return strings.Join(out, ",")
}

func rule(prop, tier string) string {
	quick := tier != "thorough"
	var sb strings.Builder
	sb.WriteString("real renderers of pkg/multiterm/termrenderers driven through the call sequences of cmd/histo.go, bargraph.go, tabulate.go, heatmap.go, spark.go, reduce.go on a VirtualTerm. A case = (family, sample history given to the real aggregator's Sample, set of intermediate render points, configuration). ")
	sb.WriteString("Histories: ALL sequences over the family's sample alphabet within the length range of each pass, with ALL subsets of intermediate render points (the final render always happens); a history is skipped only when another one with the same samples in sorted order inside every between-renders segment is executed (the aggregators are commutative folds). Passes: ")
	for _, ps := range passes(quick) {
		name := ps.family
		if ps.signed {
			name += fmt.Sprintf("(signed tables, %d samples)", len(ps.samples))
		}
		if ps.legend {
			name += fmt.Sprintf("(legend tables, %d samples)", len(ps.samples))
		}
		fmt.Fprintf(&sb, "%s len %d..%d x %d configs; ", name, ps.minLen, ps.maxLen, len(cfgsOf(ps, quick)))
	}
	fmt.Fprintf(&sb, "sample alphabets (NUL-separated): histo {%s}; bars {keys \"\",a,40-rune,ESC[31mqESC[0m x subkeys \"\",x,y x values none,0,-1,2^57,2^58}; table/heatmap/spark {columns \"\",a,bcd,escape-key x rows \"\",r,40-rune,escape-key x values none,0,-1,5,MaxInt64}; reduce {keys x values \"\",0,-1,5 with -g k={1} -a sum={sumi {.} {2}} -a last={2} -a n={sumi {.} 1}}. ", qs(histoSamples[:5]))
	sb.WriteString("Configurations (full grids): histo scale{linear,log2,log10} x colour x unicode x -n{0,1,2,5} x -x x format{default, expression <{0}|{1}|{2}> built by helpers.BuildFormatter (depends on value, min and max)} x sort{value, and text when bars are shown or the expression format is used}; bars stacked/grouped x scale{unset,log2,log10 (grouped only)} x colour x unicode x format; table colour x (rows,cols) in {(0,0),(1,1),(2,2),(5,5),(1,5),(5,1),(0,5),(5,0)} x -x x format; heatmap scale x colour x unicode x those limits x {auto, --min 0 --max 2, --min 1, --min 5 --max 1}; spark scale x colour x unicode x limits x notruncate x format (quick tier: heatmap and spark without the limits (0,5),(5,0), heatmap without --min 1, spark default format only); reduce colour x 8 (rows,cols) limits. Reduced grids (used for the longest histories) are subsets: colour+unicode both on/off, linear+log2, 2-3 limit pairs. ")
	sb.WriteString("Signed tables (heatmap and spark; cells mixing negative, zero, absent (= 0) and positive totals, sums of repeated samples included, all-negative tables with an absent cell included): sample alphabet columns {a,b[,c]} x rows {r,q} x values {none(=1),0,-5,-1,3} (30 samples with column c, 20 without; the pass list says which); heatmap scale{linear,log2,log10} x colour x unicode x limits {(5,5),(2,2),(1,5),(5,1)} x range {auto, --min -10, --min -10 --max 10, --min -3 --max 2, --max -2, --min -7 --max -2, --min -1}; spark scale x colour x unicode x those limits x notruncate; quick tier: colour+unicode both on/off, limits (5,5),(2,2), without --min -1; the length-4 pass of the thorough tier: colour+unicode both on/off, limits (5,5), heatmap range {auto, --min -10, --min -3 --max 2}. Judged there as everywhere: within one rendered heatmap/sparkline the drawn cell (palette index / glyph index) is a monotone non-decreasing function of the cell's value (equal values drawn identically, a larger value never drawn colder/lower) and every row has one cell per displayed column. ")
	sb.WriteString("Legend tables (heatmap; the pass list says lengths and numbers of configurations): sample alphabet columns {a,b} x rows {r,wxyz} x values {none(=1),7,1000} (12 samples), ALL histories with ALL subsets of intermediate render points (single-frame and multi-frame; the key column widens between frames), driven exactly in the order of cmd/heatmap.go (FixedMin/FixedMax, UpdateMinMax(min,max) when a bound is given, THEN Scaler and Formatter are assigned, then WriteTable per frame); grid scale{linear,log2,log10} x colour x unicode x limits {(5,5),(1,1),(2,1)} x range {none, --min 0, --min 5, --max 100, --max 5000, --min 0 --max 5000, --min 3 --max 500, --min 1 --max 10000, --min 1 --max 1024, --min 7 --max 7} x format {default, expression}; quick tier: colour+unicode both on/off, limits (5,5),(1,1); reduced grid (longest histories): colour+unicode both on/off, limits (5,5), range {none, --min 5, --max 100, --min 0 --max 5000, --min 3 --max 500}. The history family renders the heatmap also with --scale log10 --min 1 --max 50 and --scale log2 --max 50 under the expression format. ")
	sb.WriteString("Heatmap LEGEND (line 0; judged in EVERY heatmap case of every family as it stands after the final render): it parses as indent + up to 6 'cell number' pairs separated by four blanks; every number is an integer rendered by the CHOSEN formatter (default: humanize.Hi read back; expression: <v|min|max> with (min,max) = the range the cells are scaled with, i.e. the fixed bounds where given else the table's ComputeMinMax, or the table's range); legend and column header of the same frame start in the same column (when a column is displayed); and, where the top of the scale is representable in int64 (linear: float64(max) < 2^63, log2: max <= 2^62, log10: max <= 10^18; a degenerate range counts as min..min+1): the values never decrease and neither do the cells, for min < max the legend brackets the range (first <= min - under a log scale max(min,1) -, last >= max, both up to 2^-45 of the magnitude of the ends), and the cell next to value v equals the cell the real renderer draws for a table cell of value v on a probe (fresh heatmap, same --scale, --min/--max pinned to the effective range, one row holding exactly the legend's values). Bargraph key line (line 0 when there is a non-empty sub-key): lists exactly the sub-keys of the rendered state in order, each behind its key glyph. ")
	fmt.Fprintf(&sb, "Wide states: every non-empty subset of the key pool {%s}, one sample per key, limits 0..8. ", qs(widePool))
	fmt.Fprintf(&sb, "Laws: termscaler Scale/Bucket/LengthVal/ScaleKeys for linear, log2, log10 over (val,min,max) in G^3, |G|=%d including Min/MaxInt64; termunicode BarWrite/HeatWrite/SparkWrite over %d unit values x colour x unicode x max length {0,1,2,7,50}. ", len(gridValues(quick)), len(unitGrid()))
	sp := sweepParams(quick)
	fmt.Fprintf(&sb, "SIZE sweeps (signatures end in /size-family; S(max) = 0..70 and 2^k-1, 2^k, 2^k+1 for k >= 7 up to max; element i carries i: keys <i>, r<i>, s<i>, value i+1; rendered once at the end and once with an intermediate render at half of the samples): (a) n columns and n rows for n in S(%d): table/heatmap/spark with n columns (keys 0..n-1, row r, every third column also in row q) and with n rows (two columns), histogram and reduce with n keys, bargraph with n keys x 2 sub-keys, each with the limit of the swept dimension in {0,1,2,5,10,n-1,n,n+1} (the other limit 5), colour+unicode both on / both off, table with and without totals and with the expression format, heatmap linear+log2, spark linear and log10 --notruncate, histogram linear / log10 --sort text / expression format, bargraph stacked / grouped / grouped log10 with the expression format; the more-notes of heatmap (rows and columns) and spark (rows) must equal the number not shown for every such limit; (b) key length n in S(%d), n >= 1: a key of n visible runes of the kinds %v (multibyte = 2- and 3-byte runes; esc-wrapped = ESC[31m key ESC[0m; esc-inside = ESC[1;4m before every seventh rune, reset at the end; invalid-utf8 = ASCII with every third position an undecodable byte, cycling through 0xB0 0xE9 0xFF 0x80 0xC3 0xF0 0xA0, each followed by ASCII, one column each) as column key and as row key next to one-rune keys, in every family, renders {end; after 1 sample and end; after 2 and end}; (c) value magnitude: every power of ten and every power of two, -1/+0/+1, both signs, MaxInt64, MinInt64 (%d values v) in states {v alone; v and 1; v and its neighbour in that list; v and -v} x every family x scale{linear,log2,log10} x format{default,expression} (bargraph also stacked; a bargraph row whose positive parts add up beyond MaxInt64 is not generated); (d) bargraph with n sub-keys (n stacked segments / n grouped bars per row) for n in S(%d), values all 1 / i+1 with a second row n-i / 1000 followed by ones, stacked x 4 colour-unicode settings, grouped, stacked with the expression format; with colour off and more than 16 segments only the total bar length is judged (the 16 segment characters repeat); (e) laws: BarWrite/HeatWrite/SparkWrite and BarWriteStacked for every maximum length in S(%d) x colour x unicode (BarWriteStacked over %d value vectors: small shapes and, around every positive magnitude v, {v}, {v,v-1}, {v/2,v-v/2}, {1,v/3,1,v/3}, with the maximum = this vector's positive sum, twice it, MaxInt64: total cells <= maximum length, segments monotone in their values); termscaler Scale/Bucket/LengthVal with every magnitude as val, for (min,max) in {MinInt64,-1,0,1} x magnitudes and magnitudes x {MaxInt64, 0, min+1} (%d ranges), and for min = 0 < max every number of buckets 1..70,127..129,255..257 and every maximum length 0..70,127..129,255..257. ", sp.maxDim, sp.maxKeyLen, keyKinds, len(magGrid), sp.maxSegs, sp.maxBarLen, len(stackedVecs), len(magPairs()))
	sb.WriteString("HISTORY (signatures end in /history-family): ONE long-lived renderer instance on one terminal rendered after every sample (and: after every second sample) of a history in which the aggregated state grows AND shrinks, judged after EVERY render (one case per prefix): table/heatmap/spark: a table filled column by column (time series; the row with the largest cells exists only in the first three columns, a row with a 30-rune key only in columns 1..3, one row in every column, one from column 4 on; with a column limit the spark command's Trim drops old columns, so rows disappear, the maximum decreases and the longest key goes away), the same with the columns arriving in decreasing order, and a 15-sample up-and-down history with negative increments (maxima decrease, cells and rows return to zero, orders change); histogram, reduce, bargraph: a 15-sample up-and-down history (counts go to zero and below, a long key comes and goes, an 8-digit value shrinks to one digit). Every such case also with a SECOND renderer instance of the same family (own terminal and aggregator, other keys, a longer key, larger values) doing a complete run before every render of the judged one. Oracle: the oracles of the family on the judged render, and for table/heatmap/spark additionally the DIFFERENTIAL: the data lines (above the footer, blank lines left out, runs of blanks squeezed) must equal those a fresh renderer on a fresh terminal draws for the same aggregator state (no row of an earlier state left on screen, no cell, number, header or more-note computed from an earlier state). ")
	fmt.Fprintf(&sb, "INVALID UTF-8 (signatures end in /invalid-utf8-family; alignment signatures carry the key class invalid-utf8-in-key): keys and cells that are not valid UTF-8, every byte that is not part of a valid sequence counting as ONE column: %d keys {%s} of the classes %v (a lone continuation byte 0x80/0xA0/0xBF; a lone lead byte 0xC3/0xE2/0xF0; a truncated 2-, 3-, 4-byte sequence at the end and in the middle of a key; the overlong encoding 0xC0 0xAF; 0xFF/0xFE; Latin-1 text; mixed with valid 2- and 3-byte runes; inside ESC[31m..ESC[0m). States (%d key lists): each such key alone, next to each of {%s} in both orders of arrival (so it is the longest and a shorter key, first and last), between a one-rune and an eight-rune key in both orders, every ordered pair of two such keys%s. Every state in every family and position: table/heatmap/spark as column keys and as row keys (two cells per key), histogram keys, bargraph row keys and sub-keys, reduce group keys and data cells (the accumulator last={2} shows the text itself); rendered at the end, and with one intermediate render after every proper prefix of the keys; colour+unicode both on / both off; table with totals and with the expression format and 2 columns, heatmap and spark with limits (5,5) and (2,2), histogram with bars, with the expression format under --sort text, and -n 2 without bars, bargraph stacked and grouped, reduce with limits (5,5) and (3,2). ", len(badKeys), qs(badKeyList()), badKeyClasses(), len(invalidStates(quick)), qs(badCompanions), map[bool]string{true: "", false: "; every pair of two such keys together with the eight-rune key, the latter in the middle and last"}[quick])
	sb.WriteString("non-trivial = the final render displayed at least one data row (and one column for the table families); for laws: at least three distinct scaled values / bar lengths")
	return sb.String()
}

func main() {
	_ = math.MaxInt64
	runner.Main(&runner.Spec{
		Name:       "render",
		Properties: []string{"C14"},
		Level:      "exploration",
		Rule:       rule,
		Assumptions: func(string) []string {
			return []string{
				"only call patterns the commands produce are driven (e.g. HistoWriter.WriteForLine is never called with line == number of items; a scale is never combined with --stacked; row/column limits are >= 0)",
				"judged are the lines the final render is responsible for (rows 0..n-1 of the displayed items, headers, more-notes); lines left over from an earlier render with more rows are not judged, except by the differential of the history family (table, heatmap, spark), where a data line of an earlier state that is still on screen is a finding",
				"visible width = runes outside SGR sequences (ESC [ digits ; m); double-width glyphs are not covered",
				"text that is not valid UTF-8: every byte that is not part of a valid UTF-8 sequence occupies ONE column (a terminal shows one replacement glyph for it; Go's rune decoding yields one utf8.RuneError per such byte, which is what the unchanged renderers and fmt's padding count); so the two bytes of a truncated 3-byte sequence are two columns. A terminal that draws one glyph for a whole truncated sequence, or nothing for such bytes, is not covered. The oracle reads a raw undecodable byte and U+FFFD in its place as the same visible cell (a renderer may pass the byte through or substitute U+FFFD)",
				"the default formatter's text is taken from humanize.Hi itself (its correctness is C11); the expression formatter <{0}|{1}|{2}> is compared with an independent decimal rendering of (value, min, max): for tabulate and spark min/max must be the table's ComputeMinMax of the rendered state; for histogram and bargraph every judged line of the final render must have been formatted with the same (min, max) and max must not be below a displayed value (the renderers pass 0 and a running maximum that never decreases; how often it differs from the final maximum is counted, not judged)",
				"heatmap legend: which scale positions the legend shows is not prescribed (any non-decreasing list of at most 6 values that brackets the range and whose cells are the cells of those values is accepted); a legend whose top value is not representable in int64 (range reaching beyond 2^62 / 10^18 / 2^63-512, where int64(2^63) wraps) is judged for the format of its numbers and its indentation only (legend values are scale positions, not aggregated numbers; recorded in FINDINGS.md 'Not reported'); the indentation of legend and header is compared within one frame only (both are drawn before the frame's rows widen the key column; across different numbers of frames the indentation differs: known finding C03/heatmap/snapshot-differs/indentation-only)",
				"row/column order is taken from the aggregator's Ordered*/ItemsSorted* calls with the command's default sorters (ordering is C13)",
				"between two renders the aggregators fold commutatively, so only one order of the samples of a segment is executed",
				"history family: what the renderers keep on purpose is not judged: column and key widths only grow (a long-lived renderer may pad wider than a fresh one; the columns must still line up), histogram and bargraph scale against a running maximum that never decreases (so these two are judged by their own oracles only, not against a fresh renderer), footer lines below the data are not compared",
				"sums beyond the int64 range are not generated on purpose in the sweeps: a bargraph row whose positive parts add up to more than MaxInt64 has no representable total (the aggregator's and the renderer's sums wrap around), nothing proportional can be drawn for it",
				"a render that neither returns within 10 s nor keeps its heap growth below 512 MiB is reported as a hang; the worker then stops (the goroutine cannot be killed)",
			}
		},
		Worker:         worker,
		Replay:         replay,
		HangSeconds:    40,
		QuickBudget:    3 * time.Minute,
		ThoroughBudget: 14 * time.Minute,
	})
}
