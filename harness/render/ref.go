package main

// Reference helpers for C14 (import nothing from rare): visible text of a
// rendered line, tokenisation into SGR sequences and visible runes, glyph
// tables to decode bars / heat cells / spark cells, and the column alignment
// search.

import (
	"fmt"
	"strconv"
	"strings"
	"unicode/utf8"
)

type tok struct {
	s   string
	sgr bool
}

// tokenize splits into complete SGR sequences (ESC [ digits ; m) and single
// runes (everything else, including a stray ESC, is a visible rune).
func tokenize(s string) []tok {
	var out []tok
	for len(s) > 0 {
		if s[0] == 0x1b && len(s) > 1 && s[1] == '[' {
			j := 2
			for j < len(s) && (s[j] >= '0' && s[j] <= '9' || s[j] == ';') {
				j++
			}
			if j < len(s) && s[j] == 'm' {
				out = append(out, tok{s[:j+1], true})
				s = s[j+1:]
				continue
			}
		}
		_, n := utf8.DecodeRuneInString(s)
		out = append(out, tok{s[:n], false})
		s = s[n:]
	}
	return out
}

// visible removes SGR sequences: what a terminal shows. A byte that is not part
// of a valid UTF-8 sequence is shown as ONE replacement glyph (one column): it
// is normalised to U+FFFD here, so that a renderer may pass the raw byte through
// or substitute U+FFFD for it (the visible result is the same), and so that one
// such byte is one rune of the result (see Assumptions).
func visible(s string) string {
	if !strings.Contains(s, "\x1b") && utf8.ValidString(s) {
		return s
	}
	var sb strings.Builder
	for _, t := range tokenize(s) {
		if t.sgr {
			continue
		}
		if len(t.s) == 1 && t.s[0] >= 0x80 {
			sb.WriteRune(utf8.RuneError) // tokenize cuts an undecodable byte off alone
			continue
		}
		sb.WriteString(t.s)
	}
	return sb.String()
}

func vlen(s string) int { return utf8.RuneCountInString(visible(s)) }

// ---- glyph tables (documented appearance of the renderers)

const fullBlockRune = '█'

// partial bar glyphs, 1/8 .. 8/8
var barPartials = []rune{'▏', '▎', '▍', '▌', '▋', '▊', '▉', '█'}

var sparkUnicode = []rune("_▁▂▃▄▅▆▇█")
var sparkASCII = []rune("_.-^")
var heatASCII = []rune("-123456789")
var heatPalette = []int{16, 17, 18, 19, 20, 21, 57, 93, 129, 165, 201, 200, 199, 198, 197, 196}

func indexRune(tab []rune, r rune) int {
	for i, x := range tab {
		if x == r {
			return i
		}
	}
	return -1
}

// barMeasure decodes a non-stacked bar: full blocks then at most one partial
// glyph (unicode) or a run of '|' (ascii). Returns the number of cells and a
// measure that orders bars by drawn length; ok=false if the text is not a bar.
func barMeasure(bar string, unicode bool) (cells int, measure int, ok bool) {
	rs := []rune(bar)
	if !unicode {
		for _, r := range rs {
			if r != '|' {
				return 0, 0, false
			}
		}
		return len(rs), len(rs) * 16, true
	}
	for i, r := range rs {
		if r == fullBlockRune {
			if i > 0 && rs[i-1] != fullBlockRune {
				return 0, 0, false
			}
			measure += 16
			continue
		}
		p := indexRune(barPartials, r)
		if p < 0 || i != len(rs)-1 {
			return 0, 0, false
		}
		measure += p + 1
	}
	return len(rs), measure, true
}

// trailingBar splits off the maximal suffix of bar glyphs.
func trailingBar(v string, unicode bool) (rest, bar string) {
	rs := []rune(v)
	i := len(rs)
	for i > 0 {
		r := rs[i-1]
		if unicode && (r == fullBlockRune || indexRune(barPartials, r) >= 0) || !unicode && r == '|' {
			i--
			continue
		}
		break
	}
	return string(rs[:i]), string(rs[i:])
}

// ---- reference formatting

// exprFormat is the expression formatter of the harness (built like --format
// through helpers.BuildFormatter / termformat.FromExpression). It depends on
// all three arguments a Formatter receives: {0} value, {1} min, {2} max.
const exprFormat = "<{0}|{1}|{2}>"

// refFormat is what that formatter must print for (value, min, max).
func refFormat(v, min, max int64) string {
	return "<" + strconv.FormatInt(v, 10) + "|" + strconv.FormatInt(min, 10) + "|" + strconv.FormatInt(max, 10) + ">"
}

// parseRefFormat reads a token printed by exprFormat back.
func parseRefFormat(tok string) (v, min, max int64, ok bool) {
	if len(tok) < 7 || tok[0] != '<' || tok[len(tok)-1] != '>' {
		return
	}
	parts := strings.Split(tok[1:len(tok)-1], "|")
	if len(parts) != 3 {
		return
	}
	var err [3]error
	v, err[0] = strconv.ParseInt(parts[0], 10, 64)
	min, err[1] = strconv.ParseInt(parts[1], 10, 64)
	max, err[2] = strconv.ParseInt(parts[2], 10, 64)
	ok = err[0] == nil && err[1] == nil && err[2] == nil
	return
}

// ---- alignment ("table columns line up")

const wild = "\x00*" // a cell whose content is not predicted by the oracle

type wcell struct {
	text   string // visible text, or wild
	minLen int    // for wild cells: minimum visible length
}

// alignOffsets searches column start offsets o[0]=0 < o[1] < ... such that in
// every line, column j starts at o[j], holds exactly the expected cell text
// followed by spaces only up to o[j+1], and every column is separated from the
// next by at least one space. Returns nil if no such offsets exist.
func alignOffsets(lines []string, cells [][]wcell) []int {
	if len(lines) == 0 {
		return []int{0}
	}
	m := len(cells[0])
	rl := make([][]rune, len(lines))
	total := -1
	for i, l := range lines {
		rl[i] = []rune(l)
		if len(cells[i]) != m {
			return nil
		}
		if total < 0 {
			total = len(rl[i])
		} else if len(rl[i]) != total {
			return nil
		}
	}
	off := make([]int, m+1)
	var rec func(j int) bool
	rec = func(j int) bool {
		if j == m {
			return off[m] == total
		}
		need := 0
		for r := range lines {
			c := cells[r][j]
			n := c.minLen
			if c.text != wild {
				n = len([]rune(c.text))
			}
			if n > need {
				need = n
			}
		}
		for next := off[j] + need + 1; next <= total; next++ {
			ok := true
			for r := range lines {
				c := cells[r][j]
				seg := rl[r][off[j]:next]
				if c.text == wild {
					// content free, but the separator space must be there
					if seg[len(seg)-1] != ' ' {
						ok = false
						break
					}
					continue
				}
				ct := []rune(c.text) // rune by rune: an undecodable byte is one U+FFFD on both sides
				if len(seg) < len(ct)+1 || !runesEqual(seg[:len(ct)], ct) {
					ok = false
					break
				}
				for _, x := range seg[len(ct):] {
					if x != ' ' {
						ok = false
						break
					}
				}
				if !ok {
					break
				}
			}
			if ok {
				off[j+1] = next
				if rec(j + 1) {
					return true
				}
			}
		}
		return false
	}
	if rec(0) {
		return off
	}
	return nil
}

func runesEqual(a, b []rune) bool {
	if len(a) != len(b) {
		return false
	}
	for i := range a {
		if a[i] != b[i] {
			return false
		}
	}
	return true
}

func cellsOf(ss ...string) []wcell {
	out := make([]wcell, len(ss))
	for i, s := range ss {
		out[i] = wcell{text: s}
	}
	return out
}

func fmtLines(ls []string) string {
	var sb strings.Builder
	for i, l := range ls {
		fmt.Fprintf(&sb, "  %2d %q\n", i, l)
	}
	return sb.String()
}
