// Harness follow decides C15: the real NotifyFollowReader / PollingFollowReader
// (compiled onto the controlled runtime, with a virtual file system and a
// virtual inotify queue) follow a path while an explorer-scheduled writer
// applies a history of appends, removals and re-creations. Every interleaving
// of writer operations, notification deliveries, select choices and poll
// timer firings is executed (the writer and the clock are free dimensions;
// preemptions among the reader-side goroutines are bounded deviations) for
// every history up to a length.
package main

import (
	"bytes"
	"encoding/json"
	"fmt"
	"io"
	"strings"
	"time"

	"rare/pkg/followreader"
	vrt "rare/verifrt"
	"rare/verifrt/vos"
	"verif/mc"
	"verif/runner"
)

const path = vos.Root + "log"

// Config is one (mode, history) pair.
type Config struct {
	Poll    bool     `json:"poll"`
	Reopen  bool     `json:"reopen"`
	Tail    bool     `json:"tail"`
	Initial string   `json:"initial"`
	History []string `json:"history"` // a:append "a"  b:append "bc"  r:remove (after drain)  c:create empty  d:create with content "d" (rename into place)
	Bound   int      `json:"bound"`
}

type obs struct {
	incs      [][]byte // contents of every incarnation of the path
	exists    bool
	delivered []byte
	ended     bool
	endErr    error
	newErr    error
	start     int64 // start offset within incarnation 0 (tail)
	started   bool
	// model of the poller's "bytes read from the current file"
	rb         int64
	readerInc  int
	excused    bool
	excusedAt  int
	writerDone bool
	removed    bool
}

func (o *obs) expected(c *Config) []byte {
	var out []byte
	for i, inc := range o.incs {
		if i == 0 {
			if int(o.start) <= len(inc) {
				out = append(out, inc[o.start:]...)
			}
		} else if c.Reopen {
			out = append(out, inc...)
		}
	}
	return out
}

func body(c *Config, o *obs) {
	fs := vos.Reset()
	fs.Put(path, []byte(c.Initial))
	o.incs = [][]byte{[]byte(c.Initial)}
	o.exists = true
	fs.OnStat = func(size int64) {
		if !c.Poll || !c.Reopen || size < 0 {
			return
		}
		cur := len(o.incs) - 1
		if cur != o.readerInc && size >= o.rb && !o.excused {
			// the statement's proviso for polling fails: the new file is not
			// shorter than what was already delivered when the poller looks
			o.excused = true
			o.excusedAt = len(o.delivered)
		}
		if size != o.rb && size < o.rb {
			o.rb = 0
		}
	}
	fs.OnOpen = func() { o.readerInc = len(o.incs) - 1 }

	vrt.GoNamed("writer", func() {
		for _, op := range c.History {
			switch op {
			case "a", "b":
				data := []byte("a")
				if op == "b" {
					data = []byte("bc")
				}
				fs.Append(path, data)
				o.incs[len(o.incs)-1] = append(o.incs[len(o.incs)-1], data...)
			case "r":
				// "once delivered data is followed by removal": the writer waits until the
				// reader has started and everything written so far was delivered
				vrt.WaitFor(func() bool {
					return o.started && len(o.delivered) > 0 && len(o.delivered) == len(o.expected(c))
				}, "writer waits for drain")
				fs.Remove(path)
				o.exists = false
				o.removed = true
			case "c":
				fs.Create(path)
				o.incs = append(o.incs, []byte{})
				o.exists = true
			case "d":
				fs.CreateWith(path, []byte("d"))
				o.incs = append(o.incs, []byte("d"))
				o.exists = true
			}
		}
		o.writerDone = true
		vrt.AddAdvances(14) // give a poller its full cycle of attempts after the last operation
	})

	r, err := followreader.New(path, c.Reopen, c.Poll)
	if err != nil {
		o.newErr = err
		o.ended = true
		return
	}
	if c.Tail {
		if err := r.Drain(); err != nil {
			o.newErr = err
		}
		if n := len(fs.Seeks); n > 0 {
			o.start = fs.Seeks[n-1]
			o.rb = o.start
		}
	}
	o.started = true
	buf := make([]byte, 2)
	for {
		n, err := r.Read(buf)
		o.delivered = append(o.delivered, buf[:n]...)
		o.rb += int64(n)
		if err != nil {
			o.ended, o.endErr = true, err
			break
		}
		if n == 0 {
			vrt.Fault("Read returned 0, nil")
			break
		}
	}
}

type finding struct{ sig, detail string }

func modeName(c *Config) string {
	m := "notify"
	if c.Poll {
		m = "poll"
	}
	if c.Reopen {
		m += "+reopen"
	}
	if c.Tail {
		m += "+tail"
	}
	return m
}

func run(ex vrt.Chooser, c *Config, trace bool) (*obs, *vrt.Result, []finding) {
	o := &obs{}
	opts := vrt.Options{Trace: trace, MaxAdvances: 3*len(c.History) + 6, MaxSteps: 20000}
	res := vrt.Run(ex, opts, func() { body(c, o) })
	return o, res, check(c, o, res)
}

func check(c *Config, o *obs, res *vrt.Result) []finding {
	var fs []finding
	mode := modeName(c)
	ctx := func() string {
		return fmt.Sprintf("mode=%s initial=%q history=%v\nincarnations=%q start=%d\ndelivered=%q ended=%v(%v) excused=%v blocked=%v horizon=%v now=%v", mode, c.Initial, c.History, o.incs, o.start, o.delivered, o.ended, o.endErr, o.excused, res.Blocked, res.Horizon, res.Now)
	}
	add := func(sig, d string) { fs = append(fs, finding{"C15/" + mode + "/" + sig, d + "\n" + ctx()}) }
	for _, f := range res.Faults {
		add("runtime-fault/"+slug(f), f)
	}
	if res.StepLimit {
		add("step-limit", "execution did not become quiescent")
		return fs
	}
	if o.newErr != nil {
		add("open-failed", o.newErr.Error())
		return fs
	}
	exp := o.expected(c)
	if !o.writerDone && !o.excused && bytes.Equal(exp, o.delivered) {
		// the removal is not enabled in this execution (nothing was delivered
		// before it, e.g. --tail started behind every append): the rest of the
		// history does not happen; what happened is still checked below
		o.removed = false
	}
	if o.excused {
		// only what was delivered before the proviso failed is checked
		if !bytes.HasPrefix(exp, o.delivered[:o.excusedAt]) {
			add("not-a-prefix", "bytes delivered before the polling proviso failed are not a prefix of the appended bytes")
		}
		return fs
	}
	if !bytes.HasPrefix(exp, o.delivered) {
		if len(o.delivered) > len(exp) || !bytes.HasPrefix(o.delivered, exp) {
			add("duplicate-or-wrong-bytes", fmt.Sprintf("delivered bytes are not a prefix of the appended bytes %q", exp))
		} else {
			add("duplicate-or-wrong-bytes", fmt.Sprintf("more bytes delivered than appended %q", exp))
		}
		return fs
	}
	if len(o.delivered) != len(exp) {
		add("bytes-not-delivered-at-quiescence", fmt.Sprintf("expected %q", exp))
	}
	if o.ended && o.endErr != io.EOF {
		add("ended-with-error", fmt.Sprint(o.endErr))
	}
	wantEnd := o.removed && !c.Reopen
	if c.Reopen && o.ended {
		add("reopen-follow-ended", "re-open follow must never end the stream")
	}
	if !c.Reopen && o.ended && !o.removed {
		add("ended-while-file-exists", "plain follow ended although the file was never removed")
	}
	if wantEnd && !o.ended {
		add("not-ended-after-removal", "plain follow must end the stream after the file was removed")
	}
	return fs
}

func slug(s string) string {
	if i := strings.IndexByte(s, '\n'); i >= 0 {
		s = s[:i]
	}
	var sb strings.Builder
	for _, r := range s {
		if (r >= 'a' && r <= 'z') || (r >= 'A' && r <= 'Z') || (r >= '0' && r <= '9') {
			sb.WriteRune(r)
		} else {
			sb.WriteByte('_')
		}
	}
	out := sb.String()
	if len(out) > 60 {
		out = out[:60]
	}
	return out
}

// histories enumerates every valid history up to maxLen.
func histories(maxLen int, initial string) [][]string {
	var out [][]string
	var rec func(h []string, exists bool, removals int, content bool)
	rec = func(h []string, exists bool, removals int, content bool) {
		out = append(out, append([]string{}, h...))
		if len(h) == maxLen {
			return
		}
		if exists {
			rec(append(h, "a"), true, removals, true)
			rec(append(h, "b"), true, removals, true)
			if removals < 2 && content { // a removal follows delivered data
				rec(append(h, "r"), false, removals+1, false)
			}
		} else {
			rec(append(h, "c"), true, removals, false)
			rec(append(h, "d"), true, removals, true)
		}
	}
	rec(nil, true, 0, initial != "")
	return out
}

type Case struct {
	Config *Config  `json:"config"`
	Vector []int    `json:"vector"`
	Trace  []string `json:"schedule,omitempty"`
}

type pass struct{ maxLen, bound int }

func configs(tier string) []*Config {
	passes := []pass{{4, 2}, {3, 3}}
	if tier == "thorough" {
		passes = []pass{{6, 2}, {5, 3}, {3, 4}}
	}
	var out []*Config
	for _, ps := range passes {
		out = append(out, passConfigs(ps.maxLen, ps.bound)...)
	}
	return out
}

func passConfigs(maxLen, bound int) []*Config {
	var out []*Config
	for _, poll := range []bool{false, true} {
		for _, reopen := range []bool{false, true} {
			for _, tail := range []bool{false, true} {
				for _, initial := range []string{"", "x"} {
					for _, h := range histories(maxLen, initial) {
						if len(h) == 0 && initial == "" {
							continue
						}
						out = append(out, &Config{Poll: poll, Reopen: reopen, Tail: tail, Initial: initial, History: h, Bound: bound})
					}
				}
			}
		}
	}
	return out
}

func worker(w *runner.W) {
	cfgs := configs(w.Tier)
	var n int64
	for _, c := range cfgs {
		n++
		if !w.Owns(n) {
			continue
		}
		if w.Expired() {
			return
		}
		ex := mc.New(c.Bound)
		outcomes := map[string]bool{}
		for ex.Next() {
			w.SetCase(func() any { return Case{Config: c, Vector: ex.Vector()} })
			o, res, fs := run(ex, c, false)
			ex.EndExecution()
			w.Eval(len(o.delivered) > 0 && res.Switches > 1)
			w.Add("transitions", int64(res.Steps))
			for _, f := range fs {
				w.Violation(f.sig, f.detail, Case{Config: c, Vector: ex.Vector()})
			}
			key := fmt.Sprintf("%s|%v|%q|%v|%v", modeName(c), c.History, o.delivered, o.ended, o.excused)
			outcomes[key] = true
			w.Outcome(key)
			if w.WantSample() && res.Switches > 6 && len(c.History) >= 3 {
				_, r2, _ := run(replayOf(ex.Vector()), c, true)
				w.Sample(Case{Config: c, Vector: ex.Vector(), Trace: r2.Trace})
			}
		}
		w.Add("choice_points", ex.ChoicePoints)
		w.Add("histories_x_modes", 1)
		w.Max("max_depth", int64(ex.MaxDepth))
	}
}

func replayOf(vec []int) *mc.Explorer {
	ex := mc.NewReplay(vec)
	ex.Next()
	return ex
}

func replay(w *runner.W, raw json.RawMessage) {
	var c Case
	if err := json.Unmarshal(raw, &c); err != nil {
		panic(err)
	}
	_, res, fs := run(replayOf(c.Vector), c.Config, true)
	for _, f := range fs {
		w.Violation(f.sig, f.detail+"\nschedule: "+strings.Join(res.Trace, " "), c)
	}
}

func main() {
	runner.Main(&runner.Spec{
		Name:       "follow",
		Properties: []string{"C15"},
		Level:      "model_checking",
		Rule: func(prop, tier string) string {
			return "real followreader.New (notify and polling readers) on a virtual file system + virtual inotify queue under the controlled runtime; for every mode {notify,poll} x {reopen,no} x {tail,no} x initial content {empty,\"x\"} and every valid history up to 4 (quick) / 6 (thorough) operations over {append a, append bc, remove after drain, create empty, create with content} every schedule of writer, reader, notification pump and poll timers with at most B deviations from the run-until-blocked scheduler is executed (quick: histories up to 4 with B=2 and up to 3 with B=3; thorough: up to 6 with B=2, up to 5 with B=3, up to 3 with B=4); which ready select case wins is always enumerated; states = distinct (mode, history, delivered bytes, ended) outcomes, transitions = scheduling steps; non-trivial = some bytes delivered and more than one goroutine switch"
		},
		Assumptions: func(string) []string {
			return []string{"inotify delivers CREATE/MODIFY/DELETE for the watched directory in operation order; a rename into place gives one CREATE", "unlinked files stay readable through open descriptors", "the file is removed only after everything written was delivered (as the statement says)", "for polling re-open the statement's proviso is evaluated at the poller's Stat calls; executions where it fails are only checked up to that point"}
		},
		Worker:         worker,
		Replay:         replay,
		HangSeconds:    120,
		QuickBudget:    4 * time.Minute,
		ThoroughBudget: 25 * time.Minute,
	})
}
