// Harness follow decides C15: the real NotifyFollowReader / PollingFollowReader
// (compiled onto the controlled runtime, with a virtual file system and a
// virtual inotify queue) follow a path while an explorer-scheduled writer
// applies a history of appends, removals and re-creations. Every interleaving
// of writer operations, notification deliveries, select choices and poll
// timer firings is executed (the writer and the clock are free dimensions;
// preemptions among the reader-side goroutines are bounded deviations) for
// every history up to a length.
package main

import (
	"bytes"
	"encoding/json"
	"fmt"
	"io"
	"strconv"
	"strings"
	"time"

	"rare/pkg/extractor/batchers"
	"rare/pkg/followreader"
	vrt "rare/verifrt"
	"rare/verifrt/vos"
	"verif/mc"
	"verif/runner"
)

const path = vos.Root + "log"

// Config is one (mode, history) pair.
type Config struct {
	Poll    bool     `json:"poll"`
	Reopen  bool     `json:"reopen"`
	Tail    bool     `json:"tail"`
	Initial string   `json:"initial"`
	History []string `json:"history"` // a:append "a"  b:append "bc"  r:remove (after drain)  c:create empty  d:create with content "d" (rename into place)  p/q:pause until the poller has looked at the path (Stat) 1/2 more times  "a*N": N separate appends of "a"
	Bound   int      `json:"bound"`
	// Family is "" (general histories), "burst" (a*N ; remove ; ...) or
	// "missing-at-start" (re-open follow of a path that does not exist yet).
	Family string `json:"family,omitempty"`
	// Slow: the consumer takes (virtual) time between two Reads, so everything
	// the writer and the notification pump can do happens while the reader is
	// not inside Read.
	Slow bool `json:"slow,omitempty"`
	// Missing: the path does not exist when following starts (Initial unused).
	Missing bool `json:"missing,omitempty"`
}

// ops expands the "a*N" shorthand of a history.
func (c *Config) ops() []string {
	var out []string
	for _, op := range c.History {
		if i := strings.IndexByte(op, '*'); i > 0 {
			n, err := strconv.Atoi(op[i+1:])
			if err != nil {
				panic("bad history operation " + op)
			}
			for k := 0; k < n; k++ {
				out = append(out, op[:i])
			}
			continue
		}
		out = append(out, op)
	}
	return out
}

// totalBytes is the number of bytes the history ever puts under the path.
func (c *Config) totalBytes() int {
	n := len(c.Initial)
	for _, op := range c.ops() {
		switch op {
		case "a", "d":
			n++
		case "b":
			n += 2
		}
	}
	return n
}

// horizon is the number of clock advances an execution may take before the
// writer's next operation (the writer extends it when it pauses and when it
// is done): a few per operation for the deviations that let time pass while
// something could run, plus one per Read of a slow consumer.
func (c *Config) horizon() int {
	h := 3*len(c.History) + 6
	if c.Slow {
		h += c.totalBytes() + 2
	}
	return h
}

type obs struct {
	incs      [][]byte // contents of every incarnation of the path
	exists    bool
	delivered []byte
	ended     bool
	endErr    error
	newErr    error
	start     int64 // start offset within incarnation 0 (tail)
	started   bool
	// model of the poller's "bytes read from the current file"
	rb         int64
	readerInc  int // incarnation the reader has open (-1: none yet)
	judgedInc  int // newest incarnation for which the polling proviso was evaluated
	excused    bool
	excusedAt  int
	writerDone bool
	removed    bool
}

func (o *obs) expected(c *Config) []byte {
	var out []byte
	for i, inc := range o.incs {
		if i == 0 {
			if int(o.start) <= len(inc) {
				out = append(out, inc[o.start:]...)
			}
		} else if c.Reopen {
			out = append(out, inc...)
		}
	}
	return out
}

func body(c *Config, o *obs) {
	// executions of one process must not see each other's package-level state
	// (a shared watcher, a cache): the instrumenter generates these
	followreader.VerifResetGlobals()
	batchers.VerifResetGlobals()
	fs := vos.Reset()
	o.readerInc, o.judgedInc = -1, -1
	if !c.Missing {
		fs.Put(path, []byte(c.Initial))
		o.incs = [][]byte{[]byte(c.Initial)}
		o.exists = true
	}
	fs.OnStat = func(size int64) {
		if !c.Poll || !c.Reopen || size < 0 {
			return
		}
		cur := len(o.incs) - 1
		if cur == o.readerInc || cur == o.judgedInc {
			return
		}
		// "provided the new file is still shorter than what was already delivered
		// when the poller notices it": this Stat is the poller noticing
		// incarnation cur; the proviso is evaluated here, once
		o.judgedInc = cur
		if o.readerInc < 0 {
			// the reader has never had a file (the path was missing at start):
			// this is the followed file itself, not a re-creation; no proviso
			return
		}
		if size >= o.rb {
			if !o.excused {
				o.excused = true
				o.excusedAt = len(o.delivered)
			}
			return
		}
		o.rb = 0 // the reader has to start over with the new file
	}
	fs.OnOpen = func() { o.readerInc = len(o.incs) - 1 }

	vrt.GoNamed("writer", func() {
		for _, op := range c.ops() {
			switch op {
			case "p", "q":
				// "pause": the writer does nothing until the poller has looked at
				// the path k more times (or the stream has ended); virtual time
				// passes freely meanwhile
				k := 1
				if op == "q" {
					k = 2
				}
				base := len(fs.Stats)
				vrt.AddAdvances(6*k + c.horizon())
				vrt.WaitFor(func() bool { return o.ended || len(fs.Stats) >= base+k }, "writer pauses")
			case "a", "b":
				data := []byte("a")
				if op == "b" {
					data = []byte("bc")
				}
				fs.Append(path, data)
				o.incs[len(o.incs)-1] = append(o.incs[len(o.incs)-1], data...)
			case "r":
				// "once delivered data is followed by removal": the writer waits until the
				// reader has started and everything written so far was delivered
				vrt.WaitFor(func() bool {
					return o.started && len(o.delivered) > 0 && len(o.delivered) == len(o.expected(c))
				}, "writer waits for drain")
				fs.Remove(path)
				o.exists = false
				o.removed = true
			case "c":
				fs.Create(path)
				o.incs = append(o.incs, []byte{})
				o.exists = true
			case "d":
				fs.CreateWith(path, []byte("d"))
				o.incs = append(o.incs, []byte("d"))
				o.exists = true
			}
		}
		o.writerDone = true
		extra := 0
		if c.Slow {
			extra = c.totalBytes() + 2
		}
		vrt.AddAdvances(14 + extra) // give a poller its full cycle of attempts after the last operation
	})

	r, err := followreader.New(path, c.Reopen, c.Poll)
	if err != nil {
		o.newErr = err
		o.ended = true
		return
	}
	if c.Tail {
		if err := r.Drain(); err != nil {
			o.newErr = err
		}
		if n := len(fs.Seeks); n > 0 {
			o.start = fs.Seeks[n-1]
			o.rb = o.start
		}
	}
	o.started = true
	buf := make([]byte, 2)
	for {
		if c.Slow {
			vrt.Sleep(time.Millisecond) // the consumer is busy with what it got
		}
		n, err := r.Read(buf)
		o.delivered = append(o.delivered, buf[:n]...)
		o.rb += int64(n)
		if err != nil {
			o.ended, o.endErr = true, err
			break
		}
		if n == 0 {
			vrt.Fault("Read returned 0, nil")
			break
		}
	}
}

type finding struct{ sig, detail string }

func modeName(c *Config) string {
	m := "notify"
	if c.Poll {
		m = "poll"
	}
	if c.Reopen {
		m += "+reopen"
	}
	if c.Tail {
		m += "+tail"
	}
	return m
}

func run(ex vrt.Chooser, c *Config, trace bool) (*obs, *vrt.Result, []finding) {
	o := &obs{}
	opts := vrt.Options{Trace: trace, MaxAdvances: c.horizon(), MaxSteps: 20000}
	res := vrt.Run(ex, opts, func() { body(c, o) })
	return o, res, check(c, o, res)
}

func check(c *Config, o *obs, res *vrt.Result) []finding {
	var fs []finding
	mode := modeName(c)
	ctx := func() string {
		return fmt.Sprintf("mode=%s family=%q slow-consumer=%v missing-at-start=%v initial=%q history=%v\nincarnations=%q start=%d\ndelivered=%q ended=%v(%v) excused=%v blocked=%v horizon=%v now=%v", mode, c.Family, c.Slow, c.Missing, c.Initial, c.History, o.incs, o.start, o.delivered, o.ended, o.endErr, o.excused, res.Blocked, res.Horizon, res.Now)
	}
	fam := ""
	if c.Family != "" {
		fam = c.Family + "/"
	}
	add := func(sig, d string) { fs = append(fs, finding{"C15/" + mode + "/" + fam + sig, d + "\n" + ctx()}) }
	for _, f := range res.Faults {
		add("runtime-fault/"+slug(f), f)
	}
	if res.StepLimit {
		add("step-limit", "execution did not become quiescent")
		return fs
	}
	if o.newErr != nil {
		add("open-failed", o.newErr.Error())
		return fs
	}
	exp := o.expected(c)
	// When the writer is not done, a removal was not enabled in this execution
	// (nothing was delivered before it, e.g. --tail started behind every
	// append): the rest of the history does not happen; what happened (o.incs,
	// o.removed describe exactly that) is checked below.
	if o.excused {
		// only what was delivered before the proviso failed is checked
		if !bytes.HasPrefix(exp, o.delivered[:o.excusedAt]) {
			add("not-a-prefix", "bytes delivered before the polling proviso failed are not a prefix of the appended bytes")
		}
		return fs
	}
	if !bytes.HasPrefix(exp, o.delivered) {
		if len(o.delivered) > len(exp) || !bytes.HasPrefix(o.delivered, exp) {
			add("duplicate-or-wrong-bytes", fmt.Sprintf("delivered bytes are not a prefix of the appended bytes %q", exp))
		} else {
			add("duplicate-or-wrong-bytes", fmt.Sprintf("more bytes delivered than appended %q", exp))
		}
		return fs
	}
	if len(o.delivered) != len(exp) {
		add("bytes-not-delivered-at-quiescence", fmt.Sprintf("expected %q", exp))
	}
	if o.ended && o.endErr != io.EOF {
		add("ended-with-error", fmt.Sprint(o.endErr))
	}
	wantEnd := o.removed && !c.Reopen
	if c.Reopen && o.ended {
		add("reopen-follow-ended", "re-open follow must never end the stream")
	}
	if !c.Reopen && o.ended && !o.removed {
		add("ended-while-file-exists", "plain follow ended although the file was never removed")
	}
	if wantEnd && !o.ended {
		add("not-ended-after-removal", "plain follow must end the stream after the file was removed")
	}
	return fs
}

func slug(s string) string {
	if i := strings.IndexByte(s, '\n'); i >= 0 {
		s = s[:i]
	}
	var sb strings.Builder
	for _, r := range s {
		if (r >= 'a' && r <= 'z') || (r >= 'A' && r <= 'Z') || (r >= '0' && r <= '9') {
			sb.WriteRune(r)
		} else {
			sb.WriteByte('_')
		}
	}
	out := sb.String()
	if len(out) > 60 {
		out = out[:60]
	}
	return out
}

// histories enumerates every valid history up to maxLen. exists: whether the
// path exists at the start. pauses: how many pause operations a history may
// contain (polling modes; "p" = one more look of the poller at the path
// anywhere but at the end, "q" = two more looks, only while the path is
// absent).
func histories(maxLen int, initial string, exists bool, pauses int) [][]string {
	var out [][]string
	var rec func(h []string, exists bool, removals int, content bool, pauses int)
	rec = func(h []string, exists bool, removals int, content bool, pauses int) {
		if n := len(h); n == 0 || (h[n-1] != "p" && h[n-1] != "q") { // a pause at the end adds nothing
			out = append(out, append([]string{}, h...))
		}
		if len(h) == maxLen {
			return
		}
		if pauses > 0 && len(h) < maxLen-1 {
			rec(append(h, "p"), exists, removals, content, pauses-1)
			if !exists {
				rec(append(h, "q"), exists, removals, content, pauses-1)
			}
		}
		if exists {
			rec(append(h, "a"), true, removals, true, pauses)
			rec(append(h, "b"), true, removals, true, pauses)
			if removals < 2 && content { // a removal follows delivered data
				rec(append(h, "r"), false, removals+1, false, pauses)
			}
		} else {
			rec(append(h, "c"), true, removals, false, pauses)
			rec(append(h, "d"), true, removals, true, pauses)
		}
	}
	rec(nil, exists, 0, exists && initial != "", pauses)
	return out
}

type Case struct {
	Config *Config  `json:"config"`
	Vector []int    `json:"vector"`
	Trace  []string `json:"schedule,omitempty"`
}

type pass struct{ maxLen, bound int }

// bounds of the three families, per tier
type tierBounds struct {
	general      []pass // histories with no pause
	slow         []pass // the same with a slow consumer
	paused       []pass // polling modes: histories with exactly... at least one pause (at most maxPauses)
	maxPauses    int
	missing      []pass // re-open follow of a path that is missing at start
	burstN       []int  // numbers of separate appends before the removal
	burstBound   int
	burstPollMax int // polling modes get the burst family up to this N only (they have no signal queue)
}

func bounds(tier string) tierBounds {
	if tier == "thorough" {
		all := make([]int, 70)
		for i := range all {
			all[i] = i + 1
		}
		all = append(all, 127, 128, 129, 130)
		return tierBounds{
			general: []pass{{7, 2}, {6, 3}, {4, 4}, {3, 5}}, slow: []pass{{6, 2}, {5, 3}}, paused: []pass{{6, 2}, {5, 3}}, maxPauses: 2,
			missing: []pass{{5, 2}, {4, 3}}, burstN: all, burstBound: 1, burstPollMax: 70,
		}
	}
	return tierBounds{
		general: []pass{{5, 2}, {4, 3}, {3, 4}}, slow: []pass{{4, 2}, {3, 3}}, paused: []pass{{5, 1}, {4, 2}}, maxPauses: 1,
		missing: []pass{{4, 2}, {3, 3}}, burstN: []int{1, 2, 3, 4, 5, 7, 8, 9, 15, 16, 17, 31, 32, 33, 40, 63, 64, 65}, burstBound: 1, burstPollMax: 40,
	}
}

func hasPause(h []string) bool {
	for _, op := range h {
		if op == "p" || op == "q" {
			return true
		}
	}
	return false
}

func configs(tier string) []*Config {
	tb := bounds(tier)
	var out []*Config
	for _, ps := range tb.general {
		out = append(out, passConfigs(ps.maxLen, ps.bound, false)...)
	}
	for _, ps := range tb.slow {
		out = append(out, passConfigs(ps.maxLen, ps.bound, true)...)
	}
	for _, ps := range tb.paused {
		out = append(out, pausedConfigs(ps.maxLen, ps.bound, tb.maxPauses)...)
	}
	for _, ps := range tb.missing {
		out = append(out, missingConfigs(ps.maxLen, ps.bound, tb.maxPauses)...)
	}
	out = append(out, burstConfigs(tb)...)
	return out
}

func passConfigs(maxLen, bound int, slow bool) []*Config {
	var out []*Config
	for _, poll := range []bool{false, true} {
		for _, reopen := range []bool{false, true} {
			for _, tail := range []bool{false, true} {
				for _, initial := range []string{"", "x"} {
					for _, h := range histories(maxLen, initial, true, 0) {
						if len(h) == 0 && initial == "" {
							continue
						}
						out = append(out, &Config{Poll: poll, Reopen: reopen, Tail: tail, Initial: initial, History: h, Bound: bound, Slow: slow})
					}
				}
			}
		}
	}
	return out
}

// pausedConfigs: the polling modes with histories that contain a pause (the
// writer lets the poller look at the path before it goes on; without it a
// poll cycle between two writer operations costs five deviations).
func pausedConfigs(maxLen, bound, maxPauses int) []*Config {
	var out []*Config
	for _, reopen := range []bool{false, true} {
		for _, tail := range []bool{false, true} {
			for _, initial := range []string{"", "x"} {
				for _, h := range histories(maxLen, initial, true, maxPauses) {
					if !hasPause(h) {
						continue
					}
					out = append(out, &Config{Poll: true, Reopen: reopen, Tail: tail, Initial: initial, History: h, Bound: bound})
				}
			}
		}
	}
	return out
}

// missingConfigs: re-open follow (no --tail) of a path that does not exist
// when following starts (followreader.New succeeds with re-open; without
// re-open it fails by design, which is not explored).
func missingConfigs(maxLen, bound, maxPauses int) []*Config {
	var out []*Config
	for _, poll := range []bool{false, true} {
		mp := 0
		if poll {
			mp = maxPauses
		}
		for _, h := range histories(maxLen, "", false, mp) {
			if len(h) == 0 {
				continue
			}
			out = append(out, &Config{Poll: poll, Reopen: true, Family: "missing-at-start", Missing: true, History: h, Bound: bound})
		}
	}
	return out
}

// burstConfigs: N separate appends, then (once they were delivered) the
// removal, optionally followed by a re-creation: whatever the number of write
// notifications that pile up while the consumer is busy, the removal and the
// re-creation must not be lost among them.
func burstConfigs(tb tierBounds) []*Config {
	var out []*Config
	tails := [][]string{{"r"}, {"r", "d"}, {"r", "c", "a"}}
	for _, poll := range []bool{false, true} {
		for _, reopen := range []bool{false, true} {
			for _, tail := range []bool{false, true} {
				for _, initial := range []string{"", "x"} {
					for _, slow := range []bool{false, true} {
						for _, n := range tb.burstN {
							if poll && n > tb.burstPollMax {
								continue
							}
							for _, t := range tails {
								if !reopen && len(t) == 3 {
									continue // plain follow has ended; one re-creation shape is enough
								}
								h := append([]string{fmt.Sprintf("a*%d", n)}, t...)
								out = append(out, &Config{Poll: poll, Reopen: reopen, Tail: tail, Initial: initial, History: h, Bound: tb.burstBound, Family: "burst", Slow: slow})
							}
						}
					}
				}
			}
		}
	}
	return out
}

func worker(w *runner.W) {
	cfgs := configs(w.Tier)
	var n int64
	for _, c := range cfgs {
		n++
		if !w.Owns(n) {
			continue
		}
		if w.Expired() {
			return
		}
		ex := mc.New(c.Bound)
		outcomes := map[string]bool{}
		for ex.Next() {
			w.SetCase(func() any { return Case{Config: c, Vector: ex.Vector()} })
			o, res, fs := run(ex, c, false)
			ex.EndExecution()
			w.Eval(len(o.delivered) > 0 && res.Switches > 1)
			w.Add("transitions", int64(res.Steps))
			for _, f := range fs {
				w.Violation(f.sig, f.detail, Case{Config: c, Vector: ex.Vector()})
			}
			key := fmt.Sprintf("%s|%v%v|%v|%q|%v|%v", modeName(c), c.Slow, c.Missing, c.History, o.delivered, o.ended, o.excused)
			outcomes[key] = true
			w.Outcome(key)
			if w.WantSample() && res.Switches > 6 && len(c.History) >= 3 {
				_, r2, _ := run(replayOf(ex.Vector()), c, true)
				w.Sample(Case{Config: c, Vector: ex.Vector(), Trace: r2.Trace})
			}
		}
		w.Add("choice_points", ex.ChoicePoints)
		w.Add("histories_x_modes", 1)
		w.Max("max_depth", int64(ex.MaxDepth))
	}
}

func replayOf(vec []int) *mc.Explorer {
	ex := mc.NewReplay(vec)
	ex.Next()
	return ex
}

func replay(w *runner.W, raw json.RawMessage) {
	var c Case
	if err := json.Unmarshal(raw, &c); err != nil {
		panic(err)
	}
	_, res, fs := run(replayOf(c.Vector), c.Config, true)
	for _, f := range fs {
		w.Violation(f.sig, f.detail+"\nschedule: "+strings.Join(res.Trace, " "), c)
	}
}

func main() {
	runner.Main(&runner.Spec{
		Name:       "follow",
		Properties: []string{"C15"},
		Level:      "model_checking",
		Rule: func(prop, tier string) string {
			return "real followreader.New (notify and polling readers) on a virtual file system + virtual inotify queue under the controlled runtime; every schedule of writer, reader, notification pump, poll timers and clock with at most B deviations from the run-until-blocked scheduler is executed, which ready select case wins is always enumerated; the consumer reads 2 bytes at a time. Families: " +
				"(1) general: every mode {notify,poll} x {reopen,no} x {tail,no} x initial content {empty,\"x\"} x every valid history over {append a, append bc, remove after drain, create empty, create with content} (quick: up to 5 operations with B=2, up to 4 with B=3 and up to 3 with B=4; thorough: up to 7 with B=2, up to 6 with B=3, up to 4 with B=4, up to 3 with B=5); " +
				"(2) slow consumer: the same histories with a consumer that lets virtual time pass before every Read, so that writer and notification pump run to a standstill while the reader is outside Read (quick: up to 4 with B=2, up to 3 with B=3; thorough: up to 6 with B=2, up to 5 with B=3); " +
				"(3) paused (polling modes): histories that additionally contain pause operations - p: the writer waits until the poller has looked at the path (Stat) once more, anywhere but at the end; q: twice more, only while the path is absent (between removal and re-creation) - at most 1 pause (quick: up to 5 operations with B=1, up to 4 with B=2) / 2 pauses (thorough: up to 6 with B=2, up to 5 with B=3) per history; " +
				"(4) missing-at-start: re-open follow without --tail of a path that does not exist when following starts, notify and poll (poll with pauses as in 3), every valid history starting with a creation (quick: up to 4 with B=2, up to 3 with B=3; thorough: up to 5 with B=2, up to 4 with B=3); without re-open followreader.New fails by design on a missing path (not explored); " +
				"(5) burst: histories a*N ; remove-after-drain [; create with content | ; create empty ; append (re-open modes only)] - N separate one-byte appends - for N in {1,2,3,4,5,7,8,9,15,16,17,31,32,33,40,63,64,65} (quick; polling modes N<=40) / every N<=70 and 127..130 (thorough; polling modes N<=70), every mode x initial content {empty,\"x\"} x {default consumer, slow consumer} with B=1 (the slow consumer's default schedule enqueues all N write notifications and, after the drain, the removal and re-creation before the reader consumes a single signal). " +
				"Oracle at quiescence: delivered bytes equal the appended stream (after the start offset), plain follow has ended iff the file was removed, re-open follow never ends and continues with every re-created file; for polling re-open the statement's proviso is evaluated once per re-created file, at the first Stat of the poller that sees it. states = distinct (mode, consumer, history, delivered bytes, ended) outcomes, transitions = scheduling steps; non-trivial = some bytes delivered and more than one goroutine switch"
		},
		Assumptions: func(string) []string {
			return []string{"inotify delivers CREATE/MODIFY/DELETE for the watched directory in operation order; a rename into place gives one CREATE", "unlinked files stay readable through open descriptors", "the file is removed only after everything written was delivered (as the statement says)", "for polling re-open the statement's proviso (new file shorter than what was already delivered when the poller notices it) is evaluated at the poller's first Stat call that sees the re-created file; executions where it fails are only checked up to that point", "a path that is missing at start and created later is the followed file itself (everything written to it is expected, no proviso)", "a pause ends when the poller has called Stat on the path the stated number of times, or the stream has ended", "the virtual inotify queue holds 256 events (never overflows within the bounds)"}
		},
		Worker:         worker,
		Replay:         replay,
		HangSeconds:    120,
		QuickBudget:    4 * time.Minute,
		ThoroughBudget: 25 * time.Minute,
	})
}
