package main

// CALL HISTORY family of C20 (signatures end in /call-history-family).
//
// The statement quantifies over "any sequence of per-line updates" and makes the
// cut a function of the text and the width: what an update paints may not
// depend on the texts of EARLIER updates. The other families check every update
// sequence against the reference model, but (a) multiterm.WriteLineNoWrap is
// called once per case there, and (b) every text consists of complete colour
// sequences, so per-call scanner state (inside-an-escape flag, pending bytes of
// a multi-byte character, column counter, scratch buffer) that survives from
// one call into the next is never left in an interesting condition.
//
// Added dimension: texts that END INSIDE something unfinished - an incomplete
// colour sequence (ESC, ESC[, ESC[3, ESC[3;, ESC[31;1, ESC[38;5;196: a key cut
// out of a coloured log at a fixed width, a substr of a coloured value) or an
// incomplete multi-byte character - before the cut, exactly at the cut and
// after it, FOLLOWED by ordinary texts, as
//   - all sequences of 0..3 (thorough 0..4) direct WriteLineNoWrap calls (kind
//     trimseq), and
//   - update sequences through TermWriter, BufferedTerm and VirtualTerm (kind
//     seq with such texts).
//
// Oracle.
//   - A text made of complete colour sequences is judged by the reference model
//     exactly as in every other family, whatever was written before it.
//   - What a line that ends in an incomplete colour sequence must look like is
//     not settled by the statement: only "a prefix of the text with at most
//     <width> visible characters" (never wraps) is demanded of it.
//   - History independence (same input => same output): the bytes of every call
//     / every printed line equal the bytes that a FRESH PROCESS produces for the
//     same (text, width, trimming) with its first and only WriteLineNoWrap call
//     (the harness binary re-executes itself once per distinct key, see
//     freshTrim); for the in-place writer the comparison goes through the
//     emulator: the row of a line shows what the fresh process's bytes show.
//
// Every case starts with three unjudged calls (a complete reset sequence, a
// one-letter text, an empty text) so that the cases of a worker do not depend
// on each other and the verdict not on the sharding; the reference never
// depends on them (it comes from a fresh process).

import (
	"bytes"
	"encoding/hex"
	"fmt"
	"os"
	"os/exec"
	"strconv"
	"strings"

	"rare/pkg/multiterm"
	"verif/runner"
)

const famCarry = "call-history"

// danglingAt returns the index of the first ESC that does not start a complete
// colour sequence (ESC [ digits/; m), or -1. The generated texts have such an
// ESC only as the start of their last few bytes.
func danglingAt(s string) int {
	for i := 0; i < len(s); {
		if s[i] != 0x1b {
			i++
			continue
		}
		j := i + 1
		if j >= len(s) || s[j] != '[' {
			return i
		}
		j++
		for j < len(s) && (s[j] >= '0' && s[j] <= '9' || s[j] == ';') {
			j++
		}
		if j >= len(s) || s[j] != 'm' {
			return i
		}
		i = j + 1
	}
	return -1
}

func hasDangling(seq []Upd) bool {
	for _, u := range seq {
		if danglingAt(u.Text) >= 0 {
			return true
		}
	}
	return false
}

// visibleD: the visible runes in front of the incomplete sequence (all visible
// runes when there is none).
func visibleD(s string) string {
	if k := danglingAt(s); k >= 0 {
		s = s[:k]
	}
	return visibleOf(s)
}

// ---------------------------------------------------------------- fresh process

type freshKey struct {
	width int
	trim  bool
	text  string
}

type freshVal struct {
	out []byte
	err string
}

var (
	freshTab     = map[freshKey]freshVal{}
	freshSpawned int64
)

const freshEnv = "VERIF_TERM_FRESH_CALL"

// freshTrim returns what a fresh process writes for ONE call
// WriteLineNoWrap(out, text) with the given width and trimming (its first and
// only call: no earlier call can have left anything behind). err != "" when
// that process panicked.
func freshTrim(width int, trim bool, text string) ([]byte, string) {
	k := freshKey{width, trim, text}
	if v, ok := freshTab[k]; ok {
		return v.out, v.err
	}
	exe, err := os.Executable()
	if err != nil {
		panic("harness: os.Executable: " + err.Error())
	}
	t := "0"
	if trim {
		t = "1"
	}
	var v freshVal
	for attempt := 0; ; attempt++ {
		cmd := exec.Command(exe)
		cmd.Env = append(os.Environ(), freshEnv+"="+strconv.Itoa(width)+":"+t+":"+hex.EncodeToString([]byte(text)))
		var so, se bytes.Buffer
		cmd.Stdout, cmd.Stderr = &so, &se
		err := cmd.Run()
		if err == nil {
			v = freshVal{out: so.Bytes()}
			break
		}
		if ee, ok := err.(*exec.ExitError); ok && ee.ExitCode() == 3 {
			v = freshVal{err: strings.TrimSpace(se.String())}
			break
		}
		if attempt >= 5 {
			panic("harness: fresh-process reference failed: " + err.Error() + " " + se.String())
		}
	}
	freshSpawned++
	freshTab[k] = v
	return v.out, v.err
}

// freshChild is the other side of freshTrim (called from main before anything
// else when the environment variable is set).
func freshChild(spec string) {
	parts := strings.SplitN(spec, ":", 3)
	if len(parts) != 3 {
		fmt.Fprintln(os.Stderr, "bad "+freshEnv)
		os.Exit(2)
	}
	width, err1 := strconv.Atoi(parts[0])
	raw, err2 := hex.DecodeString(parts[2])
	if err1 != nil || err2 != nil {
		fmt.Fprintln(os.Stderr, "bad "+freshEnv)
		os.Exit(2)
	}
	setGlobals(width, parts[1] == "1")
	var bb bytes.Buffer
	func() {
		defer func() {
			if p := recover(); p != nil {
				fmt.Fprintf(os.Stderr, "panic: %v\n", p)
				os.Exit(3)
			}
		}()
		multiterm.WriteLineNoWrap(&bb, string(raw))
	}()
	os.Stdout.Write(bb.Bytes())
	os.Exit(0)
}

// renderRow: what a terminal row shows after the bytes were written to it from
// column 0 (an incomplete sequence at the end shows nothing).
func renderRow(b []byte, width int) string {
	e := newEmu(width)
	e.feed(b)
	return e.line(0)
}

// ---------------------------------------------------------------- decoupling

var scrubTexts = []string{"\x1b[0m", "x", ""}

// scrub makes three unjudged calls in front of every case of the family.
func scrub() {
	defer func() { recover() }()
	var bb bytes.Buffer
	for _, s := range scrubTexts {
		multiterm.WriteLineNoWrap(&bb, s)
	}
}

// ---------------------------------------------------------------- kind trimseq

// judgeTrim judges one WriteLineNoWrap call.
func judgeTrim(res *result, width int, trim bool, text, out, where string) {
	if !trim {
		// trimming off: nothing is cut
		if norm(out) != norm(text) {
			res.fail("C20/linetrim/trim-off-modified", "%swrote %q for %q with trimming off", where, out, text)
		}
		return
	}
	// "cut to a prefix"
	if !isCutOf(text, out) {
		res.fail("C20/linetrim/not-a-prefix", "%swrote %q, not a prefix of %q", where, out, text)
		return
	}
	if danglingAt(text) >= 0 {
		// the text itself ends inside a colour sequence: the statement does not
		// settle what is written; "neither exceeds the width in visible characters"
		if n := len([]rune(visibleD(out))); n > width {
			res.fail("C20/linetrim/exceeds-width", "%sprefix %q has %d visible runes, width %d", where, out, n, width)
		}
		return
	}
	// "nor ends inside a colour escape sequence"
	if endsInsideSGR(out) {
		res.fail("C20/linetrim/cut-inside-escape", "%sprefix %q of %q ends inside an escape sequence", where, out, text)
	}
	vis := visibleOf(text)
	got := visibleOf(out)
	if n := len([]rune(got)); n > width {
		res.fail("C20/linetrim/exceeds-width", "%sprefix %q has %d visible runes, width %d", where, out, n, width)
	} else if want := cutVisible(vis, width); norm(got) != norm(want) {
		res.fail("C20/linetrim/cut-too-short", "%sprefix shows %q, want %q (width %d)", where, got, want, width)
	}
}

// runTrimSeq: a sequence of direct WriteLineNoWrap calls (c.Seq, the line
// indexes are not used), every one judged on its own and against the fresh
// process.
func runTrimSeq(c Case) (res result) {
	setGlobals(c.Width, c.Trim)
	scrub()
	var oc strings.Builder
	for k, u := range c.Seq {
		var bb bytes.Buffer
		func() {
			defer func() {
				if p := recover(); p != nil {
					res.fail("C20/linetrim/panic", "call %d of the sequence: panic: %v", k+1, p)
				}
			}()
			multiterm.WriteLineNoWrap(&bb, u.Text)
		}()
		if len(res.findings) > 0 && res.findings[len(res.findings)-1].sig == "C20/linetrim/panic" {
			return
		}
		out := bb.String()
		where := fmt.Sprintf("call %d of %d: ", k+1, len(c.Seq))
		judgeTrim(&res, c.Width, c.Trim, u.Text, out, where)
		fb, ferr := freshTrim(c.Width, c.Trim, u.Text)
		switch {
		case ferr != "":
			res.fail("C20/linetrim/panic", "%sa fresh process panics on this text alone: %s", where, ferr)
		case out != string(fb):
			// same input => same output
			res.fail("C20/linetrim/depends-on-earlier-calls", "%swrote %q for %q; a fresh process writes %q for the same text and width: the result depends on the texts of earlier calls", where, out, u.Text, fb)
		}
		if k > 0 && c.Trim && len([]rune(visibleD(u.Text))) > c.Width {
			res.nontrivial = true
		}
		oc.WriteString(out)
		oc.WriteByte(0)
	}
	res.outcome = oc.String()
	return
}

// ---------------------------------------------------------------- enumeration

// the incomplete colour sequences: ESC alone, the introducer, a parameter, a
// parameter and the separator, two parameters, a 256-colour selection without
// its final letter. None contains the letter m.
var carryTails = []string{"\x1b", "\x1b[", "\x1b[3", "\x1b[3;", "\x1b[31;1", "\x1b[38;5;196"}

var carryOrdinary = []string{
	"",                         // empty
	"ab",                       // plain, short
	"0123456789AB",             // plain, longer than the small widths, without the letter m
	"abcdefghijklmnop",         // plain, long, the letter m beyond the small widths
	"\x1b[31mabcdefgh\x1b[0m",  // coloured from the first column
	"abc\x1b[1mdefgh\x1b[0mij", // colour switched on in the middle
	"éü✤\U0001d11eñçà",         // multi-byte characters of 2, 3 and 4 bytes
	"caf\xe9 au lait",          // a Latin-1 byte (not valid UTF-8) in the middle
}

// carryUnfinished: texts that end inside something unfinished.
func carryUnfinished() []string {
	var out []string
	for _, t := range carryTails {
		out = append(out, "ab"+t) // width 1: after the cut; 2: exactly at the cut; >= 3: before the cut
	}
	return append(out,
		"abcdef\x1b[3",     // the same further right (width 6: exactly at the cut)
		"\x1b[32mab\x1b[0", // the reset of a coloured value cut one byte short
		"é✤\x1b[",          // after multi-byte characters
		"\x1b[3",           // nothing visible at all
		"caf\xc3",          // ends with the lead byte of a 2-byte character
		"ab\xe2\x80",       // ends inside a 3-byte character
	)
}

func carryTexts() []string { return append(append([]string{}, carryOrdinary...), carryUnfinished()...) }

// the subset used for the update sequences through the three writers
var carrySeqTexts = []string{
	"", "ab", "0123456789AB", "\x1b[31mabcdefgh\x1b[0m", "abc\x1b[1mdefgh\x1b[0mij", "éü✤\U0001d11eñçà",
	"ab\x1b[3", "ab\x1b", "\x1b[32mab\x1b[0", "caf\xc3",
}
var carrySeqLines = []int{0, 2}

var carryTrimCfgs = []cfg{{1, true}, {2, true}, {3, true}, {4, true}, {6, true}, {80, true}, {3, false}}
var carrySeqCfgs = []cfg{{1, true}, {2, true}, {4, true}, {80, true}, {3, false}}

func carryMaxLen(quick bool) int {
	if quick {
		return 3
	}
	return 4
}

func carrySweepWidths(quick bool) []int {
	max := 40
	if quick {
		max = 12
	}
	var out []int
	for w := 1; w <= max; w++ {
		out = append(out, w)
	}
	return out
}

// carrySweepFirsts: for width w, texts of n visible runes for n in
// {0, w-2, w-1, w, w+1} (the incomplete sequence well before the cut, directly
// before it, exactly at it, after it) followed by every incomplete sequence;
// plain, and with a complete colour sequence in front.
func carrySweepFirsts(w int) []string {
	var out []string
	seen := map[int]bool{}
	for _, n := range []int{0, w - 2, w - 1, w, w + 1} {
		if n < 0 || seen[n] {
			continue
		}
		seen[n] = true
		body := widthText(n, "plain", "", 0)
		for _, t := range carryTails {
			out = append(out, body+t, "\x1b[31m"+body+t)
		}
	}
	return out
}

// carrySweepSeconds: the ordinary texts written afterwards: w+3 visible runes
// plain / with a colour sequence after p visible runes / with one in front of
// every rune, and a one-letter text.
func carrySweepSeconds(w int) []string {
	n := w + 3
	out := []string{"x", widthText(n, "plain", "", 0), widthText(n, "each", "", 0)}
	seen := map[int]bool{}
	for _, p := range []int{0, 1, w - 1, w} {
		if p < 0 || seen[p] {
			continue
		}
		seen[p] = true
		out = append(out, widthText(n, "at", sweepEscapes[0], p))
	}
	return out
}

// carryFamily enumerates the family. The sharding unit is one configuration
// (one width of the sweep): a unit needs the fresh-process references of its
// own width only. Returns false when the time budget expired.
func carryFamily(w *runner.W, cap *capture, caseNo *int64) bool {
	quick := w.Quick()
	n := 0
	run := func(c Case) bool {
		n++
		if n&0xff == 0 && w.Expired() {
			return false
		}
		w.SetCase(func() any { return c })
		if c.Kind == "trimseq" {
			report(w, c, runTrimSeq(c))
		} else {
			report(w, c, runSeq(cap, c))
		}
		return true
	}
	defer func() { w.Add("fresh_process_references", freshSpawned); freshSpawned = 0 }()
	// all sequences over (lines x) texts
	each := func(k, maxLen int, f func(idx []int) bool) bool {
		for length := 0; length <= maxLen; length++ {
			cur := make([]int, length)
			for {
				if !f(cur) {
					return false
				}
				i := length - 1
				for ; i >= 0; i-- {
					cur[i]++
					if cur[i] < k {
						break
					}
					cur[i] = 0
				}
				if i < 0 {
					break
				}
			}
		}
		return true
	}
	texts := carryTexts()
	for _, cf := range carryTrimCfgs {
		*caseNo++
		if !w.Owns(*caseNo) {
			continue
		}
		ok := each(len(texts), carryMaxLen(quick), func(idx []int) bool {
			seq := make([]Upd, len(idx))
			for i, a := range idx {
				seq[i] = Upd{0, texts[a]}
			}
			return run(Case{Kind: "trimseq", Fam: famCarry, Width: cf.width, Trim: cf.trim, Seq: seq})
		})
		if !ok {
			return false
		}
	}
	for _, cf := range carrySeqCfgs {
		*caseNo++
		if !w.Owns(*caseNo) {
			continue
		}
		nt := len(carrySeqTexts)
		ok := each(len(carrySeqLines)*nt, carryMaxLen(quick), func(idx []int) bool {
			seq := make([]Upd, len(idx))
			for i, a := range idx {
				seq[i] = Upd{carrySeqLines[a/nt], carrySeqTexts[a%nt]}
			}
			return run(Case{Kind: "seq", Fam: famCarry, Width: cf.width, Trim: cf.trim, Seq: seq})
		})
		if !ok {
			return false
		}
	}
	// the incomplete sequence against the width
	for _, wd := range carrySweepWidths(quick) {
		*caseNo++
		if !w.Owns(*caseNo) {
			continue
		}
		for _, f := range carrySweepFirsts(wd) {
			for _, s := range carrySweepSeconds(wd) {
				for _, seq := range [][]Upd{{{0, f}, {0, s}}, {{0, f}, {0, ""}, {0, s}}, {{0, f}, {0, s}, {0, s}}} {
					if !run(Case{Kind: "trimseq", Fam: famCarry, Width: wd, Trim: true, Seq: seq}) {
						return false
					}
				}
				if !run(Case{Kind: "seq", Fam: famCarry, Width: wd, Trim: true, Seq: []Upd{{0, f}, {1, s}, {0, s}, {1, f}, {2, s}}}) {
					return false
				}
			}
		}
	}
	return true
}
