package main

// WRITE FAULT dimension of the update-sequence exploration (kind "fault"): in a
// sequence of updates every write to stdout made by ONE chosen update fails (a
// transient failure: the terminal receives none of that update's bytes), the
// remaining updates are written normally, then every line written so far is
// rewritten once (one full repaint, as the renderers do on their next tick)
// and the writer is closed.
//
// The fault is injected with an already expired write deadline on the pipe that
// stands in for os.Stdout (os.Pipe files support deadlines): with an expired
// deadline every write returns os.ErrDeadlineExceeded at once and writes
// nothing; the deadline is cleared right after the update. Nothing depends on
// timing. That no byte of the failed update reached the pipe is verified in
// every case (a harness error otherwise).
//
// Oracle. "leaves on screen, for every line, exactly the text most recently
// written to that line": the statement cannot demand that a failed write
// appears, so
//   - after the updates that follow the failed one, every line shows its latest
//     text, except that the line of the failed update may still show what it
//     showed before (its text as if that update had not been made);
//   - after the repaint every line shows exactly its latest text (the repaint
//     converges: a transient failure loses that update's bytes, nothing else);
//   - "on close parks the cursor below the last line with the cursor visible
//     again"; no panic, nothing outside the emulated subset, the cursor never
//     moves above the first row.
//
// PARTIAL faults (Case.Room = R+1 > 0): stdout is a non-blocking pipe of exactly
// one page that the Go runtime does not poll (the descriptor was switched to
// O_NONBLOCK behind the os.File, as another process sharing the terminal's open
// file description can do). Before the chosen update the pipe is filled up to R
// bytes of room. Linux pipe semantics make the rest deterministic: a write of at
// most PIPE_BUF bytes is atomic, it either fits into the room that is left or
// fails with EAGAIN writing nothing, and room is not reclaimed before the pipe
// is drained completely. So of the update's writes, in order, each one that
// still fits succeeds and each one that does not fails: with R = 0 all fail,
// with R = the bytes of the cursor movement the movement arrives and the text
// and the erase fail, with a little more the erase arrives without the text,
// and so on. Every R below the number of bytes the update writes unfaulted
// (measured by a dry run of the same case) is executed. After a partially
// written update nothing is demanded of that update's own line before the
// repaint; everything else is judged as above.
//
// Fault classes (part of the signature): the failed update is addressed to the
// line the cursor is on (it consists of CR, text, erase: no cursor movement is
// lost) - "cursor-line-update"; or it has to move the cursor first (line feeds
// or cursor-up sequences are lost together with the text) -
// "cursor-moving-update".

import (
	"fmt"
	"os"
	"sort"
	"strings"
	"syscall"
	"time"

	"rare/pkg/multiterm"
)

func (c *capture) failWrites() {
	if err := c.pw.SetWriteDeadline(time.Unix(1, 0)); err != nil {
		panic("harness: SetWriteDeadline on the capture pipe: " + err.Error())
	}
}

func (c *capture) okWrites() {
	if err := c.pw.SetWriteDeadline(time.Time{}); err != nil {
		panic("harness: clearing the write deadline: " + err.Error())
	}
}

// faultSink is a stand-in for os.Stdout whose writes can be made to fail.
type faultSink interface {
	begin()
	end()
	mark() []byte   // everything that arrived since the previous mark
	arm(room int)   // from now on writes fail: all of them (room 0) / those that do not fit into room bytes
	disarm() []byte // writes succeed again; returns what arrived while armed
	reset()         // after a panic of the code under test: writes succeed, nothing pending
	partial() bool  // can let a part of an update through
}

// the deadline mechanism on the ordinary capture pipe: all writes fail
func (c *capture) arm(room int) {
	if room != 0 {
		panic("harness: the deadline mechanism cannot let a part of an update through")
	}
	c.failWrites()
}
func (c *capture) disarm() []byte { c.okWrites(); return c.mark() }
func (c *capture) reset()         { c.okWrites(); c.mark() }
func (c *capture) partial() bool  { return false }

// roomCapture: a one-page pipe, non-blocking at both ends, unknown to the Go
// poller (the os.File is created while the descriptor is still blocking).
type roomCapture struct {
	rfd, wfd int
	page     int
	w        *os.File
	saved    *os.File
	filler   int
	buf      []byte
}

// newRoomCapture returns nil when the kernel does not give a one-page pipe.
func newRoomCapture() *roomCapture {
	var p [2]int
	if err := syscall.Pipe(p[:]); err != nil {
		panic("harness: pipe: " + err.Error())
	}
	const fSetPipeSz = 1031
	page := os.Getpagesize()
	sz, _, errno := syscall.Syscall(syscall.SYS_FCNTL, uintptr(p[1]), fSetPipeSz, uintptr(page))
	if errno != 0 || int(sz) != page || page > 4096 { // PIPE_BUF is 4096: larger writes are not atomic
		syscall.Close(p[0])
		syscall.Close(p[1])
		return nil
	}
	c := &roomCapture{rfd: p[0], wfd: p[1], page: page, buf: make([]byte, 2*page)}
	c.w = os.NewFile(uintptr(p[1]), "stdout-nonblocking-pipe")
	if err := syscall.SetNonblock(p[1], true); err != nil {
		panic("harness: " + err.Error())
	}
	if err := syscall.SetNonblock(p[0], true); err != nil {
		panic("harness: " + err.Error())
	}
	return c
}

func (c *roomCapture) begin() { c.saved = os.Stdout; os.Stdout = c.w }
func (c *roomCapture) end()   { os.Stdout = c.saved }
func (c *roomCapture) close() { c.w.Close(); syscall.Close(c.rfd) }

// mark drains the pipe (the writers are synchronous: what was written is there).
func (c *roomCapture) mark() []byte {
	var out []byte
	for {
		n, err := syscall.Read(c.rfd, c.buf)
		if n > 0 {
			out = append(out, c.buf[:n]...)
			continue
		}
		if err == syscall.EAGAIN {
			return out
		}
		if err == syscall.EINTR {
			continue
		}
		panic("harness: reading the one-page pipe: " + fmtErr(err))
	}
}

func fmtErr(err error) string {
	if err == nil {
		return "end of file"
	}
	return err.Error()
}

func (c *roomCapture) arm(room int) {
	if len(c.mark()) != 0 {
		panic("harness: the one-page pipe was not empty before the fault")
	}
	if room < 0 || room > c.page {
		panic("harness: room")
	}
	c.filler = c.page - room
	if c.filler > 0 {
		n, err := syscall.Write(c.wfd, make([]byte, c.filler))
		if err != nil || n != c.filler {
			panic("harness: filling the one-page pipe: " + fmtErr(err))
		}
	}
}

func (c *roomCapture) disarm() []byte {
	all := c.mark()
	if len(all) < c.filler {
		panic("harness: filler bytes lost")
	}
	for _, b := range all[:c.filler] {
		if b != 0 {
			panic("harness: filler bytes damaged")
		}
	}
	got := all[c.filler:]
	if len(got) > c.page-c.filler {
		panic("harness: more bytes arrived than there was room for")
	}
	c.filler = 0
	return got
}

func (c *roomCapture) reset()        { c.mark(); c.filler = 0 }
func (c *roomCapture) partial() bool { return true }

var (
	faultLines = []int{0, 1, 3}
	faultTexts = []string{"", "a", "abcdef", "\x1b[31mab\x1b[0m"}
)

func faultCfgs(quick bool) []cfg {
	if quick {
		return []cfg{{3, true}, {80, false}}
	}
	return []cfg{{1, true}, {3, true}, {5, true}, {80, false}}
}

func faultMaxLen(quick bool) int {
	if quick {
		return 4
	}
	return 5
}

// roomMaxLen: the sequence length of the partial faults (every position x every
// amount of room).
func roomMaxLen(quick bool) int {
	if quick {
		return 3
	}
	return 4
}

// faultGenSizes: numbers of lines of the generated shapes run with a fault at
// every position.
func faultGenSizes(quick bool) []int {
	if quick {
		return []int{1, 2, 3, 5, 9}
	}
	return []int{1, 2, 3, 4, 5, 6, 7, 8, 9, 17, 33}
}

// faultClass: does the failed update have to move the cursor? The writer's
// cursor is on the line of the previous update (line 0 before the first one).
func faultClass(seq []Upd, k int) string {
	cur := 0
	if k > 0 {
		cur = seq[k-1].Line
	}
	if seq[k].Line == cur {
		return "cursor-line-update"
	}
	return "cursor-moving-update"
}

// checkRowsAlt is checkScreen's row comparison with one exception: row altLine
// may also show what the model alt says (the text of that line as if the failed
// update had not been made); row skipLine is not judged at all.
func checkRowsAlt(res *result, who string, e *emu, m, alt model, altLine, skipLine int, cut int, stage string) {
	rows := e.usedRows()
	if m.maxLine+1 > rows {
		rows = m.maxLine + 1
	}
	for i := 0; i < rows; i++ {
		got, want := e.line(i), m.expectLine(i, cut)
		if got == want || i == altLine && got == alt.expectLine(i, cut) || i == skipLine {
			continue
		}
		_, written := m.latest[i]
		switch {
		case !written:
			res.fail("C20/"+who+"/unwritten-line-has-content", "%s: row %d was never written but shows %q", stage, i, got)
		case want != "" && strings.HasPrefix(got, want) || want == "" && got != "":
			res.fail("C20/"+who+"/stale-remainder", "%s: row %d shows %q, want exactly %q (earlier longer text not fully erased)", stage, i, got, want)
		default:
			res.fail("C20/"+who+"/wrong-line-content", "%s: row %d shows %q, want %q", stage, i, got, want)
		}
	}
}

func runFault(cap faultSink, c Case) (res result) {
	seq := seqOf(c)
	k := c.FaultAt - 1
	if k < 0 || k >= len(seq) {
		panic("harness: fault position outside the sequence")
	}
	m := buildModel(seq)
	without := buildModel(append(append([]Upd{}, seq[:k]...), seq[k+1:]...))
	class := faultClass(seq, k)
	cut, emuWidth := 0, 0
	if c.Trim {
		cut, emuWidth = c.Width, c.Width
	}
	var lines []int
	for l := range m.latest {
		lines = append(lines, l)
	}
	sort.Ints(lines)

	room := 0
	if c.Room > 0 {
		room = c.Room - 1
		if !cap.partial() {
			panic("harness: a partial fault needs the one-page pipe")
		}
	}
	var tmp result // findings under the plain signatures, re-filed below
	var before, failed, rest, repaint, post []byte
	func() {
		setGlobals(c.Width, c.Trim)
		cap.begin()
		defer cap.end()
		defer func() {
			if p := recover(); p != nil {
				if s, ok := p.(string); ok && strings.HasPrefix(s, "harness:") {
					panic(p)
				}
				cap.reset()
				tmp.fail("C20/termwriter/panic", "panic: %v", p)
			}
		}()
		t := multiterm.New()
		// marked after every update: the one-page pipe holds one update at a time
		for _, u := range seq[:k] {
			t.WriteForLine(u.Line, u.Text)
			before = append(before, cap.mark()...)
		}
		cap.arm(room)
		t.WriteForLine(seq[k].Line, seq[k].Text)
		failed = cap.disarm()
		if c.DryRun {
			return
		}
		for _, u := range seq[k+1:] {
			t.WriteForLine(u.Line, u.Text)
			rest = append(rest, cap.mark()...)
		}
		for _, l := range lines {
			t.WriteForLine(l, m.latest[l])
			repaint = append(repaint, cap.mark()...)
		}
		t.Close()
		post = cap.mark()
	}()
	if c.DryRun {
		res.dryBytes = len(failed)
		return
	}
	if room == 0 && len(failed) != 0 {
		panic("harness: the injected write fault let bytes through")
	}
	if len(tmp.findings) == 0 {
		e := newEmu(emuWidth)
		e.feed(before)
		e.feed(failed)
		e.feed(rest)
		if len(failed) == 0 {
			checkRowsAlt(&tmp, "termwriter", e, m, without, seq[k].Line, -1, cut, "after the updates that follow the failed one")
		} else {
			// a part of the update arrived: its own line may show anything until
			// it is rewritten
			checkRowsAlt(&tmp, "termwriter", e, m, m, -1, seq[k].Line, cut, "after the updates that follow the partially written one")
		}
		e.feed(repaint)
		res.preHash = e.hash()
		checkScreen(&tmp, "termwriter", e, m, cut, "after the repaint that follows the failed update")
		e.feed(post)
		res.postHash = e.hash()
		checkScreen(&tmp, "termwriter", e, m, cut, "after Close")
		if e.r != m.maxLine+1 {
			tmp.fail("C20/termwriter/cursor-not-below-last-line", "after Close the cursor is on row %d, the last line is row %d (want row %d)", e.r, m.maxLine, m.maxLine+1)
		}
		if e.hidden {
			tmp.fail("C20/termwriter/cursor-left-hidden", "after Close the cursor is still hidden")
		}
	}
	// Signatures: C20/termwriter/write-fault/<class>/<failure>. When cursor
	// movement was lost, a screen that is shifted shows up as wrong rows, stale
	// rows, rows that were never written, a cursor-up past the top and a wrongly
	// parked cursor alike: one class, "display-not-restored".
	for _, f := range tmp.findings {
		base := strings.TrimPrefix(f.sig, "C20/termwriter/")
		if class == "cursor-moving-update" {
			switch base {
			case "wrong-line-content", "stale-remainder", "unwritten-line-has-content", "cursor-not-below-last-line", "cursor-up-past-top", "wraps-into-next-line":
				base = "display-not-restored"
			}
		}
		how := "failed as a whole (no byte reached the terminal)"
		if c.Room > 0 {
			how = fmt.Sprintf("was written to a non-blocking stdout with room for %d bytes (writes that did not fit failed with EAGAIN; %d bytes %q arrived)", room, len(failed), failed)
		}
		res.fail("C20/termwriter/write-fault/"+class+"/"+base, "update %d of %d (line %d) %s, the later updates and one full repaint were written normally. %s", k+1, len(seq), seq[k].Line, how, f.detail)
	}
	res.nontrivial = len(seq) >= 2
	return
}

// roomUnits enumerates the units of the partial faults: (sequence, position,
// configuration); the amounts of room are enumerated per unit by the worker
// (they depend on the number of bytes the update writes). f returns false to stop.
func roomUnits(quick bool, f func(c Case) bool) {
	type sym struct{ l, t int }
	var alphabet []sym
	for _, l := range faultLines {
		for t := range faultTexts {
			alphabet = append(alphabet, sym{l, t})
		}
	}
	for _, cf := range faultCfgs(quick) {
		for length := 1; length <= roomMaxLen(quick); length++ {
			cur := make([]int, length)
			for {
				seq := make([]Upd, length)
				for i, a := range cur {
					seq[i] = Upd{alphabet[a].l, faultTexts[alphabet[a].t]}
				}
				for at := 1; at <= length; at++ {
					if !f(Case{Kind: "fault", Width: cf.width, Trim: cf.trim, Seq: seq, FaultAt: at}) {
						return
					}
				}
				i := length - 1
				for ; i >= 0; i-- {
					cur[i]++
					if cur[i] < len(alphabet) {
						break
					}
					cur[i] = 0
				}
				if i < 0 {
					break
				}
			}
		}
		for _, n := range []int{2, 3, 5} {
			for _, shape := range lineShapes {
				for at := 1; at <= len(genSeq(shape, n, 0)); at++ {
					if !f(Case{Kind: "fault", Shape: shape, N: n, Width: cf.width, Trim: cf.trim, FaultAt: at}) {
						return
					}
				}
			}
		}
	}
}

// faultUnits enumerates the cases of the fault dimension in a fixed order; f
// returns false to stop.
func faultUnits(quick bool, f func(c Case) bool) {
	type sym struct{ l, t int }
	var alphabet []sym
	for _, l := range faultLines {
		for t := range faultTexts {
			alphabet = append(alphabet, sym{l, t})
		}
	}
	for _, cf := range faultCfgs(quick) {
		for length := 1; length <= faultMaxLen(quick); length++ {
			cur := make([]int, length)
			for {
				seq := make([]Upd, length)
				for i, a := range cur {
					seq[i] = Upd{alphabet[a].l, faultTexts[alphabet[a].t]}
				}
				for at := 1; at <= length; at++ {
					if !f(Case{Kind: "fault", Width: cf.width, Trim: cf.trim, Seq: seq, FaultAt: at}) {
						return
					}
				}
				i := length - 1
				for ; i >= 0; i-- {
					cur[i]++
					if cur[i] < len(alphabet) {
						break
					}
					cur[i] = 0
				}
				if i < 0 {
					break
				}
			}
		}
		// more lines: the generated shapes, a fault at every position
		for _, n := range faultGenSizes(quick) {
			for _, shape := range lineShapes {
				for at := 1; at <= len(genSeq(shape, n, 0)); at++ {
					if !f(Case{Kind: "fault", Shape: shape, N: n, Width: cf.width, Trim: cf.trim, FaultAt: at}) {
						return
					}
				}
			}
		}
	}
}
