package main

// Reference VT100-subset emulator and reference model for C20. Imports nothing
// from rare.
//
// Subset: printable runes (a byte that is not part of a valid UTF-8 sequence is
// one replacement glyph U+FFFD, one column), CR, LF (pure line feed, column kept), CSI n A
// (cursor up, clamped at the first row), CSI 0 K / CSI K (erase from the
// cursor to the end of the row), CSI ?25l / CSI ?25h (cursor hidden / shown),
// SGR sequences (CSI ... m) as zero-width no-ops. Anything else is recorded as
// "unknown" and makes the oracle fail, so the emulator can never silently
// accept output it does not understand.
//
// The screen has unbounded rows (terminals that scroll are not covered). With
// width > 0 the right margin is modelled: a printable written when the cursor
// is already past the last column wraps to the next row (and is recorded), a
// cursor resting just past the last column is the "pending wrap" position;
// erase-to-end-of-line there erases nothing (assumption, see main.go).
// width == 0 means "unbounded" and is used when trimming is off.

import (
	"hash/fnv"
	"strings"
	"unicode/utf8"
)

const blank rune = 0 // a never written or erased cell

type emu struct {
	width  int
	rows   [][]rune
	r, c   int
	hidden bool

	wrapped   bool   // a printable wrapped past the right margin into the next row
	aboveTop  bool   // a cursor-up tried to leave the screen at the top
	malformed string // first malformed/unknown control or escape sequence
	printed   int    // printable runes written
}

func newEmu(width int) *emu { return &emu{width: width} }

func (e *emu) row(i int) []rune {
	for len(e.rows) <= i {
		e.rows = append(e.rows, nil)
	}
	return e.rows[i]
}

func (e *emu) put(ch rune) {
	if e.width > 0 && e.c >= e.width {
		e.wrapped = true
		e.r++
		e.c = 0
	}
	row := e.row(e.r)
	for len(row) <= e.c {
		row = append(row, blank)
	}
	row[e.c] = ch
	e.rows[e.r] = row
	e.c++
	e.printed++
}

func (e *emu) bad(what string) {
	if e.malformed == "" {
		e.malformed = what
	}
}

// feed interprets a byte stream.
func (e *emu) feed(b []byte) {
	i := 0
	for i < len(b) {
		ch, n := utf8.DecodeRune(b[i:])
		if ch == utf8.RuneError && n <= 1 {
			// a byte that is not part of a valid UTF-8 sequence: the terminal
			// shows ONE replacement glyph for it, one column (see Assumptions)
			e.put(utf8.RuneError)
			i++
			continue
		}
		i += n
		switch {
		case ch == '\r':
			e.c = 0
		case ch == '\n':
			e.r++
			e.row(e.r)
		case ch == 0x1b:
			// CSI only
			if i >= len(b) || b[i] != '[' {
				e.bad("escape-not-csi")
				continue
			}
			i++
			start := i
			for i < len(b) && (b[i] >= '0' && b[i] <= '9' || b[i] == ';' || b[i] == '?') {
				i++
			}
			if i >= len(b) {
				e.bad("unterminated-escape")
				continue
			}
			params := string(b[start:i])
			final := b[i]
			if final < 0x40 || final > 0x7e {
				// e.g. an ESC inside a half-written colour sequence
				e.bad("escape-interrupted")
				continue // do not consume: the byte is interpreted on its own
			}
			i++
			switch final {
			case 'm':
				if strings.Contains(params, "?") {
					e.bad("bad-sgr")
				}
			case 'A':
				n := 1
				if params != "" {
					n = atoi(params)
					if n < 0 {
						e.bad("bad-cuu")
						n = 0
					}
				}
				if n == 0 {
					n = 1
				}
				e.r -= n
				if e.r < 0 {
					e.aboveTop = true
					e.r = 0
				}
			case 'K':
				if params != "" && params != "0" {
					e.bad("unsupported-erase")
					continue
				}
				row := e.row(e.r)
				for k := e.c; k < len(row); k++ {
					row[k] = blank
				}
			case 'l', 'h':
				if params != "?25" {
					e.bad("unsupported-mode")
					continue
				}
				e.hidden = final == 'l'
			default:
				e.bad("unsupported-csi-" + string(rune(final)))
			}
		case ch < 0x20 || ch == 0x7f:
			e.bad("control-char")
		default:
			e.put(ch)
		}
	}
}

func atoi(s string) int {
	n := 0
	for _, c := range s {
		if c < '0' || c > '9' {
			return -1
		}
		n = n*10 + int(c-'0')
		if n > 1<<20 {
			return 1 << 20
		}
	}
	return n
}

// line returns what row i shows: cells up to the last non-blank one; blank
// cells in between are kept as NUL so that a hole never compares equal to text.
func (e *emu) line(i int) string {
	if i >= len(e.rows) {
		return ""
	}
	row := e.rows[i]
	n := len(row)
	for n > 0 && row[n-1] == blank {
		n--
	}
	return string(row[:n])
}

func (e *emu) usedRows() int {
	n := len(e.rows)
	for n > 0 && e.line(n-1) == "" {
		n--
	}
	return n
}

func (e *emu) hash() uint64 {
	h := fnv.New64a()
	var buf [4]byte
	wr := func(v int) {
		buf[0], buf[1], buf[2], buf[3] = byte(v), byte(v>>8), byte(v>>16), byte(v>>24)
		h.Write(buf[:])
	}
	wr(e.width)
	wr(e.r)
	wr(e.c)
	if e.hidden {
		wr(1)
	} else {
		wr(0)
	}
	n := e.usedRows()
	wr(n)
	for i := 0; i < n; i++ {
		h.Write([]byte(e.line(i)))
		h.Write([]byte{0xff})
	}
	return h.Sum64()
}

// ---- reference model of the texts ----

// sgrSplit splits a text into tokens: complete SGR sequences (ESC [ digits/; m)
// and single visible runes. ok=false when the text contains an escape that is
// not a complete SGR sequence (such texts are not generated).
type token struct {
	s       string
	visible bool
}

func tokens(s string) (out []token, ok bool) {
	ok = true
	for len(s) > 0 {
		if s[0] == 0x1b {
			j := 1
			if j < len(s) && s[j] == '[' {
				j++
				for j < len(s) && (s[j] >= '0' && s[j] <= '9' || s[j] == ';') {
					j++
				}
				if j < len(s) && s[j] == 'm' {
					out = append(out, token{s[:j+1], false})
					s = s[j+1:]
					continue
				}
			}
			ok = false
			out = append(out, token{s[:1], false})
			s = s[1:]
			continue
		}
		_, n := utf8.DecodeRuneInString(s)
		out = append(out, token{s[:n], true})
		s = s[n:]
	}
	return
}

// visibleOf returns the visible runes of a text (SGR sequences removed). A byte
// that is not part of a valid UTF-8 sequence IN THE TEXT (an escape sequence
// between two bytes interrupts a multi-byte sequence, for a terminal as for
// Go's decoding) is one replacement glyph: it is returned as U+FFFD, so the
// result is always valid UTF-8 with one rune per column.
func visibleOf(s string) string {
	toks, _ := tokens(s)
	var sb strings.Builder
	for _, t := range toks {
		if !t.visible {
			continue
		}
		if len(t.s) == 1 && t.s[0] >= 0x80 {
			sb.WriteRune(utf8.RuneError)
			continue
		}
		sb.WriteString(t.s)
	}
	return sb.String()
}

// cutVisible returns the first w visible runes (all when w <= 0).
// Statement: "A line longer than the terminal width is cut to a prefix that
// [does not exceed] the width in visible characters".
func cutVisible(vis string, w int) string {
	if w <= 0 {
		return vis
	}
	n := 0
	for i := range vis {
		if n == w {
			return vis[:i]
		}
		n++
	}
	return vis
}

// endsInsideSGR reports whether the byte string stops in the middle of an
// escape sequence.
func endsInsideSGR(s string) bool {
	_, ok := tokens(s)
	return !ok
}

// ---- text that is not valid UTF-8 ----

// norm replaces every byte that is not part of a valid UTF-8 sequence by U+FFFD
// (one per byte): what a terminal shows for it. The writers may pass such a
// byte through or substitute U+FFFD for it; the visible result is the same, so
// visible texts are compared after norm.
func norm(s string) string {
	if utf8.ValidString(s) {
		return s
	}
	var sb strings.Builder
	for len(s) > 0 {
		r, n := utf8.DecodeRuneInString(s)
		if r == utf8.RuneError && n <= 1 {
			sb.WriteRune(utf8.RuneError)
		} else {
			sb.WriteString(s[:n])
		}
		s = s[n:]
	}
	return sb.String()
}

// isCutOf: "cut to a prefix": out is a prefix of in, byte for byte, or with
// U+FFFD standing for a byte of in that is not part of a valid UTF-8 sequence
// (each such byte either kept or replaced).
func isCutOf(in, out string) bool {
	if strings.HasPrefix(in, out) {
		return true
	}
	i, j := 0, 0
	for j < len(out) {
		if i >= len(in) {
			return false
		}
		r, n := utf8.DecodeRuneInString(in[i:])
		if r == utf8.RuneError && n <= 1 {
			switch {
			case out[j] == in[i]:
				j++
			case strings.HasPrefix(out[j:], "\uFFFD"):
				j += len("\uFFFD")
			default:
				return false
			}
			i++
			continue
		}
		if !strings.HasPrefix(out[j:], in[i:i+n]) {
			return false
		}
		i += n
		j += n
	}
	return true
}
