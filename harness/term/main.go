// Harness term decides C20: the in-place terminal writer (multiterm.TermWriter)
// leaves on screen exactly the latest text of every line, parks the cursor
// below the last line and shows it again on Close; the buffered writer prints
// the same final lines top to bottom; width trimming cuts to a prefix that
// neither exceeds the width in visible characters nor ends inside a colour
// escape sequence.
//
// Every update sequence up to a length over a small set of (line, text) pairs
// followed by Close is executed on the real TermWriter with os.Stdout swapped
// for a pipe; the captured bytes are interpreted by the reference VT100-subset
// emulator of emu.go and compared with a reference model (last write wins).
package main

import (
	"bytes"
	"encoding/hex"
	"encoding/json"
	"fmt"
	"os"
	"strings"
	"syscall"
	"time"
	"unicode/utf8"

	"rare/pkg/multiterm"
	"verif/runner"
)

type Upd struct {
	Line int    `json:"line"`
	Text string `json:"text"`
}

type Case struct {
	Kind  string `json:"kind"` // seq | trimline | trimseq (carry.go: Seq holds the texts of successive WriteLineNoWrap calls) | gen | fault
	Width int    `json:"width"`
	Trim  bool   `json:"trim"`
	Seq   []Upd  `json:"seq,omitempty"`
	Text  string `json:"text,omitempty"`
	// Fam marks the cases of the size sweeps and history shapes ("size",
	// "history"): their signatures end in /size-family, /history-family.
	Fam string `json:"fam,omitempty"`
	// kind gen: the update sequence is genSeq(Shape, N, K) (sweep.go)
	Shape string `json:"shape,omitempty"`
	N     int    `json:"n,omitempty"`
	K     int    `json:"k,omitempty"`
	// After: updates applied to the in-place writer after Close, followed by a
	// second Close. The statement is silent about them: only "no panic" is judged.
	After []Upd `json:"after,omitempty"`
	// kind fault (fault.go): every write to stdout made by update number FaultAt
	// (1-based) of the sequence (Seq, or genSeq(Shape, N, K) when Shape is set)
	// fails; afterwards every line is rewritten once and the writer is closed.
	FaultAt int `json:"fault_at,omitempty"`
	// Room > 0: a PARTIAL fault: the update is written to a non-blocking one-page
	// pipe with Room-1 bytes of room (writes that do not fit fail with EAGAIN);
	// Room == 0: every write of the update fails (expired write deadline).
	Room int `json:"room,omitempty"`
	// DryRun (never stored): measure the bytes the update writes when all the
	// room of the page is there.
	DryRun bool `json:"-"`
}

// Texts may hold bytes that are not valid UTF-8, which encoding/json would
// silently replace by U+FFFD: such texts are additionally stored as hex
// (text_hex), and read back from there, so that a replay re-executes exactly
// the case.
type updPlain Upd

type updWire struct {
	updPlain
	TextHex string `json:"text_hex,omitempty"`
}

func (u Upd) MarshalJSON() ([]byte, error) {
	a := updWire{updPlain: updPlain(u)}
	if !utf8.ValidString(u.Text) {
		a.TextHex = hex.EncodeToString([]byte(u.Text))
	}
	return json.Marshal(a)
}

func (u *Upd) UnmarshalJSON(b []byte) error {
	var a updWire
	if err := json.Unmarshal(b, &a); err != nil {
		return err
	}
	*u = Upd(a.updPlain)
	if a.TextHex != "" {
		raw, err := hex.DecodeString(a.TextHex)
		if err != nil {
			return err
		}
		u.Text = string(raw)
	}
	return nil
}

type casePlain Case

type caseWire struct {
	casePlain
	TextHex string `json:"text_hex,omitempty"`
}

func (c Case) MarshalJSON() ([]byte, error) {
	a := caseWire{casePlain: casePlain(c)}
	if !utf8.ValidString(c.Text) {
		a.TextHex = hex.EncodeToString([]byte(c.Text))
	}
	return json.Marshal(a)
}

func (c *Case) UnmarshalJSON(b []byte) error {
	var a caseWire
	if err := json.Unmarshal(b, &a); err != nil {
		return err
	}
	*c = Case(a.casePlain)
	if a.TextHex != "" {
		raw, err := hex.DecodeString(a.TextHex)
		if err != nil {
			return err
		}
		c.Text = string(raw)
	}
	return nil
}

// seqOf returns the update sequence of a seq or gen case.
func seqOf(c Case) []Upd {
	if c.Kind == "gen" || c.Kind == "fault" && c.Shape != "" {
		return genSeq(c.Shape, c.N, c.K)
	}
	return c.Seq
}

// ---------------------------------------------------------------- capture

type capture struct {
	pr, pw *os.File
	saved  *os.File
	buf    []byte
	big    bool
}

func newCapture() *capture {
	pr, pw, err := os.Pipe()
	if err != nil {
		panic(err)
	}
	c := &capture{pr: pr, pw: pw, buf: make([]byte, 0, 1<<16)}
	// the writers are synchronous and nobody reads before mark(): make the pipe
	// as large as an unprivileged process may (1 MiB); big reports whether that
	// worked (otherwise the largest sweeps are left out and the run is capped)
	const fSetPipeSz = 1031
	if sz, _, errno := syscall.Syscall(syscall.SYS_FCNTL, pw.Fd(), fSetPipeSz, 1<<20); errno == 0 && sz >= 1<<20 {
		c.big = true
	}
	return c
}

func (c *capture) begin() { c.saved = os.Stdout; os.Stdout = c.pw }
func (c *capture) end()   { os.Stdout = c.saved }

// mark returns everything written to the pipe since the previous mark. The
// texts never contain NUL, which is used as the end marker.
func (c *capture) mark() []byte {
	c.pw.Write([]byte{0})
	c.buf = c.buf[:0]
	var tmp [4096]byte
	for {
		n, err := c.pr.Read(tmp[:])
		if n > 0 {
			c.buf = append(c.buf, tmp[:n]...)
			if c.buf[len(c.buf)-1] == 0 {
				break
			}
		}
		if err != nil {
			panic("harness: pipe read: " + err.Error())
		}
	}
	out := make([]byte, len(c.buf)-1)
	copy(out, c.buf)
	return out
}

func (c *capture) close() { c.pr.Close(); c.pw.Close() }

// ---------------------------------------------------------------- oracle

type finding struct{ sig, detail string }

type result struct {
	findings   []finding
	preHash    uint64
	postHash   uint64
	nontrivial bool
	outcome    string
	dryBytes   int // dry run of a fault case: bytes written by the chosen update
}

func (r *result) fail(sig, format string, a ...any) {
	for _, f := range r.findings {
		if f.sig == sig {
			return
		}
	}
	r.findings = append(r.findings, finding{sig, fmt.Sprintf(format, a...)})
}

// reference model: last write wins.
type model struct {
	latest  map[int]string
	maxLine int // highest line index ever written (0 when nothing was written)
	any     bool
	// override (call-history family): the row expected for a line whose latest
	// text ends inside an incomplete colour sequence - what the bytes that a
	// fresh process writes for that text show (the statement does not settle it)
	override map[int]string
}

func buildModel(seq []Upd) model {
	m := model{latest: map[int]string{}}
	for _, u := range seq {
		m.latest[u.Line] = u.Text
		if u.Line > m.maxLine {
			m.maxLine = u.Line
		}
		m.any = true
	}
	return m
}

// expectLine: "for every line, exactly the text most recently written to that
// line"; "A line longer than the terminal width is cut to a prefix that
// [does not] exceed the width in visible characters".
func (m model) expectLine(i int, cut int) string {
	if want, ok := m.override[i]; ok {
		return want
	}
	return norm(cutVisible(visibleOf(m.latest[i]), cut))
}

func setGlobals(width int, trim bool) {
	multiterm.VerifSetTermSize(24, width)
	multiterm.AutoTrim = trim
}

func checkScreen(res *result, who string, e *emu, m model, cut int, stage string) {
	rows := e.usedRows()
	if m.maxLine+1 > rows {
		rows = m.maxLine + 1
	}
	for i := 0; i < rows; i++ {
		got, want := e.line(i), m.expectLine(i, cut)
		if got == want {
			continue
		}
		_, written := m.latest[i]
		switch {
		case !written:
			res.fail("C20/"+who+"/unwritten-line-has-content", "%s: row %d was never written but shows %q", stage, i, got)
		case want != "" && strings.HasPrefix(got, want) || want == "" && got != "":
			res.fail("C20/"+who+"/stale-remainder", "%s: row %d shows %q, want exactly %q (earlier longer text not fully erased)", stage, i, got, want)
		default:
			res.fail("C20/"+who+"/wrong-line-content", "%s: row %d shows %q, want %q", stage, i, got, want)
		}
	}
	if e.wrapped {
		// "so an update never wraps into neighbouring lines"
		res.fail("C20/"+who+"/wraps-into-next-line", "%s: a printable was written past column %d", stage, e.width)
	}
	if e.malformed != "" {
		if e.malformed == "escape-interrupted" || e.malformed == "unterminated-escape" {
			// "nor ends inside a colour escape sequence"
			res.fail("C20/"+who+"/cut-inside-escape", "%s: output contains an escape sequence that is interrupted (%s)", stage, e.malformed)
		} else {
			res.fail("C20/"+who+"/unknown-output/"+e.malformed, "%s: output outside the emulated subset: %s", stage, e.malformed)
		}
	}
	if e.aboveTop {
		res.fail("C20/"+who+"/cursor-up-past-top", "%s: cursor moved above the first line", stage)
	}
}

func runSeq(cap *capture, c Case) (res result) {
	c.Seq = seqOf(c)
	m := buildModel(c.Seq)
	cut := 0
	emuWidth := 0
	if c.Trim {
		cut, emuWidth = c.Width, c.Width
	}
	// texts that end inside an incomplete colour sequence (call-history family):
	// the output is captured update by update, and the rows of such lines are
	// compared with what a fresh process writes for the text
	dang := hasDangling(c.Seq)
	if dang {
		m.override = map[int]string{}
		for line, text := range m.latest {
			if danglingAt(text) < 0 {
				continue
			}
			fb, ferr := freshTrim(c.Width, c.Trim, text)
			if ferr != "" {
				res.fail("C20/linetrim/panic", "a fresh process panics on the text %q alone: %s", text, ferr)
				return
			}
			m.override[line] = renderRow(fb, emuWidth)
		}
	}
	// ---- the in-place writer
	var pre, post []byte
	var chunks [][]byte
	func() {
		setGlobals(c.Width, c.Trim)
		if c.Fam == famCarry {
			scrub()
		}
		cap.begin()
		defer cap.end()
		defer func() {
			if p := recover(); p != nil {
				if s, ok := p.(string); ok && strings.HasPrefix(s, "harness:") {
					panic(p)
				}
				res.fail("C20/termwriter/panic", "panic: %v", p)
			}
		}()
		t := multiterm.New()
		for i, u := range c.Seq {
			t.WriteForLine(u.Line, u.Text)
			if dang {
				chunks = append(chunks, cap.mark())
			} else if i%32 == 31 { // keep the pipe from filling up on long sequences
				pre = append(pre, cap.mark()...)
			}
		}
		pre = append(pre, cap.mark()...)
		t.Close()
		post = cap.mark()
		if len(c.After) > 0 {
			// the statement says nothing about updates after Close: only
			// completion without a panic is demanded, the bytes are discarded
			func() {
				defer func() {
					if p := recover(); p != nil {
						res.fail("C20/termwriter/panic-after-close", "panic in an update or a second Close after Close: %v", p)
					}
				}()
				for _, u := range c.After {
					t.WriteForLine(u.Line, u.Text)
				}
				t.Close()
			}()
			cap.mark()
		}
	}()
	if len(res.findings) > 0 {
		// drain whatever a panicking run left in the pipe
		cap.mark()
		return
	}
	e := newEmu(emuWidth)
	for i, ch := range chunks {
		// an update whose own text ends inside an incomplete sequence puts that
		// sequence in front of the erase sequence: not judged (the statement does
		// not settle it); the output of every other update is
		clean := e.malformed == ""
		e.feed(ch)
		if clean && danglingAt(c.Seq[i].Text) >= 0 && (e.malformed == "escape-interrupted" || e.malformed == "unterminated-escape" || e.malformed == "escape-not-csi") {
			e.malformed = ""
		}
	}
	e.feed(pre)
	res.preHash = e.hash()
	checkScreen(&res, "termwriter", e, m, cut, "before Close")
	if m.any && !e.hidden {
		// not demanded by the statement; recorded as outcome only
		res.outcome += "cursor-visible-while-updating;"
	}
	e.feed(post)
	res.postHash = e.hash()
	checkScreen(&res, "termwriter", e, m, cut, "after Close")
	// "on close parks the cursor below the last line with the cursor visible again"
	if e.r != m.maxLine+1 {
		res.fail("C20/termwriter/cursor-not-below-last-line", "after Close the cursor is on row %d, the last line is row %d (want row %d)", e.r, m.maxLine, m.maxLine+1)
	}
	if e.hidden {
		res.fail("C20/termwriter/cursor-left-hidden", "after Close the cursor is still hidden")
	}

	// ---- the buffered writer ("prints the same final lines top to bottom")
	var bufOut []byte
	func() {
		setGlobals(c.Width, c.Trim)
		if c.Fam == famCarry {
			scrub()
		}
		cap.begin()
		defer cap.end()
		defer func() {
			if p := recover(); p != nil {
				if s, ok := p.(string); ok && strings.HasPrefix(s, "harness:") {
					panic(p)
				}
				res.fail("C20/bufferedterm/panic", "panic: %v", p)
			}
		}()
		b := multiterm.NewBufferedTerm()
		for _, u := range c.Seq {
			b.WriteForLine(u.Line, u.Text)
		}
		b.Close()
	}()
	bufOut = cap.mark()
	wantLines := 0
	if m.any {
		wantLines = m.maxLine + 1
	}
	live := e
	if len(res.findings) > 0 {
		live = nil // the live screen is already wrong: do not blame the buffered writer for differing from it
	}
	checkBuffered(&res, "bufferedterm", bufOut, m, c, wantLines, live)

	// ---- the virtual terminal (line store behind the buffered writer)
	func() {
		setGlobals(c.Width, c.Trim)
		if c.Fam == famCarry {
			scrub()
		}
		defer func() {
			if p := recover(); p != nil {
				if s, ok := p.(string); ok && strings.HasPrefix(s, "harness:") {
					panic(p)
				}
				res.fail("C20/virtualterm/panic", "panic: %v", p)
			}
		}()
		v := multiterm.NewVirtualTerm()
		for _, u := range c.Seq {
			v.WriteForLine(u.Line, u.Text)
		}
		v.Close()
		if v.LineCount() != wantLines {
			res.fail("C20/virtualterm/line-count", "LineCount()=%d want %d", v.LineCount(), wantLines)
		}
		for i := 0; i < wantLines; i++ {
			if norm(v.Get(i)) != norm(m.latest[i]) {
				res.fail("C20/virtualterm/wrong-line", "Get(%d)=%q want %q", i, v.Get(i), m.latest[i])
			}
		}
		var bb bytes.Buffer
		v.WriteToOutput(&bb)
		checkBuffered(&res, "virtualterm", bb.Bytes(), m, c, wantLines, live)
	}()

	// non-trivial: at least two updates, and the history rewrites a line or
	// jumps upwards (the cursor bookkeeping is exercised)
	if len(c.Seq) >= 2 {
		seen := map[int]bool{}
		for i, u := range c.Seq {
			if seen[u.Line] || (i > 0 && u.Line < c.Seq[i-1].Line) {
				res.nontrivial = true
			}
			seen[u.Line] = true
		}
	}
	return
}

// checkBuffered: the output is the final lines top to bottom, one per row,
// each the latest text (cut to the width when trimming), equal to what the
// in-place writer left on screen.
func checkBuffered(res *result, who string, out []byte, m model, c Case, wantLines int, screen *emu) {
	s := string(out)
	var lines []string
	if s != "" {
		if !strings.HasSuffix(s, "\n") {
			res.fail("C20/"+who+"/no-final-newline", "output %q does not end with a newline", s)
			return
		}
		lines = strings.Split(s[:len(s)-1], "\n")
	}
	if len(lines) != wantLines {
		res.fail("C20/"+who+"/line-count", "printed %d lines, want %d (output %q)", len(lines), wantLines, s)
		return
	}
	for i, l := range lines {
		raw := m.latest[i]
		shown := norm(visibleOf(l))
		d := danglingAt(raw) >= 0
		if d {
			shown = norm(visibleD(l))
		}
		if !c.Trim {
			if norm(l) != norm(raw) {
				res.fail("C20/"+who+"/wrong-line", "line %d is %q, want %q", i, l, raw)
			}
		} else if d {
			// the text itself ends inside an incomplete colour sequence: only "a
			// prefix that [does not exceed] the width in visible characters"
			if !isCutOf(raw, l) {
				res.fail("C20/"+who+"/not-a-prefix", "line %d is %q, not a prefix of %q", i, l, raw)
			}
			if n := len([]rune(shown)); n > c.Width {
				res.fail("C20/"+who+"/exceeds-width", "line %d %q has %d visible runes, width %d", i, l, n, c.Width)
			}
		} else {
			if !isCutOf(raw, l) {
				res.fail("C20/"+who+"/not-a-prefix", "line %d is %q, not a prefix of %q", i, l, raw)
			}
			if endsInsideSGR(l) {
				res.fail("C20/"+who+"/cut-inside-escape", "line %d %q ends inside an escape sequence", i, l)
			}
			if got, want := shown, m.expectLine(i, c.Width); got != want {
				res.fail("C20/"+who+"/wrong-line", "line %d shows %q, want %q", i, got, want)
			}
		}
		if c.Fam == famCarry {
			// same input => same output: the line as a fresh process cuts it
			fb, ferr := freshTrim(c.Width, c.Trim, raw)
			if ferr != "" {
				res.fail("C20/linetrim/panic", "a fresh process panics on the text %q alone: %s", raw, ferr)
			} else if l != string(fb) {
				res.fail("C20/"+who+"/line-depends-on-earlier-lines", "line %d is printed as %q; a fresh process cuts the same text to %q at the same width: the result depends on the lines printed before it", i, l, fb)
			}
		}
		if got := shown; screen != nil && got != screen.line(i) {
			res.fail("C20/"+who+"/differs-from-live-screen", "line %d shows %q, the in-place writer left %q", i, got, screen.line(i))
		}
	}
}

// runTrimLine drives multiterm.WriteLineNoWrap directly.
func runTrimLine(c Case) (res result) {
	setGlobals(c.Width, c.Trim)
	var bb bytes.Buffer
	func() {
		defer func() {
			if p := recover(); p != nil {
				res.fail("C20/linetrim/panic", "panic: %v", p)
			}
		}()
		multiterm.WriteLineNoWrap(&bb, c.Text)
	}()
	if len(res.findings) > 0 {
		return
	}
	out := bb.String()
	vis := visibleOf(c.Text)
	res.nontrivial = c.Trim && len([]rune(vis)) > c.Width && (strings.Contains(c.Text, "\x1b") || !isASCII(c.Text))
	res.outcome = out
	judgeTrim(&res, c.Width, c.Trim, c.Text, out, "")
	return
}

func isASCII(s string) bool {
	for i := 0; i < len(s); i++ {
		if s[i] >= 0x80 {
			return false
		}
	}
	return true
}

// ---------------------------------------------------------------- enumeration

var (
	textsBase = []string{"", "a", "abcdef", "\x1b[31mab\x1b[0m", "éé", "abcdefghijkl"}
	linesBase = []int{0, 1, 2, 4}
	textsExt  = []string{"", "ab\x1b[33mcd\x1b[0mef", "\x1b[1m\x1b[4mxyz\x1b[0m", "✤✤✤✤", "\x1b[0m"}
	linesExt  = []int{0, 1, 3}
	trimToks  = []string{"a", "b", "é", "\x1b[31m", "\x1b[0m", "\x1b[38;5;196m"}
	// Single-column non-ASCII characters of every UTF-8 length and of several
	// Unicode categories (Zs spaces for which unicode.IsPrint is false, a letter,
	// a symbol), next to ASCII and colour escapes. Every one of them occupies
	// exactly one column (East Asian Width N/Na/A-narrow). Double-width glyphs
	// (CJK, U+3000) and control characters are deliberately NOT in the alphabet:
	// their column width depends on the terminal (see Assumptions).
	trimToksWide = []string{"a", "\u00a0", "\u2007", "\u202f", "é", "\u1e9e", "\U0001d11e", "\x1b[31m", "\x1b[0m"}
	// the same characters inside whole lines, for the update-sequence passes
	textsWide = []string{"", "a\u00a0b\u2007c\u202fd", "\x1b[31m\u00a0\u1e9e\x1b[0m\u202f\U0001d11ex", "\u2007\u2007\x1b[1m\u00a0\u00a0\x1b[0m", "\U0001d11e\u1e9eé"}
	linesWide = []int{0, 1, 3}
	// Text that is NOT valid UTF-8 (Latin-1 / CP1252 log lines, truncated
	// multi-byte sequences). Every byte that is not part of a valid sequence is
	// one column (see Assumptions). Tokens: a lone continuation byte, lone lead
	// bytes of a 2-, 3-, 4-byte sequence, a truncated 3-byte (E2 80) and 4-byte
	// (F0 9D 84) sequence, 0xFF, next to ASCII, a valid 2-byte letter and colour
	// escapes. Concatenations can form the valid characters U+00C0 (C3 80),
	// U+2000 (E2 80 80) and U+1D100 (F0 9D 84 80): single-column ones.
	trimToksInvalid = []string{"a", "\x80", "\xc3", "\xe2", "\xf0", "\xe2\x80", "\xf0\x9d\x84", "\xff", "é", "\x1b[31m", "\x1b[0m"}
	// whole lines with such bytes, for the update-sequence passes: at the end, in
	// the middle, directly before and after an escape, runs of them
	textsInvalid = []string{"", "caf\xe9", "a\x80b\xc3c\xe2\x80d\xff", "\x1b[31m\xa0\xe9\x1b[0m\xf0\x9d\x84x", "\xe9\xe9\x1b[1m\xe9\xe9\x1b[0m\xe9"}
	linesInvalid = []int{0, 1, 3}
)

type cfg struct {
	width int
	trim  bool
}

type pass struct {
	name   string
	lines  []int
	texts  []string
	maxLen int
	cfgs   []cfg
}

func passes(quick bool) []pass {
	base := []cfg{{1, true}, {3, true}, {5, true}, {80, true}, {80, false}}
	ext := []cfg{{2, true}, {4, true}, {6, true}, {4, false}}
	wide := []cfg{{1, true}, {2, true}, {3, true}, {5, true}, {7, true}, {3, false}}
	invalid := []cfg{{1, true}, {2, true}, {3, true}, {4, true}, {5, true}, {7, true}, {3, false}}
	if quick {
		return []pass{{"base", linesBase, textsBase, 4, base}, {"ext", linesExt, textsExt, 3, ext}, {"wide", linesWide, textsWide, 3, wide}, {"invalid-utf8", linesInvalid, textsInvalid, 3, invalid}}
	}
	return []pass{{"base", linesBase, textsBase, 5, base}, {"ext", linesExt, textsExt, 4, ext}, {"wide", linesWide, textsWide, 4, wide}, {"invalid-utf8", linesInvalid, textsInvalid, 4, invalid}}
}

// trimPass: one token alphabet for the WriteLineNoWrap pass and the maximum
// number of tokens concatenated.
type trimPass struct {
	name   string
	toks   []string
	maxLen int
}

func trimPasses(quick bool) []trimPass {
	if quick {
		return []trimPass{{"ascii", trimToks, 5}, {"wide", trimToksWide, 5}, {"invalid-utf8", trimToksInvalid, 4}}
	}
	return []trimPass{{"ascii", trimToks, 7}, {"wide", trimToksWide, 6}, {"invalid-utf8", trimToksInvalid, 5}}
}

var trimWidths = []int{1, 2, 3, 4, 5, 80}

func report(w *runner.W, c Case, res result) {
	w.Eval(res.nontrivial)
	for _, f := range res.findings {
		w.Violation(famSig(c, f.sig), f.detail+"\ncase: "+describe(c), c)
	}
	if c.Kind == "trimseq" {
		w.Add("linetrim_calls_in_sequences", int64(len(c.Seq)))
	} else if c.Kind != "trimline" {
		if len(res.findings) == 0 {
			w.OutcomeHash(res.preHash)
			w.OutcomeHash(res.postHash)
		}
		w.Add("transitions", int64(len(seqOf(c))+1+len(c.After)))
	} else {
		w.Add("linetrim_cases", 1)
	}
	if c.Fam != "" {
		w.Add("cases_"+strings.ReplaceAll(c.Fam, "-", "_")+"_family", 1)
	}
	if res.nontrivial && w.WantSample() && (c.Kind == "trimline" || len(c.Seq) >= 3 && c.Fam == "") {
		w.Sample(c)
	}
}

// famSig: the signatures of the sweep families carry the family.
func famSig(c Case, sig string) string {
	if c.Fam == "" {
		return sig
	}
	return sig + "/" + c.Fam + "-family"
}

func describe(c Case) string {
	b, _ := json.Marshal(c)
	return string(b)
}

func worker(w *runner.W) {
	cap := newCapture()
	defer cap.close()
	var caseNo int64

	// development aid: VERIF_C20_ONLY=call-history runs that family alone (use
	// with -no-evidence)
	if os.Getenv("VERIF_C20_ONLY") == famCarry {
		carryFamily(w, cap, &caseNo)
		return
	}

	// pass 0: WriteLineNoWrap on every token string of every token alphabet
	for _, tp := range trimPasses(w.Quick()) {
		toks, maxTok := tp.toks, tp.maxLen
		idx := make([]int, 0, maxTok)
		var rec func() bool
		rec = func() bool {
			text := ""
			for _, k := range idx {
				text += toks[k]
			}
			for _, wd := range trimWidths {
				caseNo++
				if w.Owns(caseNo) {
					c := Case{Kind: "trimline", Width: wd, Trim: true, Text: text}
					w.SetCase(func() any { return c })
					report(w, c, runTrimLine(c))
				}
			}
			caseNo++
			if w.Owns(caseNo) {
				c := Case{Kind: "trimline", Width: 3, Trim: false, Text: text}
				w.SetCase(func() any { return c })
				report(w, c, runTrimLine(c))
			}
			if len(idx) == maxTok {
				return true
			}
			for k := range toks {
				idx = append(idx, k)
				ok := rec()
				idx = idx[:len(idx)-1]
				if !ok {
					return false
				}
			}
			return !w.Expired()
		}
		if !rec() {
			return
		}
	}

	for _, ps := range passes(w.Quick()) {
		type u struct{ l, t int }
		var alphabet []u
		for _, l := range ps.lines {
			for t := range ps.texts {
				alphabet = append(alphabet, u{l, t})
			}
		}
		for _, cf := range ps.cfgs {
			for length := 0; length <= ps.maxLen; length++ {
				cur := make([]int, length)
				for {
					caseNo++
					if w.Owns(caseNo) {
						if caseNo&0xfff == 0 && w.Expired() {
							return
						}
						seq := make([]Upd, length)
						for i, a := range cur {
							seq[i] = Upd{alphabet[a].l, ps.texts[alphabet[a].t]}
						}
						c := Case{Kind: "seq", Width: cf.width, Trim: cf.trim, Seq: seq}
						w.SetCase(func() any { return c })
						report(w, c, runSeq(cap, c))
					}
					i := length - 1
					for ; i >= 0; i-- {
						cur[i]++
						if cur[i] < len(alphabet) {
							break
						}
						cur[i] = 0
					}
					if i < 0 {
						break
					}
				}
			}
		}
	}
	if w.Expired() {
		return
	}

	// ---- SIZE sweeps and HISTORY shapes (sweep.go)
	exec := func(c Case) bool {
		caseNo++
		if !w.Owns(caseNo) {
			return true
		}
		if w.Expired() {
			return false
		}
		w.SetCase(func() any { return c })
		switch c.Kind {
		case "trimline":
			report(w, c, runTrimLine(c))
		case "fault":
			w.Add("cases_write_fault", 1)
			report(w, c, runFault(cap, c))
		default:
			report(w, c, runSeq(cap, c))
		}
		return true
	}
	sp := sweepParams(w.Quick(), cap.big)
	if !w.Quick() && !cap.big {
		w.Cap("the capture pipe could not be enlarged to 1 MiB: line-count sweep limited to 1025 lines")
	}
	// number of lines
	for _, n := range sizes(sp.maxLines) {
		for _, shape := range lineShapes {
			if shape == "zigzag" && n > 257 {
				continue // quadratic output
			}
			for _, cf := range sp.lineCfgs {
				if !exec(Case{Kind: "gen", Fam: "size", Shape: shape, N: n, Width: cf.width, Trim: cf.trim}) {
					return
				}
			}
		}
	}
	// number of updates, periodic shapes
	for _, n := range sizes(sp.maxUpdates) {
		for _, shape := range updShapes {
			for _, k := range updLines {
				for _, cf := range sp.updCfgs {
					if !exec(Case{Kind: "gen", Fam: "size", Shape: shape, N: n, K: k, Width: cf.width, Trim: cf.trim}) {
						return
					}
				}
			}
		}
	}
	// text length against the width, colour escapes around the cut
	for wd := 1; wd <= sp.maxWidth; wd++ {
		for n := 0; n <= sp.maxText; n++ {
			half := widthText(n/2, "plain", "", 0)
			for _, text := range widthTexts(wd, n) {
				if !exec(Case{Kind: "trimline", Fam: "size", Width: wd, Trim: true, Text: text}) {
					return
				}
				if !exec(Case{Kind: "seq", Fam: "size", Width: wd, Trim: true, Seq: widthSeq(text, half)}) {
					return
				}
			}
		}
	}
	// undecodable bytes placed around the cut and at the end of the line
	for _, wd := range sp.badWidths {
		for _, text := range badTexts(wd) {
			if !exec(Case{Kind: "trimline", Fam: "invalid-utf8", Width: wd, Trim: true, Text: text}) {
				return
			}
			if !exec(Case{Kind: "seq", Fam: "invalid-utf8", Width: wd, Trim: true, Seq: widthSeq(text, widthText(wd/2, "plain", "", 0))}) {
				return
			}
		}
	}
	// texts that end inside an unfinished colour sequence / multi-byte character,
	// followed by ordinary texts: call sequences and update sequences judged
	// against the model and against a fresh process (carry.go). Last of the
	// verdict families, so that state it may leave behind in a defective build
	// cannot reach the cases of the other families.
	if !carryFamily(w, cap, &caseNo) {
		return
	}
	// The families below range over dimensions the property's quantifier does
	// not have (write faults on stdout; updates after Close). A check may not
	// raise an alarm on code where the property AS STATED holds, so they are not
	// part of the C20 verdict: they run only with VERIF_C20_BEYOND=1 (used to
	// study the seeded change C20-8 and the write-fault behaviour of the
	// unchanged tree, see DESIGN.md 11.5).
	if os.Getenv("VERIF_C20_BEYOND") != "1" {
		return
	}
	// one update whose writes fail, then a full repaint and Close (fault.go)
	stopped := false
	faultUnits(w.Quick(), func(c Case) bool {
		if !exec(c) {
			stopped = true
			return false
		}
		return true
	})
	if stopped {
		return
	}
	// partial faults: one unit = (sequence, position, configuration), all amounts
	// of room inside the unit
	if rc := newRoomCapture(); rc == nil {
		w.Cap("the kernel does not provide a one-page non-blocking pipe: partial write faults not executed")
	} else {
		defer rc.close()
		roomUnits(w.Quick(), func(c Case) bool {
			caseNo++
			if !w.Owns(caseNo) {
				return true
			}
			if w.Expired() {
				stopped = true
				return false
			}
			w.SetCase(func() any { return c })
			dry := c
			dry.DryRun, dry.Room = true, rc.page+1
			total := runFault(rc, dry).dryBytes
			for room := 0; room < total; room++ {
				cr := c
				cr.Room = room + 1
				w.SetCase(func() any { return cr })
				w.Add("cases_write_fault_partial", 1)
				report(w, cr, runFault(rc, cr))
			}
			return true
		})
		if stopped {
			return
		}
	}
	// updates after Close (history): every sequence of 0..2 updates, Close,
	// every sequence of 1..2 updates, Close
	{
		var alpha []Upd
		for _, l := range []int{0, 2} {
			for _, t := range []string{"", "ab", "\x1b[31mabcdefgh\x1b[0m"} {
				alpha = append(alpha, Upd{l, t})
			}
		}
		var seqs [][]Upd
		seqs = append(seqs, nil)
		for _, a := range alpha {
			seqs = append(seqs, []Upd{a})
		}
		for _, a := range alpha {
			for _, b := range alpha {
				seqs = append(seqs, []Upd{a, b})
			}
		}
		for _, cf := range []cfg{{5, true}, {80, false}} {
			for _, before := range seqs {
				for _, after := range seqs[1:] {
					if !exec(Case{Kind: "seq", Fam: "history", Width: cf.width, Trim: cf.trim, Seq: before, After: after}) {
						return
					}
				}
			}
		}
	}
}

type sweepP struct {
	maxLines, maxUpdates int
	maxWidth, maxText    int
	lineCfgs, updCfgs    []cfg
	badWidths            []int // widths of the invalid-utf8 placement family
}

func sweepParams(quick, bigPipe bool) sweepP {
	p := sweepP{
		maxLines: 129, maxUpdates: 70, maxWidth: 40, maxText: 80,
		lineCfgs: []cfg{{80, true}, {4, true}, {80, false}},
		updCfgs:  []cfg{{3, true}, {6, true}, {80, true}, {80, false}},
	}
	for wd := 1; wd <= 16; wd++ {
		p.badWidths = append(p.badWidths, wd)
	}
	p.badWidths = append(p.badWidths, 31, 32, 33, 40)
	if !quick {
		p.badWidths = nil
		for wd := 1; wd <= 70; wd++ {
			p.badWidths = append(p.badWidths, wd)
		}
		p.badWidths = append(p.badWidths, 127, 128, 129)
		p.maxLines, p.maxUpdates, p.maxWidth, p.maxText = 4097, 1025, 70, 140
		if !bigPipe {
			p.maxLines = 1025
		}
	}
	return p
}

func replay(w *runner.W, raw json.RawMessage) {
	var c Case
	if err := json.Unmarshal(raw, &c); err != nil {
		panic(err)
	}
	var res result
	switch c.Kind {
	case "trimline":
		res = runTrimLine(c)
	case "trimseq":
		res = runTrimSeq(c)
	case "fault":
		if c.Room > 0 {
			rc := newRoomCapture()
			if rc == nil {
				panic("harness: no one-page non-blocking pipe on this kernel")
			}
			defer rc.close()
			res = runFault(rc, c)
		} else {
			cap := newCapture()
			defer cap.close()
			res = runFault(cap, c)
		}
	default:
		cap := newCapture()
		defer cap.close()
		res = runSeq(cap, c)
	}
	for _, f := range res.findings {
		w.Violation(famSig(c, f.sig), f.detail+"\ncase: "+describe(c), c)
	}
}

func q(ss []string) string {
	var out []string
	for _, s := range ss {
		out = append(out, fmt.Sprintf("%q", s))
	}
	return strings.Join(out, ",")
}

func rule(prop, tier string) string {
	quick := tier != "thorough"
	var sb strings.Builder
	sb.WriteString("model checking of the real multiterm.TermWriter (os.Stdout swapped for a pipe, bytes interpreted by a reference VT100-subset emulator): ")
	for _, ps := range passes(quick) {
		var cs []string
		for _, c := range ps.cfgs {
			cs = append(cs, fmt.Sprintf("width %d trim %v", c.width, c.trim))
		}
		fmt.Fprintf(&sb, "pass %s: ALL update sequences of length 0..%d over lines %v x texts {%s}, each followed by Close, x {%s}; ", ps.name, ps.maxLen, ps.lines, q(ps.texts), strings.Join(cs, "; "))
	}
	sb.WriteString("every sequence is also executed on BufferedTerm (captured stdout) and VirtualTerm (Get/LineCount/WriteToOutput). ")
	for _, tp := range trimPasses(quick) {
		fmt.Fprintf(&sb, "pass linetrim-%s: multiterm.WriteLineNoWrap on ALL concatenations of 0..%d tokens of {%s} x widths %v with trimming on, and width 3 with trimming off; ", tp.name, tp.maxLen, q(tp.toks), trimWidths)
	}
	sb.WriteString("the wide alphabets hold single-column non-ASCII characters of 2, 3 and 4 UTF-8 bytes and of the categories Zs (U+00A0 NO-BREAK SPACE, U+2007 FIGURE SPACE, U+202F NARROW NO-BREAK SPACE: not unicode.IsPrint, yet one column each), Ll/Lu (U+00E9, U+1E9E) and So (U+1D11E), mixed with ASCII and colour escapes; double-width glyphs and control characters are not in any alphabet. The invalid-utf8 alphabets (passes invalid-utf8 and linetrim-invalid-utf8) hold bytes that are NOT valid UTF-8, each counting as ONE visible column: a lone continuation byte (0x80, 0xA0), lone lead bytes of 2-, 3-, 4-byte sequences (0xC3, 0xE2/0xE9, 0xF0), truncated sequences (E2 80, F0 9D 84), 0xFF, at the end of a line, in the middle, in runs, directly before and after colour escapes (the token concatenations also form the valid single-column characters U+00C0, U+2000, U+1D100); in the output a raw undecodable byte and U+FFFD in its place are the same visible cell, so a cut line may be a byte-prefix of the text or a prefix with such bytes replaced by U+FFFD. ")
	sp := sweepParams(quick, true)
	var lc, uc []string
	for _, c := range sp.lineCfgs {
		lc = append(lc, fmt.Sprintf("width %d trim %v", c.width, c.trim))
	}
	for _, c := range sp.updCfgs {
		uc = append(uc, fmt.Sprintf("width %d trim %v", c.width, c.trim))
	}
	fmt.Fprintf(&sb, "SIZE sweeps (signatures end in /size-family; sizes S(max) = 0..70 and 2^k-1, 2^k, 2^k+1 for k >= 7 up to max; element i carries i): (a) number of lines n in S(%d), shapes %v (asc-twice: lines 0..n-1 with distinct texts L<i>xxx, then all again with the same texts; gap-desc: line n-1 first, then 0, then n-2..1; rotate: lines 0..n-1, then line i gets the text of line i+1; uniform: the same text on every line, then another text on every second line bottom-up; zigzag: 0,n-1,1,n-2,... for n <= 257) x {%s}; (b) number of updates n in S(%d), update j to line j mod k (shapes *-bwd: (k-1)j mod k) for k in %v, text u<j> plus a pad of periodic length (shapes %v: growing 0..8, shrinking 8..0, triangle 0..6..0, constant), every fourth text bold, x {%s}; (c) text length n in 0..%d against width w in 1..%d with trimming on: n distinct single-column runes (ASCII then 2-byte letters) plain / a short escape in front of every rune / one escape of 5, 17 or 20 bytes (%s) starting after p visible runes for p in {0,w-2,w-1,w,w+1,n} with the reset at the end / ESC[38;5;196;1;4m after p runes with the reset one rune later; each text through WriteLineNoWrap and through the writers as the sequence (0,text),(1,x),(0,text),(1,text),(0,first n/2 runes). ", sp.maxLines, lineShapes, strings.Join(lc, "; "), sp.maxUpdates, updLines, updShapes, strings.Join(uc, "; "), sp.maxText, sp.maxWidth, q(sweepEscapes))
	fmt.Fprintf(&sb, "INVALID UTF-8 AROUND THE CUT (signatures end in /invalid-utf8-family): for every width w in %v with trimming on, lines of n columns for n in {w-1,w,w+1,w+2,w+3,2w+2} of distinct ASCII letters and digits with ONE unit of undecodable bytes {%s} (lone continuation byte; lone lead byte of a 2-, 3-, 4-byte sequence; truncated 3- and 4-byte sequence; overlong encoding; 0xFF) starting at column p for every p in w-4..w+2 (its bytes before the cut, exactly AT the cut = the w-th column, one before, one after, across it) and as the last and the second-to-last thing of the line, in the arrangements %v (esc-after: ESC[31m directly after the unit, reset at the end; colour-before: ESC[31m at the start and the reset directly before the unit, so that a line can be longer than the width only through escape bytes and end with the undecodable byte; wrapped: colour around the whole line); each text through WriteLineNoWrap and through TermWriter / BufferedTerm / VirtualTerm as the sequence (0,text),(1,x),(0,text),(1,text),(0,w/2 ASCII runes). ", sp.badWidths, q(badUnits), badArrangements)
	{
		var tc, sc []string
		for _, c := range carryTrimCfgs {
			tc = append(tc, fmt.Sprintf("width %d trim %v", c.width, c.trim))
		}
		for _, c := range carrySeqCfgs {
			sc = append(sc, fmt.Sprintf("width %d trim %v", c.width, c.trim))
		}
		ws := carrySweepWidths(quick)
		fmt.Fprintf(&sb, "CALL HISTORY (signatures end in /call-history-family): texts that END INSIDE something unfinished - an incomplete colour sequence {%s} or an incomplete multi-byte character - followed by ordinary texts. (a) kind trimseq: ALL sequences of 0..%d direct multiterm.WriteLineNoWrap calls over the texts {%s} x {%s}; (b) ALL update sequences of length 0..%d over lines %v x texts {%s} x {%s} through TermWriter, BufferedTerm and VirtualTerm; (c) the incomplete sequence against the width, w in %d..%d with trimming on: first text = n visible runes for n in {0,w-2,w-1,w,w+1} (the incomplete sequence before the cut, exactly at it, after it), plain and with ESC[31m in front, followed by each of the incomplete sequences; second text in {x, w+3 distinct runes plain / with ESC[31m after p runes for p in {0,1,w-1,w} / with an escape in front of every rune}; as the call sequences (first,second), (first,empty,second), (first,second,second) and as the update sequence (0,first),(1,second),(0,second),(1,first),(2,second) through the three writers. Judged: a text made of complete colour sequences exactly as everywhere else (reference model), whatever was written before it; of a text that itself ends inside an incomplete colour sequence only that what is written is a prefix of it with at most <width> visible characters (the statement does not settle more; the escape noise such an update puts in front of its own erase sequence is not judged); and HISTORY INDEPENDENCE (same input => same output): the bytes of every call and of every line printed by BufferedTerm/VirtualTerm equal the bytes a FRESH PROCESS writes for the same (text, width, trimming) with its first and only WriteLineNoWrap call (the harness binary re-executes itself once per distinct key: counter fresh_process_references), and a row of the in-place writer whose latest text ends in an incomplete sequence shows what those bytes show on the emulator. Every case of this family starts with three unjudged calls (ESC[0m, x, empty) so that cases do not depend on each other or on the sharding (unit of sharding: one configuration / one width of (c)). ", q(carryTails), carryMaxLen(quick), q(carryTexts()), strings.Join(tc, "; "), carryMaxLen(quick), carrySeqLines, q(carrySeqTexts), strings.Join(sc, "; "), ws[0], ws[len(ws)-1])
	}
	sb.WriteString("NOT PART OF THE VERDICT (run only with VERIF_C20_BEYOND=1, because the property quantifies over update sequences followed by close, not over write faults or updates after Close): HISTORY (signatures end in /history-family): every sequence of 0..2 updates over lines {0,2} x texts {empty, ab, coloured 8 runes}, Close, every sequence of 1..2 updates, Close, x {width 5 trim on; width 80 trim off}: the in-place writer must not panic (the statement is silent about the screen after Close, nothing else is judged; the buffered and virtual writers refuse updates after Close by design and are not driven after Close). The same text written twice to a line with other lines written in between, and the same text moved to another line, are in the exhaustive passes and in the shapes asc-twice, rotate, uniform and (c). ")
	{
		var cs []string
		for _, c := range faultCfgs(quick) {
			cs = append(cs, fmt.Sprintf("width %d trim %v", c.width, c.trim))
		}
		fmt.Fprintf(&sb, "WRITE FAULT (signatures C20/termwriter/write-fault/<class>/<failure>): ALL update sequences of length 1..%d over lines %v x texts {%s}, and the shapes %v with n in %v lines, x EVERY position of ONE failing update x {%s}: every write to stdout made by the chosen update fails (an already expired write deadline on the pipe that stands in for os.Stdout, cleared right after the update: each write returns an error at once and writes nothing - verified in every case; no timing involved), the remaining updates are written normally, then every line written so far is rewritten once with its latest text (one full repaint, as the renderers do on their next tick) and the writer is closed. Judged: after the updates that follow the failed one every line shows its latest text, except that the line of the failed update may still show its text as if that update had not been made; after the repaint every line shows exactly its latest text; after Close the cursor is below the last line and visible; no panic, no output outside the emulated subset, no cursor-up past the first row. class = cursor-line-update (the failed update is addressed to the line the cursor is on: CR, text and erase are lost, no cursor movement) | cursor-moving-update (line feeds / cursor-up sequences are lost with it; there every mismatch of rows or cursor position is filed as display-not-restored). PARTIAL faults: ALL sequences of length 1..%d over the same alphabet, and the shapes with n in [2 3 5] lines, x every position x the same configurations x EVERY amount of room R in 0..T-1 (T = bytes the update writes unfaulted, measured by a dry run of the same case): stdout is a non-blocking one-page pipe not polled by the Go runtime (O_NONBLOCK set behind the os.File), filled up to R bytes of room before the chosen update, so of the update's writes, in order, each one that still fits arrives and each one that does not fails with EAGAIN writing nothing (Linux pipes: writes <= PIPE_BUF are atomic, room is not reclaimed before the pipe is empty): all fail / the cursor movement arrives and text and erase fail / the erase arrives without the text / only the cursor-hide fails ...; judged like the whole-update fault, except that after a partially arrived update nothing is demanded of that update's own line before the repaint. ", faultMaxLen(quick), faultLines, q(faultTexts), lineShapes, faultGenSizes(quick), strings.Join(cs, "; "), roomMaxLen(quick))
	}
	sb.WriteString("states = distinct_outcomes = distinct emulator states (screen rows, cursor row/column, cursor visibility, width) reached before and after Close; transitions = updates + Close applied. non-trivial = (sequence) at least two updates of which one rewrites an already written line or moves to a lower line index; (linetrim) a text longer than the width that contains an escape sequence or a non-ASCII byte; (trimseq) a call after the first whose text is longer than the width")
	return sb.String()
}

func main() {
	if spec := os.Getenv(freshEnv); spec != "" {
		freshChild(spec) // one WriteLineNoWrap call in a fresh process (carry.go); never returns
	}
	runner.Main(&runner.Spec{
		Name:       "term",
		Properties: []string{"C20"},
		Level:      "model_checking",
		Rule:       rule,
		Assumptions: func(string) []string {
			return []string{
				"the terminal implements the emulated subset: printables, CR, LF as pure line feed (the cursor column after LF is not relied on: the writer sends CR before writing), CSI n A clamped at the top, CSI 0 K, CSI ?25 l/h, SGR sequences zero-width; unbounded rows (a terminal that scrolls is not covered)",
				"every rune that is not part of an SGR sequence occupies one column: the alphabets contain only single-column characters (ASCII, U+00A0, U+00E9, U+1E9E, U+2007, U+202F, U+2724, U+1D11E; East Asian Width N/Na/A); double-width glyphs (CJK, U+3000), combining marks and control characters are not covered, their column width is terminal-dependent",
				"text that is not valid UTF-8: every byte that is not part of a valid UTF-8 sequence occupies ONE column (a terminal shows one replacement glyph for it; Go's rune decoding yields one utf8.RuneError per such byte, and the unchanged WriteLineNoWrap rewrites each to U+FFFD), so the two bytes of a truncated 3-byte sequence are two columns; a terminal that shows one glyph for a whole truncated sequence (the line is then narrower than counted, never wider) or none is not covered. \"cut to a prefix\": the output may keep such a byte or put U+FFFD in its place (same visible result); both are accepted, also with trimming off and by the emulator",
				"right margin: a cursor resting just past the last column (pending wrap) does not wrap until the next printable, and erase-to-end-of-line in that position erases nothing; a terminal that erases the last cell there (VT100 last-column flag) is not covered",
				"with trimming off (--notrim or not a TTY) nothing is cut and the emulator has no right margin: the sentence about cutting is checked with trimming on only",
				"outside the call-history family texts contain only complete SGR escape sequences (ESC [ digits ; m); a colour left switched on by a cut before its reset sequence is not a violation of the statement",
				"call-history family: an incomplete colour sequence occurs only as the last bytes of a text (a text cut in the middle of a sequence) and counts as zero columns; what is written for such a text is judged only as far as the statement goes (a prefix, at most <width> visible characters) and by history independence against a fresh process; an ESC followed by text that is not a colour sequence in the MIDDLE of a line (a non-colour control sequence) is not generated - its column width is terminal-dependent; the terminal is assumed to abandon an incomplete sequence when the next ESC arrives (as the emulator does), so the erase sequence that follows it works",
				"the width hook multiterm.VerifSetTermSize (build tag verif) replaces the width detected from a real TTY",
				"one terminal, one TermWriter: two writer instances on the same terminal are out of scope; updates after Close are only required not to panic (TermWriter), VirtualTerm/BufferedTerm panic on them by design (\"virtualterm closed\")",
				"write faults: transient failures within exactly ONE update are generated (an expired write deadline: every write fails; EAGAIN on a non-blocking descriptor with limited room: the writes that do not fit fail), every failing call writes nothing (no short writes); faults in two or more updates, a fault during Close, and a terminal that stays broken are not covered. The statement cannot demand that a failed write appears on screen: the failed update's own text is only demanded after the full repaint that follows, in which every write succeeds",
				"the emulated screen has unbounded rows, so the line-count sweep (up to 129 lines quick, 4097 thorough) judges the cursor bookkeeping, not a terminal that scrolls",
			}
		},
		Worker:         worker,
		Replay:         replay,
		HangSeconds:    30,
		QuickBudget:    2 * time.Minute,
		ThoroughBudget: 14 * time.Minute,
	})
}
