package main

// SIZE sweeps and HISTORY shapes for C20 (kind "gen" and the size-family
// trimline cases). One or two fixed, simple shapes parametrised by a size n,
// judged by the same reference model (last write wins, cut to the width) as
// the exhaustive small sequences. Element i carries i, so that loss,
// duplication, reordering and aliasing of lines show up.

import (
	"fmt"
	"strings"
)

// lineText: the text of line i in the line-count sweeps. Distinct for every
// i, lengths vary (so that a rewrite shrinks or grows), every fifth line
// carries a colour.
func lineText(i int) string {
	t := fmt.Sprintf("L%d", i) + strings.Repeat("x", i%7)
	if i%5 == 0 {
		t = "\x1b[32m" + t + "\x1b[0m"
	}
	return t
}

// padLen: the periodic text-length shapes of the update sweeps.
func padLen(shape string, j int) int {
	switch shape {
	case "per-grow":
		return j % 9
	case "per-shrink":
		return 8 - j%9
	case "per-tri": // 0..6..0
		m := j % 12
		if m > 6 {
			m = 12 - m
		}
		return m
	case "per-same": // every text has the same length, only the content differs
		return 3
	}
	panic("harness: unknown pad shape " + shape)
}

// genSeq builds the update sequence of a kind "gen" case.
//
// Line-count shapes (n = number of lines):
//
//	asc-twice  lines 0..n-1 top to bottom, then all of them again with the
//	           same texts (the same text written twice to a line, every other
//	           line written in between)
//	gap-desc   line n-1 first, then line 0 (a gap of n-2 never written lines),
//	           then n-2 down to 1
//	rotate     lines 0..n-1, then line i gets the text line i+1 had (the same
//	           text moved to another line; texts shrink and grow)
//	uniform    the SAME text on every line 0..n-1 (equal content on different
//	           lines: aliasing of lines cannot hide behind distinct texts), then
//	           another text on every second line, bottom-up
//	zigzag     0, n-1, 1, n-2, ... (jumps over the whole height, both ways)
//
// Update-count shapes (n = number of updates, k = number of lines): update j
// goes to line (j mod k) ("fwd") or ((k-1)*j mod k) ("bwd", the lines are
// visited bottom-up), its text is "u<j>" plus a pad whose length follows the
// shape: per-grow, per-shrink, per-tri, per-same.
func genSeq(shape string, n, k int) []Upd {
	var seq []Upd
	switch shape {
	case "asc-twice":
		for r := 0; r < 2; r++ {
			for i := 0; i < n; i++ {
				seq = append(seq, Upd{i, lineText(i)})
			}
		}
	case "gap-desc":
		if n >= 1 {
			seq = append(seq, Upd{n - 1, lineText(n - 1)})
		}
		if n >= 2 {
			seq = append(seq, Upd{0, lineText(0)})
		}
		for i := n - 2; i >= 1; i-- {
			seq = append(seq, Upd{i, lineText(i)})
		}
	case "rotate":
		for i := 0; i < n; i++ {
			seq = append(seq, Upd{i, lineText(i)})
		}
		for i := 0; i < n; i++ {
			seq = append(seq, Upd{i, lineText((i + 1) % n)})
		}
	case "uniform":
		for i := 0; i < n; i++ {
			seq = append(seq, Upd{i, "same text"})
		}
		for i := n - 1; i >= 0; i -= 2 {
			seq = append(seq, Upd{i, "other"})
		}
	case "zigzag":
		for j := 0; j < n; j++ {
			if j%2 == 0 {
				seq = append(seq, Upd{j / 2, lineText(j)})
			} else {
				seq = append(seq, Upd{n - 1 - j/2, lineText(j)})
			}
		}
	default:
		dir := "fwd"
		base := shape
		if strings.HasSuffix(shape, "-bwd") {
			dir, base = "bwd", strings.TrimSuffix(shape, "-bwd")
		}
		for j := 0; j < n; j++ {
			line := j % k
			if dir == "bwd" {
				line = ((k - 1) * j) % k
			}
			text := fmt.Sprintf("u%d", j) + strings.Repeat(string(rune('a'+j%26)), padLen(base, j))
			if j%4 == 3 {
				text = "\x1b[1m" + text + "\x1b[0m"
			}
			seq = append(seq, Upd{line, text})
		}
	}
	return seq
}

var lineShapes = []string{"asc-twice", "gap-desc", "rotate", "uniform", "zigzag"}
var updShapes = []string{"per-grow", "per-shrink", "per-tri", "per-same", "per-tri-bwd", "per-same-bwd"}
var updLines = []int{1, 2, 3, 5, 8}

// sizes: 0..70 and 2^k-1, 2^k, 2^k+1 for k = 7.. up to max.
func sizes(max int) []int {
	var out []int
	for n := 0; n <= 70 && n <= max; n++ {
		out = append(out, n)
	}
	for p := 128; p-1 <= max; p *= 2 {
		for _, n := range []int{p - 1, p, p + 1} {
			if n <= max {
				out = append(out, n)
			}
		}
	}
	return out
}

func sizeClass(n int) string {
	switch {
	case n <= 8:
		return "n<=8"
	case n <= 70:
		return "n<=70"
	case n <= 257:
		return "n<=257"
	}
	return "n>257"
}

// ---- text length against the width

// visAlphabet: 80 distinct single-column runes (ASCII letters and digits, then
// 2-byte Latin-1 letters), so that position i of a text is recognisable.
var visAlphabet = []rune("abcdefghijklmnopqrstuvwxyz0123456789ABCDEFGHIJKLMNOPQRSTUVWXYZàáâãäåæçèéêëìíîïðñ")

// the colour escapes of the width sweep: 5, 17 and 20 bytes long
var sweepEscapes = []string{"\x1b[31m", "\x1b[38;5;196;1;4m", "\x1b[38;2;255;128;64;1m"}

// widthText builds a text of n visible runes with an escape arrangement:
//
//	plain        no escape
//	at(e,p)      escape e after p visible runes, the reset at the very end
//	pair(e,p)    escape e after p visible runes, the reset one rune later
//	each         a (short) escape in front of every visible rune, reset at the end
func widthText(n int, arr string, esc string, p int) string {
	var sb strings.Builder
	for i := 0; i <= n; i++ {
		switch arr {
		case "at":
			if i == p {
				sb.WriteString(esc)
			}
		case "pair":
			if i == p {
				sb.WriteString(esc)
			}
			if i == p+1 {
				sb.WriteString("\x1b[0m")
			}
		case "each":
			if i < n {
				sb.WriteString(sweepEscapes[0])
			}
		}
		if i < n {
			sb.WriteRune(visAlphabet[i%len(visAlphabet)])
		}
	}
	if arr != "plain" && !(arr == "pair" && p+1 <= n) {
		sb.WriteString("\x1b[0m")
	}
	return sb.String()
}

// widthTexts: all texts of the width sweep for (width w, n visible runes): the
// escape starts before the cut, exactly at it, and after it.
func widthTexts(w, n int) []string {
	out := []string{widthText(n, "plain", "", 0), widthText(n, "each", "", 0)}
	seen := map[int]bool{}
	for _, p := range []int{0, w - 2, w - 1, w, w + 1, n} {
		if p < 0 || p > n || seen[p] {
			continue
		}
		seen[p] = true
		for _, e := range sweepEscapes {
			out = append(out, widthText(n, "at", e, p))
		}
		out = append(out, widthText(n, "pair", sweepEscapes[1], p))
	}
	return out
}

// widthSeq: the text through the in-place writer: written, another line
// written in between, the same text again, the same text moved to another
// line, then a text half as long on the first line (the rest must be erased).
func widthSeq(text, half string) []Upd {
	return []Upd{{0, text}, {1, "x"}, {0, text}, {1, text}, {0, half}}
}

// ---- undecodable bytes around the cut (invalid-utf8 family)

// badUnits: one unit per class of byte that is not valid UTF-8. Every byte of a
// unit is undecodable on its own as long as the byte after the unit is not a
// continuation byte (it is ASCII, ESC or the end of the line in badText), so a
// unit occupies len(unit) columns.
var badUnits = []string{
	"\x80", "\xa0", "\xbf", // a lone continuation byte (Latin-1: 0xA0 no-break space)
	"\xc3", "\xe9", "\xf0", // a lone lead byte of a 2-, 3-, 4-byte sequence (Latin-1: 0xE9 e acute)
	"\xe2\x80", "\xf0\x9d\x84", // a truncated 3-byte and 4-byte sequence
	"\xc0\xaf", // an overlong encoding
	"\xff",     // never valid
}

var badArrangements = []string{"plain", "esc-after", "colour-before", "wrapped"}

// badText: n columns, the unit occupying columns p..p+len(unit)-1, distinct
// ASCII letters and digits elsewhere.
//
//	plain          no escape
//	esc-after      ESC[31m directly after the unit, the reset at the end
//	colour-before  ESC[31m at the start, the reset directly before the unit
//	               (with p+len(unit) == n the line ends with the unit, and is
//	               longer than its n columns only through escape bytes)
//	wrapped        ESC[31m at the start, the reset at the end
func badText(n, p int, unit, arr string) string {
	var sb strings.Builder
	if arr == "colour-before" || arr == "wrapped" {
		sb.WriteString("\x1b[31m")
	}
	for i := 0; i < n; {
		if i == p {
			if arr == "colour-before" {
				sb.WriteString("\x1b[0m")
			}
			sb.WriteString(unit)
			if arr == "esc-after" {
				sb.WriteString("\x1b[31m")
			}
			i += len(unit)
			continue
		}
		sb.WriteRune(visAlphabet[i%62]) // the ASCII part of the alphabet
		i++
	}
	if arr == "esc-after" || arr == "wrapped" {
		sb.WriteString("\x1b[0m")
	}
	return sb.String()
}

// badTexts: for width w, lines of n columns for n around w (shorter than,
// equal to, longer than the width) with every unit placed so that it starts
// anywhere from four columns before the cut to two after it (its bytes lie
// before the cut, exactly at it - the w-th column -, across it and after it),
// and as the last and the second-to-last thing of the line; in every escape
// arrangement.
func badTexts(w int) []string {
	var out []string
	seenN := map[int]bool{}
	for _, n := range []int{w - 1, w, w + 1, w + 2, w + 3, 2*w + 2} {
		if n < 1 || seenN[n] {
			continue
		}
		seenN[n] = true
		for _, u := range badUnits {
			seenP := map[int]bool{}
			var ps []int
			for p := w - 4; p <= w+2; p++ {
				ps = append(ps, p)
			}
			ps = append(ps, n-len(u), n-len(u)-1)
			for _, p := range ps {
				if p < 0 || p+len(u) > n || seenP[p] {
					continue
				}
				seenP[p] = true
				for _, arr := range badArrangements {
					out = append(out, badText(n, p, u, arr))
				}
			}
		}
	}
	return out
}
