package main

// Family "ff": user-defined functions of a funcs file (--funcs / RARE_FUNC_FILES)
// used at SEVERAL call sites in one process.
//
// A funcs-file function is one closure for the whole process: every
// KeyBuilder created after the file was loaded shares it (funclib.Additional),
// and so is whatever the closure keeps between calls (its pool of call
// contexts, anything cached in them). What a call leaves behind is therefore
// seen by the next call of the function - at another call site, with another
// number of arguments, in another template, compiled by another builder. The
// other families compile and evaluate one template on fresh state; this one
// enumerates HISTORIES: every sequence of call sites, in order, of the
// functions of a small definitions file loaded through the real loader.
//
// Oracle: C08's own and nothing else - no call panics, every call returns
// (compile errors and load errors are answers the statement allows).

import (
	"fmt"
	"hash/fnv"
	"os"
	"strconv"
	"strings"

	"rare/pkg/expressions"
	"rare/pkg/expressions/funcfile"
	"rare/pkg/expressions/funclib"
	"verif/harness/exprgen"
)

// ffFile is one definitions file. The bodies read {0}..{3} (and beyond) in
// several ways: plainly, in reverse, inside if/coalesce/switch (arguments that
// are read only sometimes), inside range helpers, twice, next to key and
// negative look-ups, by calling an earlier definition with a subset / a
// superset / a permutation of their own arguments, by redefining a name in
// terms of its previous definition. Comments, blank lines and continuation
// lines are part of the loader's grammar and appear in every file.
type ffFile struct {
	ID     string
	Text   string
	Fns    []string // names a call site may use (in the file's order)
	MaxLen int      // longest sequence enumerated for this file (0: the tier's)
	// Reads: how often one call of the function evaluates its first / second
	// argument when it is not 1 (arguments are evaluated lazily on every read -
	// call by name - so a body that reads an argument k times evaluates an
	// argument nested d deep k^d times: by design, see ffNestAllowed)
	Reads map[string][2]int
}

var ffFiles = []*ffFile{
	{ID: "plain", Fns: []string{"p0", "p1", "p3", "rv"}, Text: `# reading shapes
p0 <{0}>
p1 {0}:{1}

p3 {0}{1}{2}{3}   # all four
rv {3}{2}\
{1}{0}
`},
	{ID: "cond", Fns: []string{"opt", "co", "sw", "un"}, Reads: map[string][2]int{"opt": {1, 2}}, Text: `opt {0}{if {1} " [{1}]"}
co {coalesce {3} {2} {1} {0}}
# an argument that is read only when another one says so
sw {switch {0} {1} \
   {2} {3}}
un fixed
`},
	{ID: "hof", Fns: []string{"mp", "rd", "jn"}, Text: `mp {@map {0} "[{0}]"}/{1}
rd {@reduce {@split {0} " "} "{sumi {0} {1}}" {1}}{2}
jn {@join {@map {@split {0} " "} "{0}{1}"} {1}}{2}{3}
`},
	{ID: "chain", Fns: []string{"a1", "sub", "sup", "swp"}, Text: `a1 {0}:{1}
sub {a1 {0}}            # fewer arguments than it was given
sup {a1 {0} {1} {2}}    # more
swp {a1 {1} {0}}{a1 {2}}
`},
	{ID: "chain2", Fns: []string{"b1", "two", "thr"}, Reads: map[string][2]int{"two": {2, 1}}, Text: `b1 {0}:{1}
two {b1 {0}} {b1 {0} {1}}
thr {b1 {0} {1} {2}}{b1}
`},
	{ID: "redef", Fns: []string{"f", "g"}, Text: `f {0}
# the second definition calls the first
f {f {0}}-{1}
g {f {0} {1} {2}}
`},
	{ID: "key", Fns: []string{"k", "d", "hx"}, Reads: map[string][2]int{"d": {2, 1}}, Text: `k {0}{key}{-1}
d {sumi {0} {0}}{1}
hx {4}{7}
`},
	{ID: "bad", Fns: []string{"r", "u", "ok"}, MaxLen: 2, Text: `r {r {0}}
u {nosuch {0}}
missing
ok {0}{1}
`},
}

func ffFileByID(id string) *ffFile {
	for _, f := range ffFiles {
		if f.ID == id {
			return f
		}
	}
	return nil
}

// ffGroups is the case context of every ff program (the fixed contexts of the
// harness are added by exprgen.Plan).
var ffGroups = []string{"a b", "cd", "7", "-1"}

// ffSite is one call site: function, number of arguments, how the arguments
// are written.
//
//	g  group references {0} {1} ..            (dynamic)
//	c  constants a b ..                       (the optimiser runs the function while compiling)
//	x  constant, group, constant, group
//	n  the first argument is a call of the same function with ONE argument
//	o  the last argument is a call of the next function of the file with TWO arguments
//	N  (sweep) the function nested in itself `depth` deep at the first / last argument
type ffSite struct {
	fn    string
	argc  int
	style byte
	depth int // N only
	last  bool
}

func ffConst(i int) *exprgen.Node {
	if i < 4 {
		return exprgen.W(string(rune('a' + i)))
	}
	return exprgen.W("v" + strconv.Itoa(i))
}

func (s ffSite) node(f *ffFile) *exprgen.Node {
	args := make([]*exprgen.Node, s.argc)
	for i := range args {
		switch {
		case s.style == 'c', s.style == 'x' && i%2 == 0:
			args[i] = ffConst(i)
		default:
			args[i] = exprgen.R(i)
		}
	}
	switch s.style {
	case 'n':
		args[0] = exprgen.C(s.fn, exprgen.R(0))
	case 'o':
		next := f.Fns[0]
		for i, n := range f.Fns {
			if n == s.fn {
				next = f.Fns[(i+1)%len(f.Fns)]
			}
		}
		args[s.argc-1] = exprgen.C(next, exprgen.R(0), exprgen.R(1))
	case 'N':
		if s.depth > 1 {
			inner := s
			inner.depth--
			pos := 0
			if s.last {
				pos = s.argc - 1
			}
			args[pos] = inner.node(f)
		}
	}
	return exprgen.C(s.fn, args...)
}

// ffNestAllowed: resource exhaustion by design is excluded by construction
// (the same limit as everywhere else in this harness: 65536). A function whose
// body reads the argument at the nesting position k times evaluates the
// innermost call k^depth times.
func ffNestAllowed(f *ffFile, s ffSite) bool {
	pos := 0
	if s.last {
		pos = s.argc - 1
	}
	k := 1
	if r, ok := f.Reads[s.fn]; ok && pos < 2 {
		k = r[pos]
	}
	n := 1
	for i := 0; i < s.depth; i++ {
		if n *= k; n > 65536 {
			return false
		}
	}
	return true
}

// alphabets, per function
func ffAlphabet(f *ffFile, kind string) []ffSite {
	var out []ffSite
	for _, fn := range f.Fns {
		out = append(out, ffSite{fn: fn, argc: 0, style: 'g'})
		for n := 1; n <= 4; n++ {
			switch kind {
			case "full": // 21 per function
				for _, st := range []byte("gcxno") {
					out = append(out, ffSite{fn: fn, argc: n, style: st})
				}
			case "medium": // 13
				for _, st := range []byte("gcn") {
					out = append(out, ffSite{fn: fn, argc: n, style: st})
				}
			case "reduced": // 7
				out = append(out, ffSite{fn: fn, argc: n, style: 'g'})
				if n == 1 {
					out = append(out, ffSite{fn: fn, argc: n, style: 'n'})
				}
				if n == 2 {
					out = append(out, ffSite{fn: fn, argc: n, style: 'c'})
				}
			default: // "tiny": 5
				out = append(out, ffSite{fn: fn, argc: n, style: 'g'})
			}
		}
	}
	return out
}

// ffLayouts: where the call sites of a sequence are.
//
//	one   all in one template, separated by a blank
//	same  one template each, compiled one after the other by one builder, then evaluated line by line
//	diff  one template each, every one compiled by its own funclib.NewKeyBuilderEx (they share funclib.Additional)
//	step  as diff, but every template is evaluated on all contexts before the next one is compiled
var (
	ffLayoutsAll   = []string{"one", "same", "diff", "step"}
	ffLayoutsThree = []string{"one", "same", "diff"}
	ffLayoutsTwo   = []string{"one", "diff"}
)

// ffModes: optimisation of (the loader's builder, the builders of the
// templates). main.go loads with the optimising builder; an optimising builder
// runs constant stages - whole calls of a user function among them - while it
// compiles, a non-optimising one leaves everything to the first line.
var ffModes = []struct {
	name      string
	load, cmp bool
}{
	{"load-optimised/compile-optimised", true, true},
	{"load-optimised/compile-unoptimised", true, false},
	{"load-unoptimised/compile-unoptimised", false, false},
}

// ffSpec is what a Prog of family ff stands for.
type ffSpec struct {
	File   string
	Text   string
	Tmpls  []string
	Layout string
}

// ffCases: the spec of the ff programs currently alive (a generated program
// is removed as soon as it has been executed; replayed ones stay).
var ffCases = map[*exprgen.Prog]*ffSpec{}

func ffProg(f *ffFile, sites []ffSite, layout string) (*exprgen.Prog, *ffSpec) {
	sp := &ffSpec{File: f.ID, Text: f.Text, Layout: layout}
	for _, s := range sites {
		sp.Tmpls = append(sp.Tmpls, s.node(f).Print(0))
	}
	p := &exprgen.Prog{Family: "ff", Fn: "funcs:" + f.ID, Arity: len(sites), Template: strings.Join(sp.Tmpls, " "), Groups: ffGroups, Dynamic: true}
	return p, sp
}

func ffYield(yield func(*exprgen.Prog) bool, f *ffFile, sites []ffSite, layouts []string) bool {
	for _, l := range layouts {
		if len(sites) == 1 && l != "one" {
			continue // one site: the other layouts are the same thing
		}
		p, sp := ffProg(f, sites, l)
		ffCases[p] = sp
		ok := yield(p)
		delete(ffCases, p)
		if !ok {
			return false
		}
	}
	return true
}

type ffBounds struct {
	// sequences of length <= FullLen over the full alphabet (all four layouts),
	// of length FullLen+1..len(Longer)+FullLen over the alphabets named in Longer
	FullLen int
	Longer  []string
	// sweeps
	Argc     []int // number of arguments of a single site
	ArgcPair []int // both numbers of a pair of sites of one function
	Depth    []int // nesting depth
}

func ffBoundsFor(tier string) ffBounds {
	seq := func(a, b int) []int {
		var out []int
		for i := a; i <= b; i++ {
			out = append(out, i)
		}
		return out
	}
	if tier == "thorough" {
		return ffBounds{FullLen: 2, Longer: []string{"medium", "tiny"},
			Argc:     append(seq(0, 70), 127, 128, 129, 255, 256, 257),
			ArgcPair: append(seq(0, 10), 16, 17, 33, 65),
			Depth:    append(seq(1, 40), 64, 65, 129)}
	}
	return ffBounds{FullLen: 2, Longer: []string{"reduced"},
		Argc:     append(seq(0, 33), 64, 65),
		ArgcPair: seq(0, 8),
		Depth:    append(seq(1, 12), 16, 17, 33)}
}

// ffBlocks: the sharding units of the family.
func ffBlocks(tier string) []*exprgen.Block {
	b := ffBoundsFor(tier)
	var out []*exprgen.Block
	for _, f := range ffFiles {
		f := f
		// (1) sequences: one block per (length, prefix of length-1 sites)
		for L := 1; L <= b.FullLen+len(b.Longer); L++ {
			if f.MaxLen > 0 && L > f.MaxLen {
				break
			}
			kind, layouts := "full", ffLayoutsAll
			if L > b.FullLen {
				kind, layouts = b.Longer[L-b.FullLen-1], ffLayoutsTwo
			}
			A := ffAlphabet(f, kind)
			plen := L - 1
			var prefixes [][]ffSite
			var gen func(cur []ffSite)
			gen = func(cur []ffSite) {
				if len(cur) == plen {
					prefixes = append(prefixes, append([]ffSite{}, cur...))
					return
				}
				for _, s := range A {
					gen(append(cur, s))
				}
			}
			gen(nil)
			for pi, pre := range prefixes {
				pre := pre
				out = append(out, &exprgen.Block{
					ID: fmt.Sprintf("ff/%s/seq%d-%s/%d", f.ID, L, kind, pi),
					Each: func(yield func(*exprgen.Prog) bool) bool {
						for _, s := range A {
							if !ffYield(yield, f, append(append([]ffSite{}, pre...), s), layouts) {
								return false
							}
						}
						return true
					},
				})
			}
		}
		if f.MaxLen > 0 {
			continue
		}
		for _, fn := range f.Fns {
			fn := fn
			// (2) size of one call: n arguments, as groups and as constants
			out = append(out, &exprgen.Block{
				ID: fmt.Sprintf("ff/%s/argc/%s", f.ID, fn),
				Each: func(yield func(*exprgen.Prog) bool) bool {
					for _, n := range b.Argc {
						for _, st := range []byte("gc") {
							if !ffYield(yield, f, []ffSite{{fn: fn, argc: n, style: st}}, []string{"one"}) {
								return false
							}
						}
					}
					return true
				},
			})
			// (3) two sites of one function with n and m arguments, in this order
			out = append(out, &exprgen.Block{
				ID: fmt.Sprintf("ff/%s/argc-pair/%s", f.ID, fn),
				Each: func(yield func(*exprgen.Prog) bool) bool {
					for _, n := range b.ArgcPair {
						for _, m := range b.ArgcPair {
							if !ffYield(yield, f, []ffSite{{fn: fn, argc: n, style: 'g'}, {fn: fn, argc: m, style: 'g'}}, ffLayoutsThree) {
								return false
							}
						}
					}
					return true
				},
			})
			// (4) the function nested in itself (more call contexts alive at once
			// than a pool holds), alone, before and after a plain site of it
			out = append(out, &exprgen.Block{
				ID: fmt.Sprintf("ff/%s/nest/%s", f.ID, fn),
				Each: func(yield func(*exprgen.Prog) bool) bool {
					for _, d := range b.Depth {
						for _, shape := range []ffSite{{argc: 1}, {argc: 2}, {argc: 2, last: true}} {
							nest := ffSite{fn: fn, argc: shape.argc, style: 'N', depth: d, last: shape.last}
							if !ffNestAllowed(f, nest) {
								continue
							}
							if !ffYield(yield, f, []ffSite{nest}, []string{"one"}) {
								return false
							}
							if d > 12 && d%8 != 0 {
								continue
							}
							for k := 0; k <= 4; k++ {
								plain := ffSite{fn: fn, argc: k, style: 'g'}
								if !ffYield(yield, f, []ffSite{nest, plain}, ffLayoutsThree) ||
									!ffYield(yield, f, []ffSite{plain, nest}, ffLayoutsThree) {
									return false
								}
							}
						}
					}
					return true
				},
			})
		}
	}
	return out
}

func ffDescribe(tier string) string {
	b := ffBoundsFor(tier)
	var ids []string
	nf := 0
	for _, f := range ffFiles {
		ids = append(ids, f.ID)
		nf += len(f.Fns)
	}
	longer := ""
	for i, k := range b.Longer {
		longer += fmt.Sprintf(", of length %d over the %s alphabet (%d sites per function; layouts one/diff)", b.FullLen+1+i, k, len(ffAlphabet(&ffFile{Fns: []string{"f"}}, k)))
	}
	return fmt.Sprintf("(ff) user-defined functions used at several call sites in one process: %d definition files (%s; %d functions whose bodies read {0}..{3}, {4}, {7} plainly, reversed, twice, inside if/coalesce/switch, inside @map/@reduce/@split, next to {key} and {-1}, "+
		"by calling an earlier definition with fewer / more / permuted arguments and with two argument counts in one body, by redefining a name through its previous definition; one file with rejected definitions: self-reference, unknown function, no body) "+
		"written to a real file and loaded as main.go does (funclib.NewKeyBuilder, funcfile.LoadDefinitionsFile, funclib.TryAddFunctions) afresh for every case; call-site alphabet per function: 0..4 arguments written as group references, constants, alternating, "+
		"with a one-argument call of the same function as first argument, with a two-argument call of the next function as last argument (21 sites per function); EVERY ORDERED sequence of call sites of a file's functions of length <= %d over that alphabet%s, "+
		"laid out as one template / one template per site compiled one after the other by one builder / by one funclib.NewKeyBuilderEx each (sharing the function table) / compiled and evaluated site by site; "+
		"sweeps: one site with n arguments (groups, constants), n in %s; two sites of one function with n then m arguments, n,m in %s; the function nested in itself d deep (first / last argument), alone and before/after a site with 0..4 arguments, d in %s; "+
		"every case under 3 settings (loader optimising + builders optimising | loader optimising + builders not | neither), evaluated line by line (context-major) on the case context and the 6 fixed contexts",
		len(ffFiles), strings.Join(ids, ", "), nf, b.FullLen, longer, ffRange(b.Argc), ffRange(b.ArgcPair), ffRange(b.Depth))
}

// ffRange prints a sorted list of ints compactly (0..33,64,65).
func ffRange(v []int) string {
	var parts []string
	for i := 0; i < len(v); {
		j := i
		for j+1 < len(v) && v[j+1] == v[j]+1 {
			j++
		}
		if j > i+1 {
			parts = append(parts, fmt.Sprintf("%d..%d", v[i], v[j]))
		} else {
			for k := i; k <= j; k++ {
				parts = append(parts, strconv.Itoa(v[k]))
			}
		}
		i = j + 1
	}
	return strings.Join(parts, ",")
}

// ---- execution -----------------------------------------------------------------

func clearAdditional() {
	for k := range funclib.Additional {
		delete(funclib.Additional, k)
	}
}

// ffPath returns a real file holding text (written once per process).
func (x *executor) ffPath(text string) string {
	if p, ok := x.ffPaths[text]; ok {
		return p
	}
	if x.ffPaths == nil {
		x.ffPaths = map[string]string{}
	}
	path := fmt.Sprintf("exprcrash-ff-%d.funcs", len(x.ffPaths))
	if err := os.WriteFile(path, []byte(text), 0o644); err != nil {
		panic(err)
	}
	x.ffPaths[text] = path
	return path
}

// runFF executes one ff program. Oracle (C08): "Compiling any template string
// either yields a usable expression or reports errors; it never panics or
// fails to return. Evaluating any compiled expression against any match data
// ... returns a string ... and never panics". Loading the definitions file is
// compiling its bodies, so a panic of the loader is a panic of Compile. Load
// errors and compile errors are allowed answers; a template that did not
// compile is not evaluated. Failing to return is detected by the monitor.
func (x *executor) runFF(p *exprgen.Prog, sp *ffSpec, report func(finding), tick func()) (nontrivial bool, outcome uint64) {
	h := fnv.New64a()
	h.Write([]byte(p.Family + "|" + p.Fn + "|" + strconv.Itoa(p.Arity) + "|" + sp.Layout))
	ctxs := x.plan(p)
	path := x.ffPath(sp.Text)
	ranges := strings.Contains(sp.Text, "{@")
	plant := func() {
		if ranges && !x.noPlant {
			x.sentinel.Armed = false
			exprgen.PlantPool(x.sentinel)
			x.sentinel.Armed = true
		}
	}
	defer clearAdditional()
	fail := func(pi *panicInfo, where string) {
		f := x.panicFinding(p, pi, where, 0)
		f.Detail += fmt.Sprintf("\nlayout: %s\ntemplates: %q\nfuncs file:\n%s", sp.Layout, sp.Tmpls, sp.Text)
		report(f)
		h.Write([]byte("|panic"))
	}
	for mi, mode := range ffModes {
		clearAdditional()
		loaded := 0
		plant()
		pi := catch(func() {
			// main.go's Before hook
			cmplr := funclib.NewKeyBuilderEx(mode.load)
			fns, err := funcfile.LoadDefinitionsFile(cmplr, path)
			loaded = len(fns)
			funclib.TryAddFunctions(fns, err)
		})
		tick()
		if pi != nil {
			fail(pi, "load/"+mode.name)
			continue
		}
		var kb *expressions.KeyBuilder
		builder := func(i int) *expressions.KeyBuilder {
			if kb == nil || (i > 0 && (sp.Layout == "diff" || sp.Layout == "step")) {
				kb = funclib.NewKeyBuilderEx(mode.cmp)
			}
			return kb
		}
		tmpls := sp.Tmpls
		if sp.Layout == "one" {
			tmpls = []string{strings.Join(sp.Tmpls, " ")}
		}
		eval := func(c *expressions.CompiledKeyBuilder, cx exprgen.PlanEntry, ti int) bool {
			var v string
			plant()
			pi := catch(func() { v = c.BuildKey(cx.Ctx.Ctx) })
			tick()
			if pi != nil {
				fail(pi, fmt.Sprintf("eval/%s/template=%d/ctx=%s", mode.name, ti, cx.Name))
				return false
			}
			h.Write([]byte{0})
			if len(v) > 64 {
				v = v[:64]
			}
			h.Write([]byte(v))
			return true
		}
		var compiled []*expressions.CompiledKeyBuilder
		var index []int
		ok := true
		for ti, t := range tmpls {
			var c *expressions.CompiledKeyBuilder
			var errs *expressions.CompilerErrors
			plant()
			pi := catch(func() { c, errs = builder(ti).Compile(t) })
			tick()
			if pi != nil {
				fail(pi, fmt.Sprintf("compile/%s/template=%d", mode.name, ti))
				ok = false
				break
			}
			if c == nil && errs == nil {
				report(finding{Sig: "C08/compile/returned-neither-expression-nor-error", Detail: fmt.Sprintf("Compile(%q) returned nil, nil", t), Case: x.caseOf(p, "compile/"+mode.name)})
				continue
			}
			if errs != nil {
				h.Write([]byte("|cerr"))
				continue
			}
			compiled = append(compiled, c)
			index = append(index, ti)
			if sp.Layout == "step" {
				for _, cx := range ctxs {
					if ok = eval(c, cx, ti); !ok {
						break
					}
				}
				if !ok {
					break
				}
			}
		}
		if !ok {
			continue // the state after a panic is anybody's guess: next setting, fresh load
		}
		if mi == 0 && loaded > 0 && len(compiled) == len(tmpls) {
			nontrivial = true
		}
		if sp.Layout == "step" {
			continue
		}
	lines:
		for _, cx := range ctxs {
			for i, c := range compiled {
				if !eval(c, cx, index[i]) {
					break lines
				}
			}
		}
	}
	return nontrivial, h.Sum64()
}
