package main

import (
	"fmt"
	"hash/fnv"
	"os"
	"regexp"
	"runtime/debug"
	"strconv"
	"strings"

	"rare/pkg/color"
	"rare/pkg/expressions"
	"rare/pkg/expressions/funclib"
	"rare/pkg/expressions/stdlib"
	"rare/pkg/humanize"
	"rare/pkg/multiterm/termunicode"
	"verif/harness/exprgen"
)

// Case is the replayable form of one program (strings are Go-quoted because
// templates and groups contain NUL and invalid UTF-8, which JSON would alter).
type Case struct {
	Family   string   `json:"family"`
	Fn       string   `json:"fn,omitempty"`
	Template string   `json:"template_goquoted"`
	Groups   []string `json:"groups_goquoted"`
	Contexts []string `json:"contexts"`        // names of the contexts it is evaluated on ("case" = ArrayCtx(groups))
	Where    string   `json:"where,omitempty"` // informational: phase, optimisation, context of the first failure
	// family ff only: the definitions file, the call sites in order, where they are (see funcsfile.go)
	FuncsFile string   `json:"funcs_file_goquoted,omitempty"`
	FuncsID   string   `json:"funcs_file_id,omitempty"`
	Templates []string `json:"templates_goquoted,omitempty"`
	Layout    string   `json:"layout,omitempty"`
}

func (x *executor) caseOf(p *exprgen.Prog, where string) Case {
	c := Case{Family: p.Family, Fn: p.Fn, Template: strconv.Quote(p.Template), Where: where}
	for _, g := range p.Groups {
		c.Groups = append(c.Groups, strconv.Quote(g))
	}
	for _, e := range x.plan(p) {
		c.Contexts = append(c.Contexts, e.Name)
	}
	if sp := ffCases[p]; sp != nil {
		c.FuncsFile, c.FuncsID, c.Layout = strconv.Quote(sp.Text), sp.File, sp.Layout
		for _, t := range sp.Tmpls {
			c.Templates = append(c.Templates, strconv.Quote(t))
		}
	}
	return c
}

func (c Case) prog() (*exprgen.Prog, error) {
	t, err := strconv.Unquote(c.Template)
	if err != nil {
		return nil, err
	}
	p := &exprgen.Prog{Family: c.Family, Fn: c.Fn, Template: t, Dynamic: true}
	for _, g := range c.Groups {
		s, err := strconv.Unquote(g)
		if err != nil {
			return nil, err
		}
		p.Groups = append(p.Groups, s)
	}
	replayContexts[p] = c.Contexts
	if c.Family == "ff" {
		sp := &ffSpec{File: c.FuncsID, Layout: c.Layout}
		if sp.Text, err = strconv.Unquote(c.FuncsFile); err != nil {
			return nil, err
		}
		for _, q := range c.Templates {
			t, err := strconv.Unquote(q)
			if err != nil {
				return nil, err
			}
			sp.Tmpls = append(sp.Tmpls, t)
		}
		p.Arity = len(sp.Tmpls)
		ffCases[p] = sp
	}
	return p, nil
}

// replayContexts: a replayed program is evaluated on the contexts recorded in
// its case, not on a fresh plan.
var replayContexts = map[*exprgen.Prog][]string{}

type finding struct {
	Sig    string `json:"sig"`
	Detail string `json:"detail"`
	Case   Case   `json:"case"`
	Count  int64  `json:"count"`
}

// setGlobals pins every process-wide switch the expression helpers read.
func setGlobals() {
	os.Setenv("TZ", "UTC")
	color.Enabled = true
	humanize.Enabled = true
	humanize.Decimals = 4
	termunicode.UnicodeEnabled = true
	stdlib.DisableLoad = false
}

// enterScratchDir makes the working directory a fresh directory that holds
// only the {load} fixture, so that file names from the pool never exist.
func enterScratchDir() func() {
	dir, err := os.MkdirTemp("", "exprcrash-")
	if err != nil {
		panic(err)
	}
	if err := os.WriteFile(dir+"/"+exprgen.LoadFixture, []byte("a b\nc d\n"), 0o644); err != nil {
		panic(err)
	}
	if err := os.Chdir(dir); err != nil {
		panic(err)
	}
	return func() { os.RemoveAll(dir) }
}

type executor struct {
	kb       [2]*expressions.KeyBuilder // [0] optimising (the default), [1] not
	fixed    []exprgen.Ctx
	sentinel *exprgen.Sentinel
	noPlant  bool
	planFor  *exprgen.Prog
	planned  []exprgen.PlanEntry
	ffPaths  map[string]string // definitions file text -> real file (family ff)
}

func newExecutor() *executor {
	return &executor{
		kb:       [2]*expressions.KeyBuilder{funclib.NewKeyBuilderEx(true), funclib.NewKeyBuilderEx(false)},
		fixed:    exprgen.FixedContexts(),
		sentinel: &exprgen.Sentinel{Trip: true},
	}
}

type panicInfo struct {
	val   any
	stack string
}

func catch(f func()) (pi *panicInfo) {
	defer func() {
		if r := recover(); r != nil {
			pi = &panicInfo{val: r, stack: string(debug.Stack())}
		}
	}()
	f()
	return nil
}

// plant puts the tripwire context under every pooled sub-context (see
// exprgen.PlantPool): a range helper that does not reset its pooled
// sub-context then reaches the tripwire instead of a context left behind by
// an unrelated earlier case (or nil in a fresh process).
func (x *executor) plant(p *exprgen.Prog) {
	if x.noPlant || !strings.Contains(p.Template, "{@") {
		return
	}
	x.sentinel.Armed = false
	exprgen.PlantPool(x.sentinel)
	x.sentinel.Armed = true
}

func (x *executor) plan(p *exprgen.Prog) []exprgen.PlanEntry {
	if x.planFor == p {
		return x.planned
	}
	x.planFor, x.planned = p, x.plan1(p)
	return x.planned
}

func (x *executor) plan1(p *exprgen.Prog) []exprgen.PlanEntry {
	if names, ok := replayContexts[p]; ok && len(names) > 0 {
		var out []exprgen.PlanEntry
		for _, n := range names {
			if n == "case" {
				out = append(out, exprgen.PlanEntry{Ctx: exprgen.Ctx{Name: "case", Ctx: exprgen.ArrayCtx(p.Groups, exprgen.StdKeys())}})
			}
			for _, f := range x.fixed {
				if f.Name == n {
					out = append(out, exprgen.PlanEntry{Ctx: f})
				}
			}
		}
		return out
	}
	return exprgen.Plan(p, x.fixed)
}

// hazard reports whether the program is known not to return on one of its
// contexts (unchanged tree).
func (x *executor) hazard(p *exprgen.Prog) bool {
	for _, e := range x.plan(p) {
		if e.Hazard {
			return true
		}
	}
	return false
}

// run executes one program: compile with and without optimisation, evaluate
// on its contexts. Oracle (C08): "Compiling any template string either yields
// a usable expression or reports errors; it never panics or fails to return.
// Evaluating any compiled expression against any match data ... returns a
// string ... and never panics". Failing to return is detected by the monitor
// of the sandbox process, not here.
func (x *executor) run(p *exprgen.Prog, report func(finding), tick func()) (nontrivial bool, outcome uint64) {
	if sp := ffCases[p]; sp != nil {
		return x.runFF(p, sp, report, tick)
	}
	h := fnv.New64a()
	h.Write([]byte(p.Family + "|" + p.Fn + "|" + strconv.Itoa(p.Arity)))
	ctxs := x.plan(p)
	for o := 0; o < 2; o++ {
		optName := [2]string{"optimised", "unoptimised"}[o]
		var compiled *expressions.CompiledKeyBuilder
		var errs *expressions.CompilerErrors
		x.plant(p)
		pi := catch(func() { compiled, errs = x.kb[o].Compile(p.Template) })
		tick()
		if pi != nil {
			where := "compile/" + optName
			report(x.panicFinding(p, pi, where, o))
			h.Write([]byte("|panic"))
			continue
		}
		if compiled == nil && errs == nil {
			report(finding{Sig: "C08/compile/returned-neither-expression-nor-error", Detail: fmt.Sprintf("Compile(%q) returned nil, nil", p.Template), Case: x.caseOf(p, "compile/"+optName)})
			continue
		}
		if errs != nil {
			// "or reports errors": nothing more is promised about the result
			h.Write([]byte("|cerr"))
			continue
		}
		if o == 0 {
			nontrivial = true
		}
		for _, c := range ctxs {
			var v string
			x.plant(p)
			pi := catch(func() { v = compiled.BuildKey(c.Ctx.Ctx) })
			tick()
			if pi != nil {
				report(x.panicFinding(p, pi, "eval/"+optName+"/ctx="+c.Name, o))
				h.Write([]byte("|panic"))
				continue
			}
			if !p.TimeDep {
				h.Write([]byte{0})
				if len(v) > 64 {
					h.Write([]byte(v[:64]))
				} else {
					h.Write([]byte(v))
				}
			}
		}
	}
	return nontrivial, h.Sum64()
}

var (
	reFuncN    = regexp.MustCompile(`(\.func\d+|\.\d+)+$`)
	reGeneric  = regexp.MustCompile(`\[[^\]]*\]`)
	reNumbers  = regexp.MustCompile(`-?\d+`)
	reNonIdent = regexp.MustCompile(`[^A-Za-z0-9]+`)
)

// frames returns the function names of the panicking goroutine from the
// frame that panicked downwards.
func frames(stack string) []string {
	lines := strings.Split(stack, "\n")
	var out []string
	seenPanic := false
	for i := 0; i+1 < len(lines); i++ {
		l := lines[i]
		if strings.HasPrefix(l, "\t") || l == "" || strings.HasPrefix(l, "goroutine ") {
			continue
		}
		name := l
		if j := strings.LastIndex(name, "("); j > 0 {
			name = name[:j]
		}
		if strings.HasPrefix(name, "panic") || strings.HasPrefix(name, "runtime.gopanic") {
			seenPanic = true
			out = out[:0]
			continue
		}
		if !seenPanic {
			continue
		}
		if strings.HasPrefix(name, "runtime.") && (strings.Contains(name, "panic") || strings.Contains(name, "sigpanic") || strings.Contains(name, "goPanic")) {
			continue
		}
		out = append(out, name)
	}
	return out
}

func panicClass(v any) string {
	if _, ok := v.(exprgen.Tripwire); ok {
		return "parent-context-not-set"
	}
	msg := fmt.Sprint(v)
	if e, ok := v.(error); ok {
		msg = e.Error()
	}
	msg = strings.TrimPrefix(msg, "runtime error: ")
	if i := strings.IndexAny(msg, "[:"); i > 0 && !strings.HasPrefix(msg, "strings:") && !strings.HasPrefix(msg, "makeslice:") {
		msg = msg[:i]
	}
	msg = reNumbers.ReplaceAllString(msg, "N")
	msg = strings.Trim(reNonIdent.ReplaceAllString(msg, "-"), "-")
	if len(msg) > 60 {
		msg = msg[:60]
	}
	if strings.Contains(msg, "nil-pointer-dereference") {
		return "nil-pointer-dereference"
	}
	return msg
}

// site names the place that panicked: the topmost frame inside rare, with
// closure suffixes removed; if a dependency panicked underneath it, its
// package is appended.
func site(fr []string) (s string, anonymousInit bool) {
	top := ""
	rareFrame := ""
	for _, f := range fr {
		if strings.HasPrefix(f, "verif/") {
			continue // the harness's own tripwire context
		}
		if top == "" {
			top = f
		}
		if strings.HasPrefix(f, "rare/") {
			rareFrame = f
			break
		}
	}
	if rareFrame == "" {
		return "outside-rare", false
	}
	name := strings.TrimPrefix(rareFrame, "rare/pkg/expressions/")
	name = strings.TrimPrefix(name, "rare/pkg/")
	name = reGeneric.ReplaceAllString(name, "")
	name = reFuncN.ReplaceAllString(name, "")
	anonymousInit = strings.HasSuffix(name, ".init") || strings.Contains(name, ".glob.")
	if top != rareFrame && !strings.HasPrefix(top, "rare/") {
		pkg := top
		if i := strings.LastIndex(pkg, "/"); i >= 0 {
			pkg = pkg[i+1:]
		}
		if i := strings.Index(pkg, "."); i >= 0 {
			pkg = pkg[:i]
		}
		if pkg != "runtime" && pkg != "strings" && pkg != "strconv" {
			name += ">" + pkg
		}
	}
	return name, anonymousInit
}

func (x *executor) panicFinding(p *exprgen.Prog, pi *panicInfo, where string, o int) finding {
	fr := frames(pi.stack)
	s, anon := site(fr)
	class := panicClass(pi.val)
	if class == "parent-context-not-set" {
		// name the range helper that handed out the sub-context without a parent
		for _, f := range fr {
			if i := strings.Index(f, "stdlib.kfArray"); i >= 0 {
				s += "[" + reFuncN.ReplaceAllString(f[i+len("stdlib."):], "") + "]"
				break
			}
		}
	}
	if anon {
		// an anonymous package-level closure (the body of divi, an operator of
		// the formula language ...): name the helper it belongs to by running
		// the same program once more with every helper wrapped
		s += "[" + x.culprit(p, o) + "]"
	}
	short := fr
	if len(short) > 8 {
		short = short[:8]
	}
	return finding{
		Sig:    "C08/panic/" + s + "/" + class,
		Detail: fmt.Sprintf("panic: %v\nphase: %s\ntemplate: %q\ngroups: %q\nframes: %s", pi.val, where, p.Template, p.Groups, strings.Join(short, " <- ")),
		Case:   x.caseOf(p, where),
	}
}

// culprit re-runs p with every helper of funclib.Builtins wrapped so that the
// innermost helper active when the panic starts is known. Diagnosis only: the
// verdict was already reached on the real builder.
func (x *executor) culprit(p *exprgen.Prog, o int) string {
	name := ""
	mark := func(n string) {
		if name == "" {
			name = n
		}
	}
	kb := expressions.NewKeyBuilderEx(o == 0)
	for n, f := range funclib.Builtins {
		n, f := n, f
		kb.Func(n, func(args []expressions.KeyBuilderStage) (st expressions.KeyBuilderStage, err error) {
			defer func() {
				if r := recover(); r != nil {
					mark(n)
					panic(r)
				}
			}()
			inner, err := f(args)
			if inner == nil {
				return nil, err
			}
			return func(ctx expressions.KeyBuilderContext) string {
				defer func() {
					if r := recover(); r != nil {
						mark(n)
						panic(r)
					}
				}()
				return inner(ctx)
			}, err
		})
	}
	catch(func() {
		x.plant(p)
		c, errs := kb.Compile(p.Template)
		if c == nil || errs != nil {
			return
		}
		for _, cx := range x.plan(p) {
			if name != "" {
				return
			}
			catch(func() { x.plant(p); c.BuildKey(cx.Ctx.Ctx) })
		}
	})
	if name == "" {
		name = p.Fn
	}
	return name
}
