// Harness exprcrash decides C08: no template and no match data can crash or
// hang expression compilation or evaluation.
//
// Structure: every runner worker is only a supervisor. The enumeration runs in
// a sandbox child process (the same binary, started with EXPRCRASH_CHILD set)
// that executes the programs of the shard one after the other under
// recover(). A monitor goroutine in the child ends it when one program makes
// no call returning during 10 s of CPU time or the heap passes 256 MiB, after writing out what it
// has and which program was running; the supervisor confirms such a program
// twice in fresh children, records it as "did not return", and starts a new
// child behind it. A Go fatal error (which no recover can stop) is attributed
// through a shared memory page the child updates before every program. So a
// panic, a hang, an unbounded allocation and a fatal error of the code under
// test are all turned into violations with the exact program attached, and
// none of them is a harness error.
package main

import (
	"encoding/binary"
	"encoding/json"
	"fmt"
	"os"
	"os/exec"
	"path/filepath"
	"runtime/metrics"
	"runtime/pprof"
	"strconv"
	"strings"
	"sync/atomic"
	"syscall"
	"time"

	"verif/harness/exprgen"
	"verif/runner"
)

const (
	childEnv      = "EXPRCRASH_CHILD"
	hangCPU       = 10 * time.Second
	hangWall      = 3 * time.Minute
	heapLimit     = 256 << 20
	shmSize       = 1 << 16
	maxOutcomes   = 400_000
	exitDeath     = 7
	confirmations = 2
)

type childCfg struct {
	Tier        string          `json:"tier"`
	Shard       int             `json:"shard"`
	NShards     int             `json:"n"`
	ResumeBlock int             `json:"resume_block"`
	ResumeIndex int64           `json:"resume_index"`
	SkipKeys    map[string]bool `json:"skip_keys"`
	Deadline    int64           `json:"deadline"`
	Out         string          `json:"out"`
	Shm         string          `json:"shm"`
	Single      *Case           `json:"single,omitempty"`
	NoPlant     bool            `json:"no_plant,omitempty"`
	Only        string          `json:"only,omitempty"` // debugging: only blocks whose id has this prefix
}

type death struct {
	Reason string `json:"reason"` // hang | memory
	Block  int    `json:"block"`
	Index  int64  `json:"index"`
	Case   Case   `json:"case"`
	Key    string `json:"key"`
}

type childOut struct {
	Evals      int64            `json:"evals"`
	Nontrivial int64            `json:"nontrivial"`
	Stats      map[string]int64 `json:"stats"`
	Samples    []Case           `json:"samples"`
	Findings   []*finding       `json:"findings"`
	Death      *death           `json:"death,omitempty"`
	Expired    bool             `json:"expired"`
	Done       bool             `json:"done"`
	OutCapped  bool             `json:"out_capped"`
}

type current struct {
	block int
	index int64
	p     *exprgen.Prog
}

type child struct {
	cfg      childCfg
	out      childOut
	byName   map[string]*finding
	outcomes map[uint64]struct{}
	cur      atomic.Pointer[current]
	progress atomic.Int64
	shm      []byte
	finished atomic.Bool
	x        *executor
}

// skipKey groups the programs that are skipped once one of them did not
// return: same function, same hazard class.
func skipKey(p *exprgen.Prog, hazard bool) string {
	if hazard {
		return p.Fn + "|hazard"
	}
	return p.Family + "|" + p.Fn
}

func (c *child) report(f finding) {
	if old, ok := c.byName[f.Sig]; ok {
		old.Count++
		if len(f.Case.Template)+groupsLen(f.Case) < len(old.Case.Template)+groupsLen(old.Case) {
			old.Case, old.Detail = f.Case, f.Detail // keep the smallest witness
		}
		return
	}
	f.Count = 1
	nf := f
	c.byName[f.Sig] = &nf
	c.out.Findings = append(c.out.Findings, &nf)
}

func groupsLen(c Case) int {
	n := 0
	for _, g := range c.Groups {
		n += len(g)
	}
	return n
}

func (c *child) write() {
	b, _ := json.Marshal(&c.out)
	os.WriteFile(c.cfg.Out, b, 0o644)
	buf := make([]byte, 0, 8*len(c.outcomes))
	for h := range c.outcomes {
		buf = binary.LittleEndian.AppendUint64(buf, h)
	}
	os.WriteFile(c.cfg.Out+".set", buf, 0o644)
}

func (c *child) shmWrite(block int, index int64, p *exprgen.Prog) {
	if c.shm == nil {
		return
	}
	b, _ := json.Marshal(c.x.caseOf(p, ""))
	if len(b) > shmSize-32 {
		b = b[:0]
	}
	binary.LittleEndian.PutUint32(c.shm[0:], 0) // invalid while being written
	binary.LittleEndian.PutUint32(c.shm[4:], uint32(block))
	binary.LittleEndian.PutUint64(c.shm[8:], uint64(index))
	binary.LittleEndian.PutUint32(c.shm[16:], uint32(len(b)))
	copy(c.shm[20:], b)
	binary.LittleEndian.PutUint32(c.shm[0:], 1)
}

func cpuTime() time.Duration {
	var ru syscall.Rusage
	if syscall.Getrusage(syscall.RUSAGE_SELF, &ru) != nil {
		return 0
	}
	return time.Duration(ru.Utime.Nano() + ru.Stime.Nano())
}

// monitor ends the process when the program under execution does not return:
// no call into rare returned while the process consumed hangCPU of CPU time
// (so a machine that is merely overloaded does not count), or hangWall of wall
// time (a blocked program), or the live heap passed heapLimit.
func (c *child) monitor() {
	last := c.progress.Load()
	lastChange := time.Now()
	lastCPU := cpuTime()
	sample := []metrics.Sample{{Name: "/memory/classes/heap/objects:bytes"}}
	for {
		time.Sleep(100 * time.Millisecond)
		if c.finished.Load() {
			return
		}
		reason := ""
		if cur := c.progress.Load(); cur != last {
			last, lastChange, lastCPU = cur, time.Now(), cpuTime()
		} else if cpuTime()-lastCPU > hangCPU || time.Since(lastChange) > hangWall {
			reason = "hang"
		}
		metrics.Read(sample)
		if sample[0].Value.Kind() == metrics.KindUint64 && sample[0].Value.Uint64() > heapLimit {
			reason = "memory"
		}
		if reason == "" {
			continue
		}
		cur := c.cur.Load()
		if cur == nil || c.finished.Load() {
			continue
		}
		c.out.Death = &death{Reason: reason, Block: cur.block, Index: cur.index, Case: c.x.caseOf(cur.p, ""), Key: skipKey(cur.p, c.x.hazard(cur.p))}
		c.write()
		os.Exit(exitDeath)
	}
}

func childMain(raw string) {
	setGlobals()
	cleanup := enterScratchDir()
	c := &child{byName: map[string]*finding{}, outcomes: map[uint64]struct{}{}}
	if err := json.Unmarshal([]byte(raw), &c.cfg); err != nil {
		fmt.Fprintln(os.Stderr, "exprcrash child: bad config:", err)
		os.Exit(2)
	}
	c.out.Stats = map[string]int64{}
	if c.cfg.Shm != "" {
		if f, err := os.OpenFile(c.cfg.Shm, os.O_RDWR, 0); err == nil {
			if m, err := syscall.Mmap(int(f.Fd()), 0, shmSize, syscall.PROT_READ|syscall.PROT_WRITE, syscall.MAP_SHARED); err == nil {
				c.shm = m
			}
			f.Close()
		}
	}
	if pf := os.Getenv("EXPRCRASH_PROF"); pf != "" {
		if f, err := os.Create(pf); err == nil {
			pprof.StartCPUProfile(f)
			defer pprof.StopCPUProfile()
		}
	}
	x := newExecutor()
	x.noPlant = c.cfg.NoPlant
	c.x = x
	go c.monitor()

	exec1 := func(block int, index int64, p *exprgen.Prog) {
		c.cur.Store(&current{block, index, p})
		c.shmWrite(block, index, p)
		nontrivial, oc := x.run(p, c.report, func() { c.progress.Add(1) })
		c.progress.Add(1)
		c.out.Evals++
		if nontrivial {
			c.out.Nontrivial++
		}
		c.out.Stats["programs_"+p.Family]++
		if len(c.outcomes) < maxOutcomes {
			c.outcomes[oc] = struct{}{}
		} else {
			c.out.OutCapped = true
		}
		if nontrivial && p.Dynamic && len(c.out.Samples) < 3 && index%97 == 5 {
			c.out.Samples = append(c.out.Samples, x.caseOf(p, ""))
		}
	}

	if c.cfg.Single != nil {
		p, err := c.cfg.Single.prog()
		if err != nil {
			fmt.Fprintln(os.Stderr, "exprcrash child: bad case:", err)
			os.Exit(2)
		}
		exec1(0, 0, p)
	} else {
		// the ff blocks first: a budget cut on an overloaded machine then costs the tail of the biggest family, not a whole family
		blocks := append(ffBlocks(c.cfg.Tier), exprgen.AllBlocks(exprgen.BoundsFor(c.cfg.Tier))...)
		c.out.Stats["blocks_total"] = 0
		for bi, b := range blocks {
			if c.cfg.NShards > 1 && bi%c.cfg.NShards != c.cfg.Shard {
				continue
			}
			if bi < c.cfg.ResumeBlock {
				continue
			}
			if c.cfg.Only != "" && !strings.HasPrefix(b.ID, c.cfg.Only) {
				continue
			}
			index := int64(-1)
			b.Each(func(p *exprgen.Prog) bool {
				index++
				if bi == c.cfg.ResumeBlock && index < c.cfg.ResumeIndex {
					return true
				}
				if index&127 == 0 && c.cfg.Deadline > 0 && time.Now().Unix() > c.cfg.Deadline {
					c.out.Expired = true
					return false
				}
				if c.cfg.SkipKeys[skipKey(p, x.hazard(p))] {
					c.out.Stats["skipped_after_no_return"]++
					return true
				}
				exec1(bi, index, p)
				return true
			})
			if c.out.Expired {
				break
			}
			c.out.Stats["blocks"]++
		}
	}
	c.finished.Store(true)
	c.out.Done = true
	c.write()
	cleanup()
	pprof.StopCPUProfile()
	os.Exit(0)
}

// ---- supervisor --------------------------------------------------------------

type childResult struct {
	out      *childOut
	outcomes []uint64
	exit     int
	stderr   string
	shmCase  *Case
	shmBlock int
	shmIndex int64
}

func runChild(w *runner.W, cfg childCfg) childResult {
	dir, err := os.MkdirTemp("", "exprcrash-sup-")
	if err != nil {
		panic(err)
	}
	defer os.RemoveAll(dir)
	cfg.Out = filepath.Join(dir, "out.json")
	cfg.Shm = filepath.Join(dir, "shm")
	os.WriteFile(cfg.Shm, make([]byte, shmSize), 0o644)
	raw, _ := json.Marshal(cfg)
	cmd := exec.Command(os.Args[0])
	cmd.Env = append(os.Environ(), childEnv+"="+string(raw), "GOMAXPROCS=2")
	var eb tailBuf
	cmd.Stderr = &eb
	cmd.Stdout = &eb
	if err := cmd.Start(); err != nil {
		panic(err)
	}
	done := make(chan error, 1)
	go func() { done <- cmd.Wait() }()
	tick := time.NewTicker(time.Second)
	defer tick.Stop()
wait:
	for {
		select {
		case <-done:
			break wait
		case <-tick.C:
			if w != nil {
				w.Tick() // the child has its own monitor
			}
		}
	}
	res := childResult{exit: cmd.ProcessState.ExitCode(), stderr: eb.String()}
	if b, err := os.ReadFile(cfg.Out); err == nil {
		var o childOut
		if json.Unmarshal(b, &o) == nil {
			res.out = &o
		}
	}
	if b, err := os.ReadFile(cfg.Out + ".set"); err == nil {
		for i := 0; i+8 <= len(b); i += 8 {
			res.outcomes = append(res.outcomes, binary.LittleEndian.Uint64(b[i:]))
		}
	}
	if b, err := os.ReadFile(cfg.Shm); err == nil && len(b) >= 20 && binary.LittleEndian.Uint32(b[0:]) == 1 {
		n := int(binary.LittleEndian.Uint32(b[16:]))
		var c Case
		if n > 0 && 20+n <= len(b) && json.Unmarshal(b[20:20+n], &c) == nil {
			res.shmCase = &c
			res.shmBlock = int(binary.LittleEndian.Uint32(b[4:]))
			res.shmIndex = int64(binary.LittleEndian.Uint64(b[8:]))
		}
	}
	return res
}

type tailBuf struct{ b []byte }

func (t *tailBuf) Write(p []byte) (int, error) {
	t.b = append(t.b, p...)
	if len(t.b) > 1<<16 {
		t.b = append([]byte{}, t.b[len(t.b)-(1<<15):]...)
	}
	return len(p), nil
}
func (t *tailBuf) String() string { return string(t.b) }

// noReturn classifies the end of a child that did not finish its program.
func noReturn(res childResult) (reason string, c *Case) {
	if res.out != nil && res.out.Death != nil {
		return res.out.Death.Reason, &res.out.Death.Case
	}
	if res.exit != 0 && (res.out == nil || !res.out.Done) && res.shmCase != nil {
		reason = "fatal"
		for _, l := range strings.Split(res.stderr, "\n") {
			if strings.HasPrefix(l, "fatal error: ") {
				reason = "fatal-" + strings.Trim(reNonIdent.ReplaceAllString(strings.TrimPrefix(l, "fatal error: "), "-"), "-")
				break
			}
		}
		return reason, res.shmCase
	}
	return "", nil
}

// confirm runs the single case in fresh children; true if it fails to return
// the same way every time.
func confirm(w *runner.W, c Case, reason string, noPlant bool) bool {
	for i := 0; i < confirmations; i++ {
		res := runChild(w, childCfg{Single: &c, NoPlant: noPlant})
		if r, _ := noReturn(res); r == "" {
			return false
		}
	}
	return true
}

// noReturnSig: one class for "10 s of CPU time (or 3 min of wall time) without a call returning" and "heap beyond the
// limit" - which of the two ends a runaway loop first depends on the load of
// the machine; a fatal error of the runtime is named.
func noReturnSig(reason string, c *Case) string {
	fn := c.Fn
	if fn == "" {
		fn = "template"
	}
	if strings.HasPrefix(reason, "fatal") {
		return "C08/no-return/" + fn + "/" + reason
	}
	return "C08/no-return/" + fn + "/runaway"
}

// findings of all children of this worker, smallest witness per signature
var (
	acc      = map[string]*finding{}
	accOrder []string
)

func flush(w *runner.W) {
	for _, sig := range accOrder {
		f := acc[sig]
		for i := int64(0); i < f.Count; i++ {
			w.Violation(f.Sig, f.Detail, f.Case) // the first call stores, the others count
		}
	}
}

func merge(w *runner.W, res childResult) {
	if res.out == nil {
		return
	}
	o := res.out
	w.Evals += o.Evals
	w.Nontrivial += o.Nontrivial
	w.Tick()
	for k, v := range o.Stats {
		w.Add(k, v)
	}
	for _, h := range res.outcomes {
		w.OutcomeHash(h)
	}
	for _, s := range o.Samples {
		w.Sample(s)
	}
	for _, f := range o.Findings {
		if old, ok := acc[f.Sig]; ok {
			old.Count += f.Count
			if len(f.Case.Template)+groupsLen(f.Case) < len(old.Case.Template)+groupsLen(old.Case) {
				old.Case, old.Detail = f.Case, f.Detail
			}
		} else {
			acc[f.Sig] = f
			accOrder = append(accOrder, f.Sig)
		}
	}
	if o.OutCapped {
		w.Add("outcome_set_capped_in_children", 1)
	}
}

func worker(w *runner.W) {
	defer flush(w)
	cfg := childCfg{Tier: w.Tier, Shard: w.Shard, NShards: w.N, SkipKeys: map[string]bool{}, NoPlant: w.Param("plant", "1") == "0", Only: w.Param("only", "")}
	// the runner does not expose its deadline; derive ours from the same budgets
	cfg.Deadline = time.Now().Add(budget(w.Tier)).Unix()
	for attempt := 0; attempt < 400; attempt++ {
		res := runChild(w, cfg)
		merge(w, res)
		if res.out != nil && res.out.Done {
			if res.out.Expired {
				w.Cap("internal time budget reached")
			}
			return
		}
		reason, c := noReturn(res)
		if reason == "" {
			panic(fmt.Sprintf("sandbox child ended with exit %d without a result and without a current case\nstderr: %s", res.exit, tail(res.stderr, 3000)))
		}
		var blk int
		var idx int64
		key := ""
		if res.out != nil && res.out.Death != nil {
			blk, idx, key = res.out.Death.Block, res.out.Death.Index, res.out.Death.Key
		} else {
			blk, idx = res.shmBlock, res.shmIndex
			if p, err := c.prog(); err == nil {
				key = skipKey(p, false)
			}
			w.Cap("a sandbox child died of a fatal error; the counters of its segment are lost")
		}
		if confirm(w, *c, reason, cfg.NoPlant) {
			c.Where = "did not return: " + reason
			w.Violation(noReturnSig(reason, c), fmt.Sprintf("the program did not return (%s) in 1+%d fresh processes\ntemplate: %s\ngroups: %v\n%s",
				reason, confirmations, c.Template, c.Groups, tail(res.stderr, 600)), *c)
			w.Add("programs_not_returning", 1)
			if key != "" {
				cfg.SkipKeys[key] = true
			}
		} else {
			w.Cap(fmt.Sprintf("a program did not return once (%s) but returned when run alone: %s", reason, c.Template))
		}
		cfg.ResumeBlock, cfg.ResumeIndex = blk, idx+1
	}
	w.Cap("too many sandbox restarts")
}

func tail(s string, n int) string {
	if len(s) > n {
		return s[len(s)-n:]
	}
	return s
}

func replay(w *runner.W, raw json.RawMessage) {
	var c Case
	if err := json.Unmarshal(raw, &c); err != nil {
		panic(err)
	}
	noPlant := w.Param("plant", "1") == "0"
	res := runChild(nil, childCfg{Single: &c, NoPlant: noPlant})
	if res.out != nil {
		for _, f := range res.out.Findings {
			w.Violation(f.Sig, f.Detail, f.Case)
		}
	}
	if reason, cc := noReturn(res); reason != "" {
		w.Violation(noReturnSig(reason, cc), "the program did not return ("+reason+")\n"+tail(res.stderr, 600), *cc)
	} else if res.out == nil || !res.out.Done {
		panic("sandbox child failed: " + tail(res.stderr, 2000))
	}
}

func budget(tier string) time.Duration {
	if v := os.Getenv("VERIF_BUDGET_S"); v != "" {
		if s, err := strconv.Atoi(v); err == nil {
			return time.Duration(s) * time.Second
		}
	}
	if tier == "thorough" {
		return 20 * time.Minute
	}
	return 150 * time.Second
}

func main() {
	if raw := os.Getenv(childEnv); raw != "" {
		os.Unsetenv(childEnv)
		childMain(raw)
		return
	}
	setGlobals()
	runner.Main(&runner.Spec{
		Name:       "exprcrash",
		Properties: []string{"C08"},
		Level:      "exploration",
		Rule: func(prop, tier string) string {
			b := exprgen.BoundsFor(tier)
			return exprgen.Describe(b) + fmt.Sprintf("; (raw) every string of length <= %d over the %d symbols %q as a template; "+ffDescribe(tier)+". "+
				"Every program (ff: see there) is compiled by funclib.NewKeyBuilderEx(true) and (false); if Compile reports no error the expression is evaluated on its own case context and on 6 fixed contexts "+
				"(all-empty, numeric, huge, odd bytes, two real SliceSpaceExpressionContexts captured from the real extractor with a regex matcher; constant-only programs: 3 contexts; formulas: the case context; raw: 2). "+
				"Oracle: no panic, Compile returns an expression or errors, every call returns (10 s of CPU time (or 3 min of wall time) without a call returning or a heap beyond 256 MiB in the sandbox process = did not return, confirmed twice in fresh processes). "+
				"non-trivial = Compile reported no error, so the helper's own evaluation stage (not an error stage) ran (ff: the file gave at least one function and every template of the sequence compiled, so every call site ran the body of a user function); an outcome is (family, function, arity, compile status, first 64 bytes of every result)",
				b.RawLen, len(exprgen.RawAlphabet), string(exprgen.RawAlphabet))
		},
		Assumptions: func(string) []string {
			return []string{
				"resource exhaustion by design is excluded by construction: a count-like argument (repeat count, bar length, decimals of round/percent/bytesize/bytesizesi/downscale) of magnitude > 65536 and any @range whose mathematical length exceeds 65536 are not generated (see exprgen.ExcludedByDesign); non-terminating @for loops are generated only with values that do not grow (rare caps them at 1e6 iterations)",
				"templates nest at most 2 statements deep (3 for the sub-expression of a range helper); values outside the pools are not covered",
				"the shared sub-context pool of the range helpers is put into a known state before every program that contains a range helper: every pooled object's parent is a tripwire context (in a fresh process it would be nil, later the context of an unrelated earlier evaluation); reaching the tripwire is reported as parent-context-not-set",
				"process globals pinned: TZ=UTC, color.Enabled=true, humanize.Enabled=true, termunicode.UnicodeEnabled=true, stdlib.DisableLoad=false, working directory = fresh directory holding only the {load} fixture",
				"an expression returned together with compile errors is not evaluated (the statement promises a usable expression or errors; the commands refuse such templates)",
				"ff: the definitions file is loaded afresh (new function closures, funclib.Additional emptied first) for every case and every optimisation setting, so a case is its own whole history and replays alone; loading is compiling the bodies, so a panic of the loader counts as a panic of Compile, while load errors (rejected definitions) are allowed answers; after the first panic of a setting the rest of that setting is not run",
				"ff: arguments of a user function are evaluated on every read (call by name), so a body reading an argument k times evaluates a call nested d deep k^d times: nests with k^d > 65536 are resource exhaustion by design and not generated (k is declared per function in funcsfile.go: opt, two, d read an argument twice)",
			}
		},
		Worker:         worker,
		Replay:         replay,
		HangSeconds:    60,
		QuickBudget:    budget("quick"),
		ThoroughBudget: budget("thorough"),
	})
}
