package main

// Oracle of C16, written from the statement. It imports nothing from rare.
// encoding/json is used only as validator and decoder; the small tolerant
// scanner at the end is used only to *name* the defect class of a text that
// encoding/json has already rejected (it never decides a verdict).

import (
	"bytes"
	"encoding/json"
	"fmt"
	"io"
	"math/big"
	"sort"
	"strconv"
	"strings"
	"unicode"
	"unicode/utf8"
)

// finding is one oracle failure of a text.
type finding struct {
	sig    string // below "C16/"
	detail string
}

// expectation describes the match the text was produced from.
type expectation struct {
	named    bool              // the key asks for the named groups
	numbered bool              // the key asks for the numbered groups
	names    map[string]string // group name -> captured text
	groups   []string          // group index -> captured text (0 = whole match)
}

// ---- decimal numbers, compared exactly

type decimal struct {
	neg    bool
	digits string   // significant digits without leading/trailing zeros; "" = zero
	exp    *big.Int // value = 0.digits * 10^exp (exact: an exponent may have thousands of digits)
}

// equal: the same exact decimal value (-0 = 0).
func (d decimal) equal(o decimal) bool {
	if d.digits == "" || o.digits == "" {
		return d.digits == o.digits
	}
	return d.neg == o.neg && d.digits == o.digits && d.exp.Cmp(o.exp) == 0
}

// parseDecimal accepts the liberal "numeric-looking" shape
// [+-] digits [. digits] [e [+-] digits] with at least one mantissa digit
// (so "007", "1.", ".5", "+1" and every JSON number are accepted).
func parseDecimal(s string) (decimal, bool) {
	var d decimal
	i := 0
	if i < len(s) && (s[i] == '+' || s[i] == '-') {
		d.neg = s[i] == '-'
		i++
	}
	start := i
	for i < len(s) && s[i] >= '0' && s[i] <= '9' {
		i++
	}
	intPart := s[start:i]
	frac := ""
	if i < len(s) && s[i] == '.' {
		i++
		fs := i
		for i < len(s) && s[i] >= '0' && s[i] <= '9' {
			i++
		}
		frac = s[fs:i]
	}
	if len(intPart)+len(frac) == 0 {
		return d, false
	}
	e := new(big.Int)
	if i < len(s) && (s[i] == 'e' || s[i] == 'E') {
		i++
		eneg := false
		if i < len(s) && (s[i] == '+' || s[i] == '-') {
			eneg = s[i] == '-'
			i++
		}
		es := i
		for i < len(s) && s[i] >= '0' && s[i] <= '9' {
			i++
		}
		if es == i {
			return d, false
		}
		if _, ok := e.SetString(s[es:i], 10); !ok {
			return d, false
		}
		if eneg {
			e.Neg(e)
		}
	}
	if i != len(s) {
		return d, false
	}
	all := intPart + frac
	lead := 0
	for lead < len(all) && all[lead] == '0' {
		lead++
	}
	sig := strings.TrimRight(all[lead:], "0")
	if sig == "" {
		return decimal{}, true // zero (sign ignored: -0 = 0)
	}
	d.digits = sig
	d.exp = e.Add(e, big.NewInt(int64(len(intPart)-lead)))
	return d, true
}

// ---- text comparison

// replaceEach replaces every invalid byte by U+FFFD (what a JSON decoder does
// with a raw invalid byte inside a string).
func replaceEach(s string) string {
	if utf8.ValidString(s) {
		return s
	}
	var sb strings.Builder
	for i := 0; i < len(s); {
		r, n := utf8.DecodeRuneInString(s[i:])
		if r == utf8.RuneError && n == 1 {
			sb.WriteRune(utf8.RuneError)
		} else {
			sb.WriteString(s[i : i+n])
		}
		i += n
	}
	return sb.String()
}

// sameText: "members decode to the captured group texts". Invalid UTF-8 cannot
// be represented in JSON; a U+FFFD per invalid byte or per run of invalid
// bytes is accepted.
func sameText(decoded, capture string) bool {
	return decoded == capture || decoded == replaceEach(capture) || decoded == strings.ToValidUTF8(capture, "\uFFFD")
}

func captureClass(s string) string {
	switch {
	case !utf8.ValidString(s):
		return "invalid-utf8"
	case strings.IndexFunc(s, func(r rune) bool { return r < 0x20 }) >= 0:
		return "control-character"
	case strings.ContainsAny(s, `"\`):
		return "quote-or-backslash"
	case strings.IndexFunc(s, func(r rune) bool { return r >= 0x80 }) >= 0:
		return "non-ascii"
	}
	return "plain"
}

func foldASCII(s string) string {
	b := []byte(s)
	for i, c := range b {
		if 'A' <= c && c <= 'Z' {
			b[i] = c + 32
		}
	}
	return string(b)
}


// asciiDigits replaces every decimal digit of another script (category Nd) by
// the ASCII digit of the same value.
func asciiDigits(s string) string {
	if !utf8.ValidString(s) {
		return s
	}
	var sb strings.Builder
	for _, r := range s {
		if v, ok := ndValue(r); ok && r >= 0x80 {
			sb.WriteByte(byte('0' + v))
		} else {
			sb.WriteRune(r)
		}
	}
	return sb.String()
}

// ndRun returns the first rune of the run of consecutive Nd runes r is in.
func ndRun(r rune) rune {
	s := r
	for s > 0 && unicode.Is(unicode.Nd, s-1) {
		s--
	}
	return s
}

// ndValue: the digit value of a rune of Nd. Every run of consecutive Nd runes
// is a whole number of blocks 0..9 (checked by lookSelfCheck).
func ndValue(r rune) (int, bool) {
	if !unicode.Is(unicode.Nd, r) {
		return 0, false
	}
	return int(r-ndRun(r)) % 10, true
}

// checkText applies the per-text clauses of the statement.
func checkText(text string, exp *expectation) []finding {
	var out []finding
	add := func(sig, format string, a ...any) {
		out = append(out, finding{sig, fmt.Sprintf(format, a...)})
	}
	// "always produce one syntactically valid JSON object"
	if !json.Valid([]byte(text)) {
		for _, cl := range classifyInvalid(text, exp) {
			add("invalid-json/"+cl, "not valid JSON (%s)", cl)
		}
		return out
	}
	dec := json.NewDecoder(strings.NewReader(text))
	dec.UseNumber()
	tok, err := dec.Token()
	if d, ok := tok.(json.Delim); err != nil || !ok || d != '{' {
		add("not-an-object", "the text is valid JSON but not an object")
		return out
	}
	seen := map[string]bool{}
	seenName := map[string]bool{}
	// a group name that is not valid UTF-8 cannot be written in JSON; the
	// member name may decode to it the same way a value may (sameText)
	nameOf := func(key string) (string, bool) {
		if _, ok := exp.names[key]; ok {
			return key, true
		}
		var cands []string
		for n := range exp.names {
			if sameText(key, n) {
				cands = append(cands, n)
			}
		}
		if len(cands) == 0 {
			return "", false
		}
		sort.Strings(cands)
		return cands[0], true
	}
	for dec.More() {
		kt, err := dec.Token()
		key, ok := kt.(string)
		if err != nil || !ok {
			add("decoder-error", "member name: %v", err)
			return out
		}
		vt, err := dec.Token()
		if err != nil {
			add("decoder-error", "member value: %v", err)
			return out
		}
		if seen[key] {
			add("member/duplicate", "member %q appears twice", key)
			continue
		}
		seen[key] = true
		// which capture does the member stand for?
		var capture string
		known := false
		kind := ""
		if exp.named {
			if n, ok := nameOf(key); ok {
				capture, known, kind = exp.names[n], true, "named"
				seenName[n] = true
			}
		}
		if !known && exp.numbered {
			if i, err := strconv.Atoi(key); err == nil && i >= 0 && i < len(exp.groups) && strconv.Itoa(i) == key {
				capture, known, kind = exp.groups[i], true, "numbered"
			}
		}
		if !known {
			add("member/unexpected-name", "member %q is not a group the key asks for", key)
			if _, isDelim := vt.(json.Delim); isDelim {
				return out
			}
			continue
		}
		switch v := vt.(type) {
		case string:
			// "everything else as correctly escaped strings"
			if !sameText(v, capture) {
				add("member/"+kind+"/string-differs/"+captureClass(capture), "member %q decodes to %q, the captured text is %q", key, v, capture)
			}
		case json.Number:
			// "numeric-looking ... captures may appear as JSON numbers ... of
			// equal value"
			cd, cok := parseDecimal(capture)
			if !cok {
				// a capture written in the decimal digits of another script
				// is numeric-looking too; its value is the one its digits have
				cd, cok = parseDecimal(asciiDigits(capture))
			}
			vd, vok := parseDecimal(string(v))
			if !cok {
				add("member/"+kind+"/number-for-non-numeric-capture", "member %q is the number %s, the captured text is %q", key, v, capture)
			} else if !vok || !cd.equal(vd) {
				add("member/"+kind+"/number-of-different-value", "member %q is the number %s, the captured text is %q", key, v, capture)
			}
		case bool:
			// "true/false captures may appear as ... booleans of equal value"
			want := "false"
			if v {
				want = "true"
			}
			if foldASCII(capture) != want {
				add("member/"+kind+"/boolean-for-other-capture", "member %q is the boolean %v, the captured text is %q", key, v, capture)
			}
		default:
			add("member/"+kind+"/not-a-scalar", "member %q is %v, the captured text is %q", key, vt, capture)
			if _, isDelim := vt.(json.Delim); isDelim {
				return out
			}
		}
	}
	if _, err := dec.Token(); err != nil {
		add("decoder-error", "closing: %v", err)
		return out
	}
	if _, err := dec.Token(); err != io.EOF {
		add("not-one-object", "something follows the object")
	}
	// "whose members decode to the captured group texts": every non-empty
	// capture the key asks for is a member (an empty capture may be left out)
	if exp.named {
		names := make([]string, 0, len(exp.names))
		for n := range exp.names {
			names = append(names, n)
		}
		sort.Strings(names)
		for _, n := range names {
			if exp.names[n] != "" && !seenName[n] {
				add("member/named/missing", "no member for the named group %q (captured %q)", n, exp.names[n])
			}
		}
	}
	if exp.numbered {
		for i, c := range exp.groups {
			if c != "" && !seen[fmt.Sprint(i)] {
				add("member/numbered/missing", "no member for group %d (captured %q)", i, c)
			}
		}
	}
	return out
}

// ---- naming the defect class of an invalid text

// classifyInvalid scans the text with a JSON-object grammar that tolerates
// (and flags) the two lexical errors the captured text can cause: a raw
// control character inside a string and a bare number with leading zeros. If
// the structure cannot be followed at all, the class is "name-not-escaped"
// when a group name needs escaping, else "malformed".
func classifyInvalid(text string, exp *expectation) []string {
	flags := map[string]bool{}
	ok := tolerantObject(text, flags)
	if !ok {
		if exp.named {
			for n := range exp.names {
				if strings.ContainsAny(n, "\"\\") || strings.IndexFunc(n, func(r rune) bool { return r < 0x20 }) >= 0 {
					return []string{"name-not-escaped"}
				}
			}
		}
		return []string{"malformed"}
	}
	if len(flags) == 0 {
		return []string{"unclassified"}
	}
	var out []string
	for f := range flags {
		out = append(out, f)
	}
	sort.Strings(out)
	return out
}

func tolerantObject(s string, flags map[string]bool) bool {
	i := 0
	ws := func() {
		for i < len(s) && (s[i] == ' ' || s[i] == '\t' || s[i] == '\n' || s[i] == '\r') {
			i++
		}
	}
	str := func() bool {
		if i >= len(s) || s[i] != '"' {
			return false
		}
		i++
		for i < len(s) {
			c := s[i]
			switch {
			case c == '"':
				i++
				return true
			case c == '\\':
				if i+1 >= len(s) {
					return false
				}
				e := s[i+1]
				if e == 'u' {
					if i+6 > len(s) {
						return false
					}
					for _, h := range []byte(s[i+2 : i+6]) {
						if !(h >= '0' && h <= '9' || h >= 'a' && h <= 'f' || h >= 'A' && h <= 'F') {
							return false
						}
					}
					i += 6
					continue
				}
				if !bytes.ContainsRune([]byte(`"\/bfnrt`), rune(e)) {
					return false
				}
				i += 2
			case c < 0x20:
				flags["raw-control-character-in-string"] = true
				i++
			default:
				i++
			}
		}
		return false
	}
	ws()
	if i >= len(s) || s[i] != '{' {
		return false
	}
	i++
	ws()
	if i < len(s) && s[i] == '}' {
		i++
		ws()
		return i == len(s)
	}
	for {
		ws()
		if !str() {
			return false
		}
		ws()
		if i >= len(s) || s[i] != ':' {
			return false
		}
		i++
		ws()
		if i < len(s) && s[i] == '"' {
			if !str() {
				return false
			}
		} else {
			st := i
			for i < len(s) && s[i] != ',' && s[i] != '}' && s[i] != ' ' {
				i++
			}
			lit := s[st:i]
			switch {
			case lit == "true" || lit == "false" || lit == "null":
			case json.Valid([]byte(lit)):
			default:
				// a number that is valid once its superfluous leading zeros
				// are removed
				t := strings.TrimPrefix(lit, "-")
				j := 0
				for j+1 < len(t) && t[j] == '0' && t[j+1] >= '0' && t[j+1] <= '9' {
					j++
				}
				if j > 0 && json.Valid([]byte(t[j:])) {
					flags["number-with-leading-zero"] = true
				} else {
					flags["bare-value-is-not-a-json-literal"] = true
				}
			}
		}
		ws()
		if i < len(s) && s[i] == ',' {
			i++
			continue
		}
		if i < len(s) && s[i] == '}' {
			i++
			ws()
			return i == len(s)
		}
		return false
	}
}
