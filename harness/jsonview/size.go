package main

// SIZE sweeps and HISTORY family of C16.
//
// main.go enumerates every pair of group values of at most 3 symbols. A defect
// that exists only beyond some size (an escape routine that switches strategy
// for long values, a number check that looks at the first k digits only, a
// fixed array of group offsets or member names, a string builder hint) is
// invisible there. Each family below runs a few fixed shapes parametrised by
// one size n over n = 0..70 and 2^k-1, 2^k, 2^k+1. Matches come from the real
// matchers, the text from the real extractor; the oracle is checkText (ref.go)
// with the captures known by construction ("members decode to the captured
// group texts").
//
//	value   a capture of n bytes: plain letters; a symbol that needs escaping
//	        (or is invalid UTF-8, or a 2/3/4-byte rune) at every position, at
//	        every other position, only first, only last, and runes shifted by
//	        1..3 bytes so that they straddle every power-of-two offset
//	digits  numeric-looking captures with n digits, n decimals, n zeros,
//	        exponents of magnitude n and of n digits, a letter or a dot after /
//	        in the middle of n digits
//	groups  n named / unnamed / alternating groups (regex), n tokens (dissect)
//	names   a dissect group name of n bytes (plain, or with symbols that need
//	        escaping), a regex group name of n letters
//	bytes   every byte 0x00..0xff as a capture of one byte and as the middle
//	        byte of a?b
//
// Every unit feeds its lines to ONE extractor (one compiled key, one matcher
// instance) in ascending order of n and again in descending order; the two
// texts of a line must be identical.
//
// HISTORY family: for every matcher configuration and key one extractor
// evaluates a list of very different lines forward and backward (in three
// different orders); every text must be byte-identical to the text a fresh
// extractor (fresh compiled key, fresh matcher instance) gives for that line
// alone ("The same match always yields the same text").

import (
	"fmt"
	"sort"
	"strconv"
	"strings"

	"rare/pkg/extractor"
	"rare/pkg/matchers"
	"rare/pkg/matchers/dissect"
	"rare/pkg/matchers/fastregex"
	"verif/runner"
)

// sCase is the replayable description of one unit of this file.
type sCase struct {
	Family string `json:"family"`
	Shape  string `json:"shape"`
	Sym    string `json:"sym,omitempty"` // quoted
	N      int    `json:"n"`             // -1: all n of the tier
	Config string `json:"config"`
	Key    string `json:"key"`
	Tier   string `json:"tier"`
	// informational
	Pattern string `json:"pattern,omitempty"`
	Line    string `json:"line,omitempty"`
}

// ------------------------------------------------------------------ sizes

func sweepNs(maxK int) []int {
	var out []int
	for n := 0; n <= 70; n++ {
		out = append(out, n)
	}
	for k := 7; k <= maxK; k++ {
		out = append(out, 1<<k-1, 1<<k, 1<<k+1)
	}
	return out
}

// length of a value / of a name
func valueNs(quick bool) []int {
	if quick {
		return sweepNs(12)
	}
	return sweepNs(16)
}

// number of groups
func groupNs(quick bool) []int {
	if quick {
		return sweepNs(8)
	}
	return sweepNs(10)
}

// --------------------------------------------------------------- contents

// plain returns n letters; the letter at offset i depends on i.
func plain(n int) string {
	if n <= 0 {
		return ""
	}
	const lower = "abcdefghijklmnopqrstuvwxyz"
	b := make([]byte, n)
	for i := range b {
		b[i] = lower[(i+i/26)%26]
		if i%26 == 25 {
			b[i] = "ABCDEFGHIJKLMNOPQRSTUVWXYZ"[(i/26)%26]
		}
	}
	return string(b)
}

// digitsOf returns n decimal digits, the first one not 0; digit i depends on i.
func digitsOf(n int) string {
	if n <= 0 {
		return ""
	}
	b := make([]byte, n)
	for i := range b {
		b[i] = byte('0' + (i*7+i/10+1)%10)
	}
	if b[0] == '0' {
		b[0] = '9'
	}
	return string(b)
}

func cut(s string, n int) string {
	if n < 0 {
		n = 0
	}
	if len(s) > n {
		return s[:n]
	}
	return s
}

// repeatTo repeats sym until n bytes are filled (the last copy may be cut).
func repeatTo(sym string, n int) string {
	if n <= 0 {
		return ""
	}
	return cut(strings.Repeat(sym, n/len(sym)+1), n)
}

// valueSyms: what a value is made of besides plain letters.
func valueSyms() []string {
	out := []string{`"`, `\`}
	for c := 0; c < 0x20; c++ {
		out = append(out, string([]byte{byte(c)}))
	}
	out = append(out, "\x7f", "/",
		"\x80", "\xff", "\xc3", "\xed\xa0\x80", // invalid UTF-8: continuation byte, never-valid byte, lead byte alone, encoded surrogate
		"é", "あ", "😀", " ", "�") // 2, 3, 4 byte runes; U+2028; the replacement character itself
	return out
}

var nameSyms = []string{`"`, `\`, "\x00", "\x01", "\n", "\x1f", "\x7f", "\xff", "\xc3", "é", "😀", "{", "%", " ", "/"}

var valueShapes = []string{"every", "alternate", "first", "last", "shift1", "shift2", "shift3"}

// shapedValue builds the n-byte value of (sym, shape). ok=false: the shape
// does not exist for this symbol.
func shapedValue(sym, shape string, n int) (string, bool) {
	m := len(sym)
	switch shape {
	case "plain":
		return plain(n), true
	case "every":
		return repeatTo(sym, n), true
	case "alternate":
		// the symbol, one plain letter, the symbol ...
		var sb strings.Builder
		p := plain(n)
		for i := 0; sb.Len() < n; i++ {
			sb.WriteString(sym)
			sb.WriteByte(p[i])
		}
		return cut(sb.String(), n), true
	case "first":
		return cut(sym+plain(n-m), n), true
	case "last":
		if n < m {
			return cut(sym, n), true
		}
		return plain(n-m) + sym, true
	case "shift1", "shift2", "shift3":
		k := int(shape[5] - '0')
		if k >= m {
			return "", false
		}
		return cut(plain(k)+repeatTo(sym, n), n), true
	}
	panic("unknown value shape " + shape)
}

var digitShapes = []string{
	"int", "neg-int", "frac", "int-frac", "one-frac-zeros", "zeros", "zeros-one", "neg-zeros-one", "frac-zeros-one",
	"exp-magnitude", "exp-neg-magnitude", "exp-plus-upper", "mantissa-exp", "exp-digits", "exp-neg-digits",
	"int-dot", "int-letter", "letter-int", "int-letter-mid", "int-dot-mid", "two-dots", "int-space", "int-newline",
}

func digitValue(shape string, n int) string {
	d := digitsOf(n)
	z := strings.Repeat("0", n)
	switch shape {
	case "int":
		return d
	case "neg-int":
		return "-" + d
	case "frac":
		return "0." + d
	case "int-frac":
		return d + "." + d
	case "one-frac-zeros":
		return "1." + z
	case "zeros":
		return z
	case "zeros-one":
		return z + "1"
	case "neg-zeros-one":
		return "-" + z + "1"
	case "frac-zeros-one":
		return "0." + z + "1"
	case "exp-magnitude":
		return "1e" + strconv.Itoa(n)
	case "exp-neg-magnitude":
		return "25e-" + strconv.Itoa(n)
	case "exp-plus-upper":
		return "1.5E+" + strconv.Itoa(n)
	case "mantissa-exp":
		return d + "e" + strconv.Itoa(n)
	case "exp-digits":
		return "1e" + d
	case "exp-neg-digits":
		return "1e-" + d
	case "int-dot":
		return d + "."
	case "int-letter":
		return d + "a"
	case "letter-int":
		return "a" + d
	case "int-letter-mid":
		if n == 0 {
			return ""
		}
		return d[:n/2] + "x" + d[n/2+1:]
	case "int-dot-mid":
		if n == 0 {
			return ""
		}
		return d[:n/2] + "." + d[n/2+1:]
	case "two-dots":
		return d + "." + d + ".1"
	case "int-space":
		return d + " "
	case "int-newline":
		return d + "\n"
	}
	panic("unknown digit shape " + shape)
}

// ---------------------------------------------------------- real machinery

type matchSpec struct {
	Kind    string // regex | dissect
	Pattern string
}

func (m matchSpec) factory() (matchers.Factory, error) {
	// the same construction as cmd/helpers/extractorBuilder.go
	if m.Kind == "dissect" {
		d, err := dissect.CompileEx(m.Pattern, false)
		if err != nil {
			return nil, err
		}
		return matchers.ToFactory(d), nil
	}
	r, err := fastregex.CompileEx(m.Pattern, false)
	if err != nil {
		return nil, err
	}
	return matchers.ToFactory(r), nil
}

// evalLines creates one extractor (one worker: one compiled key, one matcher
// instance, one expression context), feeds it the lines as one batch in order,
// closes it and returns the matches by position (zero Match: no match or an
// empty key).
func evalLines(ms matchSpec, key string, lines []string) ([]extractor.Match, error) {
	f, err := ms.factory()
	if err != nil {
		return nil, fmt.Errorf("compiling the %s pattern: %v", ms.Kind, err)
	}
	in := make(chan extractor.InputBatch)
	ex, err := extractor.New(in, &extractor.Config{Matcher: f, Extract: key, Workers: 1})
	if err != nil {
		close(in)
		return nil, fmt.Errorf("extractor.New(%q): %v", key, err)
	}
	batch := make([]extractor.BString, len(lines))
	for i, l := range lines {
		batch[i] = extractor.BString(l)
	}
	out := make([]extractor.Match, len(lines))
	done := make(chan struct{})
	go func() {
		for got := range ex.ReadChan() {
			for _, m := range got {
				k := int(m.LineNumber) - 1
				if k >= 0 && k < len(out) {
					out[k] = m
				}
			}
		}
		close(done)
	}()
	in <- extractor.InputBatch{Batch: batch, Source: "h", BatchStart: 1}
	close(in)
	<-done
	return out, nil
}

// sLine is one line with the captures it has by construction.
type sLine struct {
	n      int
	line   string
	groups []string // index 0 = the whole match
}

type sUnit struct {
	ms    matchSpec
	names map[string]int // group name -> index
	lines []sLine
}

func short(s string) string {
	if len(s) <= 120 {
		return q(s)
	}
	return fmt.Sprintf("%s...(%d bytes)...%s", q(s[:50]), len(s), q(s[len(s)-50:]))
}

func sizeClass(n int) string {
	switch {
	case n <= 70:
		return "n<=70"
	case n <= 4097:
		return "n<=4097"
	}
	return "n>4097"
}

// runSUnit evaluates the lines of a unit on ONE extractor forward and
// backward and applies checkText to every line.
func runSUnit(w *runner.W, cs sCase, u sUnit, tail string) {
	cs.Pattern = short(u.ms.Pattern)
	lines := make([]string, 0, 2*len(u.lines))
	for _, l := range u.lines {
		lines = append(lines, l.line)
	}
	for i := len(u.lines) - 1; i >= 0; i-- {
		lines = append(lines, u.lines[i].line)
	}
	res, err := evalLines(u.ms, cs.Key, lines)
	if err != nil {
		w.Violation("C16/setup-rejected/"+cs.Family+tail, fmt.Sprintf("%s pattern %s key %s: %v", u.ms.Kind, short(u.ms.Pattern), cs.Key, err), cs)
		w.Eval(false)
		return
	}
	w.Add("json_texts_produced", int64(len(lines)))
	named := strings.Contains(cs.Key, ".")
	numbered := strings.Contains(cs.Key, "#")
	for i, l := range u.lines {
		first, second := res[i], res[len(lines)-1-i]
		// built only when something is reported
		caseOf := func() sCase {
			c := cs
			c.Line = short(l.line)
			return c
		}
		where := func() string {
			return fmt.Sprintf("%s pattern %s (%d groups) line %s (n=%d) key %s", u.ms.Kind, short(u.ms.Pattern), len(l.groups)-1, short(l.line), l.n, cs.Key)
		}
		if first.Indices == nil {
			w.Violation("C16/no-match/"+cs.Family+tail, where()+": no match or an empty key", caseOf())
			w.Eval(false)
			continue
		}
		text := first.Extracted
		// "The same match always yields the same text"
		if second.Extracted != text {
			w.Violation("C16/same-match-different-text/"+cs.Family+tail, fmt.Sprintf("%s: the same extractor gave %s the first time and %s when the line came again after %d other lines", where(), short(text), short(second.Extracted), 2*(len(u.lines)-1-i)), caseOf())
		}
		exp := &expectation{named: named, numbered: numbered, names: map[string]string{}, groups: l.groups}
		for name, idx := range u.names {
			exp.names[name] = l.groups[idx]
		}
		fs := checkText(text, exp)
		for _, f := range fs {
			w.Violation("C16/"+f.sig+"/"+cs.Family+tail, fmt.Sprintf("%s: text %s (%d bytes): %s", where(), short(text), len(text), short2(f.detail)), caseOf())
		}
		w.Eval(text != "{}")
		w.Outcome("size", cs.Family, cs.Shape, cs.Config, cs.Key, outcomeClassShort(text, len(fs) == 0), sizeClass(l.n))
		w.Max("size_family_max_text_bytes", int64(len(text)))
		w.Max("size_family_max_members", int64(strings.Count(text, "\": ")))
	}
	w.Tick()
}

func short2(s string) string {
	if len(s) <= 400 {
		return s
	}
	return s[:200] + fmt.Sprintf("...(%d bytes)...", len(s)) + s[len(s)-150:]
}

// outcomeClassShort: the member types, run-length encoded so that a text with
// hundreds of members gives a short class.
func outcomeClassShort(text string, ok bool) string {
	s := outcomeClass(text, ok)
	if len(s) <= 8 {
		return s
	}
	kinds := map[byte]bool{}
	for i := 0; i < len(s); i++ {
		kinds[s[i]] = true
	}
	var ks []string
	for k := range kinds {
		ks = append(ks, string(k))
	}
	sort.Strings(ks)
	return "many:" + strings.Join(ks, "")
}

// ------------------------------------------------------------- the units

const (
	regex2   = `^(?P<x>[^|]*)\|(?P<y>[^|]*)$`
	dissect2 = `%{x}|%{y}`
)

// valueUnit: the value is group x of the regex configuration and group y of
// the dissect configuration; the other group carries n.
func valueUnit(config string, vals []string, ns []int) sUnit {
	u := sUnit{names: map[string]int{"x": 1, "y": 2}}
	for i, v := range vals {
		k := "k" + strconv.Itoa(ns[i])
		if config == "regex" {
			u.ms = matchSpec{"regex", regex2}
			u.lines = append(u.lines, sLine{ns[i], v + "|" + k, []string{v + "|" + k, v, k}})
		} else {
			u.ms = matchSpec{"dissect", dissect2}
			u.lines = append(u.lines, sLine{ns[i], k + "|" + v, []string{k + "|" + v, k, v}})
		}
	}
	return u
}

var groupShapes = []string{"regex-named", "regex-unnamed", "regex-alternating", "dissect-named", "dissect-every-third-skipped"}

// groupField: what group i captures in line variant v.
func groupField(v, i int) string {
	switch v {
	case 0:
		return "f" + strconv.Itoa(i)
	case 1:
		return strconv.Itoa(i * 3) // numbers
	case 2:
		if i%5 == 4 {
			return ""
		}
		return `q"` + strconv.Itoa(i) + "\\\x01é"
	}
	return "true"
}

func groupsUnit(shape string, n int) sUnit {
	u := sUnit{names: map[string]int{}}
	var pat strings.Builder
	captured := make([]bool, n) // field i is a capture
	for i := 0; i < n; i++ {
		captured[i] = true
	}
	switch shape {
	case "regex-named", "regex-unnamed", "regex-alternating":
		pat.WriteString("^")
		for i := 0; i < n; i++ {
			if i > 0 {
				pat.WriteString(",")
			}
			if shape == "regex-named" || (shape == "regex-alternating" && i%2 == 0) {
				name := "g" + strconv.Itoa(i)
				fmt.Fprintf(&pat, "(?P<%s>[^,]*)", name)
				u.names[name] = i + 1
			} else {
				pat.WriteString("([^,]*)")
			}
		}
		pat.WriteString("$")
		u.ms = matchSpec{"regex", pat.String()}
	default:
		idx := 0
		for i := 0; i < n; i++ {
			if i > 0 {
				pat.WriteString(",")
			}
			switch {
			case shape == "dissect-every-third-skipped" && i%3 == 1 && i%2 == 0:
				pat.WriteString("%{}")
				captured[i] = false
			case shape == "dissect-every-third-skipped" && i%3 == 1:
				fmt.Fprintf(&pat, "%%{?s%d}", i)
				captured[i] = false
			default:
				name := "g" + strconv.Itoa(i)
				fmt.Fprintf(&pat, "%%{%s}", name)
				idx++
				u.names[name] = idx
			}
		}
		u.ms = matchSpec{"dissect", pat.String()}
	}
	for v := 0; v < 4; v++ {
		var sb strings.Builder
		groups := []string{""}
		for i := 0; i < n; i++ {
			if i > 0 {
				sb.WriteString(",")
			}
			f := groupField(v, i)
			sb.WriteString(f)
			if captured[i] {
				groups = append(groups, f)
			}
		}
		groups[0] = sb.String()
		u.lines = append(u.lines, sLine{n, groups[0], groups})
	}
	return u
}

// namesUnit: one group name of n bytes.
func namesUnit(config, name string, n int) sUnit {
	v := "v" + strconv.Itoa(n)
	u := sUnit{names: map[string]int{name: 1, "y": 2}}
	if config == "regex" {
		u.ms = matchSpec{"regex", `^(?P<` + name + `>[^|]*)\|(?P<y>[^|]*)$`}
	} else {
		u.ms = matchSpec{"dissect", `%{` + name + `}|%{y}`}
	}
	for _, l := range [][2]string{{v, "w"}, {`"` + v + "\n", "7"}, {"", v}} {
		u.lines = append(u.lines, sLine{n, l[0] + "|" + l[1], []string{l[0] + "|" + l[1], l[0], l[1]}})
	}
	return u
}

// byteUnit: one byte as a capture and as the middle byte of a?b.
func byteUnit(config string, b byte) sUnit {
	d := "|"
	if b == '|' {
		d = ","
	}
	u := sUnit{names: map[string]int{"x": 1, "y": 2}}
	if config == "regex" {
		u.ms = matchSpec{"regex", `^(?P<x>[^` + d + `]*)[` + d + `](?P<y>[^` + d + `]*)$`}
	} else {
		u.ms = matchSpec{"dissect", `%{x}` + d + `%{y}`}
	}
	one := string([]byte{b})
	mid := "a" + one + "b"
	for _, l := range [][2]string{{one, mid}, {mid, one}, {one, one}, {mid + mid, "k"}} {
		u.lines = append(u.lines, sLine{int(b), l[0] + d + l[1], []string{l[0] + d + l[1], l[0], l[1]}})
	}
	return u
}

// ------------------------------------------------------------ enumeration

type sizeUnitDesc struct {
	cs    sCase
	build func(quick bool) []sUnit
}

func nsOf(cs sCase, all []int) []int {
	if cs.N >= 0 {
		return []int{cs.N}
	}
	return all
}

// sizeUnits lists every unit of the size families (cheap: nothing is built).
func sizeUnits(quick bool) []sizeUnitDesc {
	tier := "quick"
	if !quick {
		tier = "thorough"
	}
	var out []sizeUnitDesc
	add := func(cs sCase, b func(quick bool) []sUnit) {
		cs.Tier = tier
		out = append(out, sizeUnitDesc{cs, b})
	}
	// ---- value
	for _, config := range []string{"regex", "dissect"} {
		for _, key := range keys {
			syms := append([]string{""}, valueSyms()...)
			for _, sym := range syms {
				shapes := valueShapes
				if sym == "" {
					shapes = []string{"plain"}
				}
				for _, shape := range shapes {
					if _, ok := shapedValue(sym, shape, 8); !ok && sym != "" {
						continue
					}
					cs := sCase{Family: "value", Shape: shape, Sym: q(sym), N: -1, Config: config, Key: key}
					add(cs, func(quick bool) []sUnit {
						ns := nsOf(cs, valueNs(quick))
						var vals []string
						for _, n := range ns {
							v, _ := shapedValue(unq(cs.Sym), cs.Shape, n)
							vals = append(vals, v)
						}
						return []sUnit{valueUnit(cs.Config, vals, ns)}
					})
				}
			}
			// ---- digits
			for _, shape := range digitShapes {
				cs := sCase{Family: "digits", Shape: shape, N: -1, Config: config, Key: key}
				add(cs, func(quick bool) []sUnit {
					ns := nsOf(cs, valueNs(quick))
					var vals []string
					for _, n := range ns {
						vals = append(vals, digitValue(cs.Shape, n))
					}
					return []sUnit{valueUnit(cs.Config, vals, ns)}
				})
			}
		}
	}
	// ---- groups
	for _, shape := range groupShapes {
		for _, key := range keys {
			for _, n := range groupNs(quick) {
				cs := sCase{Family: "groups", Shape: shape, N: n, Config: strings.SplitN(shape, "-", 2)[0], Key: key}
				add(cs, func(bool) []sUnit { return []sUnit{groupsUnit(cs.Shape, cs.N)} })
			}
		}
	}
	// ---- names
	for _, key := range keys {
		for _, sym := range append([]string{""}, nameSyms...) {
			shapes := []string{"every", "alternate", "first", "last"}
			if sym == "" {
				shapes = []string{"plain"}
			}
			for _, shape := range shapes {
				cs := sCase{Family: "names", Shape: shape, Sym: q(sym), N: -1, Config: "dissect", Key: key}
				add(cs, func(quick bool) []sUnit {
					var us []sUnit
					for _, n := range nsOf(cs, valueNs(quick)) {
						name, _ := shapedValue(unq(cs.Sym), cs.Shape, n)
						if name == "" || name[0] == '?' || strings.Contains(name, "}") {
							continue // %{} and %{?name} do not capture
						}
						us = append(us, namesUnit("dissect", name, n))
					}
					return us
				})
			}
		}
		cs := sCase{Family: "names", Shape: "plain", Sym: q(""), N: -1, Config: "regex", Key: key}
		add(cs, func(quick bool) []sUnit {
			var us []sUnit
			for _, n := range nsOf(cs, valueNs(quick)) {
				if n == 0 {
					continue
				}
				us = append(us, namesUnit("regex", plain(n), n))
			}
			return us
		})
	}
	// ---- bytes
	for _, config := range []string{"regex", "dissect"} {
		for _, key := range keys {
			for b := 0; b < 256; b += 16 {
				cs := sCase{Family: "bytes", Shape: "one-byte-and-a?b", N: b, Config: config, Key: key}
				add(cs, func(bool) []sUnit {
					var us []sUnit
					for c := cs.N; c < cs.N+16; c++ {
						us = append(us, byteUnit(cs.Config, byte(c)))
					}
					return us
				})
			}
		}
	}
	return out
}

func (cs sCase) tail() string {
	if cs.Family == "bytes" {
		return "/byte-sweep"
	}
	return "/size-family"
}

// ---------------------------------------------------------------- history

type hConfig struct {
	name  string
	ms    matchSpec
	lines []string
}

func historyValues() []string {
	vs := values(1)
	vs = append(vs,
		plain(70), plain(4097), strings.Repeat(`"`, 70), strings.Repeat("\x01", 300), strings.Repeat(`\`, 33),
		digitsOf(20), digitsOf(400), "0."+digitsOf(30), "-"+digitsOf(5), strings.Repeat("é", 600), plain(1000)+"\xff",
		"\xff"+plain(64), plain(63)+"\n", "TRUE", "false", "1.0", "10", "01",
	)
	return vs
}

func historyConfigs() []hConfig {
	vs := historyValues()
	m := len(vs)
	var pairs []string
	for i := range vs {
		pairs = append(pairs, vs[i]+"|"+vs[(7*i+3)%m])
	}
	for i := range vs {
		pairs = append(pairs, vs[(5*i+1)%m]+"|"+vs[i])
	}
	var out []hConfig
	for _, c := range configs {
		out = append(out, hConfig{c.Name, matchSpec{c.Kind, c.Pattern}, pairs})
	}
	words := []string{"one", "one two", "one two three", "1 2 3", "007 true", "x", plain(300) + " w", "a b", "9", "true false 0.5", "k " + plain(2000) + " z", "A", "3 " + digitsOf(40), "é ü", "é", "1e5 2", "ab cd ef"}
	out = append(out,
		hConfig{"regex-optional-groups", matchSpec{"regex", `^(?P<a>[^ ]+)(?: (?P<b>[^ ]+))?(?: (?P<c>[^ ]+))?$`}, words},
		hConfig{"regex-alternation-groups", matchSpec{"regex", `^(?:(?P<num>[0-9]+)|(?P<word>[a-z]+)|(?P<other>.*))$`}, append([]string{"12", "ab", "1b", "", "\"", "0012", "x", "5"}, words...)},
		hConfig{"dissect-5-fields", matchSpec{"dissect", `%{a} %{b} %{?s} %{c} %{d}`}, []string{
			"1 2 3 4 5", "a b c d e f g", plain(500) + " b c d " + plain(900), "true 007 x  ", "    ", "\" \\ \x01 \n \xff", "1 2 3 4 5 6 7 8 9", "x y z w v", strings.Repeat("é", 40) + " 2 3 4 " + digitsOf(50), "0 0 0 0 0",
		}},
	)
	for _, shape := range []string{"regex-named", "dissect-every-third-skipped"} {
		g := groupsUnit(shape, 12)
		out = append(out, hConfig{shape + "-12", g.ms, []string{
			g.lines[0].line, g.lines[1].line, g.lines[2].line, g.lines[3].line, ",,,,,,,,,,,", plain(300) + ",,,,,,,,,,," + digitsOf(30), g.lines[0].line + ",more,fields",
		}})
	}
	return out
}

var historyStrides = []int{1, 7, 31}

// runHistory: one extractor over the list forward and backward vs a fresh
// extractor per line.
func runHistory(w *runner.W, hc hConfig, key string, tier string) {
	cs := sCase{Family: "history", Shape: "forward-backward-vs-fresh", N: -1, Config: hc.name, Key: key, Tier: tier, Pattern: short(hc.ms.Pattern)}
	named := strings.Contains(key, ".")
	numbered := strings.Contains(key, "#")
	// fresh: every line alone on its own extractor
	fresh := make([]extractor.Match, len(hc.lines))
	var tableOf map[string]int
	if f, err := hc.ms.factory(); err == nil {
		tableOf = f.CreateInstance().SubexpNameTable()
	}
	for i, l := range hc.lines {
		r, err := evalLines(hc.ms, key, []string{l})
		if err != nil {
			w.Violation("C16/setup-rejected/history-family", fmt.Sprintf("%s pattern %s key %s: %v", hc.ms.Kind, short(hc.ms.Pattern), key, err), cs)
			w.Eval(false)
			return
		}
		fresh[i] = r[0]
		if r[0].Indices == nil {
			continue // the line does not match this pattern (or the key is empty)
		}
		// the fresh text itself
		first := r[0]
		exp := &expectation{named: named, numbered: numbered, names: map[string]string{}}
		capOf := func(k int) string {
			if 2*k+1 >= len(first.Indices) || first.Indices[2*k] < 0 {
				return ""
			}
			return first.Line[first.Indices[2*k]:first.Indices[2*k+1]]
		}
		for k := 0; k < len(first.Indices)/2; k++ {
			exp.groups = append(exp.groups, capOf(k))
		}
		for n, idx := range tableOf {
			exp.names[n] = capOf(idx)
		}
		c := cs
		c.Line = short(l)
		for _, f := range checkText(first.Extracted, exp) {
			w.Violation("C16/"+f.sig+"/history-family", fmt.Sprintf("config %s pattern %s line %s key %s (fresh extractor): text %s: %s", hc.name, short(hc.ms.Pattern), short(l), key, short(first.Extracted), short2(f.detail)), c)
		}
	}
	w.Add("json_texts_produced", int64(len(hc.lines)))
	m := len(hc.lines)
	for _, stride := range historyStrides {
		// a permutation of the lines: position p holds line (p*stride+stride) mod m
		// (stride and m coprime, else the identity order)
		s := stride
		if gcd(s, m) != 1 {
			s = 1
		}
		order := make([]int, 0, 2*m)
		for p := 0; p < m; p++ {
			order = append(order, (p*s+s-1)%m)
		}
		for p := m - 1; p >= 0; p-- {
			order = append(order, order[p])
		}
		lines := make([]string, len(order))
		for p, i := range order {
			lines[p] = hc.lines[i]
		}
		res, err := evalLines(hc.ms, key, lines)
		if err != nil {
			return
		}
		w.Add("json_texts_produced", int64(len(lines)))
		reported := false
		for p, i := range order {
			got, want := res[p], fresh[i]
			w.Eval(want.Indices != nil && want.Extracted != "{}")
			if reported {
				continue
			}
			if (got.Indices == nil) != (want.Indices == nil) || got.Extracted != want.Extracted {
				reported = true
				c := cs
				c.N = stride
				c.Line = short(hc.lines[i])
				prev := "nothing"
				if p > 0 {
					prev = short(lines[p-1])
				}
				cl := "text-differs-from-fresh-extractor"
				if (got.Indices == nil) != (want.Indices == nil) {
					cl = "match-differs-from-fresh-extractor"
				}
				w.Violation("C16/same-match-different-text/"+cl+"/history-family", fmt.Sprintf("config %s pattern %s key %s: line %s as evaluation #%d of one extractor (after %s) gave %s; a fresh extractor gives %s", hc.name, short(hc.ms.Pattern), key, short(hc.lines[i]), p, prev, short(got.Extracted), short(want.Extracted)), c)
			}
			if p < m {
				w.Outcome("history", hc.name, key, outcomeClassShort(got.Extracted, true))
			}
		}
		w.Tick()
	}
	w.Add("history_family_units", 1)
}

func gcd(a, b int) int {
	for b != 0 {
		a, b = b, a%b
	}
	return a
}

// ----------------------------------------------------------------- worker

func sizeWorker(w *runner.W, caseNo *int64) {
	quick := w.Quick()
	for _, d := range sizeUnits(quick) {
		*caseNo++
		if !w.Owns(*caseNo) {
			continue
		}
		if w.Expired() {
			return
		}
		d := d
		w.SetCase(func() any { return d.cs })
		for _, u := range d.build(quick) {
			runSUnit(w, d.cs, u, d.cs.tail())
		}
		w.Add("size_family_units", 1)
	}
	for _, hc := range historyConfigs() {
		for _, key := range keys {
			*caseNo++
			if !w.Owns(*caseNo) {
				continue
			}
			if w.Expired() {
				return
			}
			cur := sCase{Family: "history", Config: hc.name, Key: key, Tier: w.Tier}
			w.SetCase(func() any { return cur })
			runHistory(w, hc, key, w.Tier)
		}
	}
}

func replaySize(w *runner.W, cs sCase) {
	quick := cs.Tier != "thorough"
	if cs.Family == "history" {
		for _, hc := range historyConfigs() {
			if hc.name == cs.Config {
				runHistory(w, hc, cs.Key, cs.Tier)
				return
			}
		}
		panic("unknown history configuration " + cs.Config)
	}
	for _, d := range sizeUnits(quick) {
		if d.cs.Family == cs.Family && d.cs.Shape == cs.Shape && d.cs.Sym == cs.Sym && d.cs.N == cs.N && d.cs.Config == cs.Config && d.cs.Key == cs.Key {
			for _, u := range d.build(quick) {
				runSUnit(w, d.cs, u, d.cs.tail())
			}
			return
		}
	}
	panic(fmt.Sprintf("unknown size unit %+v", cs))
}

func sizeRule(quick bool) string {
	vn, gn := valueNs(quick), groupNs(quick)
	var hn []string
	for _, h := range historyConfigs() {
		hn = append(hn, fmt.Sprintf("%s (%d lines)", h.name, len(h.lines)))
	}
	return fmt.Sprintf(" SIZE families (n swept over 0..70 and 2^k-1, 2^k, 2^k+1; captures known by construction; configurations regex %q with the value in x and dissect %q with the value in y, the other group carrying n; keys {.} {#} {.#}; each unit runs on ONE extractor in ascending and again in descending order of n and both texts of a line must be identical; the text is validated and decoded as in the main family, numbers compared as exact decimals with math/big exponents): "+
		"value: n up to %d bytes of position-dependent plain letters, and for each of %d symbols (quote, backslash, every control byte 0x00-0x1f, 0x7f, '/', the invalid UTF-8 bytes 0x80 0xff 0xc3 and ED A0 80, the runes é あ 😀 U+2028 U+FFFD) the shapes %v: the symbol at every position, alternating with plain letters, only first, only last, and multi-byte symbols shifted by 1-3 plain bytes (a value is cut at n bytes, so a rune may end incomplete); "+
		"digits: shapes %v over n digits / n zeros / exponent magnitude n / exponent of n digits; "+
		"groups: n up to %d groups in shapes %v, four lines each (strings fI, numbers 3I, strings with quote backslash control byte and é with every fifth empty, all true); "+
		"names: a dissect group name of n up to %d bytes (plain, and for each symbol of %q the shapes every/alternate/first/last) and a regex group name of n plain letters, three lines each; a member name may decode to the group name like a value may (U+FFFD for invalid UTF-8); "+
		"bytes: every byte 0x00..0xff as one-byte capture and as the middle byte of a?b in both groups (delimiter ',' for the byte '|'). "+
		"HISTORY family: configurations %s x keys: ONE extractor evaluates the lines in three orders (strides %v), each forward then backward, and every text must be byte-identical to the text of a fresh extractor that saw only that line; values of the v1|v2 configurations: V1 plus %d long or special values (70..4097 letters, 70 quotes, 300 control bytes, 20/400 digits, 600 two-byte runes, invalid byte first/last, booleans).",
		regex2, dissect2, vn[len(vn)-1], len(valueSyms()), valueShapes, digitShapes, gn[len(gn)-1], groupShapes, vn[len(vn)-1], nameSyms, strings.Join(hn, ", "), historyStrides, len(historyValues())-len(values(1)))
}
