package main

// LOOKALIKE family of C16: captures that look like a JSON literal to a sloppy
// classifier.
//
// The writer decides per capture whether it may stand unquoted. JSON's own
// literals are narrow (ASCII digits, one '-', '.', 'e'/'E', true, false); the
// predicates a library offers are wide: unicode.IsDigit accepts 680 decimal
// digits, unicode.IsNumber superscripts, fractions and Roman numerals,
// strings.EqualFold the long s, strings.TrimSpace the no-break space,
// strconv.ParseFloat "Inf", "0x1p-2" and "1_000", strconv.ParseBool "t" and "1".
// A capture that such a predicate accepts and JSON does not is written unquoted
// and the object is not valid JSON (or it decodes to something else than the
// captured text). The other families use a value alphabet whose only non-ASCII
// symbols are 'é' and the byte 0xff, so none of this is reachable there.
//
// The classes below are enumerated from the tables of package unicode (never a
// hand-picked list of code points): EVERY rune of the named categories and
// properties is substituted for X in every template of its class, and the
// resulting text is the whole capture.
//
//	unicode-nd-digit         every non-ASCII rune of Nd (decimal digit); Y = the
//	                         next digit of the same block, Z = the digit of equal
//	                         value in the next block (mixed scripts)
//	unicode-no-nl-number     every rune of No and Nl (superscripts, fractions,
//	                         circled numbers, Roman numerals ...)
//	unicode-sign             every rune of Pd, Sm and of the properties Dash and
//	                         Hyphen (U+2212, U+FF0D, U+FE63, U+FF0B, U+207A ...)
//	unicode-separator        every rune of Po, Pc and of Terminal_Punctuation
//	                         (U+FF0E, U+FE52, U+3002, U+066B, U+00B7, ',', '_', '\'' ...)
//	unicode-space-or-format  every rune of White_Space, Z, Cf and Cc (NBSP, U+2000
//	                         .., U+3000, U+2028, ZWSP, BOM, LRM, C0/C1 controls)
//	keyword-variant          true false null nil none nan inf infinity undefined
//	                         yes no on off t f y n: every ASCII case pattern (<= 5
//	                         letters) or lower/UPPER/Title and one flipped letter,
//	                         the fullwidth forms, every single letter replaced by
//	                         each of its look-alikes (its fullwidth forms and every
//	                         rune that a case mapping of package unicode sends to
//	                         it: U+017F U+212A U+0130 U+0131), signs, one letter
//	                         dropped / doubled, a digit, dot or blank before/after
//	ascii-number-grammar     every string of 1..L symbols over 0 1 9 . - + e E x _
//	fullwidth-number-grammar every string of 1..M symbols over 0 1 . - + e with
//	                         every non-empty subset of positions replaced by the
//	                         fullwidth form (U+FF10 ...)
//	every-code-point         (thorough) every Unicode scalar value but '|'
//
// A value v is looked at in both groups ("v|k" and "k|v") of the 14 matcher
// configurations of the main family and as the whole line of two more (a regex
// without groups, so that v is group 0, and a dissect pattern with one token),
// under the keys {.}, {#} and {.#} (quick tier: {.#} everywhere, {.} and {#} alone
// with four core configurations). The captures are known by construction; the
// oracle is checkText (ref.go), unchanged in what it demands: the text is valid
// JSON for encoding/json and every member decodes to the captured text (a
// number or boolean only where equal in value). Every chunk of values runs on
// ONE extractor forward and backward and both texts of a line must be identical.

import (
	"fmt"
	"sort"
	"strings"
	"unicode"

	"verif/runner"
)

// ------------------------------------------------------------- rune sets

// runesIn returns every rune >= minRune of the tables in ascending order,
// without '|' (the delimiter of the configurations) and without surrogates.
func runesIn(minRune rune, tables ...*unicode.RangeTable) []rune {
	seen := map[rune]bool{}
	var out []rune
	add := func(lo, hi, stride rune) {
		for r := lo; r <= hi; r += stride {
			if r < minRune || r == '|' || (r >= 0xd800 && r <= 0xdfff) || seen[r] {
				continue
			}
			seen[r] = true
			out = append(out, r)
		}
	}
	for _, t := range tables {
		for _, x := range t.R16 {
			add(rune(x.Lo), rune(x.Hi), rune(x.Stride))
		}
		for _, x := range t.R32 {
			add(rune(x.Lo), rune(x.Hi), rune(x.Stride))
		}
	}
	sort.Slice(out, func(i, j int) bool { return out[i] < out[j] })
	return out
}

// nextBlockDigit: the digit of equal value in the following block of Nd (the
// ASCII digits after the last block).
func nextBlockDigit(r rune) rune {
	v, _ := ndValue(r)
	zero := r - rune(v)
	zs := ndZeros()
	i := sort.Search(len(zs), func(i int) bool { return zs[i] > zero })
	if i == len(zs) {
		return '0' + rune(v)
	}
	return zs[i] + rune(v)
}

var ndZerosMemo []rune

// ndZeros: the digit zero of every block of Nd, ascending.
func ndZeros() []rune {
	if ndZerosMemo == nil {
		for _, r := range runesIn(0, unicode.Nd) {
			if v, _ := ndValue(r); v == 0 {
				ndZerosMemo = append(ndZerosMemo, r)
			}
		}
	}
	return ndZerosMemo
}

func fullwidth(c byte) rune { return rune(c) + 0xfee0 } // U+FF01..U+FF5E mirror 0x21..0x7e

// letterLookalikes: the non-ASCII runes that stand for the ASCII letter c (any
// case): its fullwidth forms and every rune that unicode.ToLower, ToUpper,
// ToTitle or the SimpleFold orbit sends to it.
func letterLookalikes() map[byte][]rune {
	out := map[byte][]rune{}
	add := func(c byte, r rune) {
		c |= 0x20
		for _, x := range out[c] {
			if x == r {
				return
			}
		}
		out[c] = append(out[c], r)
	}
	isLetter := func(m rune) bool { return m < 0x80 && (m|0x20) >= 'a' && (m|0x20) <= 'z' }
	for c := byte('a'); c <= 'z'; c++ {
		add(c, fullwidth(c))
		add(c, fullwidth(c-32))
	}
	// only the runes of unicode.CaseRanges and of the fold orbits of ASCII
	// letters have a mapping at all
	var cand []rune
	for _, cr := range unicode.CaseRanges {
		for r := rune(cr.Lo); r <= rune(cr.Hi); r++ {
			if r >= 0x80 {
				cand = append(cand, r)
			}
		}
	}
	for c := rune('A'); c <= 'z'; c++ {
		for m := unicode.SimpleFold(c); m != c; m = unicode.SimpleFold(m) {
			if m >= 0x80 {
				cand = append(cand, m)
			}
		}
	}
	sort.Slice(cand, func(i, j int) bool { return cand[i] < cand[j] })
	for _, r := range cand {
		for _, m := range []rune{unicode.ToLower(r), unicode.ToUpper(r), unicode.ToTitle(r)} {
			if m != r && isLetter(m) {
				add(byte(m), r)
			}
		}
		for m := unicode.SimpleFold(r); m != r; m = unicode.SimpleFold(m) {
			if isLetter(m) {
				add(byte(m), r)
			}
		}
	}
	return out
}

// ------------------------------------------------------------- the classes

type lookClass struct {
	name      string
	templates []string // X (Y, Z) = the rune; nil: the class builds its values itself
	runes     func() []rune
	build     func(quick bool) []string
	thorough  bool // the class exists in the thorough tier only
	narrow    bool // only regex-2named / dissect-2named and the key {.#}
}

var lookKeywords = []string{"true", "false", "null", "nil", "none", "nan", "inf", "infinity", "undefined", "yes", "no", "on", "off", "t", "f", "y", "n"}

const (
	asciiGrammar     = "019.-+eEx_"
	fullwidthGrammar = "01.-+e"
)

func grammarLen(quick bool) (ascii, fw int) {
	if quick {
		return 4, 3
	}
	return 5, 4
}

var lookClasses = []lookClass{
	{name: "unicode-nd-digit",
		templates: []string{"X", "XX", "XY", "XYX", "XZ", "X.X", "X.Y", "1X", "X1", "1.X", "X.1", "1X1", "-X", "+X", "-X.X", "X.", ".X", "0X", "X0", "0.X", "X.0", "1eX", "Xe1", "XeX", "1e+X", "1e-X"},
		runes:     func() []rune { return runesIn(0x80, unicode.Nd) }},
	{name: "unicode-no-nl-number",
		templates: []string{"X", "XX", "1X", "X1", "X.X", "1.X", "X.1", "-X", "0X", "1eX"},
		runes:     func() []rune { return runesIn(0, unicode.No, unicode.Nl) }},
	{name: "unicode-sign",
		templates: []string{"X", "X1", "X1.5", "X0", "X0.5", "1eX5", "1EX5", "1X", "XX1", "-X1", "1X1"},
		runes:     func() []rune { return runesIn(0, unicode.Pd, unicode.Sm, unicode.Dash, unicode.Hyphen) }},
	{name: "unicode-separator",
		templates: []string{"X", "1X5", "1X", "X5", "1X000", "1X5e3", "-1X5", "0X5", "1X5X5"},
		runes:     func() []rune { return runesIn(0, unicode.Po, unicode.Pc, unicode.Terminal_Punctuation) }},
	{name: "unicode-space-or-format",
		templates: []string{"X", "X1", "1X", "X1X", "1X2", "1X.5", "XtrueX", "Xtrue", "trueX", "tXrue", "X-1", "-X1", "1Xe5", "XX1", "X0.5X"},
		runes:     func() []rune { return runesIn(0, unicode.White_Space, unicode.Z, unicode.Cf, unicode.Cc) }},
	{name: "keyword-variant", build: func(bool) []string { return keywordVariants() }},
	{name: "ascii-number-grammar", build: func(quick bool) []string {
		l, _ := grammarLen(quick)
		return wordsOver(asciiGrammar, l)
	}},
	{name: "fullwidth-number-grammar", build: func(quick bool) []string {
		_, m := grammarLen(quick)
		var out []string
		for _, w := range wordsOver(fullwidthGrammar, m) {
			for mask := 1; mask < 1<<len(w); mask++ {
				var sb strings.Builder
				for i := 0; i < len(w); i++ {
					if mask>>i&1 == 1 {
						sb.WriteRune(fullwidth(w[i]))
					} else {
						sb.WriteByte(w[i])
					}
				}
				out = append(out, sb.String())
			}
		}
		return out
	}},
	{name: "every-code-point", thorough: true, narrow: true,
		templates: []string{"X", "1X"},
		runes: func() []rune {
			out := make([]rune, 0, unicode.MaxRune)
			for r := rune(0); r <= unicode.MaxRune; r++ {
				if r != '|' && (r < 0xd800 || r > 0xdfff) {
					out = append(out, r)
				}
			}
			return out
		}},
}

// wordsOver: every string of 1..maxLen symbols of the alphabet, shorter first.
func wordsOver(alpha string, maxLen int) []string {
	var out []string
	prev := []string{""}
	for l := 1; l <= maxLen; l++ {
		var cur []string
		for _, p := range prev {
			for i := 0; i < len(alpha); i++ {
				cur = append(cur, p+alpha[i:i+1])
			}
		}
		out = append(out, cur...)
		prev = cur
	}
	return out
}

func title(w string) string { return strings.ToUpper(w[:1]) + w[1:] }

func keywordVariants() []string {
	look := letterLookalikes()
	var out []string
	for _, w := range lookKeywords {
		up := strings.ToUpper(w)
		bases := []string{w, up, title(w)}
		// ASCII case patterns
		if len(w) <= 5 {
			for mask := 0; mask < 1<<len(w); mask++ {
				b := []byte(w)
				for i := range b {
					if mask>>i&1 == 1 {
						b[i] -= 32
					}
				}
				out = append(out, string(b))
			}
		} else {
			out = append(out, bases...)
			for i := range w {
				out = append(out, w[:i]+up[i:i+1]+w[i+1:], up[:i]+w[i:i+1]+up[i+1:])
			}
		}
		for _, b := range bases {
			// fullwidth: the whole word
			var fw strings.Builder
			for i := 0; i < len(b); i++ {
				fw.WriteRune(fullwidth(b[i]))
			}
			out = append(out, fw.String())
			// one letter replaced by each of its look-alikes
			for i := 0; i < len(b); i++ {
				for _, r := range look[b[i]|0x20] {
					out = append(out, b[:i]+string(r)+b[i+1:])
				}
			}
			// signs, one letter dropped / doubled, a digit, dot or blank around
			out = append(out, "+"+b, "-"+b, b+"1", "1"+b, b+".", "."+b, b+" ", " "+b, b+"\t", b+b, b+","+b)
			for i := 0; i < len(b); i++ {
				out = append(out, b[:i]+b[i+1:], b[:i+1]+b[i:])
			}
		}
	}
	return out
}

// lookValues: the values of a class in a fixed order, without duplicates,
// without the empty string and without values that hold the delimiter.
func lookValues(c *lookClass, quick bool) []string {
	var raw []string
	if c.build != nil {
		raw = c.build(quick)
	} else {
		for _, r := range c.runes() {
			x := string(r)
			y, z := x, x
			if v, ok := ndValue(r); ok {
				y = string(r - rune(v) + rune((v+1)%10))
				z = string(nextBlockDigit(r))
			}
			for _, t := range c.templates {
				var sb strings.Builder
				for i := 0; i < len(t); i++ {
					switch t[i] {
					case 'X':
						sb.WriteString(x)
					case 'Y':
						sb.WriteString(y)
					case 'Z':
						sb.WriteString(z)
					default:
						sb.WriteByte(t[i])
					}
				}
				raw = append(raw, sb.String())
			}
		}
	}
	seen := map[string]bool{}
	out := raw[:0]
	for _, v := range raw {
		if v == "" || strings.Contains(v, "|") || seen[v] {
			continue
		}
		seen[v] = true
		out = append(out, v)
	}
	return out
}

// ------------------------------------------------------- configurations

// lookConfig: a matcher configuration whose captures are known by
// construction.
type lookConfig struct {
	name  string
	ms    matchSpec
	names map[string]int
	whole bool    // the value is the whole line
	part  [2]bool // v1 / v2 is a capture group (two-part configurations)
}

// lookConfigs derives the captures of the main family's configurations from
// their patterns: a regex has the groups (v1, v2) in order, named where the
// pattern says (?P<name>; a dissect token is a group unless it is %{} or %{?..}.
func lookConfigs() []lookConfig {
	var out []lookConfig
	for _, c := range configs {
		lc := lookConfig{name: c.Name, ms: matchSpec{c.Kind, c.Pattern}, names: map[string]int{}}
		if c.Kind == "regex" {
			lc.part = [2]bool{true, true}
			idx := 0
			p := c.Pattern
			for i := 0; i < len(p); i++ {
				if p[i] != '(' {
					continue
				}
				if strings.HasPrefix(p[i:], "(?P<") {
					idx++
					end := strings.IndexByte(p[i:], '>')
					lc.names[p[i+4:i+end]] = idx
				} else if !strings.HasPrefix(p[i:], "(?") {
					idx++
				}
			}
			if idx != 2 {
				panic("harness: regex configuration " + c.Name + " does not have two groups")
			}
		} else {
			toks := strings.Split(c.Pattern, "|")
			if len(toks) != 2 {
				panic("harness: dissect configuration " + c.Name + " does not have two tokens")
			}
			idx := 0
			for k, t := range toks {
				inner := strings.TrimSuffix(strings.TrimPrefix(t, "%{"), "}")
				if inner != "" && inner[0] != '?' {
					idx++
					lc.part[k] = true
					lc.names[inner] = idx
				}
			}
		}
		if len(lc.names) != len(c.Names) {
			panic("harness: names of configuration " + c.Name)
		}
		for _, n := range c.Names {
			if _, ok := lc.names[n]; !ok {
				panic("harness: name " + n + " of configuration " + c.Name)
			}
		}
		out = append(out, lc)
	}
	out = append(out,
		lookConfig{name: "regex-whole-line-group-0", ms: matchSpec{"regex", `(?s)^.*$`}, names: map[string]int{}, whole: true},
		lookConfig{name: "dissect-whole-line-1named", ms: matchSpec{"dissect", `%{v}`}, names: map[string]int{"v": 1}, whole: true},
	)
	return out
}

const lookPartner = "k"

func (lc *lookConfig) unit(vals []string) sUnit {
	u := sUnit{ms: lc.ms, names: lc.names}
	for i, v := range vals {
		if lc.whole {
			g := []string{v}
			if len(lc.names) > 0 {
				g = append(g, v)
			}
			u.lines = append(u.lines, sLine{i, v, g})
			continue
		}
		for k, pair := range [][2]string{{v, lookPartner}, {lookPartner, v}} {
			if !lc.part[k] && (lc.part[1-k] || k == 1) {
				continue // v would be no capture of its own in this line
			}
			line := pair[0] + "|" + pair[1]
			g := []string{line}
			for k := 0; k < 2; k++ {
				if lc.part[k] {
					g = append(g, pair[k])
				}
			}
			u.lines = append(u.lines, sLine{i, line, g})
		}
	}
	return u
}

// ------------------------------------------------------------ enumeration

const lookChunk = 256

// lookCore: the configurations that the quick tier also runs under {.} and {#}
// alone ({.#} writes the named and the numbered members in one text).
var lookCore = map[string]bool{"regex-2named": true, "dissect-2named": true, "regex-whole-line-group-0": true, "dissect-whole-line-1named": true}

type lookUnitDesc struct {
	cs   sCase
	cl   *lookClass
	conf int
}

func lookTier(quick bool) string {
	if quick {
		return "quick"
	}
	return "thorough"
}

// lookUnits lists the units (class, chunk, configuration, key); nValues gives
// the number of values of every class.
func lookUnits(quick bool, confs []lookConfig) (out []lookUnitDesc, nValues map[string]int) {
	nValues = map[string]int{}
	for ci := range lookClasses {
		cl := &lookClasses[ci]
		if cl.thorough && quick {
			continue
		}
		n := len(lookValues(cl, quick))
		nValues[cl.name] = n
		for chunk := 0; chunk*lookChunk < n; chunk++ {
			for k := range confs {
				if cl.narrow && confs[k].name != "regex-2named" && confs[k].name != "dissect-2named" {
					continue
				}
				for _, key := range keys {
					if cl.narrow && key != "{.#}" {
						continue
					}
					if quick && key != "{.#}" && !lookCore[confs[k].name] {
						continue // quick: {.} and {#} alone only with the core configurations
					}
					out = append(out, lookUnitDesc{sCase{Family: "lookalike", Shape: cl.name, N: chunk, Config: confs[k].name, Key: key, Tier: lookTier(quick)}, cl, k})
				}
			}
		}
	}
	return out, nValues
}

func chunkOf(vals []string, chunk int) []string {
	s := chunk * lookChunk
	if s >= len(vals) {
		return nil
	}
	e := s + lookChunk
	if e > len(vals) {
		e = len(vals)
	}
	return vals[s:e]
}

// lookSelfCheck: the assumptions the value builders make about the tables.
func lookSelfCheck() {
	run := 0
	for r := rune(0); r <= unicode.MaxRune+1; r++ {
		if r <= unicode.MaxRune && unicode.Is(unicode.Nd, r) {
			run++
			continue
		}
		if run%10 != 0 {
			panic(fmt.Sprintf("harness: a run of Nd runes ending before %U is not a whole number of blocks", r))
		}
		run = 0
	}
}

func lookWorker(w *runner.W, caseNo *int64) {
	quick := w.Quick()
	lookSelfCheck()
	confs := lookConfigs()
	units, _ := lookUnits(quick, confs)
	var cached *lookClass
	var vals []string
	for _, d := range units {
		*caseNo++
		if !w.Owns(*caseNo) {
			continue
		}
		if w.Expired() {
			return
		}
		if cached != d.cl {
			cached, vals = d.cl, lookValues(d.cl, quick)
		}
		d := d
		w.SetCase(func() any { return d.cs })
		runSUnit(w, d.cs, confs[d.conf].unit(chunkOf(vals, d.cs.N)), "/"+d.cl.name)
		w.Add("lookalike_family_units", 1)
	}
}

func replayLook(w *runner.W, cs sCase) {
	quick := cs.Tier != "thorough"
	confs := lookConfigs()
	for ci := range lookClasses {
		if lookClasses[ci].name != cs.Shape {
			continue
		}
		for k := range confs {
			if confs[k].name == cs.Config {
				vals := chunkOf(lookValues(&lookClasses[ci], quick), cs.N)
				if vals == nil {
					panic(fmt.Sprintf("lookalike class %s has no chunk %d", cs.Shape, cs.N))
				}
				runSUnit(w, cs, confs[k].unit(vals), "/"+cs.Shape)
				return
			}
		}
	}
	panic(fmt.Sprintf("unknown lookalike unit %+v", cs))
}

func lookRule(quick bool) string {
	confs := lookConfigs()
	_, n := lookUnits(quick, confs)
	var parts []string
	total := 0
	for ci := range lookClasses {
		cl := &lookClasses[ci]
		if cl.thorough && quick {
			continue
		}
		total += n[cl.name]
		d := fmt.Sprintf("%s (%d values", cl.name, n[cl.name])
		if cl.runes != nil {
			d += fmt.Sprintf(": %d runes x templates %v", len(cl.runes()), cl.templates)
		}
		if cl.narrow {
			d += "; only regex-2named and dissect-2named, key {.#}"
		}
		parts = append(parts, d+")")
	}
	sort.Strings(parts)
	keyNote := "{.} {#} {.#}"
	if quick {
		keyNote = "{.#} with every configuration, {.} and {#} alone with regex-2named, dissect-2named and the two whole-line configurations"
	}
	la, lf := grammarLen(quick)
	look := letterLookalikes()
	var ll []string
	for c := byte('a'); c <= 'z'; c++ {
		for _, r := range look[c] {
			if r < 0xff00 {
				ll = append(ll, fmt.Sprintf("%U for %c", r, c))
			}
		}
	}
	return fmt.Sprintf(" LOOKALIKE family (captures that a sloppy classifier takes for a JSON literal; classes enumerated from the tables of package unicode %s, X = every rune of the class, in unicode-nd-digit Y = the next digit of the block and Z = the digit of equal value in the next block): %s; %d values in all. "+
		"keyword-variant: %v in every ASCII case pattern (up to 5 letters; longer: lower, UPPER, Title and one letter flipped), in fullwidth, with every single letter replaced by each of its look-alikes (fullwidth forms and the runes a case mapping sends to an ASCII letter: %s), with a sign, one letter dropped or doubled, a digit, dot, blank or tab around, doubled; ascii-number-grammar: every string of 1..%d symbols over %q; fullwidth-number-grammar: every string of 1..%d symbols over %q with every non-empty subset of positions in fullwidth. "+
		"Every value v is the capture of the first and of the second part (lines v|%s and %s|v; a line in which v would not be a capture of its own is left out) of the %d configurations of the main family and the whole line of regex-whole-line-group-0 %q and dissect-whole-line-1named %q, keys %s; captures known by construction; chunks of %d values run on ONE extractor forward and backward and both texts of a line must be identical; oracle = checkText as everywhere (valid for encoding/json, every member decodes to the capture).",
		unicode.Version, strings.Join(parts, ", "), total, lookKeywords, strings.Join(ll, ", "), la, asciiGrammar, lf, fullwidthGrammar, lookPartner, lookPartner, len(configs), `(?s)^.*$`, `%{v}`, keyNote, lookChunk)
}
