// Harness jsonview decides C16: the JSON views {.}, {#} and {.#} of a match
// are one valid JSON object whose members decode to the captured texts, and
// the same match always yields the same text. Matches are produced by the
// real matchers (regex and dissect) and the keys are evaluated by the real
// extractor (extractor.New with one worker, Extract = the key), for every
// pair of group values of a bounded set. Every match is evaluated many times,
// also with name tables that hold the same names inserted in a different
// order, and all texts must be identical. size.go adds size sweeps and a
// one-source history family, sources.go feeds one extractor from several
// sources (line numbers that repeat, sparse matches, ignore sets, several views
// in one key), lookalike.go enumerates captures that a sloppy classifier takes
// for a JSON literal (every Unicode digit, number, sign, separator and space
// rune, keyword variants, a number grammar).
package main

import (
	"encoding/json"
	"fmt"
	"sort"
	"strconv"
	"strings"
	"time"
	"unicode"

	"rare/pkg/extractor"
	"rare/pkg/matchers"
	"rare/pkg/matchers/dissect"
	"rare/pkg/matchers/fastregex"
	"verif/runner"
)

// ------------------------------------------------------------------ values

var alphabet = []string{"a", `"`, `\`, "\x01", "\n", "0", "1", ".", "-", "é", "\xff"}

var specials = []string{
	"007", "1.", ".5", "true", "FALSE", "123456789012345678901234567890",
	"00", "0.10", "1.50", "-1", "-0", "+1", "1e5", "0x1", " 1", "1 ", "True", "tru", "null",
	"\t", "\r", "\b", "\f", "\x00", "\x1f", "\x7f", "/", " ", "{", "[1]", `"a"`, "a,b", ": ",
	"é\xff", "\xc3", "\xed\xa0\x80",
	// signed and zero-padded numeric shapes
	"-007", "-00", "-01", "-00.5", "-0700", "+007", "-0.5", "-.5", "--1", "-1e5", "-01e2", "-1.", "-10", "-0.0", "-123456789012345678901234567890",
}

// values returns all strings of up to maxLen alphabet symbols, then the
// specials (duplicates removed, order fixed).
func values(maxLen int) []string {
	var out []string
	seen := map[string]bool{}
	add := func(s string) {
		if !seen[s] {
			seen[s] = true
			out = append(out, s)
		}
	}
	for l := 0; l <= maxLen; l++ {
		cur := make([]int, l)
		for {
			var sb strings.Builder
			for _, c := range cur {
				sb.WriteString(alphabet[c])
			}
			add(sb.String())
			i := l - 1
			for ; i >= 0; i-- {
				cur[i]++
				if cur[i] < len(alphabet) {
					break
				}
				cur[i] = 0
			}
			if i < 0 {
				break
			}
		}
	}
	for _, s := range specials {
		add(s)
	}
	return out
}

// ----------------------------------------------------------------- configs

// config is one way of producing a match with two value-carrying parts
// "v1|v2".
type config struct {
	Name    string
	Kind    string   // regex | dissect
	Pattern string   // matcher pattern
	Names   []string // expected group names
}

var configs = []config{
	{"regex-0named", "regex", `^([^|]*)\|([^|]*)$`, nil},
	{"regex-1named", "regex", `^(?P<x>[^|]*)\|([^|]*)$`, []string{"x"}},
	{"regex-2named", "regex", `^(?P<x>[^|]*)\|(?P<y>[^|]*)$`, []string{"x", "y"}},
	{"dissect-0named", "dissect", `%{}|%{?n}`, nil},
	{"dissect-1named", "dissect", `%{x}|%{}`, []string{"x"}},
	{"dissect-1named-second", "dissect", `%{?n}|%{y}`, []string{"y"}},
	{"dissect-2named", "dissect", `%{x}|%{y}`, []string{"x", "y"}},
	{"dissect-2named-quote-in-name", "dissect", `%{a"b}|%{y}`, []string{`a"b`, "y"}},
	{"dissect-1named-backslash-in-name", "dissect", `%{k\}|%{}`, []string{`k\`}},
	{"dissect-1named-non-ascii-name", "dissect", `%{é}|%{}`, []string{"é"}},
	// names that a case-folding or prefix-based ordering cannot tell apart
	{"regex-2named-case-variants", "regex", `^(?P<x>[^|]*)\|(?P<X>[^|]*)$`, []string{"x", "X"}},
	{"dissect-2named-case-variants", "dissect", `%{ID}|%{id}`, []string{"ID", "id"}},
	{"dissect-2named-non-ascii-case-variants", "dissect", `%{é}|%{É}`, []string{"é", "É"}},
	{"regex-2named-prefix-names", "regex", `^(?P<ab>[^|]*)\|(?P<a>[^|]*)$`, []string{"ab", "a"}},
}

var keys = []string{"{.}", "{#}", "{.#}"}

func (c *config) factory() matchers.Factory {
	// the same construction as cmd/helpers/extractorBuilder.go
	if c.Kind == "dissect" {
		d, err := dissect.CompileEx(c.Pattern, false)
		if err != nil {
			panic(fmt.Sprintf("harness: dissect pattern %q: %v", c.Pattern, err))
		}
		return matchers.ToFactory(d)
	}
	r, err := fastregex.CompileEx(c.Pattern, false)
	if err != nil {
		panic(fmt.Sprintf("harness: regex %q: %v", c.Pattern, err))
	}
	return matchers.ToFactory(r)
}

// permFactory wraps a real matcher factory; its instances report a name table
// with the same content as the real one, built by inserting the names in the
// given order (Go's map iteration depends on the insertion history and on a
// per-iteration random offset).
type permFactory struct {
	inner matchers.Factory
	order []string
}

type permMatcher struct {
	matchers.Matcher
	table map[string]int
}

func (p *permMatcher) SubexpNameTable() map[string]int { return p.table }

func (f *permFactory) CreateInstance() matchers.Matcher {
	m := f.inner.CreateInstance()
	real := m.SubexpNameTable()
	t := make(map[string]int)
	for _, n := range f.order {
		idx, ok := real[n]
		if !ok {
			panic("harness: name " + n + " missing from the real name table")
		}
		t[n] = idx
	}
	if len(t) != len(real) {
		panic("harness: name table size differs")
	}
	return &permMatcher{m, t}
}

// variant: how the name table reaches the extractor.
const (
	vReal = iota // the matcher's own table
	vForward
	vReverse
	nVariants
)

var variantName = [nVariants]string{"real", "inserted-forward", "inserted-reverse"}

// pipe is one real extractor with one worker.
type pipe struct {
	in    chan extractor.InputBatch
	ex    *extractor.Extractor
	next  uint64
	names map[string]int
}

func newPipe(c *config, key string, variant int) *pipe {
	f := c.factory()
	names := f.CreateInstance().SubexpNameTable()
	if variant != vReal {
		order := append([]string{}, c.Names...)
		sort.Strings(order)
		if variant == vReverse {
			for i, j := 0, len(order)-1; i < j; i, j = i+1, j-1 {
				order[i], order[j] = order[j], order[i]
			}
		}
		f = &permFactory{f, order}
	}
	in := make(chan extractor.InputBatch)
	ex, err := extractor.New(in, &extractor.Config{Matcher: f, Extract: key, Workers: 1})
	if err != nil {
		panic(fmt.Sprintf("harness: extractor.New(%q): %v", key, err))
	}
	return &pipe{in: in, ex: ex, next: 1, names: names}
}

var sentinel = extractor.BString("s|s")

// run feeds the lines (plus a final sentinel line that always matches, so
// that exactly one result batch comes back) and returns the matches indexed by
// position; a line that produced no match has a zero Match.
func (p *pipe) run(lines []extractor.BString) []extractor.Match {
	batch := make([]extractor.BString, 0, len(lines)+1)
	batch = append(batch, lines...)
	batch = append(batch, sentinel)
	start := p.next
	p.next += uint64(len(batch))
	p.in <- extractor.InputBatch{Batch: batch, Source: "h", BatchStart: start}
	got := <-p.ex.ReadChan()
	out := make([]extractor.Match, len(lines))
	for _, m := range got {
		k := int(m.LineNumber - start)
		if k >= 0 && k < len(lines) {
			out[k] = m
		}
	}
	return out
}

// -------------------------------------------------------------------- case

type Case struct {
	Config string `json:"config"`
	Key    string `json:"key"`
	V1     string `json:"v1"` // quoted (strconv.QuoteToASCII)
	V2     string `json:"v2"`
	Line   string `json:"line"` // informational
}

func q(s string) string { return strconv.QuoteToASCII(s) }
func unq(s string) string {
	u, err := strconv.Unquote(s)
	if err != nil {
		panic(fmt.Sprintf("bad quoted string %s: %v", s, err))
	}
	return u
}

// repetitions per variant (sum >= 64 for every case)
func reps(c *config, variant int) int {
	if len(c.Names) < 2 {
		if variant == vReal {
			return 64
		}
		return 0 // the permuted tables are the real table
	}
	if variant == vReal {
		return 64
	}
	return 96
}

type group struct {
	c     *config
	key   string
	pipes [nVariants]*pipe
}

func newGroup(c *config, key string) *group {
	g := &group{c: c, key: key}
	for v := 0; v < nVariants; v++ {
		if reps(c, v) > 0 {
			g.pipes[v] = newPipe(c, key, v)
		}
	}
	return g
}

func sortedBytes(s string) string {
	b := []byte(s)
	sort.Slice(b, func(i, j int) bool { return b[i] < b[j] })
	return string(b)
}

// runUnit evaluates the cases (v1, v2) for all v2 of the list.
func (g *group) runUnit(w *runner.W, v1 string, v2s []string) {
	c := g.c
	lines := make([]extractor.BString, len(v2s))
	for i, v2 := range v2s {
		lines[i] = extractor.BString(v1 + "|" + v2)
	}
	var res [nVariants][]extractor.Match
	for v := 0; v < nVariants; v++ {
		n := reps(c, v)
		if n == 0 {
			continue
		}
		rep := make([]extractor.BString, 0, n*len(lines))
		for _, l := range lines {
			for k := 0; k < n; k++ {
				rep = append(rep, l)
			}
		}
		res[v] = g.pipes[v].run(rep)
		w.Add("json_texts_produced", int64(len(rep)))
		w.Tick()
	}
	named := strings.Contains(g.key, ".")
	numbered := strings.Contains(g.key, "#")
	for i, v2 := range v2s {
		cs := Case{c.Name, g.key, q(v1), q(v2), q(string(lines[i]))}
		n0 := reps(c, vReal)
		first := res[vReal][i*n0]
		if first.Indices == nil {
			w.Violation("C16/no-match", fmt.Sprintf("config %s: the line %q produced no match or an empty key for %s", c.Name, lines[i], g.key), cs)
			w.Eval(false)
			continue
		}
		text := first.Extracted
		// ---- "The same match always yields the same text"
		total, differing := 0, 0
		other, otherVariant := "", 0
		for v := 0; v < nVariants; v++ {
			n := reps(c, v)
			for k := 0; k < n; k++ {
				total++
				if t := res[v][i*n+k].Extracted; t != text {
					differing++
					if other == "" {
						other, otherVariant = t, v
					}
				}
			}
		}
		if differing > 0 {
			cl, note := "content", ""
			if len(other) == len(text) && sortedBytes(other) == sortedBytes(text) {
				cl, note = "member-order", " (how many is chance: the order follows Go's map iteration)"
			}
			w.Violation("C16/same-match-different-text/"+cl,
				fmt.Sprintf("config %s pattern %q line %q key %s: %d evaluations of the same match gave %q first and e.g. %q (name table %s); the text differs from the first one in %d evaluations%s", c.Name, c.Pattern, lines[i], g.key, total, text, other, variantName[otherVariant], differing, note), cs)
		}
		// ---- the text itself
		exp := &expectation{named: named, numbered: numbered, names: map[string]string{}}
		capOf := func(k int) string {
			if 2*k+1 >= len(first.Indices) || first.Indices[2*k] < 0 {
				return ""
			}
			return first.Line[first.Indices[2*k]:first.Indices[2*k+1]]
		}
		for k := 0; k < len(first.Indices)/2; k++ {
			exp.groups = append(exp.groups, capOf(k))
		}
		for n, idx := range g.pipes[vReal].names {
			exp.names[n] = capOf(idx)
		}
		fs := checkText(text, exp)
		for _, f := range fs {
			w.Violation("C16/"+f.sig, fmt.Sprintf("config %s pattern %q line %q key %s: text %q: %s", c.Name, c.Pattern, lines[i], g.key, text, f.detail), cs)
		}
		w.Eval(text != "{}")
		w.Outcome(c.Name, g.key, outcomeClass(text, len(fs) == 0))
		if w.WantSample() && len(c.Names) == 2 && named && captureClass(v1) != "plain" && captureClass(v2) == "plain" && v2 != "" {
			w.Sample(map[string]any{"config": c.Name, "key": g.key, "line": string(lines[i]), "text": text, "evaluations": total})
		}
	}
}

// outcomeClass: the JSON type of every member in order (s/n/b), or "invalid".
func outcomeClass(text string, ok bool) string {
	if !json.Valid([]byte(text)) {
		return "invalid"
	}
	dec := json.NewDecoder(strings.NewReader(text))
	dec.UseNumber()
	var sb strings.Builder
	if !ok {
		sb.WriteString("!")
	}
	depth := 0
	isKey := false
	for {
		t, err := dec.Token()
		if err != nil {
			break
		}
		switch v := t.(type) {
		case json.Delim:
			if v == '{' {
				depth++
				isKey = true
			}
			continue
		case string:
			if isKey && depth == 1 {
				isKey = false
				continue
			}
			sb.WriteByte('s')
		case json.Number:
			sb.WriteByte('n')
		case bool:
			sb.WriteByte('b')
		default:
			sb.WriteByte('?')
		}
		isKey = true
	}
	return sb.String()
}

// --------------------------------------------------------------- worker

// bounds: v1 and v2 range over V(big); a pair is executed when at least one
// of the two is in V(small), or both are in V(square).
type bounds struct{ big, small, square int }

func tierBounds(quick bool) bounds {
	if quick {
		return bounds{2, 1, 1}
	}
	return bounds{3, 1, 2}
}

func worker(w *runner.W) {
	b := tierBounds(w.Quick())
	big := values(b.big)
	inSmall := map[string]bool{}
	for _, s := range values(b.small) {
		inSmall[s] = true
	}
	inSquare := map[string]bool{}
	for _, s := range values(b.square) {
		inSquare[s] = true
	}
	var caseNo int64
	if w.Param("only", "") == "lookalike" { // development aid: -p only=lookalike times that family alone
		lookWorker(w, &caseNo)
		return
	}
	for ci := range configs {
		c := &configs[ci]
		for _, key := range keys {
			var g *group
			for _, v1 := range big {
				caseNo++
				if !w.Owns(caseNo) {
					continue
				}
				if w.Expired() {
					return
				}
				if g == nil {
					g = newGroup(c, key)
				}
				cur := Case{Config: c.Name, Key: key, V1: q(v1)}
				w.SetCase(func() any { return cur })
				var v2s []string
				for _, v2 := range big {
					if inSmall[v1] || inSmall[v2] || (inSquare[v1] && inSquare[v2]) {
						v2s = append(v2s, v2)
					}
				}
				const chunk = 64
				for s := 0; s < len(v2s); s += chunk {
					e := s + chunk
					if e > len(v2s) {
						e = len(v2s)
					}
					g.runUnit(w, v1, v2s[s:e])
				}
				w.Add("units", 1)
			}
			if g != nil {
				for _, p := range g.pipes {
					if p != nil {
						close(p.in)
					}
				}
			}
		}
	}
	sizeWorker(w, &caseNo)
	if w.Param("sources", "on") != "off" { // development aid: -p sources=off times the other families alone
		sourcesWorker(w, &caseNo)
	}
	if w.Param("lookalike", "on") != "off" {
		lookWorker(w, &caseNo)
	}
}

func replay(w *runner.W, raw json.RawMessage) {
	var rc srcCase
	if err := json.Unmarshal(raw, &rc); err == nil && rc.Family == "sources" {
		replaySources(w, rc)
		return
	}
	var sc sCase
	if err := json.Unmarshal(raw, &sc); err == nil && sc.Family != "" {
		if sc.Family == "lookalike" {
			replayLook(w, sc)
			return
		}
		replaySize(w, sc)
		return
	}
	var cs Case
	if err := json.Unmarshal(raw, &cs); err != nil {
		panic(err)
	}
	for ci := range configs {
		if configs[ci].Name == cs.Config {
			g := newGroup(&configs[ci], cs.Key)
			g.runUnit(w, unq(cs.V1), []string{unq(cs.V2)})
			return
		}
	}
	panic("unknown config " + cs.Config)
}

func main() {
	runner.Main(&runner.Spec{
		Name:       "jsonview",
		Properties: []string{"C16"},
		Level:      "exploration",
		Rule: func(prop, tier string) string {
			b := tierBounds(tier != "thorough")
			var cn []string
			for _, c := range configs {
				cn = append(cn, fmt.Sprintf("%s %q", c.Name, c.Pattern))
			}
			return fmt.Sprintf("matches of the line v1|v2 by %d matcher configurations (%s) x keys {.} {#} {.#} evaluated by the real extractor (one worker) x every pair (v1, v2) over V%d in which at least one value is in V%d or both are in V%d, where Vn = all strings of up to n symbols over %q plus the special values %q (|V1|=%d, |V2|=%d, |V3|=%d). Every match is evaluated at least 64 times (2 named groups: 64 times with the matcher's name table, 96 times each with name tables holding the same names inserted in ascending and in descending order) and all texts must be identical; the first text is validated and decoded with encoding/json and every member compared with the captured text. One evaluation = one (configuration, key, v1, v2) or one line of a size/history unit; non-trivial = the text has at least one member.",
				len(configs), strings.Join(cn, ", "), b.big, b.small, b.square, alphabet, specials, len(values(1)), len(values(2)), len(values(3))) + sizeRule(tier != "thorough") + sourcesRule(tier != "thorough") + lookRule(tier != "thorough")
		},
		Assumptions: func(string) []string {
			return []string{
				"encoding/json is the judge of validity (it accepts raw bytes >= 0x80 inside strings, including invalid UTF-8, which it decodes to U+FFFD); a U+FFFD per invalid byte or per run of invalid bytes is accepted as the decoding of invalid UTF-8",
				"a member may be a JSON number only if the capture has the shape [+-]digits[.digits][e[+-]digits] and exactly the same decimal value (digit strings and math/big exponents, no rounding at any size); a boolean only if the capture is true/false in any letter case (ASCII case, or equal under Unicode simple case folding: U+017F LONG S for s - the statement does not say in which case a true/false capture is written); a capture written with decimal digits of another script (category Nd) counts as numeric-looking with the value its digits have, so a JSON number of that value is accepted for it (rare writes such captures as strings)",
				"a member name must decode to the group name; a group name that is not valid UTF-8 (dissect names may hold any byte but '}') may decode with U+FFFD like a value",
				"size and history families: the captures of a line are known by construction (the patterns split on a delimiter that the values do not contain); a fresh extractor (extractor.New with one worker) is a fresh compiled key, a fresh matcher instance and a fresh expression context",
				"sources family: an InputBatch may carry any source name and any BatchStart, so two sources with one name (a file named twice, a file re-opened after it was replaced) and therefore the same source name and line number with another text are part of the input space; whether a line is ignored is not C16's business, only that the long-lived extractor and a fresh one agree on it; a match that comes back under a (source, number, text) that was never sent is not judged",
				"lookalike family: the classes are what package unicode of the Go toolchain that builds the harness lists (Unicode " + unicode.Version + "); every run of consecutive Nd runes is a whole number of blocks 0..9 (checked at start); characters whose resemblance to a digit, sign or letter is known only to tables outside the standard library (NFKC mappings of mathematical alphanumerics, CJK numerals of category Lo, confusables) are enumerated only by the thorough tier's every-code-point class, as single runes",
				"an empty capture may be left out of the object or be an empty string; every non-empty capture the key asks for must be a member ({.}: named groups, {#}: numbered groups incl. 0, {.#}: both) and no other member may appear",
				"Go's map iteration order cannot be chosen from outside; a difference between evaluations is looked for with 64..256 evaluations per match and tables of different insertion history. With 2 names in one bucket each single iteration starts at the second entry with probability 1/8, so an order-dependent implementation escapes one case with probability < 1e-14 and a whole run (thousands of such cases) never in practice; an implementation that does not depend on map order can never be reported",
			}
		},
		Worker:         worker,
		Replay:         replay,
		HangSeconds:    60,
		QuickBudget:    3 * time.Minute,
		ThoroughBudget: 20 * time.Minute,
	})
}
