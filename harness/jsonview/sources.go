package main

// SOURCES family of C16: one extractor fed from SEVERAL sources.
//
// The other families of this harness feed one extractor from one source whose
// line numbers only grow. The expression context of an extractor worker lives
// as long as the worker and is re-pointed at every matching line; what
// identifies a line to it is the triple (source, line number, text). Every
// source numbers its lines from 1, so with two or more sources one worker sees
// consecutive matches that agree in one or two members of the triple and
// differ in the others:
//
//	same line number, other source, other text   (a.log:1 then b.log:1)
//	same line number, other source, same text    (the same header in two files)
//	same source, other number, same text         (a repeated line)
//	same source, same number, other text         (the same file named twice or
//	                                              re-opened after it was replaced)
//
// A case is a set of 2..6 sources of 1..3 lines each. A line is one of
//
//	U  matches, text unique to (source, number)        "a1|11"
//	S  matches, the same text wherever it stands       "s|7"
//	N  does not match (sparse matches)                 "nomatch a1"
//	I  matches and carries the word the ignore
//	   expressions look for (only with an ignore set)  "IGNa1|11"
//
// the sources are cut into batches of 1, 2 or 3 lines (BatchStart = the number
// of the first line, as the batchers do) and the batches are sent to the real
// extractor in EVERY interleaving that keeps the order of the batches of each
// source. The key is a JSON view or several views in one key; the ignore set,
// when there is one, evaluates a view as well.
//
// A unit is one multiset of sources (or: all tuples of kinds for n one-line
// sources, where a source keeps its name and gets another text from tuple to
// tuple, as a file that was replaced). All cases of a unit go one after the
// other through ONE extractor with one worker (deterministic: the matches come
// back in the order the lines were sent) and through one with two workers.
//
// Oracles (both from the statement):
//
//	faithful      every view in the Extracted text of every emitted match is
//	              checked by checkText against the captures cut out of that
//	              match's own Line and Indices ("members decode to the captured
//	              group texts")
//	differential  the text (and whether there is one) equals what a fresh
//	              extractor gives for that line alone, under the same source
//	              name and line number ("The same match always yields the same
//	              text")

import (
	"encoding/json"
	"fmt"
	"sort"
	"strconv"
	"strings"

	"rare/pkg/extractor"
	"rare/pkg/matchers"
	"verif/runner"
)

// srcCase is the replayable description of one unit: a set of sources, sent in
// every batch size and every interleaving through one extractor.
type srcCase struct {
	Family  string   `json:"family"` // "sources"
	Config  string   `json:"config"`
	Key     string   `json:"key"`
	Ignore  string   `json:"ignore,omitempty"`
	Names   string   `json:"names"`              // distinct | same
	Sources []string `json:"sources,omitempty"`  // the shape of every source: every batch size and interleaving
	OneLine int      `json:"one_line,omitempty"` // or: every tuple of kinds for this many one-line sources
	Workers int      `json:"workers,omitempty"`  // 0: one worker, then two
	// informational
	Lines []string `json:"lines,omitempty"`
}

// ------------------------------------------------------------- vocabulary

var srcConfigs = []config{
	{"regex-2named", "regex", `^(?P<x>[^|]*)\|(?P<y>[^|]*)$`, []string{"x", "y"}},
	{"dissect-2named", "dissect", `%{x}|%{y}`, []string{"x", "y"}},
	{"regex-1named", "regex", `^(?P<x>[^|]*)\|([^|]*)$`, []string{"x"}},
	{"regex-0named", "regex", `^([^|]*)\|([^|]*)$`, nil},
}

// one view, and combinations of views in one key
var srcKeys = []string{"{.}", "{#}", "{.#}", "{#.}", "{.} {#}", "{#} {.#} {.}", "{.} {.}", "{.#} {#.}"}

const ignoreWord = "IGN"

// ignore expressions that evaluate a view before the key is built
var srcIgnores = []string{"", "{like {.} " + ignoreWord + "}", "{like {#} " + ignoreWord + "}", "{like {.#} " + ignoreWord + "}"}

var srcNameModes = []string{"distinct", "same"}

func sourceName(mode string, idx int) string {
	if mode == "same" {
		return "x.log"
	}
	return string(rune('a'+idx)) + ".log" // names of equal length
}

// lineText: the text of line number no (from 1) of source idx.
func lineText(kind byte, idx, no int) string {
	l := string(rune('a' + idx))
	switch kind {
	case 'U':
		return fmt.Sprintf("%s%d|%d%d", l, no, idx+1, no)
	case 'S':
		return "s|7"
	case 'I':
		return fmt.Sprintf("%s%s%d|%d%d", ignoreWord, l, no, idx+1, no)
	case 'N':
		return fmt.Sprintf("nomatch %s%d", l, no)
	}
	panic("unknown line kind " + string(kind))
}

// shapes: all strings of 1..maxLen kinds, shorter first.
func shapes(kinds string, maxLen int) []string {
	var out []string
	var rec func(p string, l int)
	rec = func(p string, l int) {
		if len(p) == l {
			out = append(out, p)
			return
		}
		for i := 0; i < len(kinds); i++ {
			rec(p+string(kinds[i]), l)
		}
	}
	for l := 1; l <= maxLen; l++ {
		rec("", l)
	}
	return out
}

// multisets: all non-decreasing k-tuples over the list (every interleaving of
// the batches is enumerated, so the order of the sources in a case carries
// nothing but their names).
func multisets(list []string, k int) [][]string {
	var out [][]string
	cur := make([]string, 0, k)
	var rec func(from int)
	rec = func(from int) {
		if len(cur) == k {
			out = append(out, append([]string{}, cur...))
			return
		}
		for i := from; i < len(list); i++ {
			cur = append(cur, list[i])
			rec(i)
			cur = cur[:len(cur)-1]
		}
	}
	rec(0)
	return out
}

// tuples: all ordered k-tuples over the list.
func tuples(list []string, k int) [][]string {
	var out [][]string
	cur := make([]string, 0, k)
	var rec func()
	rec = func() {
		if len(cur) == k {
			out = append(out, append([]string{}, cur...))
			return
		}
		for _, s := range list {
			cur = append(cur, s)
			rec()
			cur = cur[:len(cur)-1]
		}
	}
	rec()
	return out
}

// interleavings calls f with every sequence over 0..len(counts)-1 in which i
// appears counts[i] times (lexicographic order). f must not keep the slice.
func interleavings(counts []int, f func(order []int)) {
	total := 0
	for _, c := range counts {
		total += c
	}
	left := append([]int{}, counts...)
	cur := make([]int, 0, total)
	var rec func()
	rec = func() {
		if len(cur) == total {
			f(cur)
			return
		}
		for i := range left {
			if left[i] > 0 {
				left[i]--
				cur = append(cur, i)
				rec()
				cur = cur[:len(cur)-1]
				left[i]++
			}
		}
	}
	rec()
}

// ------------------------------------------------------------------ plan

// srcPlan: which source sets a group of (configuration, key, ignore, names)
// is run over.
type srcPlan struct {
	pairLen     int    // pairs of sources of up to pairLen lines, every interleaving
	tripleLen   int    // triples of sources of up to tripleLen lines, every interleaving (0: none)
	triple3Over string // triples of sources of up to 3 lines over these kinds with at least one source of 3 lines ("": none)
	oneLineMin  int    // oneLineMin..oneLineMax sources of one line each, every tuple of kinds, sent in list order
	oneLineMax  int
}

type srcGroupDesc struct {
	config string
	key    string
	ignore string
	names  string
	plan   srcPlan
}

func (d srcGroupDesc) kinds() string {
	if d.ignore != "" {
		return "USNI"
	}
	return "USN"
}

const primaryConfig = "regex-2named"

var (
	planReduced = srcPlan{pairLen: 2, oneLineMin: 3, oneLineMax: 4}
	planMedium  = srcPlan{pairLen: 2, oneLineMin: 3, oneLineMax: 5}
	planPairs3  = srcPlan{pairLen: 3, oneLineMin: 3, oneLineMax: 5}
	planFull    = srcPlan{pairLen: 3, tripleLen: 2, oneLineMin: 3, oneLineMax: 6}
	planFull3   = srcPlan{pairLen: 3, tripleLen: 2, triple3Over: "UN", oneLineMin: 3, oneLineMax: 6}
)

// srcGroups: the groups of a tier and the plan of each.
//
//	quick     primary configuration, no ignore set, distinct names: full
//	          everything else: reduced
//	thorough  primary configuration, no ignore set, distinct names: full3
//	          no ignore set otherwise: full
//	          primary configuration with an ignore set: pairs3
//	          everything else: medium
func srcGroups(quick bool) []srcGroupDesc {
	var out []srcGroupDesc
	for _, c := range srcConfigs {
		for _, key := range srcKeys {
			for _, ig := range srcIgnores {
				for _, nm := range srcNameModes {
					primary := c.Name == primaryConfig
					d := srcGroupDesc{c.Name, key, ig, nm, planReduced}
					switch {
					case quick && primary && ig == "" && nm == "distinct":
						d.plan = planFull
					case quick:
					case primary && ig == "" && nm == "distinct":
						d.plan = planFull3
					case ig == "":
						d.plan = planFull
					case primary:
						d.plan = planPairs3
					default:
						d.plan = planMedium
					}
					out = append(out, d)
				}
			}
		}
	}
	return out
}

type srcUnit struct {
	sources []string
	oneLine int
}

func (d srcGroupDesc) units() []srcUnit {
	var out []srcUnit
	k := d.kinds()
	for _, s := range multisets(shapes(k, d.plan.pairLen), 2) {
		out = append(out, srcUnit{sources: s})
	}
	if d.plan.tripleLen > 0 {
		for _, s := range multisets(shapes(k, d.plan.tripleLen), 3) {
			out = append(out, srcUnit{sources: s})
		}
	}
	if d.plan.triple3Over != "" {
		for _, s := range multisets(shapes(d.plan.triple3Over, 3), 3) {
			if len(s[0]) == 3 || len(s[1]) == 3 || len(s[2]) == 3 {
				out = append(out, srcUnit{sources: s})
			}
		}
	}
	for n := d.plan.oneLineMin; n <= d.plan.oneLineMax; n++ {
		out = append(out, srcUnit{oneLine: n})
	}
	return out
}

// --------------------------------------------------------- real machinery

type keyPart struct{ named, numbered bool }

type freshRes struct {
	ok       bool // a match with a non-empty key came back
	text     string
	indices  []int
	findings []finding // what the faithfulness oracle says about the text

	nontrivial bool // the text has at least one member
}

// srcGroup holds what the cases of one (configuration, key, ignore) share: the
// matcher factory (every extractor worker creates its own instance from it),
// the name table of a fresh instance, and the texts a fresh extractor gives.
type srcGroup struct {
	c       *config
	key     string
	ignore  string
	factory matchers.Factory
	table   map[string]int
	parts   []keyPart
	fresh   map[string]freshRes
}

func newSrcGroup(configName, key, ignore string) *srcGroup {
	var c *config
	for i := range srcConfigs {
		if srcConfigs[i].Name == configName {
			c = &srcConfigs[i]
		}
	}
	if c == nil {
		panic("unknown sources configuration " + configName)
	}
	g := &srcGroup{c: c, key: key, ignore: ignore, factory: c.factory(), fresh: map[string]freshRes{}}
	g.table = g.factory.CreateInstance().SubexpNameTable()
	for _, p := range strings.Split(key, " ") {
		switch p {
		case "{.}":
			g.parts = append(g.parts, keyPart{true, false})
		case "{#}":
			g.parts = append(g.parts, keyPart{false, true})
		case "{.#}", "{#.}":
			g.parts = append(g.parts, keyPart{true, true})
		default:
			panic("harness: key part " + p)
		}
	}
	return g
}

// newExtractor: a new extractor with its own compiled key and its own
// compiled ignore set.
func (g *srcGroup) newExtractor(in chan extractor.InputBatch, workers int) *extractor.Extractor {
	var ig extractor.IgnoreSet
	if g.ignore != "" {
		var err error
		ig, err = extractor.NewIgnoreExpressions(g.ignore)
		if err != nil {
			panic(fmt.Sprintf("harness: ignore expression %q: %v", g.ignore, err))
		}
	}
	ex, err := extractor.New(in, &extractor.Config{Matcher: g.factory, Extract: g.key, Workers: workers, Ignore: ig})
	if err != nil {
		panic(fmt.Sprintf("harness: extractor.New(%q): %v", g.key, err))
	}
	return ex
}

// freshOf: what a fresh extractor (one worker) gives for this line alone,
// under the same source name and line number.
func (g *srcGroup) freshOf(source string, no uint64, text string) freshRes {
	k := source + "\x00" + strconv.FormatUint(no, 10) + "\x00" + text
	if r, ok := g.fresh[k]; ok {
		return r
	}
	in := make(chan extractor.InputBatch)
	ex := g.newExtractor(in, 1)
	var r freshRes
	done := make(chan struct{})
	go func() {
		for got := range ex.ReadChan() {
			for mi := range got {
				m := &got[mi]
				r = freshRes{ok: true, text: m.Extracted, indices: m.Indices, findings: g.faithful(m)}
			}
		}
		close(done)
	}()
	in <- extractor.InputBatch{Batch: []extractor.BString{extractor.BString(text)}, Source: source, BatchStart: no}
	close(in)
	<-done
	r.nontrivial = r.ok && strings.Contains(r.text, ":")
	g.fresh[k] = r
	return r
}

type fedLine struct {
	src    int
	source string
	no     uint64
	text   string
	btext  extractor.BString
	fresh  freshRes
	fed    int // how often the line was sent to the extractor of the unit
	seen   int // how many matches came back for it
}

func lineID(source string, no uint64, text string) string {
	return source + "\x00" + strconv.FormatUint(no, 10) + "\x00" + text
}

// expectFromMatch: the captures of a match, cut out of its own Line by its
// own Indices.
func expectFromMatch(m *extractor.Match, table map[string]int, p keyPart) *expectation {
	exp := &expectation{named: p.named, numbered: p.numbered, names: map[string]string{}}
	capOf := func(k int) string {
		if 2*k+1 >= len(m.Indices) || m.Indices[2*k] < 0 {
			return ""
		}
		return m.Line[m.Indices[2*k]:m.Indices[2*k+1]]
	}
	for k := 0; k < len(m.Indices)/2; k++ {
		exp.groups = append(exp.groups, capOf(k))
	}
	for n, idx := range table {
		exp.names[n] = capOf(idx)
	}
	return exp
}

// splitViews cuts the Extracted text of a key of several views (separated by
// one space) into the texts of the views. ok=false: the text is not a
// sequence of that many JSON values.
func splitViews(text string, n int) ([]string, bool) {
	if n == 1 {
		return []string{text}, true
	}
	dec := json.NewDecoder(strings.NewReader(text))
	out := make([]string, 0, n)
	for i := 0; i < n; i++ {
		var raw json.RawMessage
		if err := dec.Decode(&raw); err != nil {
			return nil, false
		}
		out = append(out, string(raw))
	}
	var raw json.RawMessage
	if err := dec.Decode(&raw); err == nil {
		return nil, false // something follows the last view
	}
	return out, true
}

const srcTail = "/sources-family"

// faithful applies checkText to every view of the text of a match, with the
// captures cut out of the match's own Line and Indices.
func (g *srcGroup) faithful(m *extractor.Match) []finding {
	views, ok := splitViews(m.Extracted, len(g.parts))
	if !ok {
		return []finding{{"invalid-json/views-of-one-key-not-separable", fmt.Sprintf("not %d JSON values separated by a space", len(g.parts))}}
	}
	var out []finding
	for pi, v := range views {
		for _, f := range checkText(v, expectFromMatch(m, g.table, g.parts[pi])) {
			f.detail = fmt.Sprintf("view %d: %s", pi+1, f.detail)
			out = append(out, f)
		}
	}
	return out
}

func equalInts(a, b []int) bool {
	if len(a) != len(b) {
		return false
	}
	for i := range a {
		if a[i] != b[i] {
			return false
		}
	}
	return true
}

// srcBatch is one batch as it is sent: lines[i] has the number start+i.
type srcBatch struct {
	si    int
	start int
	lines []*fedLine
}

// srcSend is one case of a unit: the batches of a set of sources in one order.
type srcSend struct {
	sources []string // the shape of every source
	batch   int      // the batch size
	order   []int    // source index of every batch
	batches []srcBatch
}

func (sd *srcSend) String() string {
	return fmt.Sprintf("sources %v in batches of %d sent in the source order %v", sd.sources, sd.batch, sd.order)
}

// expected is one line a match is expected for, in the order it was sent.
type expected struct {
	fl   *fedLine
	send int // index into the sends of the unit
}

// srcLines is the table of the lines of a unit.
type srcLines struct {
	g     *srcGroup
	names string
	byID  map[string]*fedLine
	fed   []*fedLine
}

func (t *srcLines) line(si, no int, kind byte) *fedLine {
	name := sourceName(t.names, si)
	text := lineText(kind, si, no)
	id := lineID(name, uint64(no), text)
	fl := t.byID[id] // the same name, number and text in two sources: one line
	if fl == nil {
		fl = &fedLine{src: si, source: name, no: uint64(no), text: text, btext: extractor.BString(text)}
		fl.fresh = t.g.freshOf(name, fl.no, text)
		t.byID[id] = fl
		t.fed = append(t.fed, fl)
	}
	return fl
}

// sendsOf lists the cases of a unit. A unit with Sources: every batch size
// and every interleaving of the batches. A unit with OneLine = n: every tuple
// of kinds for n sources of one line each, the sources sent in list order.
func (t *srcLines) sendsOf(cs srcCase, kinds string) []srcSend {
	var sends []srcSend
	if cs.OneLine > 0 {
		if cs.Workers == 2 && cs.OneLine < 3 {
			return nil
		}
		order := make([]int, cs.OneLine)
		for i := range order {
			order[i] = i
		}
		for _, tp := range tuples(shapes(kinds, 1), cs.OneLine) {
			sd := srcSend{sources: tp, batch: 1, order: order}
			for si, k := range tp {
				sd.batches = append(sd.batches, srcBatch{si, 1, []*fedLine{t.line(si, 1, k[0])}})
			}
			sends = append(sends, sd)
		}
		return sends
	}
	perSource := make([][]*fedLine, len(cs.Sources))
	for si, shape := range cs.Sources {
		for i := 0; i < len(shape); i++ {
			perSource[si] = append(perSource[si], t.line(si, i+1, shape[i]))
		}
	}
	for _, b := range batchSizes(cs.Sources) {
		counts := make([]int, len(cs.Sources))
		total := 0
		for i, s := range cs.Sources {
			counts[i] = (len(s) + b - 1) / b
			total += counts[i]
		}
		if cs.Workers == 2 && total < 3 {
			continue // two workers and at most two batches: no worker sees a history
		}
		interleavings(counts, func(order []int) {
			sd := srcSend{sources: cs.Sources, batch: b, order: append([]int{}, order...)}
			next := make([]int, len(cs.Sources))
			for _, si := range order {
				s := next[si]
				e := s + b
				if e > len(perSource[si]) {
					e = len(perSource[si])
				}
				next[si] = e
				sd.batches = append(sd.batches, srcBatch{si, s + 1, perSource[si][s:e]})
			}
			sends = append(sends, sd)
		})
	}
	return sends
}

// runSrcUnitWorkers sends every case of a unit through ONE extractor with the
// given number of workers, one case after the other, closes it and checks
// every match that came back. A unit is the replayable case: with one worker
// the whole history of the worker's context is fixed by it.
func (g *srcGroup) runSrcUnitWorkers(w *runner.W, cs srcCase) {
	kinds := "USN"
	if g.ignore != "" {
		kinds = "USNI"
	}
	tbl := &srcLines{g: g, names: cs.Names, byID: map[string]*fedLine{}}
	sends := tbl.sendsOf(cs, kinds)
	if len(sends) == 0 {
		return
	}
	fed, byID := tbl.fed, tbl.byID
	// ---- run
	in := make(chan extractor.InputBatch)
	ex := g.newExtractor(in, cs.Workers)
	var got []extractor.Match
	done := make(chan struct{})
	go func() {
		for b := range ex.ReadChan() {
			got = append(got, b...)
		}
		close(done)
	}()
	var exp []expected
	emitted := 0
	var nBatches int64
	for sendNo := range sends {
		for _, sb := range sends[sendNo].batches {
			// a batch of its own, as a batcher makes one (the lines themselves are shared)
			batch := make([]extractor.BString, len(sb.lines))
			for i, fl := range sb.lines {
				batch[i] = fl.btext
				fl.fed++
				if fl.fresh.ok {
					exp = append(exp, expected{fl, sendNo})
					emitted++
				}
				w.Eval(fl.fresh.nontrivial)
			}
			in <- extractor.InputBatch{Batch: batch, Source: sb.lines[0].source, BatchStart: uint64(sb.start)}
			nBatches++
		}
	}
	w.Add("transitions_batches_sent", nBatches)
	close(in)
	<-done
	w.Add("sources_family_cases", int64(len(sends)))
	w.Add("json_texts_produced", int64(len(got)))
	// ---- oracles
	describe := func() srcCase {
		c := cs
		for _, fl := range fed {
			c.Lines = append(c.Lines, fl.source+":"+strconv.FormatUint(fl.no, 10)+" "+q(fl.text))
		}
		return c
	}
	what := fmt.Sprintf("sources %v", cs.Sources)
	if cs.OneLine > 0 {
		what = fmt.Sprintf("every tuple of %d one-line sources", cs.OneLine)
	}
	unit := fmt.Sprintf("config %s pattern %q key %q ignore %q, %d worker(s), names %s, %s", g.c.Name, g.c.Pattern, g.key, g.ignore, cs.Workers, cs.Names, what)
	// with one worker the matches come back in the order the lines were sent
	aligned := cs.Workers == 1 && len(got) == len(exp)
	if aligned {
		for i := range got {
			if byID[lineID(got[i].Source, got[i].LineNumber, got[i].Line)] != exp[i].fl {
				aligned = false
				break
			}
		}
	}
	where := func(i int) string {
		m := &got[i]
		s := fmt.Sprintf("%s: the match of %s:%d %q", unit, m.Source, m.LineNumber, m.Line)
		if aligned {
			s += fmt.Sprintf(" (match #%d of the extractor, in the case: %s", i+1, sends[exp[i].send].String())
			if i > 0 {
				s += fmt.Sprintf("; the match before it was %s:%d %q", got[i-1].Source, got[i-1].LineNumber, got[i-1].Line)
			}
			s += ")"
		}
		return s
	}
	for mi := range got {
		m := &got[mi]
		fl := byID[lineID(m.Source, m.LineNumber, m.Line)]
		if fl == nil {
			// not a line of this unit under that name and number: nothing the
			// statement of C16 speaks about
			w.Add("sources_family_matches_not_attributed", 1)
			continue
		}
		fl.seen++
		// faithful: "members decode to the captured group texts"
		// (the oracle is a function of Line, Indices and the text: when all
		// three are those of the fresh match, so is its verdict)
		fs := fl.fresh.findings
		if !fl.fresh.ok || m.Extracted != fl.fresh.text || !equalInts(m.Indices, fl.fresh.indices) {
			fs = g.faithful(m)
			w.Add("sources_family_texts_decoded", 1)
		}
		for _, f := range fs {
			w.Violation("C16/"+f.sig+srcTail, fmt.Sprintf("%s: the text %q: %s", where(mi), m.Extracted, f.detail), describe())
		}
		// differential: "The same match always yields the same text"
		if !fl.fresh.ok {
			w.Violation("C16/same-match-different-text/match-where-fresh-extractor-has-none"+srcTail, fmt.Sprintf("%s has the text %q; a fresh extractor gives no match (or an empty key) for that line alone", where(mi), m.Extracted), describe())
		} else if m.Extracted != fl.fresh.text {
			w.Violation("C16/same-match-different-text/"+g.relation(fed, fl, m.Extracted)+srcTail, fmt.Sprintf("%s has the text %q; a fresh extractor gives %q for that line alone", where(mi), m.Extracted, fl.fresh.text), describe())
		}
	}
	firstText := ""
	for _, fl := range fed {
		if !fl.fresh.ok {
			continue
		}
		if firstText == "" {
			firstText = fl.fresh.text
		}
		if fl.seen < fl.fed {
			w.Violation("C16/same-match-different-text/no-match-where-fresh-extractor-has-one"+srcTail, fmt.Sprintf("%s: the line %s:%d %q was sent %d times and %d matches came back for it; a fresh extractor gives %q for that line alone", unit, fl.source, fl.no, fl.text, fl.fed, fl.seen, fl.fresh.text), describe())
		}
	}
	w.Outcome("sources", g.c.Name, g.key, g.ignore, strconv.Itoa(len(fed)), strconv.Itoa(emitted), outcomeClassShort(strings.SplitN(firstText, " ", 2)[0], true))
	if w.WantSample() && cs.Workers == 1 && len(cs.Sources) == 3 && len(fed) >= 4 && len(g.parts) == 2 {
		w.Sample(map[string]any{"family": "sources", "case": describe(), "cases": len(sends), "matches": len(got), "first_text": firstText})
	}
}

// relation names the class of a text that differs from the fresh one: is it
// the text that belongs to another line of the case, and what does that line
// share with this one?
func (g *srcGroup) relation(fed []*fedLine, fl *fedLine, text string) string {
	best := ""
	rank := 99
	for _, o := range fed {
		if o == fl || !o.fresh.ok || o.fresh.text != text {
			continue
		}
		var cl string
		var r int
		switch {
		case o.no == fl.no && o.source == fl.source:
			cl, r = "same-source-name-and-line-number", 0
		case o.no == fl.no:
			cl, r = "same-line-number-other-source", 1
		case o.source == fl.source:
			cl, r = "same-source-other-line-number", 2
		default:
			cl, r = "other-source-other-line-number", 3
		}
		if r < rank {
			best, rank = cl, r
		}
	}
	if best == "" {
		return "text-differs-from-fresh-extractor"
	}
	return "text-of-another-line/" + best
}

// batchSizes: the batch sizes that cut the sources differently.
func batchSizes(sources []string) []int {
	maxLen := 0
	for _, s := range sources {
		if len(s) > maxLen {
			maxLen = len(s)
		}
	}
	out := []int{1}
	for b := 2; b <= 3 && b <= maxLen; b++ {
		out = append(out, b)
	}
	return out
}

// runSrcUnit runs a unit with one and with two workers, or with the number of
// workers the description names.
func (g *srcGroup) runSrcUnit(w *runner.W, cs srcCase) {
	if cs.Workers != 0 {
		g.runSrcUnitWorkers(w, cs)
		return
	}
	for _, workers := range []int{1, 2} {
		c := cs
		c.Workers = workers
		g.runSrcUnitWorkers(w, c)
	}
	w.Add("sources_family_units", 1)
}

// ----------------------------------------------------------------- worker

func sourcesWorker(w *runner.W, caseNo *int64) {
	for _, d := range srcGroups(w.Quick()) {
		var g *srcGroup
		for _, u := range d.units() {
			*caseNo++
			if !w.Owns(*caseNo) {
				continue
			}
			if w.Expired() {
				return
			}
			if g == nil {
				g = newSrcGroup(d.config, d.key, d.ignore)
			}
			cs := srcCase{Family: "sources", Config: d.config, Key: d.key, Ignore: d.ignore, Names: d.names, Sources: u.sources, OneLine: u.oneLine}
			w.SetCase(func() any { return cs })
			g.runSrcUnit(w, cs)
			w.Tick()
		}
	}
}

func replaySources(w *runner.W, cs srcCase) {
	newSrcGroup(cs.Config, cs.Key, cs.Ignore).runSrcUnit(w, cs)
}

func sourcesRule(quick bool) string {
	type cnt struct{ groups, units int }
	byPlan := map[srcPlan]*cnt{}
	var plans []srcPlan
	for _, d := range srcGroups(quick) {
		c := byPlan[d.plan]
		if c == nil {
			c = &cnt{}
			byPlan[d.plan] = c
			plans = append(plans, d.plan)
		}
		c.groups++
		c.units += len(d.units())
	}
	sort.Slice(plans, func(i, j int) bool { return byPlan[plans[i]].groups > byPlan[plans[j]].groups })
	var ps []string
	for _, p := range plans {
		s := fmt.Sprintf("%d groups (%d units in all): every multiset of 2 sources of 1..%d lines", byPlan[p].groups, byPlan[p].units, p.pairLen)
		if p.tripleLen > 0 {
			s += fmt.Sprintf(", every multiset of 3 sources of 1..%d lines", p.tripleLen)
		}
		if p.triple3Over != "" {
			s += fmt.Sprintf(", every multiset of 3 sources of 1..3 lines of the kinds %s with a source of 3 lines", p.triple3Over)
		}
		s += fmt.Sprintf(", every tuple of %d..%d one-line sources (sent in list order)", p.oneLineMin, p.oneLineMax)
		ps = append(ps, s)
	}
	var cn []string
	for _, c := range srcConfigs {
		cn = append(cn, fmt.Sprintf("%s %q", c.Name, c.Pattern))
	}
	full := "the largest space for configuration " + primaryConfig + " without ignore set and with distinct names, the smallest for every other group"
	if !quick {
		full = "the largest space for configuration " + primaryConfig + " without ignore set and with distinct names, the second largest for every other group without ignore set, pairs of up to 3 lines for " + primaryConfig + " with an ignore set, the smallest for the rest"
	}
	return fmt.Sprintf(" SOURCES family (ONE extractor fed from several sources, every source numbering its lines from 1): a group is a configuration (%s) x key %q (several views in one key are separated by a space and checked one by one) x ignore set %q (a line that contains %s is ignored through a view) x source names (distinct names of equal length a.log b.log ..; the same name x.log for every source, as when a file is named twice or re-opened). A line is U (matches, text unique to source and number, second group numeric), S (matches, the same text in every source and position), N (does not match), I (only with an ignore set: matches and contains %s). A case is a source set cut into batches of 1, 2 or 3 lines (BatchStart = number of the first line) sent in one interleaving of the batches; EVERY interleaving that keeps the order within a source is a case. A unit is one multiset of sources (or all tuples of n one-line sources): all its cases are sent one after the other through ONE extractor with 1 worker, and again through one with 2 workers (cases of 3 or more batches only), so a worker's context also goes from the last line of a case to the first line of the next. %s: %s. Oracles per emitted match: every view of its text is checked against the captures cut out of the match's own Line and Indices; the text, and whether there is one, equals what a fresh extractor gives for that line alone under the same source name and number. With two workers which worker takes a batch is up to the scheduler: the oracle holds for every schedule, the one-worker cases are the deterministic ones. One evaluation = one line fed; non-trivial = a fresh extractor gives it a text with at least one member.",
		strings.Join(cn, ", "), srcKeys, srcIgnores, ignoreWord, ignoreWord, full, strings.Join(ps, "; "))
}
