package main

// MatchNumerical (rare analyze) on the real object. The symbol table below is
// the reference's knowledge of which sample strings are numbers; nothing is
// parsed by the reference.

import (
	"fmt"
	"math"
	"sort"
	"strings"

	"rare/pkg/aggregation"
)

type numSym struct {
	s  string
	v  float64
	ok bool
}

var numSymbols = []numSym{
	{"0", 0, true}, {"1", 1, true}, {"2", 2, true}, {"-3", -3, true}, {"2.5", 2.5, true}, {"x", 0, false},
	// thorough only:
	{"1e9", 1e9, true}, {"", 0, false},
}

// numLarge: large magnitude with unit-size spread (and, by repetition,
// identical huge values) - where a moments formula that subtracts two huge
// nearly equal quantities loses everything. All are exactly representable.
var numLarge = []numSym{
	{"1000000004", 1000000004, true}, {"1000000007", 1000000007, true}, {"1000000013", 1000000013, true}, {"1000000016", 1000000016, true},
	{"1000000000000000", 1e15, true}, {"1000000000000001", 1e15 + 1, true}, {"-1000000000003", -1000000000003, true}, {"1", 1, true},
}

func numLookup(s string) (float64, bool) {
	for _, y := range numSymbols {
		if y.s == s {
			return y.v, y.ok
		}
	}
	for _, y := range numLarge {
		if y.s == s {
			return y.v, y.ok
		}
	}
	panic("harness: unknown numerical symbol " + s)
}

// quantile probabilities as exact fractions (analyze passes q/100)
var quantFracs = [][2]int64{{0, 1}, {1, 4}, {1, 2}, {9, 10}, {99, 100}, {1, 1}}

// tolerance: 1e-9 relative to the expected figure plus 1e-12 of the magnitude
// of the data (scale = max |sample|). The second term is what "within
// floating-point tolerance" has to grant any streaming algorithm: a stable
// one-pass update (Welford) has an absolute error of about n*eps*scale
// (n <= 7, eps = 1.1e-16) in mean and standard deviation, i.e. three orders
// of magnitude below this bound, at every magnitude.
func tolerance(want, scale float64) float64 {
	return 1e-9*math.Abs(want) + 1e-12*math.Max(1, scale)
}

func approxTol(got, want, tol float64) bool {
	if math.IsNaN(got) || math.IsInf(got, 0) {
		return false
	}
	return math.Abs(got-want) <= tol
}

func approx(got, want, scale float64) bool { return approxTol(got, want, tolerance(want, scale)) }

// runNumerical returns every failure found (accessor failures do not stop the
// run: a panic in Quantile leaves the object usable and the remaining prefixes
// still have to be checked).
func runNumerical(config string, samples []string) (res result, fails []*fail) {
	return runNumericalAt(config, samples, numLookup, everyPrefix)
}

// runNumericalAt: lookup is the reference's knowledge of what each sample
// string is (the symbol table, or the generator of a size family); cp selects
// the prefixes after which the accessors are called.
func runNumericalAt(config string, samples []string, lookup func(string) (float64, bool), cp checkAt) (res result, fails []*fail) {
	cfg := &aggregation.NumericalConfig{}
	switch config {
	case "keep", "keep-large":
		cfg.KeepValuesForAnalysis = true
	case "keep-reverse":
		cfg.KeepValuesForAnalysis, cfg.Reverse = true, true
	case "nokeep", "nokeep-large":
	default:
		panic("harness: unknown numerical config " + config)
	}
	where := "NewNumericalAggregator"
	var impl *aggregation.MatchNumerical
	ref := &refNumerical{}
	seen := map[string]bool{}
	add := func(f *fail, upto int) {
		if f != nil && strings.HasSuffix(config, "-large") && (strings.HasSuffix(f.sig, "-mismatch") || strings.Contains(f.sig, "-not-")) {
			f.sig += "/large-magnitude" // own input class: huge values with unit-size spread
		}
		if f == nil || seen[f.sig] {
			return
		}
		seen[f.sig] = true
		f.detail += "\nconfig " + config + " " + history(samples, upto)
		fails = append(fails, f)
	}
	for i := -1; i < len(samples); i++ {
		fatal := guard("numerical", &where, func() *fail {
			if impl == nil {
				impl = aggregation.NewNumericalAggregator(cfg)
			}
			if i >= 0 {
				where = "Sample"
				impl.Sample(samples[i])
				res.transitions++
				if v, ok := lookup(samples[i]); ok {
					ref.add(v)
					res.accepted++
				} else {
					ref.errs++
				}
			}
			return nil
		})
		if fatal != nil {
			add(fatal, i+1)
			res.f, res.fatal = fatal, true
			return
		}
		if !cp.at(i+1, len(samples)) {
			continue
		}
		var ob strings.Builder
		for _, chk := range numericalChecks(impl, cfg, ref, &ob) {
			c := chk
			add(guard("numerical", &where, func() *fail { where = c.where; return c.f() }), i+1)
		}
		res.orderKey = ob.String()
		res.state = ob.String() + fmt.Sprintf(" mean%.9g sd%.9g", impl.Mean(), impl.StdDev())
	}
	if len(fails) > 0 {
		res.f = fails[0]
	}
	return
}

type numCheck struct {
	where string
	f     func() *fail
}

func numericalChecks(impl *aggregation.MatchNumerical, cfg *aggregation.NumericalConfig, ref *refNumerical, ob *strings.Builder) []numCheck {
	n, mean, sd, mn, mx := ref.stats()
	scale := math.Max(math.Abs(mn), math.Abs(mx))
	var out []numCheck
	out = append(out,
		numCheck{"Count", func() *fail { // S5
			fmt.Fprintf(ob, "n%d E%d", impl.Count(), impl.ParseErrors())
			if g := impl.Count(); g != uint64(n) {
				return failf("C07/numerical/count-mismatch", "Count()=%d, %d numbers were sampled", g, n)
			}
			return nil
		}},
		numCheck{"ParseErrors", func() *fail {
			if g := impl.ParseErrors(); g != ref.errs {
				return failf("C07/numerical/parse-errors-mismatch", "ParseErrors()=%d, %d non-numbers were sampled", g, ref.errs)
			}
			return nil
		}},
	)
	if n >= 1 {
		out = append(out,
			numCheck{"Min", func() *fail {
				fmt.Fprintf(ob, " min%v max%v", impl.Min(), impl.Max())
				if g := impl.Min(); g != mn {
					return failf("C07/numerical/min-mismatch", "Min()=%v, want %v", g, mn)
				}
				return nil
			}},
			numCheck{"Max", func() *fail {
				if g := impl.Max(); g != mx {
					return failf("C07/numerical/max-mismatch", "Max()=%v, want %v", g, mx)
				}
				return nil
			}},
			numCheck{"Mean", func() *fail {
				if g := impl.Mean(); !approx(g, mean, scale) {
					return failf("C07/numerical/mean-mismatch", "Mean()=%v, want %v", g, mean)
				}
				return nil
			}},
		)
	}
	if n >= 2 { // the sample standard deviation of fewer than 2 values is undefined
		out = append(out,
			numCheck{"StdDev", func() *fail {
				if g := impl.StdDev(); !approx(g, sd, scale) {
					return failf("C07/numerical/stddev-mismatch", "StdDev()=%v, sample standard deviation is %v", g, sd)
				}
				return nil
			}},
			numCheck{"Variance", func() *fail {
				// an error e in the standard deviation is an error of 2*sd*e + e*e in the variance
				e := tolerance(sd, scale)
				if g := impl.Variance(); !approxTol(g, sd*sd, 2*sd*e+e*e+1e-9*sd*sd) {
					return failf("C07/numerical/variance-mismatch", "Variance()=%v, sample variance is %v", g, sd*sd)
				}
				return nil
			}},
		)
	}
	if !cfg.KeepValuesForAnalysis {
		return out
	}
	// S6 order statistics; with Reverse the series is ordered descending
	// ("Reverses the numerical series when ordered-analysis takes place").
	ordered := append([]float64{}, ref.vals...)
	sort.Float64s(ordered)
	if cfg.Reverse {
		for l, r := 0, len(ordered)-1; l < r; l, r = l+1, r-1 {
			ordered[l], ordered[r] = ordered[r], ordered[l]
		}
	}
	accepted := func(g float64, idx []int) bool {
		for _, i := range idx {
			if ordered[i] == g {
				return true
			}
		}
		return false
	}
	var an *aggregation.StatisticalAnalysis
	out = append(out, numCheck{"Analyze", func() *fail { an = impl.Analyze(); return nil }})
	out = append(out,
		numCheck{"Median", func() *fail {
			if an == nil {
				return nil
			}
			g := an.Median()
			fmt.Fprintf(ob, " med%v", g)
			if n > 0 && !accepted(g, nearestRankAccept(n, 1, 2)) {
				return failf("C07/numerical/median-not-nearest-rank", "Median()=%v, ordered values %v, accepted indexes %v", g, ordered, nearestRankAccept(n, 1, 2))
			}
			return nil
		}},
		numCheck{"Mode", func() *fail {
			if an == nil {
				return nil
			}
			g := an.Mode()
			fmt.Fprintf(ob, " mode%v", g)
			if n > 0 {
				for _, m := range refModes(ref.vals) {
					if m == g {
						return nil
					}
				}
				return failf("C07/numerical/mode-not-most-frequent", "Mode()=%v, most frequent values of %v are %v", g, ordered, refModes(ref.vals))
			}
			return nil
		}},
	)
	for _, fr := range quantFracs {
		fr := fr
		pclass := "p<1"
		if fr[0] == fr[1] {
			pclass = "p=1"
		}
		out = append(out, numCheck{"Quantile/" + pclass, func() *fail {
			if an == nil {
				return nil
			}
			p := float64(fr[0]) / float64(fr[1])
			g := an.Quantile(p)
			fmt.Fprintf(ob, " q%v=%v", p, g)
			if n > 0 && !accepted(g, nearestRankAccept(n, fr[0], fr[1])) {
				return failf("C07/numerical/quantile-not-nearest-rank/"+pclass, "Quantile(%v)=%v, ordered values %v, accepted indexes %v", p, g, ordered, nearestRankAccept(n, fr[0], fr[1]))
			}
			return nil
		}})
	}
	return out
}
