package main

// AccumulatingGroup (rare reduce) on the real object with the real expression
// compiler (funclib.NewKeyBuilder, as cmd/reduce.go does). The reference is a
// per-group left fold: each data column starts at its initial value and is
// replaced, sample by sample and column by column in definition order, by the
// value of its expression, where {.} is the column's current value, {0} the
// whole sample, {N} the N-th NUL-separated element and {name} another column's
// current value (columns earlier in the definition order have already been
// updated for this sample, later ones have not).

import (
	"fmt"
	"sort"
	"strconv"
	"strings"

	"rare/pkg/aggregation"
	"rare/pkg/aggregation/sorting"
	"rare/pkg/expressions/funclib"
)

const errMarker = "\x01ERR" // reference value "an arithmetic helper got a non-integer"

type accCol struct {
	name, expr, initial string
	commutative         bool
	// f computes the new value from the current value, the sample parts
	// (parts[0] = whole sample, parts[i] = i-th element or "") and the row.
	// nil for a generated column whose meaning the statement and the docs leave
	// open (accProgram.unsettled names its class): history independence only, see accumgen.go
	f func(cur string, parts func(int) string, row func(string) string) string
}

type accProgram struct {
	name     string
	groups   [][2]string // name, expr
	groupIdx []int       // which element each group expression reads
	cols     []accCol
	alphabet []string
	// generated programs (accumgen.go)
	generated  bool
	groupProbe bool     // a group expression names something other than match groups: the reference group is the one a fresh aggregator gives
	groupParts [][]int  // otherwise: the elements each group expression joins with '/'
	groupClass string   // the least settled kind of name in group position
	sorts      []string // sort expressions applied to the final state
	unsettled  []string // per column: "" or the class of the name whose meaning is left open
}

func refInt(s string) (int, bool) {
	v, ok := refParseInt(s)
	return int(v), ok
}

func refSumi(a, b string) string {
	x, ok1 := refInt(a)
	y, ok2 := refInt(b)
	if !ok1 || !ok2 {
		return errMarker
	}
	return strconv.Itoa(x + y)
}

func refMaxi(a, b string) string {
	x, ok1 := refInt(a)
	y, ok2 := refInt(b)
	if !ok1 || !ok2 {
		return errMarker
	}
	if y > x {
		x = y
	}
	return strconv.Itoa(x)
}

func nul(parts ...string) string { return strings.Join(parts, "\x00") }

var accPrograms = []accProgram{
	{
		name: "sum-nogroup",
		cols: []accCol{
			{"sum", "{sumi {.} {0}}", "0", true, func(cur string, p func(int) string, _ func(string) string) string { return refSumi(cur, p(0)) }},
			{"n", "{sumi {.} 1}", "5", true, func(cur string, p func(int) string, _ func(string) string) string { return refSumi(cur, "1") }},
		},
		alphabet: []string{"1", "2", "-1", "10", "zz"},
	},
	{
		name:     "grouped",
		groups:   [][2]string{{"g", "{1}"}},
		groupIdx: []int{1},
		cols: []accCol{
			{"total", "{sumi {.} {2}}", "0", true, func(cur string, p func(int) string, _ func(string) string) string { return refSumi(cur, p(2)) }},
			{"count", "{sumi {.} 1}", "0", true, func(cur string, p func(int) string, _ func(string) string) string { return refSumi(cur, "1") }},
			{"max", "{maxi {.} {2}}", "0", true, func(cur string, p func(int) string, _ func(string) string) string { return refMaxi(cur, p(2)) }},
			{"ratio", "{total}/{count}", "", true, func(_ string, _ func(int) string, row func(string) string) string {
				return row("total") + "/" + row("count")
			}},
			{"fwd", "<{last}>", "i", false, func(_ string, _ func(int) string, row func(string) string) string { return "<" + row("last") + ">" }},
			{"last", "{2}", "-", false, func(_ string, p func(int) string, _ func(string) string) string { return p(2) }},
			{"cat", "{.}{2},", "", false, func(cur string, p func(int) string, _ func(string) string) string { return cur + p(2) + "," }},
		},
		alphabet: []string{nul("a", "2"), nul("a", "-1"), nul("a", "10"), nul("b", "2"), nul("b", "-1"), nul("", "2"), nul("", "10")},
	},
	{
		name:     "two-groups",
		groups:   [][2]string{{"g1", "{1}"}, {"g2", "{2}"}},
		groupIdx: []int{1, 2},
		cols: []accCol{
			{"n", "{sumi {.} 1}", "0", true, func(cur string, _ func(int) string, _ func(string) string) string { return refSumi(cur, "1") }},
			{"third", "{.}[{3}]", "", false, func(cur string, p func(int) string, _ func(string) string) string { return cur + "[" + p(3) + "]" }},
		},
		alphabet: []string{"a", nul("a", "x"), nul("a", ""), nul("", "x"), nul("b", "x"), nul("a", "x", "y"), ""},
	},
}

func accProgramByName(n string) *accProgram {
	if strings.HasPrefix(n, "gen/") {
		return genProgram(n)
	}
	for i := range accPrograms {
		if accPrograms[i].name == n {
			return &accPrograms[i]
		}
	}
	return nil
}

func runAccum(prog *accProgram, samples []string) result {
	return runAccumAt(prog, samples, everyPrefix)
}

func runAccumAt(prog *accProgram, samples []string, cp checkAt) (res result) {
	where := "NewAccumulatingGroup"
	var impl *aggregation.AccumulatingGroup
	ref := map[string][]string{} // group key -> column values
	step := func(i int, apply bool) *fail {
		return guard("accum", &where, func() *fail {
			if impl == nil && prog.generated {
				var f *fail
				if impl, f = newGenAggregator(prog, nil, &where); f != nil {
					return f
				}
			}
			if impl == nil {
				impl = aggregation.NewAccumulatingGroup(funclib.NewKeyBuilder())
				for _, g := range prog.groups {
					where = "AddGroupExpr"
					if err := impl.AddGroupExpr(g[0], g[1]); err != nil {
						return failf("C07/accum/setup-error", "AddGroupExpr(%q,%q): %v", g[0], g[1], err)
					}
				}
				for _, c := range prog.cols {
					where = "AddDataExpr"
					if err := impl.AddDataExpr(c.name, c.expr, c.initial); err != nil {
						return failf("C07/accum/setup-error", "AddDataExpr(%q,%q,%q): %v", c.name, c.expr, c.initial, err)
					}
				}
			}
			if apply {
				s := samples[i]
				where = "Sample"
				impl.Sample(s)
				res.transitions++
				res.accepted++
				// reference fold
				elems := refSplit(s, "\x00")
				parts := func(n int) string {
					if n == 0 {
						return s
					}
					if n-1 < len(elems) {
						return elems[n-1]
					}
					return ""
				}
				var gk []string
				for _, gi := range prog.groupIdx {
					gk = append(gk, parts(gi))
				}
				key := strings.Join(gk, "\x00")
				if prog.generated {
					var f *fail
					if key, f = genGroupKey(prog, s, parts); f != nil {
						return f
					}
				}
				row, ok := ref[key]
				if !ok {
					row = make([]string, len(prog.cols))
					for ci, c := range prog.cols {
						row[ci] = c.initial
					}
					ref[key] = row
				}
				lookup := func(name string) string {
					for ci, c := range prog.cols {
						if c.name == name {
							return row[ci]
						}
					}
					return ""
				}
				before := append([]string{}, row...)
				for ci, c := range prog.cols {
					if c.f != nil {
						row[ci] = c.f(row[ci], parts, lookup)
						continue
					}
					// unsettled meaning: the step is a function of the row before and the sample alone
					st := genOneStep(prog, before, s)
					if st.f != nil {
						return st.f
					}
					row[ci] = st.row[ci]
				}
			}
			if !cp.at(i+1, len(samples)) {
				return nil
			}
			if f := checkAccum(impl, prog, ref, &where, &res.state, &res.orderKey); f != nil {
				return f
			}
			if prog.generated && i+1 == len(samples) {
				return checkGenSorts(impl, prog, ref, &where)
			}
			return nil
		})
	}
	if f := step(-1, false); f != nil {
		f.detail += "\nprogram " + prog.name + " " + history(samples, 0)
		res.f = f
		return
	}
	for i := range samples {
		if f := step(i, true); f != nil {
			f.detail += "\nprogram " + prog.name + " " + history(samples, i+1)
			res.f = f
			return
		}
	}
	return
}

func isErrValue(s string) bool {
	// "an error marker, never a number": anything that is not an integer
	_, ok := refParseInt(s)
	return !ok
}

func checkAccum(impl *aggregation.AccumulatingGroup, prog *accProgram, ref map[string][]string, where *string, state, orderKey *string) *fail {
	*where = "ParseErrors"
	if g := impl.ParseErrors(); g != 0 {
		return failf("C07/accum/parse-errors-mismatch", "ParseErrors()=%d", g)
	}
	*where = "DataCount"
	if g := impl.DataCount(); g != len(ref) {
		if prog.groupProbe {
			return failf("C07/accum/group-of-a-sample-depends-on-history/"+prog.groupClass, "DataCount()=%d; filing every sample under the group it gets on a fresh aggregator gives %d groups %q (group expressions %q)", g, len(ref), sortedKeys(ref), prog.groups)
		}
		return failf("C07/accum/group-count-mismatch", "DataCount()=%d, fold has %d groups %q", g, len(ref), sortedKeys(ref))
	}
	*where = "Groups"
	groups := impl.Groups(sorting.ByName)
	var gs []string
	for _, g := range groups {
		gs = append(gs, string(g))
	}
	sorted := append([]string{}, gs...)
	sort.Strings(sorted)
	if want := sortedKeys(ref); !equalStrings(sorted, want) {
		if prog.groupProbe {
			return failf("C07/accum/group-of-a-sample-depends-on-history/"+prog.groupClass, "Groups()=%q; filing every sample under the group it gets on a fresh aggregator gives %q (group expressions %q)", gs, want, prog.groups)
		}
		return failf("C07/accum/group-set-mismatch", "Groups()=%q, fold has %q", gs, want)
	}
	*where = "DataCols"
	if g := impl.DataCols(); len(g) != len(prog.cols) {
		return failf("C07/accum/columns-mismatch", "DataCols()=%q", g)
	}
	if impl.GroupColCount() != len(prog.groups) || impl.ColCount() != len(prog.groups)+len(prog.cols) || len(impl.GroupCols()) != len(prog.groups) {
		return failf("C07/accum/columns-mismatch", "GroupColCount/ColCount/GroupCols disagree with the definition")
	}
	var sb, ob strings.Builder
	fmt.Fprintf(&sb, "groups%q", sorted)
	for _, k := range sorted {
		*where = "Data"
		data := impl.Data(aggregation.GroupKey(k))
		nocopy := impl.DataNoCopy(aggregation.GroupKey(k))
		if len(data) != len(prog.cols) || !equalStrings(data, nocopy) {
			return failf("C07/accum/data-shape-mismatch", "Data(%q)=%q DataNoCopy=%q for %d columns", k, data, nocopy, len(prog.cols))
		}
		fmt.Fprintf(&sb, " %q=%q", k, data)
		fmt.Fprintf(&ob, " %q=", k)
		for ci, c := range prog.cols {
			want := ref[k][ci]
			ok := data[ci] == want
			if strings.Contains(want, errMarker) {
				// the reference only knows "some error text here"
				ok = want != errMarker || isErrValue(data[ci])
			}
			if !ok && c.f == nil {
				return failf("C07/accum/value-depends-on-history/"+prog.unsettled[ci], "group %q column %s (%s) is %q; a fresh aggregator whose initial values are the row before gives %q for the same sample", k, c.name, c.expr, data[ci], want)
			}
			if !ok {
				return failf("C07/accum/value-mismatch", "group %q column %s (%s, initial %q) is %q, the fold gives %q", k, c.name, c.expr, c.initial, data[ci], strings.ReplaceAll(want, errMarker, "<error>"))
			}
			if c.commutative {
				fmt.Fprintf(&ob, "%q,", data[ci])
			}
		}
	}
	*state = sb.String()
	*orderKey = ob.String()
	return nil
}
