package main

import (
	"fmt"
	"regexp"
	"runtime"
	"strings"
)

// Case is one replayable execution.
type Case struct {
	Family  string   `json:"family"`           // counter | subkey | table | trim | accum | numerical | splitter
	Config  string   `json:"config,omitempty"` // table delimiter / accumulator program / numerical config / splitter delimiter
	Samples []string `json:"samples"`          // the sample history, in order (splitter: the one input string)
	// trim family only
	TrimCells []string `json:"trim_cells,omitempty"` // selected cells "col|row"
	Follow    *string  `json:"follow,omitempty"`     // one more sample applied after Trim
	// size family only: Config names "<aggregator>/<shape>[/<configuration>]", the samples are generated from N
	N int `json:"n,omitempty"`
}

type fail struct{ sig, detail string }

// checkAt decides after which prefixes (applied = number of samples applied so
// far, 0..total) the accessors are called and compared with the reference.
// The state after the last sample is always checked.
type checkAt func(applied, total int) bool

func (c checkAt) at(applied, total int) bool { return applied == total || c(applied, total) }

func everyPrefix(int, int) bool { return true }

// finalOnly: no accessor is called before the last sample has been applied.
func finalOnly(applied, total int) bool { return applied == total }

func failf(sig, format string, a ...any) *fail {
	return &fail{sig: sig, detail: fmt.Sprintf(format, a...)}
}

// result of one executed sequence
type result struct {
	f           *fail
	fatal       bool   // the run was aborted (only set by runNumerical, which otherwise continues after a failed accessor)
	state       string // canonical state through the public accessors after the last operation
	orderKey    string // the part of the state that must not depend on sample order ("" = not claimed)
	accepted    int    // samples that were not parse errors
	transitions int    // Sample/Trim operations applied to the real object
}

var reDigits = regexp.MustCompile(`[0-9]+`)

// panicClass turns a recovered value into a short class without case data.
func panicClass(p any) string {
	s := fmt.Sprint(p)
	if e, ok := p.(runtime.Error); ok {
		s = e.Error()
	}
	s = strings.TrimPrefix(s, "runtime error: ")
	s = reDigits.ReplaceAllString(s, "N")
	if i := strings.Index(s, " ["); i > 0 {
		s = s[:i]
	}
	if i := strings.Index(s, " with "); i > 0 {
		s = s[:i]
	}
	s = strings.Map(func(r rune) rune {
		if r == ' ' || r == ':' || r == '/' {
			return '-'
		}
		if r > 126 || r < 33 {
			return -1
		}
		return r
	}, s)
	if len(s) > 48 {
		s = s[:48]
	}
	return s
}

// guard runs f and converts a panic of the code under test into a fail whose
// signature names the family, the accessor being called and the panic class.
func guard(family string, where *string, f func() *fail) (out *fail) {
	defer func() {
		if p := recover(); p != nil {
			out = failf("C07/"+family+"/panic/"+*where+"/"+panicClass(p), "panic in %s: %v\n%s", *where, p, rareFrames())
		}
	}()
	return f()
}

// forEachMultiset enumerates every multiset of exactly n symbols out of a
// (as a non-decreasing index sequence).
func forEachMultiset(a, n int, f func(idx []int) bool) {
	idx := make([]int, n)
	var rec func(pos, from int) bool
	rec = func(pos, from int) bool {
		if pos == n {
			return f(idx)
		}
		for s := from; s < a; s++ {
			idx[pos] = s
			if !rec(pos+1, s) {
				return false
			}
		}
		return true
	}
	rec(0, 0)
}

// nextPermutation advances p to the next distinct permutation in
// lexicographic order; false when p was the last one.
func nextPermutation(p []int) bool {
	i := len(p) - 2
	for i >= 0 && p[i] >= p[i+1] {
		i--
	}
	if i < 0 {
		return false
	}
	j := len(p) - 1
	for p[j] <= p[i] {
		j--
	}
	p[i], p[j] = p[j], p[i]
	for l, r := i+1, len(p)-1; l < r; l, r = l+1, r-1 {
		p[l], p[r] = p[r], p[l]
	}
	return true
}

func q(s string) string { return fmt.Sprintf("%q", s) }

func qs(ss []string) string { return fmt.Sprintf("%q", ss) }

// rareFrames returns the frames of the current stack that are inside rare.
func rareFrames() string {
	buf := make([]byte, 16384)
	buf = buf[:runtime.Stack(buf, false)]
	lines := strings.Split(string(buf), "\n")
	var out []string
	for i := 0; i+1 < len(lines); i++ {
		if strings.HasPrefix(lines[i], "rare/") {
			out = append(out, "  at "+lines[i]+" "+strings.TrimSpace(lines[i+1]))
		}
	}
	return strings.Join(out, "\n")
}
