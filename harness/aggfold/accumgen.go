package main

// Generated accumulator programs: what a NAME means in each position of a
// `rare reduce` program. A reference atom is one of
//
//	{1} {2}       match groups (elements of the sample)
//	{.}           the accumulator's own column
//	{c1} {c2} {c3} data columns by name (the program's columns are named c1..cN,
//	              so a name beyond N does not exist)
//	{g1} {g2}     group columns by name (groups are named g1, g2)
//	{zz}          a name that never exists
//
// and it is put into GROUP position (-g), ACCUMULATOR position (-a) and SORT
// position (--sort) of programs with 1-2 groups and 1-3 accumulators.
//
// What the reference demands:
//   - accumulator position, settled by docs/usage/aggregators.md ("{.}
//     represents the current value", "Can reference past accumulators by
//     key"): {N}, {.} and the name of an existing data column (earlier columns
//     already updated for this sample, later ones not yet, as in accum.go) are
//     folded by the reference itself.
//   - everything the statement and the docs leave open - a data column, {.}, a
//     group column or an unknown name inside a GROUP expression; a group column
//     or an unknown name inside an ACCUMULATOR expression - is only required
//     to be HISTORY INDEPENDENT, which is what "a straightforward fold of that
//     sequence" means for it: the group a sample falls into is a function of
//     that sample alone (it is the group the sample gets on a fresh aggregator
//     of the same program), and the new value of such a column is a function
//     of the row before and the sample alone (it is what a fresh aggregator of
//     the same program, whose initial values are the row before, gives for
//     that one sample).
//   - sort position: whatever the sort expression is, Groups() returns exactly
//     the fold's groups (their order belongs to C13).

import (
	"fmt"
	"sort"
	"strings"

	"rare/pkg/aggregation"
	"rare/pkg/aggregation/sorting"
	"rare/pkg/expressions"
	"rare/pkg/expressions/funclib"
)

// one compiler for all generated programs of a worker process, as cmd/reduce.go
// has one for all of its expressions (the hand-written programs of accum.go
// take a new one per aggregator)
var sharedKeyBuilder *expressions.KeyBuilder

func genCompiler() *expressions.KeyBuilder {
	if sharedKeyBuilder == nil {
		sharedKeyBuilder = funclib.NewKeyBuilder()
	}
	return sharedKeyBuilder
}

var genAtoms = []string{"m2", "dot", "c1", "c2", "c3", "g1", "g2", "zz"}

func atomExpr(tok string) string {
	switch tok {
	case "m1":
		return "{1}"
	case "m2":
		return "{2}"
	case "dot":
		return "{.}"
	}
	return "{" + tok + "}"
}

// atomClass: what the name is in a program with ng groups and nc columns.
func atomClass(tok string, ng, nc int) string {
	switch tok {
	case "m1", "m2":
		return "match-group"
	case "dot":
		return "own-value"
	case "c1", "c2", "c3":
		if int(tok[1]-'0') <= nc {
			return "data-column"
		}
		return "unknown-name"
	case "g1", "g2":
		if int(tok[1]-'0') <= ng {
			return "group-column"
		}
		return "unknown-name"
	}
	return "unknown-name"
}

var genColForms = []string{"count", "sum", "cat", "ref-c1", "ref-c2", "ref-c3", "ref-g1", "ref-zz"}

// genAlphabet: key a/b, value positive/negative, and a sample without a value
// (sumi then gets a non-integer); thorough adds the empty key with a 2-digit value.
func genAlphabet(quick bool) []string {
	a := []string{nul("a", "2"), nul("a", "-1"), nul("b", "2"), "b"}
	if !quick {
		a = append(a, nul("", "10"))
	}
	return a
}

var genSorts = []string{"{0}", "{.}", "{c1}", "{c3}", "{g1}", "{zz}"}

// genProgram builds the program "gen/<group tokens>/<column forms>" (tokens
// joined by ','; a group token is m1, m2, an atom, or m1+<atom> for {1}/<atom>).
func genProgram(name string) *accProgram {
	parts := strings.Split(name, "/")
	if len(parts) != 3 || parts[0] != "gen" {
		return nil
	}
	var gtoks, ctoks []string
	if parts[1] != "" {
		gtoks = strings.Split(parts[1], ",")
	}
	ctoks = strings.Split(parts[2], ",")
	p := &accProgram{name: name, generated: true, sorts: genSorts}
	ng, nc := len(gtoks), len(ctoks)
	worst := func(cur, c string) string { // the least settled class names the signature
		rank := map[string]int{"": 0, "match-group": 1, "own-value": 2, "data-column": 3, "group-column": 4, "unknown-name": 5}
		if rank[c] > rank[cur] {
			return c
		}
		return cur
	}
	settledGroups := true
	for i, t := range gtoks {
		var expr string
		var idx []int // the elements a settled group expression joins with '/'
		for _, a := range strings.Split(t, "+") {
			if expr != "" {
				expr += "/"
			}
			expr += atomExpr(a)
			c := atomClass(a, ng, nc)
			p.groupClass = worst(p.groupClass, c)
			if c != "match-group" {
				settledGroups = false
			} else {
				idx = append(idx, int(a[1]-'0'))
			}
		}
		p.groups = append(p.groups, [2]string{fmt.Sprintf("g%d", i+1), expr})
		p.groupParts = append(p.groupParts, idx)
	}
	p.groupProbe = !settledGroups
	for i, t := range ctoks {
		c := accCol{name: fmt.Sprintf("c%d", i+1)}
		open := ""
		switch {
		case t == "count":
			c.expr, c.initial, c.commutative = "{sumi {.} 1}", "0", true
			c.f = func(cur string, _ func(int) string, _ func(string) string) string { return refSumi(cur, "1") }
		case t == "sum":
			c.expr, c.initial, c.commutative = "{sumi {.} {2}}", "0", true
			c.f = func(cur string, p func(int) string, _ func(string) string) string { return refSumi(cur, p(2)) }
		case t == "cat":
			c.expr, c.initial = "{.}{2},", ""
			c.f = func(cur string, p func(int) string, _ func(string) string) string { return cur + p(2) + "," }
		case strings.HasPrefix(t, "ref-"):
			target := t[4:]
			c.expr, c.initial = "<"+atomExpr(target)+">", "i"
			switch cl := atomClass(target, ng, nc); cl {
			case "data-column":
				c.f = func(_ string, _ func(int) string, row func(string) string) string { return "<" + row(target) + ">" }
			default: // group column or unknown name: history independence only
				open = cl
			}
		default:
			return nil
		}
		p.cols = append(p.cols, c)
		p.unsettled = append(p.unsettled, open)
	}
	return p
}

// genProgramNames: the programs of a tier.
//
//	group position:       1 group {1}/<atom>, 2 groups ({1}, <atom>) and (<atom>, {1}) for every atom
//	                      x accumulator sets (count), (sum, cat), (cat, ref-c1, count)
//	accumulator position: groups (), ({1}), ({1},{2}) x every tuple of 1..3 column forms
func genProgramNames() (out []string) {
	for _, cols := range []string{"count", "sum,cat", "cat,ref-c1,count"} {
		for _, a := range genAtoms {
			out = append(out, "gen/m1+"+a+"/"+cols, "gen/m1,"+a+"/"+cols, "gen/"+a+",m1/"+cols)
		}
	}
	for _, g := range []string{"", "m1", "m1,m2"} {
		for _, a := range genColForms {
			out = append(out, "gen/"+g+"/"+a)
			for _, b := range genColForms {
				out = append(out, "gen/"+g+"/"+a+","+b)
				for _, c := range genColForms {
					out = append(out, "gen/"+g+"/"+a+","+b+","+c)
				}
			}
		}
	}
	return
}

// genMaxLen: histories of up to 4 samples; in the quick tier the 3-column
// programs of the accumulator-position family stop at 3.
func genMaxLen(name string, quick bool) int {
	if quick && strings.Count(name[strings.LastIndex(name, "/"):], ",") >= 2 && !strings.HasSuffix(name, "/cat,ref-c1,count") {
		return 3
	}
	return 4
}

func newGenAggregator(prog *accProgram, initial []string, where *string) (*aggregation.AccumulatingGroup, *fail) {
	impl := aggregation.NewAccumulatingGroup(genCompiler())
	for _, g := range prog.groups {
		*where = "AddGroupExpr"
		if err := impl.AddGroupExpr(g[0], g[1]); err != nil {
			return nil, failf("C07/accum/setup-error", "AddGroupExpr(%q,%q): %v", g[0], g[1], err)
		}
	}
	for i, c := range prog.cols {
		*where = "AddDataExpr"
		init := c.initial
		if initial != nil {
			init = initial[i]
		}
		if err := impl.AddDataExpr(c.name, c.expr, init); err != nil {
			return nil, failf("C07/accum/setup-error", "AddDataExpr(%q,%q,%q): %v", c.name, c.expr, init, err)
		}
	}
	return impl, nil
}

type genStep struct {
	key string
	row []string
	f   *fail
}

var genStepMemo = map[string]genStep{}

// genOneStep: the group and the row that ONE sample gives on a fresh
// aggregator of the program whose initial values are rowBefore (nil = the
// program's own initial values).
func genOneStep(prog *accProgram, rowBefore []string, sample string) genStep {
	mk := prog.name + "\x02" + sample + "\x02" + fmt.Sprintf("%q", rowBefore)
	if st, ok := genStepMemo[mk]; ok {
		return st
	}
	var st genStep
	where := "NewAccumulatingGroup"
	st.f = guard("accum", &where, func() *fail {
		impl, f := newGenAggregator(prog, rowBefore, &where)
		if f != nil {
			return f
		}
		where = "Sample"
		impl.Sample(sample)
		where = "Groups"
		gs := impl.Groups(sorting.ByName)
		if len(gs) != 1 || impl.DataCount() != 1 {
			return failf("C07/accum/one-sample-not-one-group", "a fresh aggregator has %d groups %q after one sample %q", impl.DataCount(), gs, sample)
		}
		st.key = string(gs[0])
		where = "Data"
		st.row = impl.Data(gs[0])
		if len(st.row) != len(prog.cols) {
			return failf("C07/accum/data-shape-mismatch", "Data(%q)=%q for %d columns", st.key, st.row, len(prog.cols))
		}
		return nil
	})
	if st.f != nil {
		st.f.detail += fmt.Sprintf("\n(fresh aggregator of program %s with initial values %q, one sample %q)", prog.name, rowBefore, sample)
	}
	if len(genStepMemo) > 1<<16 {
		genStepMemo = map[string]genStep{}
	}
	genStepMemo[mk] = st
	return st
}

// genGroupKey: the reference group of a sample. Settled (match groups only):
// the elements joined as the program says; otherwise the group the sample gets
// on a fresh aggregator.
func genGroupKey(prog *accProgram, sample string, parts func(int) string) (string, *fail) {
	if !prog.groupProbe {
		var gk []string
		for _, idx := range prog.groupParts {
			var e []string
			for _, i := range idx {
				e = append(e, parts(i))
			}
			gk = append(gk, strings.Join(e, "/"))
		}
		return strings.Join(gk, "\x00"), nil
	}
	st := genOneStep(prog, nil, sample)
	return st.key, st.f
}

// checkGenSorts: sort position. Whatever the sort expression names, Groups()
// returns exactly the fold's groups. Called on the final state only.
func checkGenSorts(impl *aggregation.AccumulatingGroup, prog *accProgram, ref map[string][]string, where *string) *fail {
	want := sortedKeys(ref)
	for _, se := range prog.sorts {
		*where = "SetSort"
		if err := impl.SetSort(se); err != nil {
			return failf("C07/accum/setup-error", "SetSort(%q): %v", se, err)
		}
		*where = "Groups"
		var gs []string
		for _, g := range impl.Groups(sorting.ByName) {
			gs = append(gs, string(g))
		}
		got := append([]string{}, gs...)
		sort.Strings(got)
		if !equalStrings(got, want) {
			return failf("C07/accum/group-set-mismatch/with-sort-expression", "with sort expression %q Groups()=%q, the fold has %q", se, gs, want)
		}
	}
	return nil
}

func genRule(quick bool) string {
	n := len(genProgramNames())
	return fmt.Sprintf("Generated accumulator programs (%d): reference atoms {1} {2} (match groups), {.} (own column), {c1} {c2} {c3} (data columns by name; beyond the program's columns: unknown), {g1} {g2} (group columns by name), {zz} (unknown name) in GROUP position (1 group {1}/<atom>; 2 groups ({1},<atom>) and (<atom>,{1}); every atom; x accumulator sets (count), (sum, cat), (cat, <{c1}>, count)), in ACCUMULATOR position (groups (), ({1}), ({1},{2}) x EVERY tuple of 1..3 columns over {count {sumi {.} 1}, sum {sumi {.} {2}}, concatenation {.}{2}, and <{X}> for X in c1,c2,c3,g1,zz}) and in SORT position (on the final state of every history SetSort of each of %q, then Groups() must still be the fold's group set), one compiler shared by all aggregators of a worker: every sample sequence of length 0..4%s over %q; settled meanings ({N}, {.}, existing data columns in accumulator position) are folded by the reference, everything else must be history independent: the group of a sample is the group it gets on a fresh aggregator, the new value of a column naming a group column or an unknown name is what a fresh aggregator whose initial values are the row before gives for that sample.",
		n, genSorts, map[bool]string{true: " (0..3 for the 3-column programs of the accumulator-position family)", false: ""}[quick], genAlphabet(quick))
}
