package main

// stringSplitter.Splitter, the tokenizer every aggregator's Sample uses
// (anchor pkg/stringSplitter/splitter.go): the token sequence produced by
// Next/NextOk/Done must be the fields of the string separated by the whole
// delimiter.

import (
	"fmt"

	"rare/pkg/stringSplitter"
)

func runSplitter(delim, s string) (res result) {
	where := "Splitter"
	kind := "single-byte-delim"
	if len(delim) > 1 {
		kind = "multi-byte-delim"
	}
	f := guard("splitter", &where, func() *fail {
		want := refSplit(s, delim)
		// pattern 1: Next() until Done()
		sp := stringSplitter.Splitter{S: s, Delim: delim}
		var got []string
		where = "Next"
		for i := 0; i <= len(s)+2; i++ {
			if sp.Done() {
				break
			}
			got = append(got, sp.Next())
			res.transitions++
		}
		// pattern 2: NextOk() until !ok (the first token is always there)
		sp2 := stringSplitter.Splitter{S: s, Delim: delim}
		var got2 []string
		where = "NextOk"
		for i := 0; i <= len(s)+2; i++ {
			t, ok := sp2.NextOk()
			res.transitions++
			if !ok {
				if t != "" {
					return failf("C07/splitter/"+kind+"/token-after-end", "NextOk returned %q with ok=false", t)
				}
				break
			}
			got2 = append(got2, t)
		}
		res.state = fmt.Sprintf("%q", got)
		if !equalStrings(got, got2) {
			return failf("C07/splitter/"+kind+"/next-and-nextok-disagree", "Next/Done gives %q, NextOk gives %q", got, got2)
		}
		if !equalStrings(got, want) {
			if len(delim) > 1 && equalStrings(got, refSplitAdvanceOne(s, delim)) {
				return failf("C07/splitter/multi-byte-delim/token-keeps-delimiter-tail", "tokens %q, want %q: after a delimiter the cursor advances 1 byte instead of %d", got, want, len(delim))
			}
			return failf("C07/splitter/"+kind+"/tokens-mismatch", "tokens %q, want %q", got, want)
		}
		if sp.Next() != "" || !sp.Done() {
			return failf("C07/splitter/"+kind+"/token-after-end", "Next after the end returned a token")
		}
		return nil
	})
	res.accepted = 1
	if f != nil {
		f.detail += fmt.Sprintf("\nsplit %q on %q", s, delim)
		res.f = f
	}
	return
}
