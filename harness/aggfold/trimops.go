package main

// HISTORY dimension of the table: an aggregator that has been Trimmed and is
// then sampled again, any number of times. A history is a list of operations
//
//	"S:<sample>"    TableAggregator.Sample(<sample>)
//	"T:<selector>"  TableAggregator.Trim(predicate of the named selector)
//
// applied to ONE long-lived table; the reference is the fold of the samples
// with the selected cells removed at every Trim (S8), so "state reached
// through a history == state computed from scratch". Rows and columns are
// re-created after a Trim, cells are sampled into rows/columns that a Trim
// emptied, and a second and third Trim work on what the first left behind.
//
// Oracle for a Trim, as in trim.go (S8 "removes exactly the selected cells plus
// any row or column left empty"): selected present cells are gone, unselected
// present cells keep value, row and column; a row is present iff it keeps a
// present cell; a column that keeps a present cell is present, a column whose
// every grid cell (present or absent) was selected is gone, a column whose
// present cells were all selected but which has an unselected absent cell may
// stay or go ("maybe" column: it stays acceptable-either-way until a sample
// makes it present again or a later Trim selects its whole grid column). The
// predicate must be called at most once per grid cell and with the cell's
// current value. Totals: all of them until the first Trim; afterwards those of
// every row/column from which no Trim removed a present cell since it was
// created (totalsScope in countstyle.go) - a row or column that is created
// after a Trim, also under the name of one that a Trim removed entirely, is an
// ordinary fold again - and the value-sorted views must agree with them.

import (
	"fmt"
	"sort"
	"strconv"
	"strings"

	"rare/pkg/aggregation"
)

// nameIndex: the number a generated name carries ("r000017" -> 17), -1 if none.
func nameIndex(s string) int {
	i := len(s)
	for i > 0 && s[i-1] >= '0' && s[i-1] <= '9' {
		i--
	}
	if i == len(s) {
		return -1
	}
	v, err := strconv.Atoi(s[i:])
	if err != nil {
		return -1
	}
	return v
}

func nameOrd(s string) int {
	if i := nameIndex(s); i >= 0 {
		return i
	}
	if s == "" {
		return 0
	}
	return int(s[0])
}

var trimMaskCells = []string{cellKey("a", "x"), cellKey("a", "y"), cellKey("b", "x"), cellKey("b", "y")}

// trimSelector: the named predicates (a function of column and row only).
func trimSelector(name string) func(col, row string) bool {
	switch {
	case name == "all":
		return func(string, string) bool { return true }
	case name == "none":
		return func(string, string) bool { return false }
	case name == "new":
		return func(col, row string) bool { return row == "n" || col == "m" }
	case name == "rows-mod3":
		return func(_, row string) bool { return nameIndex(row) >= 0 && nameIndex(row)%3 == 0 }
	case name == "cols-mod3":
		return func(col, _ string) bool { return nameIndex(col) >= 0 && nameIndex(col)%3 == 0 }
	case name == "checker":
		return func(col, row string) bool { return (nameOrd(col)+nameOrd(row))%2 == 0 }
	case name == "odd-index":
		return func(col, row string) bool {
			return nameIndex(col) >= 0 && nameIndex(col)%2 == 1 || nameIndex(row) >= 0 && nameIndex(row)%2 == 1
		}
	case strings.HasPrefix(name, "col:"):
		return func(col, _ string) bool { return col == name[4:] }
	case strings.HasPrefix(name, "row:"):
		return func(_, row string) bool { return row == name[4:] }
	case strings.HasPrefix(name, "mask:"):
		m, err := strconv.Atoi(name[5:])
		if err != nil {
			panic("harness: bad trim selector " + name)
		}
		sel := map[string]bool{}
		for i, k := range trimMaskCells {
			if m&(1<<i) != 0 {
				sel[k] = true
			}
		}
		return func(col, row string) bool { return sel[cellKey(col, row)] }
	}
	panic("harness: unknown trim selector " + name)
}

func opsText(ops []string, upto int) string {
	show := ops
	tail := ""
	if len(ops) > 48 {
		show = ops[:24]
		tail = fmt.Sprintf(" ... %q", ops[len(ops)-12:])
	}
	return fmt.Sprintf("operations (applied %d of %d): %q%s", upto, len(ops), show, tail)
}

// runTableOps applies the operations to one real table. cp selects after which
// operations the accessors are compared (the end always).
func runTableOps(delim string, ops []string, cp checkAt) (res result) {
	where := "NewTable"
	ref := newRefTable(delim)  // present cells; ref.cols = columns that must be listed
	maybe := map[string]bool{} // columns that may be listed or not (see above)
	trimmed := false
	// totals after a Trim (see totalsScope): exempt are the rows/columns that lost a present cell and survived
	tot := totalsScope{mode: 2, staleRow: map[string]bool{}, staleCol: map[string]bool{}, lateRow: map[string]bool{}, lateCol: map[string]bool{}}
	var impl *aggregation.TableAggregator
	applied := 0
	prefix := func(sig string) string {
		if !trimmed {
			return sig
		}
		sig = strings.Replace(sig, "C07/table/", "C07/trim/", 1)
		switch sig {
		case "C07/trim/cell-mismatch":
			return "C07/trim/wrong-cells-after-trim"
		case "C07/trim/row-set-mismatch":
			return "C07/trim/wrong-rows-after-trim"
		}
		return sig
	}
	// check compares the accessors; the columns that may or may not be listed are taken from the implementation
	check := func() *fail {
		where = "Columns"
		have := map[string]bool{}
		cols := impl.Columns()
		sort.Strings(cols)
		for _, c := range cols {
			if have[c] {
				return failf(prefix("C07/table/columns-duplicate"), "Columns() lists %q twice", c)
			}
			have[c] = true
			if !ref.cols[c] && !maybe[c] {
				if trimmed {
					return failf("C07/trim/empty-column-kept", "column %q has no cell left and every cell of it was selected by a Trim (or it never existed), but it is listed: %q", c, cols)
				}
				return failf("C07/table/column-set-mismatch", "Columns() has unknown column %q", c)
			}
		}
		for c := range ref.cols {
			if !have[c] {
				if trimmed {
					return failf("C07/trim/column-with-cells-removed", "column %q holds a cell but is not listed: %q", c, cols)
				}
				return failf("C07/table/column-set-mismatch", "column %q is missing from Columns() %q", c, cols)
			}
		}
		tmp := *ref
		tmp.cols = have
		var st string
		scope := allTotals
		if trimmed {
			scope = tot
		}
		if f := checkTable(impl, &tmp, &where, &st, scope); f != nil {
			f.sig = prefix(f.sig)
			return f
		}
		res.state = st
		return nil
	}
	f := guard("trim", &where, func() *fail {
		impl = aggregation.NewTable(delim)
		if cp.at(0, len(ops)) {
			if f := check(); f != nil {
				return f
			}
		}
		for i, op := range ops {
			if len(op) < 2 || op[1] != ':' {
				panic("harness: bad table operation " + op)
			}
			arg := op[2:]
			switch op[0] {
			case 'S':
				where = "Sample"
				impl.Sample(arg)
				res.transitions++
				p := ref.split(arg, delim)
				col, row := p[0], ""
				if len(p) >= 2 {
					row = p[1]
				}
				_, hadRow := ref.cells[row]
				hadCol := ref.cols[col] || maybe[col]
				if ref.sample(arg) {
					res.accepted++
					delete(maybe, col)
					if !hadRow { // the row is created by this sample: an ordinary fold from here on
						delete(tot.staleRow, row)
						tot.lateRow[row] = trimmed
					}
					if !hadCol {
						delete(tot.staleCol, col)
						tot.lateCol[col] = trimmed
					}
				}
			case 'T':
				sel := trimSelector(arg)
				gridRows := sortedKeys(ref.cells)
				gridCols := map[string]bool{}
				for c := range ref.cols {
					gridCols[c] = true
				}
				for c := range maybe {
					gridCols[c] = true
				}
				var predFail *fail
				called := map[string]int{}
				where = "Trim"
				n := impl.Trim(func(col, row string, val int64) bool {
					k := cellKey(col, row)
					called[k]++
					if _, okr := ref.cells[row]; (!okr || !gridCols[col]) && predFail == nil {
						predFail = failf("C07/trim/predicate-called-outside-grid", "predicate called for (col %q,row %q) which is not a cell of the table", col, row)
					}
					if want := ref.cells[row][col]; val != want && predFail == nil {
						predFail = failf("C07/trim/predicate-called-with-wrong-value", "predicate called for (col %q,row %q) with value %d, the cell holds %d", col, row, val, want)
					}
					return sel(col, row)
				})
				res.transitions++
				trimmed = true
				if predFail != nil {
					return predFail
				}
				for k, c := range called {
					if c > 1 {
						return failf("C07/trim/predicate-called-twice", "predicate called %d times for cell %s", c, k)
					}
				}
				// reference Trim
				for c := range gridCols {
					all := true
					for _, r := range gridRows {
						if !sel(c, r) {
							all = false
							break
						}
					}
					keeps := false
					for _, r := range gridRows {
						if _, present := ref.cells[r][c]; present && !sel(c, r) {
							keeps = true
							break
						}
					}
					loses := false
					for _, r := range gridRows {
						if _, present := ref.cells[r][c]; present && sel(c, r) {
							loses = true
							break
						}
					}
					switch {
					case keeps: // stays a column that must be listed
						if loses {
							tot.staleCol[c] = true
						}
					case all:
						delete(ref.cols, c)
						delete(maybe, c)
						delete(tot.staleCol, c)
						delete(tot.lateCol, c)
					default: // lost its cells, has an unselected absent cell
						if ref.cols[c] {
							delete(ref.cols, c)
							maybe[c] = true
						}
						tot.staleCol[c] = true
					}
				}
				for _, r := range gridRows {
					for c := range ref.cells[r] {
						if sel(c, r) {
							delete(ref.cells[r], c)
							tot.staleRow[r] = true
						}
					}
					if len(ref.cells[r]) == 0 {
						delete(ref.cells, r)
						delete(tot.staleRow, r)
						delete(tot.lateRow, r)
					}
				}
				_ = n
			default:
				panic("harness: bad table operation " + op)
			}
			applied = i + 1
			if cp.at(i+1, len(ops)) {
				if f := check(); f != nil {
					return f
				}
			}
		}
		return nil
	})
	if f != nil {
		f.detail += "\ndelim=" + q(delim) + " " + opsText(ops, applied)
		res.f = f
	}
	return
}

// ------------------------------------------------------------- small exhaustive histories

// trimSeqOps: the operation alphabet of the exhaustive Trim histories on the
// grid {a,b} x {x,y} plus one more row "n" and one more column "m".
func trimSeqOps() []string {
	ops := []string{
		"S:" + nulj("a", "x"), "S:" + nulj("a", "y", "2"), "S:" + nulj("b", "x", "-1"), "S:" + nulj("b", "y", "3"),
		"S:" + nulj("a", "n", "4"), "S:" + nulj("m", "x", "-2"),
	}
	for m := 1; m < 16; m++ {
		ops = append(ops, "T:mask:"+strconv.Itoa(m))
	}
	return append(ops, "T:all", "T:new", "T:none")
}

// forEachOpSequence enumerates every sequence of exactly n operations.
func forEachOpSequence(alpha []string, n int, f func(ops []string) bool) {
	cur := make([]int, n)
	for {
		ops := make([]string, n)
		for i, c := range cur {
			ops[i] = alpha[c]
		}
		if !f(ops) {
			return
		}
		i := n - 1
		for ; i >= 0; i-- {
			cur[i]++
			if cur[i] < len(alpha) {
				break
			}
			cur[i] = 0
		}
		if i < 0 {
			return
		}
	}
}

// ------------------------------------------------------------- size x history

func sop(parts ...string) string { return "S:" + nulj(parts...) }

func init() {
	sizeShapes = append(sizeShapes,
		sizeShape{agg: "trim", shape: "rows-trimmed-and-sampled-again", cfgs: []string{""}, maxQ: 1025, maxT: 16385,
			gen: func(n int, _ string) []string { // n rows x columns {a,b,c}
				cols := []string{"a", "b", "c"}
				var ops []string
				for _, i := range strideOrder(n) {
					for j, c := range cols {
						if (i+j)%4 != 3 {
							ops = append(ops, sop(c, name("r", i), itoa(3*i+j+1)))
						}
					}
				}
				ops = append(ops, "T:rows-mod3") // every third row goes
				for i := 0; i < n; i += 2 {      // removed rows come back (i%6==0), kept rows get more
					ops = append(ops, sop(cols[i%3], name("r", i), itoa(i+7)))
				}
				ops = append(ops, sop("b", "n", "5"), "T:col:a") // a whole column goes ...
				for i := 1; i < n; i += 4 {                      // ... and comes back in some rows
					ops = append(ops, sop("a", name("r", i), itoa(-i)))
				}
				ops = append(ops, "T:checker", sop("d", name("r", n/2), "9"), sop("a", name("r", n), "1"), "T:odd-index")
				for i := 0; i < n; i += 5 {
					ops = append(ops, sop(cols[i%3], name("r", i)))
				}
				return append(ops, "T:all", sop("a", name("r", 0), "2"), sop("z", "n"), "T:none")
			}},
		sizeShape{agg: "trim", shape: "columns-trimmed-and-sampled-again", cfgs: []string{""}, maxQ: 1025, maxT: 16385,
			gen: func(n int, _ string) []string { // n columns x rows {x,y,z}
				rows := []string{"x", "y", "z"}
				var ops []string
				for _, i := range strideOrder(n) {
					for j, r := range rows {
						if (i+j)%4 != 3 {
							ops = append(ops, sop(name("c", i), r, itoa(3*i+j+1)))
						}
					}
				}
				ops = append(ops, "T:cols-mod3")
				for i := 0; i < n; i += 2 {
					ops = append(ops, sop(name("c", i), rows[i%3], itoa(i+7)))
				}
				ops = append(ops, sop("m", "y", "5"), "T:row:x")
				for i := 1; i < n; i += 4 {
					ops = append(ops, sop(name("c", i), "x", itoa(-i)))
				}
				ops = append(ops, "T:checker", sop(name("c", n/2), "w", "9"), sop(name("c", n), "x", "1"), "T:odd-index")
				for i := 0; i < n; i += 5 {
					ops = append(ops, sop(name("c", i), rows[i%3]))
				}
				return append(ops, "T:all", sop(name("c", 0), "x", "2"), sop("m", "n"), "T:none")
			}},
	)
}
