package main

// SIZE families for C07. The exhaustive families enumerate every history of
// at most 5-6 samples over 3 keys x 3 sub-keys; a defect that only exists beyond
// some size (a fixed scratch array, a fast path for "large" slices, a counter
// narrower than int64, a key compared by a prefix) is invisible there. Each
// shape below is ONE fixed, simple history parametrised by n - the number of
// distinct keys / sub-keys / columns / rows / groups / samples, the length of a
// name, the magnitude of a count or of an increment - and is run for
// n = 0..70 and 2^k-1, 2^k, 2^k+1 (k >= 7) up to the shape's bound. Element i
// carries i (name and value), so loss, duplication, misalignment and aliasing
// of elements show up. The oracle is the same reference fold and the same
// accessor comparison as in the exhaustive families (checkCounter,
// checkSubKey, checkTable, checkAccum, numericalChecks), applied after every
// prefix up to 70 samples, around every power of two, and at the end.
//
// The sub-key shapes are also the HISTORY dimension "a new sub-key sorts in
// FRONT of / in the MIDDLE of / AFTER the existing ones while many rows
// exist": the sorted sub-key list and every row's value slice have to stay
// aligned (descending arrival = always in front, middle-out = always in the
// middle, ascending = always at the end, and three late sub-keys a/c/e into a
// counter that already has n rows over {b,d}).

import (
	"fmt"
	"strconv"
	"strings"
)

type sizeShape struct {
	agg, shape string
	cfgs       []string // table: delimiter; numerical: configuration; others: one empty entry
	maxQ, maxT int      // largest n, quick / thorough
	gen        func(n int, cfg string) []string
}

// sizesUpTo: 0..70 and 2^k-1, 2^k, 2^k+1 for k = 7.. while <= max.
func sizesUpTo(max int) []int {
	var out []int
	for n := 0; n <= 70 && n <= max; n++ {
		out = append(out, n)
	}
	for k := 7; ; k++ {
		p := 1 << k
		if p-1 > max {
			break
		}
		for _, n := range []int{p - 1, p, p + 1} {
			if n <= max {
				out = append(out, n)
			}
		}
	}
	return out
}

// sizeClass is what a signature may carry instead of the raw n.
func sizeClass(n int) string {
	switch {
	case n <= 8:
		return "n<=8"
	case n <= 70:
		return "n<=70"
	case n <= 1025:
		return "n<=1025"
	}
	return "n>1025"
}

// sizeCheckpoints: every prefix up to 70 samples, around every power of two,
// and (always) the end.
func sizeCheckpoints(applied, total int) bool {
	if applied <= 70 {
		return true
	}
	for _, d := range []int{-1, 0, 1} {
		x := applied + d
		if x&(x-1) == 0 {
			return true
		}
	}
	return false
}

// strideOrder: the permutation i -> (i*s) mod n for a stride s coprime to n
// near 0.618 n: neither ascending nor descending, every element once.
func strideOrder(n int) []int {
	out := make([]int, n)
	if n <= 2 {
		for i := range out {
			out[i] = n - 1 - i
		}
		return out
	}
	gcd := func(a, b int) int {
		for b != 0 {
			a, b = b, a%b
		}
		return a
	}
	s := n*618/1000 + 1
	for gcd(s, n) != 1 {
		s++
	}
	for i := range out {
		out[i] = (i * s) % n
	}
	return out
}

// middleOut: 0, n-1, 1, n-2, ... (every new element lies between the ones before)
func middleOut(n int) []int {
	out := make([]int, 0, n)
	for lo, hi := 0, n-1; lo <= hi; lo, hi = lo+1, hi-1 {
		out = append(out, lo)
		if hi != lo {
			out = append(out, hi)
		}
	}
	return out
}

func ascending(n int) []int {
	out := make([]int, n)
	for i := range out {
		out[i] = i
	}
	return out
}

func descending(n int) []int {
	out := make([]int, n)
	for i := range out {
		out[i] = n - 1 - i
	}
	return out
}

// name: fixed width, so that the byte order of the names is the order of i
func name(prefix string, i int) string { return fmt.Sprintf("%s%06d", prefix, i) }

// longNames: distinct names of length about n that differ only at the last
// byte, only at the first byte, by one byte of length (prefix / extension):
// what a comparison or a hash of a bounded prefix / suffix / length confuses.
func longNames(n int) []string {
	b := make([]byte, n)
	for i := range b {
		b[i] = 'a' + byte((i*7+i/26)%26)
	}
	base := string(b)
	cands := []string{base, base + "!"}
	if n >= 1 {
		last := []byte(base)
		last[n-1] = 'Z'
		cands = append(cands, string(last), base[:n-1])
	}
	if n >= 2 {
		first := []byte(base)
		first[0] = 'Z'
		cands = append(cands, string(first))
	}
	seen := map[string]bool{}
	var out []string
	for _, c := range cands {
		if !seen[c] {
			seen[c] = true
			out = append(out, c)
		}
	}
	return out
}

func pow2(k int) uint64 { return uint64(1) << uint(k) }

func nulj(parts ...string) string { return strings.Join(parts, "\x00") }

func itoa(i int) string { return strconv.Itoa(i) }

var sizeShapes = []sizeShape{
	// ------------------------------------------------------------ counter
	{agg: "counter", shape: "distinct-keys", cfgs: []string{""}, maxQ: 4097, maxT: 65537,
		gen: func(n int, _ string) []string { // n keys, key i counts i+1, then +1 for every even key
			var out []string
			for _, i := range strideOrder(n) {
				out = append(out, nulj(name("k", i), itoa(i+1)))
			}
			for i := n - 1; i >= 0; i -= 2 {
				out = append(out, name("k", i))
			}
			return out
		}},
	{agg: "counter", shape: "samples-of-one-key", cfgs: []string{""}, maxQ: 4097, maxT: 65537,
		gen: func(n int, _ string) []string { // the count reaches n (+ explicit increments), a second key in between
			var out []string
			for i := 0; i < n; i++ {
				switch i % 3 {
				case 0:
					out = append(out, "k")
				case 1:
					out = append(out, nulj("k", itoa(i)))
				default:
					out = append(out, nulj("other", itoa(-i)))
				}
			}
			return out
		}},
	{agg: "counter", shape: "key-length", cfgs: []string{""}, maxQ: 4097, maxT: 65537,
		gen: func(n int, _ string) []string {
			var out []string
			for j, k := range longNames(n) {
				out = append(out, nulj(k, itoa(j+2)), k)
			}
			return out
		}},
	{agg: "counter", shape: "increment-magnitude", cfgs: []string{""}, maxQ: 64, maxT: 64,
		gen: func(n int, _ string) []string { // increments 2^k-1, 2^k, 2^k+1 and their negatives for every k < n (2^63 and beyond are not int64: parse errors)
			var out []string
			for k := 0; k < n; k++ {
				p := pow2(k)
				out = append(out,
					nulj("sum", strconv.FormatUint(p-1, 10)), nulj("sum", strconv.FormatUint(p, 10)), nulj("sum", strconv.FormatUint(p+1, 10)),
					nulj("neg", "-"+strconv.FormatUint(p, 10)), nulj("neg", "-"+strconv.FormatUint(p+1, 10)),
					nulj("k"+itoa(k), strconv.FormatUint(p, 10)), nulj("k"+itoa(k), "-"+strconv.FormatUint(p-1, 10)))
			}
			return out
		}},
	// ------------------------------------------------------------ sub-key counter
	{agg: "subkey", shape: "rows-then-subkey-in-front-middle-after", cfgs: []string{""}, maxQ: 4097, maxT: 65537,
		gen: func(n int, _ string) []string { // n rows over {b,d}; then a (front), c (middle), e (after) arrive, each first through a new row
			var out []string
			for _, i := range strideOrder(n) {
				out = append(out, nulj(name("r", i), "b", itoa(2*i+1)))
				if i%4 != 3 {
					out = append(out, nulj(name("r", i), "d", itoa(2*i+2)))
				}
			}
			for j, s := range []string{"c", "a", "e"} {
				out = append(out, nulj("late"+s, s, itoa(1000+j)))
				for i := j; i < n; i += 3 {
					out = append(out, nulj(name("r", i), s, itoa(3*i+j+1)))
				}
				if n > 0 { // and the old sub-keys again, after the shift
					out = append(out, nulj(name("r", n/2), "b", "5"), nulj(name("r", n-1), "d"))
				}
			}
			return out
		}},
	{agg: "subkey", shape: "subkeys-ascending", cfgs: []string{""}, maxQ: 2049, maxT: 8193, gen: genSubKeys(ascending)},
	{agg: "subkey", shape: "subkeys-descending", cfgs: []string{""}, maxQ: 2049, maxT: 8193, gen: genSubKeys(descending)},
	{agg: "subkey", shape: "subkeys-middle-out", cfgs: []string{""}, maxQ: 2049, maxT: 8193, gen: genSubKeys(middleOut)},
	{agg: "subkey", shape: "samples-of-one-cell", cfgs: []string{""}, maxQ: 4097, maxT: 65537,
		gen: func(n int, _ string) []string {
			var out []string
			for i := 0; i < n; i++ {
				switch i % 3 {
				case 0:
					out = append(out, nulj("k", "s"))
				case 1:
					out = append(out, nulj("k", "s", itoa(i)))
				default:
					out = append(out, nulj("k", "t", itoa(-i)))
				}
			}
			return out
		}},
	{agg: "subkey", shape: "name-length", cfgs: []string{""}, maxQ: 4097, maxT: 65537,
		gen: func(n int, _ string) []string { // keys and sub-keys of length about n
			var out []string
			names := longNames(n)
			for j, k := range names {
				for l, s := range names {
					if (j+l)%3 != 2 {
						out = append(out, nulj(k, s, itoa(j*10+l+1)))
					}
				}
			}
			return out
		}},
	// ------------------------------------------------------------ table
	{agg: "table", shape: "columns", cfgs: []string{"\x00"}, maxQ: 4097, maxT: 65537,
		gen: func(n int, d string) []string { // n columns x rows {x,y}
			var out []string
			for _, i := range strideOrder(n) {
				out = append(out, strings.Join([]string{name("c", i), "x", itoa(2*i + 1)}, d))
				if i%5 != 4 {
					out = append(out, strings.Join([]string{name("c", i), "y", itoa(-2*i - 2)}, d))
				}
			}
			for i := 0; i < n; i += 7 {
				out = append(out, strings.Join([]string{name("c", i), "x"}, d))
			}
			return out
		}},
	{agg: "table", shape: "rows", cfgs: []string{"\x00", "::"}, maxQ: 4097, maxT: 65537,
		gen: func(n int, d string) []string { // n rows x columns {a,b,c}
			var out []string
			for _, i := range strideOrder(n) {
				for j, c := range []string{"a", "b", "c"} {
					if (i+j)%4 != 3 {
						out = append(out, strings.Join([]string{c, name("r", i), itoa(3*i + j + 1)}, d))
					}
				}
			}
			for i := 0; i < n; i += 5 {
				out = append(out, strings.Join([]string{"b", name("r", i)}, d))
			}
			return out
		}},
	{agg: "table", shape: "square", cfgs: []string{"\x00"}, maxQ: 4097, maxT: 16385,
		gen: func(n int, d string) []string { // n cells on a grid of side ceil(sqrt(n))
			side := 0
			for side*side < n {
				side++
			}
			var out []string
			for _, j := range strideOrder(n) {
				out = append(out, strings.Join([]string{name("c", j%side), name("r", j/side), itoa(j - n/2)}, d))
			}
			return out
		}},
	{agg: "table", shape: "samples-of-one-cell", cfgs: []string{"\x00"}, maxQ: 4097, maxT: 65537,
		gen: func(n int, d string) []string {
			var out []string
			for i := 0; i < n; i++ {
				switch i % 3 {
				case 0:
					out = append(out, strings.Join([]string{"c", "r"}, d))
				case 1:
					out = append(out, strings.Join([]string{"c", "r", itoa(i)}, d))
				default:
					out = append(out, strings.Join([]string{"c2", "r", itoa(-i)}, d))
				}
			}
			return out
		}},
	{agg: "table", shape: "name-length", cfgs: []string{"\x00"}, maxQ: 4097, maxT: 65537,
		gen: func(n int, d string) []string {
			var out []string
			names := longNames(n)
			for j, c := range names {
				for l, r := range names {
					if (j+l)%3 != 2 {
						out = append(out, strings.Join([]string{c, r, itoa(j*10 + l + 1)}, d))
					}
				}
			}
			return out
		}},
	{agg: "table", shape: "increment-magnitude", cfgs: []string{"\x00"}, maxQ: 64, maxT: 64,
		gen: func(n int, d string) []string {
			var out []string
			for k := 0; k < n; k++ {
				p := pow2(k)
				out = append(out,
					strings.Join([]string{"sum", "r", strconv.FormatUint(p-1, 10)}, d), strings.Join([]string{"sum", "r", strconv.FormatUint(p+1, 10)}, d),
					strings.Join([]string{"neg", "r", "-" + strconv.FormatUint(p, 10)}, d),
					strings.Join([]string{"c" + itoa(k%3), "k" + itoa(k), strconv.FormatUint(p, 10)}, d))
			}
			return out
		}},
	// ------------------------------------------------------------ accumulating group
	{agg: "accum", shape: "groups", cfgs: []string{"grouped"}, maxQ: 4097, maxT: 65537,
		gen: func(n int, _ string) []string { // n groups, group i gets i and later 2i+1
			var out []string
			for _, i := range strideOrder(n) {
				out = append(out, nulj(name("g", i), itoa(i)))
			}
			for i := n - 1; i >= 0; i -= 2 {
				out = append(out, nulj(name("g", i), itoa(2*i+1)))
			}
			return out
		}},
	{agg: "accum", shape: "samples-of-one-group", cfgs: []string{"grouped"}, maxQ: 1025, maxT: 4097,
		gen: func(n int, _ string) []string { // count reaches n, the concatenation column grows with every sample
			var out []string
			for i := 0; i < n; i++ {
				g := "a"
				if i%5 == 4 {
					g = "b"
				}
				out = append(out, nulj(g, itoa((i*37)%101-50)))
			}
			return out
		}},
	{agg: "accum", shape: "key-length", cfgs: []string{"grouped"}, maxQ: 4097, maxT: 65537,
		gen: func(n int, _ string) []string {
			var out []string
			for j, k := range longNames(n) {
				out = append(out, nulj(k, itoa(j+2)), nulj(k, itoa(-j)))
			}
			return out
		}},
	{agg: "accum", shape: "value-magnitude", cfgs: []string{"grouped"}, maxQ: 61, maxT: 61,
		gen: func(n int, _ string) []string { // sums up to 2^61: no int64 overflow, beyond every narrower integer and beyond 2^53
			var out []string
			for k := 0; k < n; k++ {
				out = append(out, nulj("pos", strconv.FormatUint(pow2(k), 10)), nulj("neg", "-"+strconv.FormatUint(pow2(k), 10)), nulj("k"+itoa(k), strconv.FormatUint(pow2(k)+1, 10)))
			}
			return out
		}},
	{agg: "accum", shape: "samples", cfgs: []string{"sum-nogroup"}, maxQ: 4097, maxT: 65537,
		gen: func(n int, _ string) []string {
			var out []string
			for i := 0; i < n; i++ {
				out = append(out, itoa((i*37)%101-50))
			}
			return out
		}},
	// ------------------------------------------------------------ numerical
	{agg: "numerical", shape: "ascending", cfgs: numSizeCfgs, maxQ: 4097, maxT: 65537, gen: genNum(func(i, n int) float64 { return float64(i) })},
	{agg: "numerical", shape: "descending", cfgs: numSizeCfgs, maxQ: 4097, maxT: 65537, gen: genNum(func(i, n int) float64 { return float64(n-1-i) + 0.5 })},
	{agg: "numerical", shape: "shuffled-distinct", cfgs: numSizeCfgs, maxQ: 4097, maxT: 65537, gen: func(n int, _ string) []string {
		var out []string
		for _, i := range strideOrder(n) {
			out = append(out, numStr(float64(i-n/3)))
		}
		return out
	}},
	{agg: "numerical", shape: "few-distinct-values", cfgs: numSizeCfgs, maxQ: 4097, maxT: 65537, gen: genNum(func(i, n int) float64 { return float64((i*7)%5) + 0.25 })},
	{agg: "numerical", shape: "growing-runs-of-duplicates", cfgs: numSizeCfgs, maxQ: 4097, maxT: 65537, gen: func(n int, _ string) []string {
		// value v occurs v+1 times (1, 2 2, 3 3 3, ...), handed over in stride order
		vals := make([]float64, 0, n)
		for v := 0; len(vals) < n; v++ {
			for c := 0; c <= v && len(vals) < n; c++ {
				vals = append(vals, float64(v))
			}
		}
		var out []string
		for _, i := range strideOrder(n) {
			out = append(out, numStr(vals[i]))
		}
		return out
	}},
	{agg: "numerical", shape: "with-non-numbers", cfgs: numSizeCfgs, maxQ: 4097, maxT: 65537, gen: func(n int, _ string) []string {
		var out []string
		for i := 0; i < n; i++ {
			if i%4 == 1 {
				out = append(out, "x"+itoa(i))
			} else {
				out = append(out, numStr(float64((i*13)%97)))
			}
		}
		return out
	}},
	{agg: "numerical", shape: "offset-1e9", cfgs: numSizeCfgs, maxQ: 4097, maxT: 65537, gen: genNum(func(i, n int) float64 { return 1e9 + float64((i*31)%64) })},
}

var numSizeCfgs = []string{"keep", "keep-reverse", "nokeep"}

// genSubKeys: 3 rows exist; then n sub-keys arrive in the given order; sub-key
// i goes to row i%3 with value i+1, every 5th also to the other rows, and the
// first and the latest sub-key are sampled again after every insertion.
func genSubKeys(order func(int) []int) func(int, string) []string {
	return func(n int, _ string) []string {
		out := []string{"p", "q", "r"} // (sub-key absent = the empty sub-key)
		rows := []string{"p", "q", "r"}
		ord := order(n)
		for pos, i := range ord {
			out = append(out, nulj(rows[i%3], name("s", i), itoa(i+1)))
			if i%5 == 0 {
				out = append(out, nulj(rows[(i+1)%3], name("s", i), itoa(-i-1)), nulj(rows[(i+2)%3], name("s", i)))
			}
			if pos%4 == 3 {
				out = append(out, nulj("q", name("s", ord[0])), nulj("late"+itoa(pos%8), name("s", i), "7"))
			}
		}
		return out
	}
}

// numStr spells a generated value; the reference never parses it back (the
// generator's table numGenerated states what each string is).
func numStr(v float64) string {
	s := strconv.FormatFloat(v, 'f', -1, 64)
	numGenerated[s] = v
	return s
}

// numGenerated: sample string -> the value the generator spelled. One worker
// process is single-threaded, so a plain map will do.
var numGenerated = map[string]float64{}

func genNum(f func(i, n int) float64) func(int, string) []string {
	return func(n int, _ string) []string {
		out := make([]string, n)
		for i := range out {
			out[i] = numStr(f(i, n))
		}
		return out
	}
}

func numGenLookup(s string) (float64, bool) {
	v, ok := numGenerated[s]
	return v, ok
}

func sizeShapeByName(agg, shape string) *sizeShape {
	for i := range sizeShapes {
		if sizeShapes[i].agg == agg && sizeShapes[i].shape == shape {
			return &sizeShapes[i]
		}
	}
	return nil
}

func sizeConfig(sh *sizeShape, cfg string) string {
	return sh.agg + "/" + sh.shape + "/" + strconv.Quote(cfg)
}

// runSize executes one size case: config "<aggregator>/<shape>/<quoted configuration>", n.
// cp: sizeCheckpoints, or finalOnly for the run without accessor calls.
func runSize(config string, n int, cp checkAt) (res result, fails []*fail, samples int) {
	parts := strings.SplitN(config, "/", 3)
	if len(parts) != 3 {
		panic("harness: bad size config " + config)
	}
	sh := sizeShapeByName(parts[0], parts[1])
	if sh == nil {
		panic("harness: unknown size shape " + config)
	}
	cfg, err := strconv.Unquote(parts[2])
	if err != nil {
		panic("harness: bad size config " + config)
	}
	if sh.agg == "trim" {
		ops := sh.gen(n, cfg)
		res = runTableOps("\x00", ops, cp)
		if res.f != nil {
			fails = []*fail{res.f}
		}
		return res, fails, len(ops)
	}
	s := sh.gen(n, cfg)
	samples = len(s)
	switch sh.agg {
	case "counter":
		res = runCounterAt(s, cp)
	case "subkey":
		res = runSubKeyAt(s, cp)
	case "table":
		res = runTableAt(cfg, s, cp)
	case "accum":
		res = runAccumAt(accProgramByName(cfg), s, cp)
	case "numerical":
		return func() (result, []*fail, int) {
			r, fs := runNumericalAt(cfg, s, numGenLookup, cp)
			return r, fs, samples
		}()
	default:
		panic("harness: unknown aggregator " + sh.agg)
	}
	if res.f != nil {
		fails = []*fail{res.f}
	}
	return
}

// sizeSig: signatures of the size families end in /size-family (never the raw n).
func sizeSig(f *fail) *fail {
	return &fail{sig: f.sig + "/size-family", detail: f.detail}
}
