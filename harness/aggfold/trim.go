package main

// Trim of the real TableAggregator: every predicate given as a subset of the
// cells of the dense rows x columns grid of a small table.
//
// Oracle (S8: "trimming a table removes exactly the selected cells plus any
// row or column left empty"):
//   - a selected present cell is gone (reads as 0 / absent)
//   - an unselected present cell keeps its value, its row and its column
//   - a row is present iff it keeps a present cell
//   - a column that keeps a present cell is present; a column whose every grid
//     cell (present or absent) was selected is gone; a column whose present
//     cells were all selected but which has an unselected *absent* cell is
//     accepted either way (the statement does not decide it)
//   - the predicate is called with the cell's current value (absent = 0,
//     S3), otherwise value-based predicates would select the wrong cells
// Row/column totals after a Trim are NOT checked for a row/column that lost a
// present cell and survived: the statement does not say whether they are
// recomputed. Every other row/column (untouched by the Trim, or created by the
// follow-up sample) must still total the sum of its cells (totalsScope).

import (
	"fmt"
	"sort"
	"strings"

	"rare/pkg/aggregation"
)

func cellKey(col, row string) string { return col + "|" + row }

// runTrim: build the table from samples (NUL delimiter), Trim with the
// predicate "cell in selected", optionally apply one more sample.
func runTrim(samples []string, selected map[string]bool, follow *string) (res result) {
	where := "NewTable"
	ref := newRefTable("\x00")
	f := guard("trim", &where, func() *fail {
		impl := aggregation.NewTable("\x00")
		for _, s := range samples {
			where = "Sample"
			impl.Sample(s)
			res.transitions++
			if ref.sample(s) {
				res.accepted++
			}
		}
		var st string
		if f := checkTable(impl, ref, &where, &st, allTotals); f != nil {
			return f
		}
		gridCols := sortedKeys(ref.cols)
		gridRows := sortedKeys(ref.cells)
		inGrid := map[string]bool{}
		for _, c := range gridCols {
			for _, r := range gridRows {
				inGrid[cellKey(c, r)] = true
			}
		}
		var predFail *fail
		called := map[string]int{}
		where = "Trim"
		n := impl.Trim(func(col, row string, val int64) bool {
			k := cellKey(col, row)
			called[k]++
			if !inGrid[k] && predFail == nil {
				predFail = failf("C07/trim/predicate-called-outside-grid", "predicate called for (col %q,row %q) which is not a cell of the table", col, row)
			}
			if want := ref.cells[row][col]; val != want && predFail == nil {
				predFail = failf("C07/trim/predicate-called-with-wrong-value", "predicate called for (col %q,row %q) with value %d, the cell holds %d", col, row, val, want)
			}
			return selected[k]
		})
		res.transitions++
		if predFail != nil {
			return predFail
		}
		for k, c := range called {
			if c > 1 {
				return failf("C07/trim/predicate-called-twice", "predicate called %d times for cell %s", c, k)
			}
		}
		// reference Trim
		mustCol := map[string]bool{} // keeps a present cell
		goneCol := map[string]bool{} // every grid cell selected
		after := newRefTable("\x00") // remaining present cells
		after.errs = ref.errs
		for _, c := range gridCols {
			all := true
			for _, r := range gridRows {
				if !selected[cellKey(c, r)] {
					all = false
				}
			}
			goneCol[c] = all
		}
		for r, cs := range ref.cells {
			for c, v := range cs {
				if !selected[cellKey(c, r)] {
					after.add(c, r, v)
					mustCol[c] = true
				}
			}
		}
		// totals (see totalsScope): exempt are the rows/columns that lost a present cell and survive (or may survive)
		tot := totalsScope{mode: 2, staleRow: map[string]bool{}, staleCol: map[string]bool{}, lateRow: map[string]bool{}, lateCol: map[string]bool{}}
		for r, cs := range ref.cells {
			for c := range cs {
				if selected[cellKey(c, r)] {
					if _, survives := after.cells[r]; survives {
						tot.staleRow[r] = true
					}
					if mustCol[c] || !goneCol[c] {
						tot.staleCol[c] = true
					}
				}
			}
		}
		check := func(stage string) *fail {
			where = "Columns"
			cols := impl.Columns()
			sort.Strings(cols)
			have := map[string]bool{}
			for _, c := range cols {
				if have[c] {
					return failf("C07/trim/columns-duplicate", "%s: Columns() lists %q twice", stage, c)
				}
				have[c] = true
				if !ref.cols[c] && !mustCol[c] {
					return failf("C07/trim/column-set-mismatch", "%s: Columns() has unknown column %q", stage, c)
				}
				if goneCol[c] && !mustCol[c] {
					return failf("C07/trim/empty-column-kept", "%s: every cell of column %q was selected but the column is still listed: %q", stage, c, cols)
				}
			}
			for c := range mustCol {
				if !have[c] {
					return failf("C07/trim/column-with-cells-removed", "%s: column %q keeps an unselected cell but is not listed: %q", stage, c, cols)
				}
			}
			// the either-way columns are taken from the implementation; everything else is checked exactly
			after.cols = have
			var st string
			if f := checkTable(impl, after, &where, &st, tot); f != nil {
				f.sig = strings.Replace(f.sig, "C07/table/", "C07/trim/", 1)
				switch f.sig {
				case "C07/trim/cell-mismatch":
					f.sig = "C07/trim/wrong-cells-after-trim"
				case "C07/trim/row-set-mismatch":
					f.sig = "C07/trim/wrong-rows-after-trim"
				}
				f.detail = stage + ": " + f.detail
				return f
			}
			res.state = st
			return nil
		}
		if f := check("after Trim"); f != nil {
			return f
		}
		res.state = fmt.Sprintf("%s n=%d", res.state, n)
		if follow != nil {
			where = "Sample"
			impl.Sample(*follow)
			res.transitions++
			p := refSplit(*follow, "\x00")
			frow := ""
			if len(p) >= 2 {
				frow = p[1]
			}
			_, hadRow := after.cells[frow]
			hadCol := mustCol[p[0]] || (ref.cols[p[0]] && !goneCol[p[0]])
			if after.sample(*follow) {
				mustCol[p[0]] = true
				tot.lateRow[frow] = !hadRow
				tot.lateCol[p[0]] = !hadCol
			}
			if f := check("after Trim and one more sample " + q(*follow)); f != nil {
				return f
			}
		}
		return nil
	})
	if f != nil {
		sel := sortedKeys(selected)
		f.detail += fmt.Sprintf("\ntable built by %q; selected cells (col|row) %q", samples, sel)
		if follow != nil {
			f.detail += "; then sample " + q(*follow)
		}
		res.f = f
	}
	return
}
