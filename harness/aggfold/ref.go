package main

// Reference models for C07. Nothing in this file imports rare: it is the
// "straightforward fold" of the property statement written in boring Go.
//
// Statement clauses encoded here (C07):
//  (S1) "per-key counts and explicit increments"
//  (S2) "row/column/grand totals equal to the sums of their cells"
//  (S3) "min/max over all row-by-column cells with absent cells counting as 0"
//  (S4) "a parse-error count for non-integer increments"
//  (S5) "the numerical aggregator's count, mean, sample standard deviation,
//        min and max equal those of the full sample list within
//        floating-point tolerance"
//  (S6) "its median, mode and quantiles are the corresponding nearest-rank
//        order statistics"
//  (S7) "For count-style aggregators the result does not depend on sample order"
//  (S8) "trimming a table removes exactly the selected cells plus any row or
//        column left empty"

import (
	"math"
	"math/big"
	"sort"
	"strings"
)

// refSplit splits s at every (non-overlapping, left-to-right) occurrence of the
// whole delimiter, like a field separator in any CSV-ish format.
func refSplit(s, delim string) []string {
	var out []string
	for {
		i := strings.Index(s, delim)
		if i < 0 || delim == "" {
			return append(out, s)
		}
		out = append(out, s[:i])
		s = s[i+len(delim):]
	}
}

// refSplitAdvanceOne is NOT a specification: it models the one known defect of
// pkg/stringSplitter (the cursor advances 1 byte instead of len(delim) after a
// delimiter) and is used only to give that defect its own narrow signature, so
// that the known-finding entry for it cannot hide any other table bug.
func refSplitAdvanceOne(s, delim string) []string {
	var out []string
	for {
		i := strings.Index(s, delim)
		if i < 0 || delim == "" {
			return append(out, s)
		}
		out = append(out, s[:i])
		s = s[i+1:]
	}
}

// refParseInt: a base-10 integer with optional sign that fits int64 (S4:
// everything else is a "non-integer increment").
func refParseInt(s string) (int64, bool) {
	if s == "" {
		return 0, false
	}
	neg := false
	i := 0
	if s[0] == '+' || s[0] == '-' {
		neg = s[0] == '-'
		i = 1
	}
	if i == len(s) {
		return 0, false
	}
	var v uint64
	for ; i < len(s); i++ {
		c := s[i]
		if c < '0' || c > '9' {
			return 0, false
		}
		d := uint64(c - '0')
		if v > (math.MaxUint64-d)/10 {
			return 0, false
		}
		v = v*10 + d
	}
	if neg {
		if v > 1<<63 {
			return 0, false
		}
		return -int64(v), true // (1<<63 wraps to MinInt64, which is right)
	}
	if v > math.MaxInt64 {
		return 0, false
	}
	return int64(v), true
}

// ---------------------------------------------------------------- counter

type refCounter struct {
	counts map[string]int64
	total  int64
	errs   uint64
}

func newRefCounter() *refCounter { return &refCounter{counts: map[string]int64{}} }

// sample: "key" or "key NUL increment" (S1, S4). Returns whether accepted.
func (r *refCounter) sample(s string) bool {
	p := refSplit(s, "\x00")
	inc := int64(1)
	if len(p) >= 2 {
		v, ok := refParseInt(p[1])
		if !ok {
			r.errs++
			return false
		}
		inc = v
	}
	r.counts[p[0]] += inc
	r.total += inc
	return true
}

// ---------------------------------------------------------------- sub-key counter

type refSubKey struct {
	cells map[string]map[string]int64 // key -> subkey -> value
	subs  map[string]bool
	errs  uint64
}

func newRefSubKey() *refSubKey {
	return &refSubKey{cells: map[string]map[string]int64{}, subs: map[string]bool{}}
}

// sample: "key NUL subkey [NUL increment]"; a missing sub-key is the empty one.
func (r *refSubKey) sample(s string) bool {
	p := refSplit(s, "\x00")
	sub := ""
	if len(p) >= 2 {
		sub = p[1]
	}
	inc := int64(1)
	if len(p) >= 3 {
		v, ok := refParseInt(p[2])
		if !ok {
			r.errs++
			return false
		}
		inc = v
	}
	if r.cells[p[0]] == nil {
		r.cells[p[0]] = map[string]int64{}
	}
	r.cells[p[0]][sub] += inc
	r.subs[sub] = true
	return true
}

func (r *refSubKey) rowTotal(k string) (t int64) {
	for _, v := range r.cells[k] {
		t += v
	}
	return
}

// ---------------------------------------------------------------- table

type refTable struct {
	delim string
	split func(s, delim string) []string
	cells map[string]map[string]int64 // row -> col -> value (present cells only)
	cols  map[string]bool
	errs  uint64
}

func newRefTable(delim string) *refTable {
	return &refTable{delim: delim, split: refSplit, cells: map[string]map[string]int64{}, cols: map[string]bool{}}
}

// sample: "<column><delim><row><delim><count>" (docs/usage/aggregators.md:
// "First element is the column name, followed by the row name"); a missing row
// is the empty row, a missing count is 1.
func (r *refTable) sample(s string) bool {
	p := r.split(s, r.delim)
	row := ""
	if len(p) >= 2 {
		row = p[1]
	}
	inc := int64(1)
	if len(p) >= 3 {
		v, ok := refParseInt(p[2])
		if !ok {
			r.errs++
			return false
		}
		inc = v
	}
	r.add(p[0], row, inc)
	return true
}

func (r *refTable) add(col, row string, inc int64) {
	if r.cells[row] == nil {
		r.cells[row] = map[string]int64{}
	}
	r.cells[row][col] += inc
	r.cols[col] = true
}

func (r *refTable) rowSum(row string) (t int64) {
	for _, v := range r.cells[row] {
		t += v
	}
	return
}

func (r *refTable) colSum(col string) (t int64) {
	for _, c := range r.cells {
		t += c[col]
	}
	return
}

func (r *refTable) grand() (t int64) {
	for _, c := range r.cells {
		for _, v := range c {
			t += v
		}
	}
	return
}

// minMax over the dense rows x cols grid, absent = 0 (S3). ok=false for an
// empty grid (the statement does not say what an empty table's min/max is).
func (r *refTable) minMax() (mn, mx int64, ok bool) {
	first := true
	for _, c := range r.cells {
		for col := range r.cols {
			v := c[col]
			if first {
				mn, mx, first = v, v, false
			}
			if v < mn {
				mn = v
			}
			if v > mx {
				mx = v
			}
		}
	}
	return mn, mx, !first
}

func sortedKeys[V any](m map[string]V) []string {
	out := make([]string, 0, len(m))
	for k := range m {
		out = append(out, k)
	}
	sort.Strings(out)
	return out
}

// ---------------------------------------------------------------- numerical

type refNumerical struct {
	vals []float64
	errs uint64
	// exact running sums of the samples and of their squares (every float64 is
	// a rational), so that the figures of a long history cost O(1) per prefix
	sum, sumSq *big.Rat
	mn, mx     float64
}

func (r *refNumerical) add(v float64) {
	if r.sum == nil {
		r.sum, r.sumSq = new(big.Rat), new(big.Rat)
		r.mn, r.mx = v, v
	}
	x := new(big.Rat).SetFloat64(v)
	r.sum.Add(r.sum, x)
	r.sumSq.Add(r.sumSq, new(big.Rat).Mul(x, x))
	if v < r.mn {
		r.mn = v
	}
	if v > r.mx {
		r.mx = v
	}
	r.vals = append(r.vals, v)
}

// stats computes count, mean, sample standard deviation, min and max of the
// full sample list (S5). Mean and variance are computed exactly with rationals
// (mean = S/n, variance = (SS - S*S/n)/(n-1) with the exact sums S and SS) and
// rounded once, so the reference is immune to the magnitude/spread of the
// data and to the length of the history.
func (r *refNumerical) stats() (n int, mean, sd, mn, mx float64) {
	n = len(r.vals)
	if n == 0 {
		return
	}
	mn, mx = r.mn, r.mx
	nn := big.NewRat(int64(n), 1)
	m := new(big.Rat).Quo(r.sum, nn)
	mean, _ = m.Float64()
	if n > 1 {
		ss := new(big.Rat).Mul(r.sum, m) // S*S/n
		ss.Sub(r.sumSq, ss)
		variance, _ := ss.Quo(ss, big.NewRat(int64(n-1), 1)).Float64()
		if variance < 0 {
			variance = 0
		}
		sd = math.Sqrt(variance)
	}
	return
}

// nearestRankAccept: the order statistics acceptable as the p = num/den
// quantile of n ordered values (S6). The statement says "nearest-rank" without
// fixing the variant, so both common index conventions are accepted:
// ceil(p*n)-1 and floor(p*n), each clamped to [0, n-1].
func nearestRankAccept(n int, num, den int64) []int {
	pn := num * int64(n)
	fl := int(pn / den)
	ce := fl
	if pn%den != 0 {
		ce++
	}
	a, b := ce-1, fl
	clamp := func(i int) int {
		if i < 0 {
			return 0
		}
		if i > n-1 {
			return n - 1
		}
		return i
	}
	a, b = clamp(a), clamp(b)
	if a == b {
		return []int{a}
	}
	return []int{a, b}
}

// modes: every value with maximal multiplicity (ties: the statement does not
// choose, all are accepted).
func refModes(vals []float64) []float64 {
	cnt := map[float64]int{}
	best := 0
	for _, v := range vals {
		cnt[v]++
		if cnt[v] > best {
			best = cnt[v]
		}
	}
	var out []float64
	for v, c := range cnt {
		if c == best {
			out = append(out, v)
		}
	}
	sort.Float64s(out)
	return out
}
