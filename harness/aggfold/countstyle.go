package main

// Count-style aggregators on the real objects: MatchCounter, SubKeyCounter,
// TableAggregator. Each run creates a fresh object, applies the history one
// Sample at a time and compares every public accessor with the reference fold
// after every prefix.

import (
	"fmt"
	"math"
	"sort"
	"strings"

	"rare/pkg/aggregation"
	"rare/pkg/aggregation/sorting"
)

func history(samples []string, upto int) string {
	if len(samples) > 48 { // a size family: the case names the generator, show the ends
		return fmt.Sprintf("history (applied %d of %d): %q ... %q", upto, len(samples), samples[:24], samples[len(samples)-8:])
	}
	return fmt.Sprintf("history (applied %d of %d): %q", upto, len(samples), samples)
}

// ------------------------------------------------------------------ counter

func runCounter(samples []string) result { return runCounterAt(samples, everyPrefix) }

func runCounterAt(samples []string, cp checkAt) (res result) {
	where := "NewCounter"
	var impl *aggregation.MatchCounter
	ref := newRefCounter()
	step := func(i int, apply bool) *fail {
		return guard("counter", &where, func() *fail {
			if impl == nil {
				impl = aggregation.NewCounter()
			}
			if apply {
				where = "Sample"
				impl.Sample(samples[i])
				res.transitions++
				if ref.sample(samples[i]) {
					res.accepted++
				}
			}
			if !cp.at(i+1, len(samples)) {
				return nil
			}
			return checkCounter(impl, ref, &where, &res.state)
		})
	}
	if f := step(-1, false); f != nil {
		f.detail += "\n" + history(samples, 0)
		res.f = f
		return
	}
	for i := range samples {
		if f := step(i, true); f != nil {
			f.detail += "\n" + history(samples, i+1)
			res.f = f
			return
		}
	}
	res.orderKey = res.state
	return
}

func checkCounter(impl *aggregation.MatchCounter, ref *refCounter, where *string, state *string) *fail {
	*where = "ParseErrors"
	if g := impl.ParseErrors(); g != ref.errs { // S4
		return failf("C07/counter/parse-errors-mismatch", "ParseErrors()=%d, fold gives %d", g, ref.errs)
	}
	*where = "Total"
	if g := impl.Total(); g != ref.total { // S2 grand total
		return failf("C07/counter/total-mismatch", "Total()=%d, sum of increments is %d", g, ref.total)
	}
	*where = "Items"
	items := impl.Items()
	got := map[string]int64{}
	for _, it := range items {
		if _, dup := got[it.Name]; dup {
			return failf("C07/counter/items-duplicate-key", "Items() lists key %q twice", it.Name)
		}
		got[it.Name] = it.Item.Count()
	}
	for k, v := range ref.counts { // S1
		g, ok := got[k]
		if !ok {
			return failf("C07/counter/key-set-mismatch", "key %q was sampled but is not in Items() %v", k, got)
		}
		if g != v {
			return failf("C07/counter/count-mismatch", "count of %q is %d, fold gives %d", k, g, v)
		}
	}
	if len(got) != len(ref.counts) {
		return failf("C07/counter/key-set-mismatch", "Items() has keys %v, fold has %v", got, ref.counts)
	}
	*where = "GroupCount"
	if g := impl.GroupCount(); g != len(ref.counts) {
		return failf("C07/counter/groupcount-mismatch", "GroupCount()=%d, distinct keys %d", g, len(ref.counts))
	}
	*where = "ItemsSortedBy"
	n := len(ref.counts)
	full := impl.ItemsSortedBy(n, sorting.NVNameSorter)
	for _, lim := range []int{0, 1, n, n + 1} {
		part := impl.ItemsSortedBy(lim, sorting.NVNameSorter)
		want := lim
		if want > n {
			want = n
		}
		if len(part) != want {
			return failf("C07/counter/items-sorted-mismatch", "ItemsSortedBy(%d) returned %d items of %d", lim, len(part), n)
		}
		for i, it := range part {
			if v, ok := ref.counts[it.Name]; !ok || v != it.Item.Count() || it.Name != full[i].Name {
				return failf("C07/counter/items-sorted-mismatch", "ItemsSortedBy(%d)[%d] = %q:%d is not the fold's / not a prefix of the full list", lim, i, it.Name, it.Item.Count())
			}
		}
	}
	var sb strings.Builder
	fmt.Fprintf(&sb, "E%d T%d", ref.errs, impl.Total())
	for _, k := range sortedKeys(got) {
		fmt.Fprintf(&sb, " %q=%d", k, got[k])
	}
	sb.WriteString(" |byname")
	for _, it := range full {
		fmt.Fprintf(&sb, " %q", it.Name)
	}
	sb.WriteString(" |byvalue")
	for _, it := range impl.ItemsSortedBy(n, sorting.NVValueSorter) {
		fmt.Fprintf(&sb, " %q", it.Name)
	}
	*state = sb.String()
	return nil
}

// ------------------------------------------------------------------ sub-key counter

func runSubKey(samples []string) result { return runSubKeyAt(samples, everyPrefix) }

func runSubKeyAt(samples []string, cp checkAt) (res result) {
	where := "NewSubKeyCounter"
	var impl *aggregation.SubKeyCounter
	ref := newRefSubKey()
	step := func(i int, apply bool) *fail {
		return guard("subkey", &where, func() *fail {
			if impl == nil {
				impl = aggregation.NewSubKeyCounter()
			}
			if apply {
				where = "Sample"
				impl.Sample(samples[i])
				res.transitions++
				if ref.sample(samples[i]) {
					res.accepted++
				}
			}
			if !cp.at(i+1, len(samples)) {
				return nil
			}
			return checkSubKey(impl, ref, &where, &res.state)
		})
	}
	if f := step(-1, false); f != nil {
		f.detail += "\n" + history(samples, 0)
		res.f = f
		return
	}
	for i := range samples {
		if f := step(i, true); f != nil {
			f.detail += "\n" + history(samples, i+1)
			res.f = f
			return
		}
	}
	res.orderKey = res.state
	return
}

func checkSubKey(impl *aggregation.SubKeyCounter, ref *refSubKey, where *string, state *string) *fail {
	*where = "ParseErrors"
	if g := impl.ParseErrors(); g != ref.errs {
		return failf("C07/subkey/parse-errors-mismatch", "ParseErrors()=%d, fold gives %d", g, ref.errs)
	}
	*where = "SubKeys"
	subs := append([]string{}, impl.SubKeys()...)
	seen := map[string]bool{}
	for _, s := range subs {
		if seen[s] {
			return failf("C07/subkey/subkeys-duplicate", "SubKeys() lists %q twice: %q", s, subs)
		}
		seen[s] = true
		if !ref.subs[s] {
			return failf("C07/subkey/subkey-set-mismatch", "SubKeys() has %q which was never sampled: %q", s, subs)
		}
	}
	if len(subs) != len(ref.subs) {
		return failf("C07/subkey/subkey-set-mismatch", "SubKeys()=%q, fold has %q", subs, sortedKeys(ref.subs))
	}
	*where = "Items"
	items := impl.Items()
	gotKeys := map[string]bool{}
	var sb strings.Builder
	fmt.Fprintf(&sb, "E%d subs%q", ref.errs, subs)
	sort.Slice(items, func(i, j int) bool { return items[i].Name < items[j].Name })
	for _, it := range items {
		if gotKeys[it.Name] {
			return failf("C07/subkey/items-duplicate-key", "Items() lists key %q twice", it.Name)
		}
		gotKeys[it.Name] = true
		row, ok := ref.cells[it.Name]
		if !ok {
			return failf("C07/subkey/key-set-mismatch", "Items() has key %q which was never sampled", it.Name)
		}
		vals := it.Item.Items()
		if len(vals) != len(subs) {
			return failf("C07/subkey/row-misaligned", "key %q has %d values for %d sub-keys %q", it.Name, len(vals), len(subs), subs)
		}
		for j, s := range subs { // S1: cell values, in SubKeys() order
			if vals[j] != row[s] {
				return failf("C07/subkey/cell-mismatch", "cell (%q,%q) is %d, fold gives %d (row %v, sub-keys %q)", it.Name, s, vals[j], row[s], vals, subs)
			}
		}
		if g, w := it.Item.Count(), ref.rowTotal(it.Name); g != w { // S2: row total = sum of its cells
			return failf("C07/subkey/row-total-mismatch", "Count() of %q is %d, its cells sum to %d", it.Name, g, w)
		}
		fmt.Fprintf(&sb, " %q=%d%v", it.Name, it.Item.Count(), vals)
	}
	if len(gotKeys) != len(ref.cells) {
		return failf("C07/subkey/key-set-mismatch", "Items() has keys %v, fold has %q", gotKeys, sortedKeys(ref.cells))
	}
	*where = "ItemsSorted"
	sorted := impl.ItemsSorted(sorting.NVNameSorter)
	if len(sorted) != len(ref.cells) {
		return failf("C07/subkey/items-sorted-mismatch", "ItemsSorted returned %d of %d keys", len(sorted), len(ref.cells))
	}
	sb.WriteString(" |byname")
	for _, it := range sorted {
		if _, ok := ref.cells[it.Name]; !ok || it.Item.Count() != ref.rowTotal(it.Name) {
			return failf("C07/subkey/items-sorted-mismatch", "ItemsSorted has %q:%d which is not the fold's", it.Name, it.Item.Count())
		}
		fmt.Fprintf(&sb, " %q", it.Name)
	}
	*state = sb.String()
	return nil
}

// ------------------------------------------------------------------ table

func runTable(delim string, samples []string) result {
	return runTableAt(delim, samples, everyPrefix)
}

func runTableAt(delim string, samples []string, cp checkAt) (res result) {
	where := "NewTable"
	var impl *aggregation.TableAggregator
	ref := newRefTable(delim)
	var refDefect *refTable // model of the known splitter defect; only names the signature
	if len(delim) > 1 {
		refDefect = newRefTable(delim)
		refDefect.split = refSplitAdvanceOne
	}
	step := func(i int, apply bool) *fail {
		return guard("table", &where, func() *fail {
			if impl == nil {
				impl = aggregation.NewTable(delim)
			}
			if apply {
				where = "Sample"
				impl.Sample(samples[i])
				res.transitions++
				if ref.sample(samples[i]) {
					res.accepted++
				}
				if refDefect != nil {
					refDefect.sample(samples[i])
				}
			}
			if !cp.at(i+1, len(samples)) {
				return nil
			}
			f := checkTable(impl, ref, &where, &res.state, allTotals)
			if f != nil && refDefect != nil && !strings.Contains(f.sig, "/panic/") {
				var dummy string
				if checkTable(impl, refDefect, &where, &dummy, allTotals) == nil {
					return failf("C07/table/multi-byte-delim/token-keeps-delimiter-tail",
						"with the %d-byte delimiter %q the table equals the fold of a splitter that advances 1 byte after a delimiter (keys keep the delimiter's tail)\nfirst difference from the specification: %s [%s]", len(delim), delim, f.detail, f.sig)
				}
			}
			return f
		})
	}
	if f := step(-1, false); f != nil {
		f.detail += "\ndelim=" + q(delim) + " " + history(samples, 0)
		res.f = f
		return
	}
	for i := range samples {
		if f := step(i, true); f != nil {
			f.detail += "\ndelim=" + q(delim) + " " + history(samples, i+1)
			res.f = f
			return
		}
	}
	res.orderKey = res.state
	return
}

// totalsScope says which of the redundant totals (S2 "row/column/grand totals
// equal to the sums of their cells") are compared.
//
// Without a Trim: all of them. After a Trim the statement does not say whether
// the totals of a row or column that LOST a cell are recomputed (the unchanged
// implementation keeps the pre-trim total of a surviving row/column), so those
// - and only those - are exempt: a row or column from which no Trim ever
// removed a present cell since it was created (in particular one created after
// a Trim, its key being absent from the table when it was sampled, also when a
// Trim had removed a row/column of that name entirely before) is an ordinary
// fold of its samples and its total must equal the sum of its cells; the grand
// total must be exact when no listed column is exempt; and the value-sorted
// views must put a non-exempt row/column with a larger total before a
// non-exempt one with a smaller total (they are ordered by those totals).
type totalsScope struct {
	mode               int             // 0 none, 1 all, 2 all but the stale ones
	staleRow, staleCol map[string]bool // mode 2: lost a present cell at a Trim and survived (or may have survived)
	lateRow, lateCol   map[string]bool // mode 2: created after the first Trim (signature class only)
}

var (
	allTotals = totalsScope{mode: 1}
	noTotals  = totalsScope{}
)

func (t totalsScope) row(name string) (check bool, sig string) {
	switch t.mode {
	case 1:
		return true, ""
	case 2:
		if t.staleRow[name] {
			return false, ""
		}
		if t.lateRow[name] {
			return true, "/row-created-after-trim"
		}
		return true, "/row-untouched-by-trim"
	}
	return false, ""
}

func (t totalsScope) col(name string) (check bool, sig string) {
	switch t.mode {
	case 1:
		return true, ""
	case 2:
		if t.staleCol[name] {
			return false, ""
		}
		if t.lateCol[name] {
			return true, "/column-created-after-trim"
		}
		return true, "/column-untouched-by-trim"
	}
	return false, ""
}

// checkTable compares every accessor with the reference; tot selects the
// row/column/grand totals that are compared (see totalsScope).
func checkTable(impl *aggregation.TableAggregator, ref *refTable, where *string, state *string, tot totalsScope) *fail {
	*where = "ParseErrors"
	if g := impl.ParseErrors(); g != ref.errs {
		return failf("C07/table/parse-errors-mismatch", "ParseErrors()=%d, fold gives %d", g, ref.errs)
	}
	*where = "Columns"
	cols := impl.Columns()
	sort.Strings(cols)
	for i, c := range cols {
		if i > 0 && cols[i-1] == c {
			return failf("C07/table/columns-duplicate", "Columns() lists %q twice", c)
		}
	}
	if want := sortedKeys(ref.cols); !equalStrings(cols, want) {
		return failf("C07/table/column-set-mismatch", "Columns()=%q, fold has %q", cols, want)
	}
	*where = "ColumnCount"
	if g := impl.ColumnCount(); g != len(cols) {
		return failf("C07/table/columncount-mismatch", "ColumnCount()=%d but Columns() has %d", g, len(cols))
	}
	*where = "Rows"
	rows := impl.Rows()
	sort.Slice(rows, func(i, j int) bool { return rows[i].Name() < rows[j].Name() })
	var names []string
	for _, r := range rows {
		names = append(names, r.Name())
	}
	for i := range names {
		if i > 0 && names[i-1] == names[i] {
			return failf("C07/table/rows-duplicate", "Rows() lists %q twice", names[i])
		}
	}
	if want := sortedKeys(ref.cells); !equalStrings(names, want) {
		return failf("C07/table/row-set-mismatch", "Rows()=%q, fold has %q", names, want)
	}
	*where = "RowCount"
	if g := impl.RowCount(); g != len(rows) {
		return failf("C07/table/rowcount-mismatch", "RowCount()=%d but Rows() has %d", g, len(rows))
	}
	var sb strings.Builder
	fmt.Fprintf(&sb, "E%d cols%q", ref.errs, cols)
	for _, r := range rows {
		fmt.Fprintf(&sb, " %q:", r.Name())
		for _, c := range cols {
			*where = "TableRow.Value"
			if g, w := r.Value(c), ref.cells[r.Name()][c]; g != w { // S1 cells, absent = 0
				return failf("C07/table/cell-mismatch", "cell (col %q,row %q) is %d, fold gives %d", c, r.Name(), g, w)
			}
			fmt.Fprintf(&sb, "%d,", r.Value(c))
		}
		if ok, class := tot.row(r.Name()); ok {
			*where = "TableRow.Sum"
			if g, w := r.Sum(), ref.rowSum(r.Name()); g != w { // S2 row total
				return failf("C07/table/row-total-mismatch"+class, "Sum() of row %q is %d, its cells sum to %d", r.Name(), g, w)
			}
		}
	}
	grand := tot.mode != 0
	for _, c := range cols {
		ok, class := tot.col(c)
		if !ok {
			grand = false // Sum() adds up the column totals
			continue
		}
		*where = "ColTotal"
		if g, w := impl.ColTotal(c), ref.colSum(c); g != w { // S2 column total
			return failf("C07/table/column-total-mismatch"+class, "ColTotal(%q)=%d, its cells sum to %d", c, g, w)
		}
	}
	if grand {
		*where = "Sum"
		if g, w := impl.Sum(), ref.grand(); g != w { // S2 grand total
			class := ""
			if tot.mode == 2 {
				class = "/no-column-lost-a-cell"
			}
			return failf("C07/table/grand-total-mismatch"+class, "Sum()=%d, all cells sum to %d", g, w)
		}
	}
	*where = "ComputeMinMax"
	mn, mx := impl.ComputeMinMax()
	if wmn, wmx, ok := ref.minMax(); ok && (mn != wmn || mx != wmx) { // S3
		sig := "C07/table/minmax-mismatch"
		if wmn == math.MaxInt64 || wmx == math.MinInt64 {
			// own class: the true extreme equals the implementation's "nothing seen yet" start value
			sig += "/extreme-equals-int64-limit"
		}
		return failf(sig, "ComputeMinMax()=(%d,%d), dense grid with absent=0 gives (%d,%d)", mn, mx, wmn, wmx)
	}
	fmt.Fprintf(&sb, " mm%d,%d", mn, mx)
	*where = "OrderedColumns"
	oc := impl.OrderedColumns(sorting.NVNameSorter)
	if s := append([]string{}, oc...); !sortedEqual(s, cols) {
		return failf("C07/table/ordered-columns-mismatch", "OrderedColumns()=%q is not a reordering of Columns() %q", oc, cols)
	}
	*where = "OrderedRows"
	or := impl.OrderedRows(sorting.NVNameSorter)
	var orn []string
	for _, r := range or {
		orn = append(orn, r.Name())
	}
	if s := append([]string{}, orn...); !sortedEqual(s, names) {
		return failf("C07/table/ordered-rows-mismatch", "OrderedRows()=%q is not a reordering of Rows() %q", orn, names)
	}
	fmt.Fprintf(&sb, " |oc%q or%q", oc, orn)
	if tot.mode != 0 {
		// value-ordered views use the totals; part of the state that must be order independent
		vc := impl.OrderedColumns(sorting.NVValueSorter)
		var vrn []string
		for _, r := range impl.OrderedRows(sorting.NVValueSorter) {
			vrn = append(vrn, r.Name())
		}
		if tot.mode == 1 {
			fmt.Fprintf(&sb, " vc%q vr%q", vc, vrn)
		} else {
			// after a Trim: the rows/columns whose totals are claimed must be ordered by them
			// ("value" = larger totals first; equal totals are not compared here)
			if a, b, ok := valueOrderBroken(vrn, func(n string) (int64, bool) { c, _ := tot.row(n); return ref.rowSum(n), c }); ok {
				return failf("C07/table/value-order-disagrees-with-cell-sums/rows", "OrderedRows(value)=%q puts row %q (cells sum to %d) before row %q (cells sum to %d); no Trim removed a cell of either row", vrn, a, ref.rowSum(a), b, ref.rowSum(b))
			}
			if a, b, ok := valueOrderBroken(vc, func(n string) (int64, bool) { c, _ := tot.col(n); return ref.colSum(n), c }); ok {
				return failf("C07/table/value-order-disagrees-with-cell-sums/columns", "OrderedColumns(value)=%q puts column %q (cells sum to %d) before column %q (cells sum to %d); no Trim removed a cell of either column", vc, a, ref.colSum(a), b, ref.colSum(b))
			}
		}
	}
	*state = sb.String()
	return nil
}

// valueOrderBroken: a pair of claimed names in the value-sorted view of which
// the earlier has the smaller total.
func valueOrderBroken(order []string, total func(string) (int64, bool)) (first, second string, broken bool) {
	for i, a := range order {
		va, ok := total(a)
		if !ok {
			continue
		}
		for _, b := range order[i+1:] {
			if vb, ok := total(b); ok && va < vb {
				return a, b, true
			}
		}
	}
	return "", "", false
}

func equalStrings(a, b []string) bool {
	if len(a) != len(b) {
		return false
	}
	for i := range a {
		if a[i] != b[i] {
			return false
		}
	}
	return true
}

func sortedEqual(a, sortedB []string) bool {
	sort.Strings(a)
	return equalStrings(a, sortedB)
}
