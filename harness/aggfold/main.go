// Harness aggfold decides C07: the aggregators are exact folds of their sample
// history. Explicit exploration of ALL sample sequences up to a small length
// over tiny alphabets on the real objects (fresh object + replay of the
// sequence, oracle after EVERY prefix), grouped by multiset so that every
// permutation of the same samples is compared (order independence), every
// Trim predicate as a subset of the cells of small tables, and the numerical
// aggregator with nearest-rank accept-sets. On top of that: every history a
// second time without accessor calls before the end (accessors must not change
// state), every sequence of samples and Trims on one long-lived table
// (trimops.go), the size families (size.go): one fixed history per shape
// for n = 0..70 and around every power of two, and generated accumulator
// programs (accumgen.go): every kind of name in group, accumulator and sort
// position.
package main

import (
	"encoding/json"
	"fmt"
	"strings"
	"time"

	"verif/runner"
)

// ---------------------------------------------------------------- alphabets

// "" here = increment absent; then positive, negative, zero, non-integer, MaxInt64
var incAll = []string{"", "2", "-1", "0", "zz", "9223372036854775807"}

// presentEmpty stands for an increment field that is present but empty
// ("key NUL"), as opposed to "" = no increment field at all
const presentEmpty = "<present-but-empty>"

func counterAlphabet(incs []string) []string {
	var out []string
	for _, k := range []string{"a", "b", ""} {
		for _, inc := range incs {
			if inc == "" {
				out = append(out, k)
			} else if inc == presentEmpty {
				out = append(out, k+"\x00") // the increment field is there and empty
			} else {
				out = append(out, k+"\x00"+inc)
			}
		}
	}
	return out
}

// two-level alphabets: first [delim second [delim inc]]
func pairAlphabet(firsts, seconds, incs []string, delim string) []string {
	var out []string
	for _, a := range firsts {
		out = append(out, a) // second part absent
		for _, b := range seconds {
			for _, inc := range incs {
				if inc == "" {
					out = append(out, a+delim+b)
				} else if inc == presentEmpty {
					out = append(out, a+delim+b+delim)
				} else {
					out = append(out, a+delim+b+delim+inc)
				}
			}
		}
	}
	return out
}

type family struct {
	name    string
	config  string
	alpha   []string
	maxLen  int
	ordered bool // compare all permutations of a multiset (S7)
	runAt   func(samples []string, cp checkAt) (result, []*fail)
}

func (f *family) run(samples []string) (result, []*fail) { return f.runAt(samples, everyPrefix) }

func one(f func([]string, checkAt) result) func([]string, checkAt) (result, []*fail) {
	return func(s []string, cp checkAt) (result, []*fail) {
		r := f(s, cp)
		if r.f != nil {
			return r, []*fail{r.f}
		}
		return r, nil
	}
}

func families(quick bool) []family {
	incs := incAll
	pick := func(q, t int) int {
		if quick {
			return q
		}
		return t
	}
	keys := []string{"a", "b", ""}
	subs := []string{"x", "y", ""}
	fs := []family{
		{name: "counter", alpha: counterAlphabet(incs), maxLen: pick(4, 5), ordered: true, runAt: one(runCounterAt)},
		{name: "subkey", alpha: pairAlphabet(keys, subs, incs, "\x00"), maxLen: pick(3, 4), ordered: true, runAt: one(runSubKeyAt)},
	}
	for _, d := range []string{"\x00", "::"} {
		d := d
		fs = append(fs, family{name: "table", config: d, alpha: pairAlphabet(keys, subs, incs, d), maxLen: pick(3, 4), ordered: true,
			runAt: one(func(s []string, cp checkAt) result { return runTableAt(d, s, cp) })})
	}
	// spellings of decimal integers: zero-padded, signed, at and beyond the
	// int64 limits (every [+-]?digits string is a base-10 integer; S1/S4)
	spell := []string{"", "010", "08", "09", "-007", "+009", "00", "-0", "+0", "0000000000000000000001", "9223372036854775808", "-9223372036854775808", "-9223372036854775809", "0100"}
	// ... and texts that are NOT integers although a hand-written digit loop
	// might let them through: an empty field, a sign alone, two signs, a sign
	// behind, blanks around, other notations, digits of another script
	spell = append(spell, presentEmpty, "-", "+", "--1", "+-1", "-+1", "1-", "1+", "- 1", " 1", "1 ", "0x1", "1e1", "1.0", "1_0", "\uff11", "\u0661")
	one2 := []string{"a"}
	fs = append(fs,
		family{name: "counter", config: "increment-spellings", alpha: counterAlphabet(spell), maxLen: 2, ordered: true, runAt: one(runCounterAt)},
		family{name: "subkey", config: "increment-spellings", alpha: pairAlphabet(one2, []string{"x", "y"}, spell, "\x00"), maxLen: 2, ordered: true, runAt: one(runSubKeyAt)},
		family{name: "table", config: "increment-spellings", alpha: pairAlphabet(one2, []string{"x", "y"}, spell, "\x00"), maxLen: 2, ordered: true,
			runAt: one(func(s []string, cp checkAt) result { return runTableAt("\x00", s, cp) })})
	for i := range accPrograms {
		p := &accPrograms[i]
		fs = append(fs, family{name: "accum", config: p.name, alpha: p.alphabet, maxLen: pick(4, 5), ordered: true,
			runAt: one(func(s []string, cp checkAt) result { return runAccumAt(p, s, cp) })})
	}
	for _, name := range genProgramNames() {
		p := genProgram(name)
		if p == nil {
			panic("harness: bad generated program " + name)
		}
		fs = append(fs, family{name: "accum", config: p.name, alpha: genAlphabet(quick), maxLen: genMaxLen(name, quick), ordered: true,
			runAt: one(func(s []string, cp checkAt) result { return runAccumAt(p, s, cp) })})
	}
	var nums []string
	for i, y := range numSymbols {
		if quick && i >= 6 {
			break
		}
		nums = append(nums, y.s)
	}
	for _, cfg := range []string{"keep", "keep-reverse", "nokeep"} {
		cfg := cfg
		fs = append(fs, family{name: "numerical", config: cfg, alpha: nums, maxLen: pick(5, 6), ordered: true,
			runAt: func(s []string, cp checkAt) (result, []*fail) { return runNumericalAt(cfg, s, numLookup, cp) }})
	}
	var large []string
	for _, y := range numLarge {
		large = append(large, y.s)
	}
	for _, cfg := range []string{"keep-large", "nokeep-large"} {
		cfg := cfg
		fs = append(fs, family{name: "numerical", config: cfg, alpha: large, maxLen: pick(4, 6), ordered: true,
			runAt: func(s []string, cp checkAt) (result, []*fail) { return runNumericalAt(cfg, s, numLookup, cp) }})
	}
	return fs
}

// ---------------------------------------------------------------- trim states

var trimCols = []string{"a", "b", "c"}
var trimRows = []string{"x", "y", "z"}

// trimStates enumerates every table on an nc x nr grid whose cells are absent
// or hold one of vals, such that every row and every column has a present cell.
func trimStates(nc, nr int, vals []string, f func(cells []int)) {
	cells := make([]int, nc*nr) // 0 = absent, i>0 = vals[i-1]
	var rec func(i int)
	rec = func(i int) {
		if i == len(cells) {
			for c := 0; c < nc; c++ {
				any := false
				for r := 0; r < nr; r++ {
					any = any || cells[c*nr+r] != 0
				}
				if !any {
					return
				}
			}
			for r := 0; r < nr; r++ {
				any := false
				for c := 0; c < nc; c++ {
					any = any || cells[c*nr+r] != 0
				}
				if !any {
					return
				}
			}
			f(cells)
			return
		}
		for v := 0; v <= len(vals); v++ {
			cells[i] = v
			rec(i + 1)
		}
	}
	rec(0)
}

// trimBuild gives the sample sequence that builds the state, in one of three
// cell orders (so that the maps are populated in different orders).
func trimBuild(nc, nr int, cells []int, vals []string, order int) []string {
	var idx []int
	switch order {
	case 0:
		for i := range cells {
			idx = append(idx, i)
		}
	case 1:
		for i := len(cells) - 1; i >= 0; i-- {
			idx = append(idx, i)
		}
	default:
		for r := 0; r < nr; r++ {
			for c := 0; c < nc; c++ {
				idx = append(idx, c*nr+r)
			}
		}
	}
	var out []string
	for _, i := range idx {
		if cells[i] == 0 {
			continue
		}
		out = append(out, trimCols[i/nr]+"\x00"+trimRows[i%nr]+"\x00"+vals[cells[i]-1])
	}
	return out
}

func trimFollowUps(nc, nr int) []*string {
	out := []*string{nil}
	for c := 0; c < nc; c++ {
		for r := 0; r < nr; r++ {
			s := trimCols[c] + "\x00" + trimRows[r]
			out = append(out, &s)
		}
	}
	newRow := trimCols[0] + "\x00n\x003"
	newCol := "m\x00" + trimRows[0] + "\x00-2"
	return append(out, &newRow, &newCol)
}

// ---------------------------------------------------------------- worker

func report(w *runner.W, c Case, fails []*fail) {
	for _, f := range fails {
		w.Violation(f.sig, f.detail, c)
	}
}

func worker(w *runner.W) {
	quick := w.Quick()
	var caseNo int64
	expired := false

	// --- sample-sequence families
	for _, fam := range families(quick) {
		fam := fam
		for n := 0; n <= fam.maxLen && !expired; n++ {
			forEachMultiset(len(fam.alpha), n, func(ms []int) bool {
				caseNo++
				if !w.Owns(caseNo) {
					return true
				}
				if w.Expired() {
					expired = true
					return false
				}
				perm := append([]int{}, ms...)
				first := true
				var firstKey string
				var firstSamples []string
				for {
					samples := make([]string, n)
					for i, s := range perm {
						samples[i] = fam.alpha[s]
					}
					c := Case{Family: fam.name, Config: fam.config, Samples: samples}
					w.SetCase(func() any { return c })
					res, fails := fam.run(samples)
					w.Eval(n >= 2 && res.accepted >= 1)
					w.Add("transitions", int64(res.transitions))
					w.Add("sequences_"+fam.name, 1)
					report(w, c, fails)
					if len(fails) == 0 && n >= 1 {
						f, tr := checkSilent(&fam, samples, res)
						w.Add("transitions", int64(tr))
						w.Add("runs_without_accessor_calls", 1)
						if f != nil {
							w.Violation(f.sig, f.detail, c)
						}
					}
					if len(fails) == 0 || (fam.name == "numerical" && !res.fatal) {
						w.Outcome(fam.name, fam.config, res.state)
						if fam.ordered {
							if first {
								firstKey, firstSamples, first = res.orderKey, samples, false
							} else if res.orderKey != firstKey { // S7
								w.Violation("C07/"+fam.name+"/order-dependent",
									fmt.Sprintf("the same samples in two orders give different results\norder 1 %q -> %s\norder 2 %q -> %s", firstSamples, firstKey, samples, res.orderKey), c)
							}
						}
						if w.WantSample() && n == fam.maxLen && res.accepted == n && caseNo%97 == 0 {
							w.Sample(map[string]any{"case": c, "state": res.state})
						}
					}
					if !nextPermutation(perm) {
						break
					}
				}
				w.Add("multisets", 1)
				return true
			})
		}
	}

	// --- Trim: every subset of the grid cells of every small table
	type grid struct{ nc, nr int }
	grids := []grid{{1, 1}, {1, 2}, {2, 1}, {2, 2}, {1, 3}, {2, 3}}
	vals := []string{"2", "-1"}
	if !quick {
		grids = append(grids, grid{3, 1}, grid{3, 2})
		vals = []string{"2", "-1", "0"}
	}
	for _, g := range grids {
		if expired {
			break
		}
		follows := trimFollowUps(g.nc, g.nr)
		trimStates(g.nc, g.nr, vals, func(cells []int) {
			caseNo++
			if expired || !w.Owns(caseNo) {
				return
			}
			if w.Expired() {
				expired = true
				return
			}
			ncell := g.nc * g.nr
			for mask := 0; mask < 1<<ncell; mask++ {
				selected := map[string]bool{}
				var sel []string
				for i := 0; i < ncell; i++ {
					if mask&(1<<i) != 0 {
						k := cellKey(trimCols[i/g.nr], trimRows[i%g.nr])
						selected[k] = true
						sel = append(sel, k)
					}
				}
				for order := 0; order < 3; order++ {
					samples := trimBuild(g.nc, g.nr, cells, vals, order)
					for _, fo := range follows {
						c := Case{Family: "trim", Samples: samples, TrimCells: sel, Follow: fo}
						w.SetCase(func() any { return c })
						res := runTrim(samples, selected, fo)
						w.Eval(mask != 0 && len(samples) >= 2)
						w.Add("transitions", int64(res.transitions))
						w.Add("trim_executions", 1)
						if res.f != nil {
							w.Violation(res.f.sig, res.f.detail, c)
						} else {
							w.Outcome("trim", res.state)
							if w.WantSample() && mask == 5 && fo != nil && len(samples) >= 4 && order == 2 {
								w.Sample(map[string]any{"case": c, "state": res.state})
							}
						}
					}
				}
			}
			w.Add("trim_tables", 1)
		})
	}

	// --- Trim histories: every sequence of samples and Trims on one long-lived table
	seqOps := trimSeqOps()
	for n := 0; n <= trimSeqDepth(quick) && !expired; n++ {
		forEachOpSequence(seqOps, n, func(ops []string) bool {
			caseNo++
			if !w.Owns(caseNo) {
				return true
			}
			if w.Expired() {
				expired = true
				return false
			}
			c := Case{Family: "trimseq", Config: "\x00", Samples: ops}
			w.SetCase(func() any { return c })
			nTrim := 0
			for _, op := range ops {
				if op[0] == 'T' {
					nTrim++
				}
			}
			for _, f := range runTrimSeq(ops, func(r result) {
				w.Add("transitions", int64(r.transitions))
				w.Add("trim_history_executions", 1)
				if r.f == nil {
					w.Outcome("trimseq", r.state)
				}
			}) {
				w.Violation(f.sig, f.detail, c)
			}
			w.Eval(nTrim >= 1 && len(ops) >= 2)
			w.Add("trim_histories", 1)
			return true
		})
	}

	// --- size families
	for si := range sizeShapes {
		sh := &sizeShapes[si]
		max := sh.maxQ
		if !quick {
			max = sh.maxT
		}
		for _, cfg := range sh.cfgs {
			for _, n := range sizesUpTo(max) {
				caseNo++
				if expired || !w.Owns(caseNo) {
					continue
				}
				if w.Expired() {
					expired = true
					break
				}
				c := Case{Family: "size", Config: sizeConfig(sh, cfg), N: n, Samples: []string{}}
				w.SetCase(func() any { return c })
				fails := runSizeCase(c.Config, n, func(r result, samples int) {
					w.Add("transitions", int64(r.transitions))
					w.Add("size_family_executions", 1)
					w.Max("size_family_longest_history", int64(samples))
					if r.f == nil {
						w.Outcome("size", c.Config, sizeClass(n), r.state)
					}
					w.Eval(samples >= 2 && r.accepted >= 1)
				})
				for _, f := range fails {
					w.Violation(f.sig, f.detail, c)
				}
				w.Add("size_family_cases", 1)
			}
		}
	}

	// --- splitter
	delims := []string{"\x00", ":", "::", "ab", ":a", ":::"}
	maxLen := 6
	if !quick {
		maxLen = 8
	}
	alpha := []byte{'a', 'b', ':', 0}
	for n := 0; n <= maxLen && !expired; n++ {
		cur := make([]int, n)
		for {
			caseNo++
			if w.Owns(caseNo) {
				if w.Expired() {
					expired = true
					break
				}
				b := make([]byte, n)
				for i, c := range cur {
					b[i] = alpha[c]
				}
				for _, d := range delims {
					c := Case{Family: "splitter", Config: d, Samples: []string{string(b)}}
					w.SetCase(func() any { return c })
					res := runSplitter(d, string(b))
					w.Eval(strings.Contains(string(b), d))
					w.Add("transitions", int64(res.transitions))
					w.Add("splitter_inputs", 1)
					if res.f != nil {
						w.Violation(res.f.sig, res.f.detail, c)
					} else {
						w.Outcome("splitter", d, res.state)
					}
				}
			}
			i := n - 1
			for ; i >= 0; i-- {
				cur[i]++
				if cur[i] < len(alpha) {
					break
				}
				cur[i] = 0
			}
			if i < 0 {
				break
			}
		}
	}
}

// sizeRule describes the size families for the evidence.
func sizeRule(quick bool) string {
	var parts []string
	for i := range sizeShapes {
		sh := &sizeShapes[i]
		max := sh.maxT
		if quick {
			max = sh.maxQ
		}
		cfg := ""
		if len(sh.cfgs) > 1 || sh.cfgs[0] != "" {
			cfg = fmt.Sprintf(" x configurations %q", sh.cfgs)
		}
		parts = append(parts, fmt.Sprintf("%s/%s (n <= %d)%s", sh.agg, sh.shape, max, cfg))
	}
	return "Size families: one fixed history per shape, parametrised by n (number of distinct keys / sub-keys / columns / rows / groups / samples, length of a name, magnitude 2^n of an increment), element i carrying i, for n = 0..70 and 2^k-1, 2^k, 2^k+1 (k >= 7) up to the shape's bound, same reference fold and accessor comparison (after every prefix up to 70 samples, around every power of two, at the end): " + strings.Join(parts, "; ") +
		". The sub-key shapes let every new sub-key sort after (ascending), in front of (descending) and in the middle of (middle-out) the existing ones and add sub-keys in front/middle/after to a counter that already has n rows; the trim shapes trim n rows (columns) by index classes, sample removed rows/columns again, trim a whole column (row), re-create it, trim twice more, trim everything and sample again."
}

func trimSeqDepth(quick bool) int {
	if quick {
		return 4
	}
	return 5
}

// checkSilent: accessors must not change state. The history is applied again
// to a fresh object WITHOUT any accessor call before the last sample; the
// final state must satisfy the oracle and equal the state of the run in which
// every accessor was called after every prefix (res).
func checkSilent(fam *family, samples []string, res result) (f *fail, transitions int) {
	silent, sf := fam.runAt(samples, finalOnly)
	sig := "C07/" + fam.name + "/result-depends-on-accessor-calls"
	if len(sf) > 0 {
		return failf(sig, "the history gives the fold's result when every accessor is called after every sample, but not when no accessor is called before the end: %s [%s]", sf[0].detail, sf[0].sig), silent.transitions
	}
	if silent.state != res.state {
		return failf(sig, "final state with accessor calls after every sample: %s\nfinal state without accessor calls: %s\n%s", res.state, silent.state, history(samples, len(samples))), silent.transitions
	}
	return nil, silent.transitions
}

// runTrimSeq: one Trim history with the accessors compared after every
// operation and, if that holds, once more without accessor calls before the end.
func runTrimSeq(ops []string, each func(result)) (fails []*fail) {
	r := runTableOps("\x00", ops, everyPrefix)
	each(r)
	if r.f != nil {
		return []*fail{r.f}
	}
	if len(ops) == 0 {
		return nil
	}
	r2 := runTableOps("\x00", ops, finalOnly)
	each(r2)
	if r2.f != nil {
		return []*fail{failf("C07/trim/result-depends-on-accessor-calls", "the history satisfies the oracle when every accessor is called after every operation, but not when no accessor is called before the end: %s [%s]", r2.f.detail, r2.f.sig)}
	}
	return nil
}

// runSizeCase: one size case with the accessors compared at the size
// checkpoints and, if that holds, once more without accessor calls before the end.
func runSizeCase(config string, n int, each func(r result, samples int)) (fails []*fail) {
	r, fs, ns := runSize(config, n, sizeCheckpoints)
	each(r, ns)
	if len(fs) > 0 {
		for _, f := range fs {
			fails = append(fails, sizeSig(f))
		}
		return
	}
	if ns == 0 {
		return nil
	}
	r2, fs2, _ := runSize(config, n, finalOnly)
	each(r2, ns)
	agg := config[:strings.Index(config, "/")]
	switch {
	case len(fs2) > 0:
		fails = append(fails, failf("C07/"+agg+"/result-depends-on-accessor-calls/size-family", "the history satisfies the oracle when the accessors are called at the checkpoints, but not when no accessor is called before the end: %s [%s]", fs2[0].detail, fs2[0].sig))
	case agg != "trim" && r2.state != r.state:
		fails = append(fails, failf("C07/"+agg+"/result-depends-on-accessor-calls/size-family", "final state with accessor calls: %.300s\nfinal state without: %.300s", r.state, r2.state))
	}
	return
}

func replay(w *runner.W, raw json.RawMessage) {
	var c Case
	if err := json.Unmarshal(raw, &c); err != nil {
		panic(err)
	}
	var fails []*fail
	switch c.Family {
	case "counter", "subkey", "table", "accum", "numerical":
		found := false
		for _, fam := range families(false) {
			if fam.name == c.Family && fam.config == c.Config {
				_, fails = fam.run(c.Samples)
				found = true
				break
			}
		}
		if !found {
			panic("unknown family/configuration " + c.Family + " " + c.Config)
		}
	case "trim":
		sel := map[string]bool{}
		for _, k := range c.TrimCells {
			sel[k] = true
		}
		// the map order inside Trim is chosen by the Go runtime: repeat
		for i := 0; i < 8 && len(fails) == 0; i++ {
			if r := runTrim(c.Samples, sel, c.Follow); r.f != nil {
				fails = append(fails, r.f)
			}
		}
	case "splitter":
		if r := runSplitter(c.Config, c.Samples[0]); r.f != nil {
			fails = append(fails, r.f)
		}
	case "trimseq":
		// the map order inside Trim is chosen by the Go runtime: repeat
		for i := 0; i < 8 && len(fails) == 0; i++ {
			fails = runTrimSeq(c.Samples, func(result) {})
		}
	case "size":
		reps := 1
		if strings.HasPrefix(c.Config, "trim/") {
			reps = 8
		}
		for i := 0; i < reps && len(fails) == 0; i++ {
			fails = runSizeCase(c.Config, c.N, func(result, int) {})
		}
	default:
		panic("unknown family " + c.Family)
	}
	report(w, c, fails)
	// order dependence is a property of two runs: replay the recorded order
	// against the sorted order of the same samples
	if len(fails) == 0 && c.Family != "trim" && c.Family != "splitter" && c.Family != "trimseq" && c.Family != "size" {
		replayOrder(w, c)
	}
}

func replayOrder(w *runner.W, c Case) {
	for _, fam := range families(false) {
		if fam.name != c.Family || fam.config != c.Config {
			continue
		}
		sorted := append([]string{}, c.Samples...)
		for i := range sorted { // insertion sort: any fixed other order will do
			for j := i; j > 0 && sorted[j] < sorted[j-1]; j-- {
				sorted[j], sorted[j-1] = sorted[j-1], sorted[j]
			}
		}
		a, fa := fam.run(c.Samples)
		b, _ := fam.run(sorted)
		if a.orderKey != b.orderKey {
			w.Violation("C07/"+fam.name+"/order-dependent", fmt.Sprintf("order 1 %q -> %s\norder 2 %q -> %s", c.Samples, a.orderKey, sorted, b.orderKey), c)
		}
		if len(fa) == 0 && len(c.Samples) >= 1 {
			if f, _ := checkSilent(&fam, c.Samples, a); f != nil {
				w.Violation(f.sig, f.detail, c)
			}
		}
		return
	}
}

func main() {
	runner.Main(&runner.Spec{
		Name:       "aggfold",
		Properties: []string{"C07"},
		Level:      "model_checking",
		Rule: func(prop, tier string) string {
			q := tier != "thorough"
			pick := func(a, b string) string {
				if q {
					return a
				}
				return b
			}
			return "real MatchCounter / SubKeyCounter / TableAggregator (delimiters NUL and '::') / AccumulatingGroup (3 hand-written programs: sumi without groups; 1 group with sumi, count, maxi, a column reference, a forward column reference, last value and concatenation; 2 groups; plus the generated programs below) / MatchNumerical (keep, keep+reverse, no-keep): EVERY sample sequence of length 0.." +
				pick("4 (counter), 3 (sub-key, table), 4 (accumulator), 5 (numerical)", "5 (counter), 4 (sub-key, table), 5 (accumulator), 6 (numerical)") +
				" over keys {a,b,''} x sub-keys/rows {absent,x,y,''} x increments {absent,2,-1,0,zz,MaxInt64}, plus histories of up to 2 samples over 13 spellings of decimal integers (zero-padded, signed, 22 digits with leading zeros, MaxInt64+1, MinInt64, MinInt64-1) and 17 texts that are not integers although a digit loop might accept them (a present but empty field, a sign alone, two signs, a trailing sign, blanks, 0x1, 1e1, 1.0, 1_0, fullwidth and Arabic-Indic digits)" +
				", numerical symbols " + pick("{0,1,2,-3,2.5,x}", "{0,1,2,-3,2.5,x,1e9,''}") +
				" and, with keep and no-keep, length 0.." + pick("4", "6") + " over the large-magnitude symbols {1e9+4,1e9+7,1e9+13,1e9+16,1e15,1e15+1,-1e12-3,1} (unit-size spread at huge magnitude, identical huge values by repetition; reference moments computed exactly with rationals; tolerance 1e-9 relative + 1e-12 of the largest |sample|)" +
				"; each sequence is applied to a fresh object and every public accessor is compared with an independent fold after every prefix; sequences are enumerated as all distinct permutations of every multiset and the accessor states of all permutations are compared (order independence). Trim: every table on grids up to 2x3" + pick("", " and 3x2") + " with cells in {absent," + pick("2,-1", "2,-1,0") +
				"} (every row/column non-empty), built in 3 different cell orders, x EVERY subset of the grid cells as predicate x {no follow-up sample, one more sample into each grid cell, a new row, a new column}. Splitter: every string up to length " + pick("6", "8") +
				" over {a,b,':',NUL} x delimiters {NUL,':','::','ab',':a',':::'}. Accessor independence: every enumerated sequence (and every Trim history and size case below) is applied a second time to a fresh object WITHOUT any accessor call before the last operation; the final accessor state must satisfy the oracle and equal that of the run with accessor calls. Trim histories (one long-lived table that is trimmed and sampled again): EVERY sequence of 0.." + pick("4", "5") +
				" operations over {sample into each cell of the grid {a,b}x{x,y}, into a new row, into a new column; Trim with each of the 15 non-empty cell subsets of that grid, Trim of everything, Trim of the cells of the new row/column, Trim of nothing}, the Trim oracle applied at every Trim and every accessor compared after every operation (rows and columns are re-created after a Trim removed them entirely; after a Trim the total of every row/column from which no Trim removed a present cell since it was created must equal the sum of its cells, the grand total when no listed column lost a cell, and OrderedRows/OrderedColumns under the value sorter must put the larger of two such totals first). " + genRule(q) + " " + sizeRule(q) + " states = distinct canonical accessor states reached (all prefixes are themselves enumerated sequences); transitions = Sample/Trim/Next operations applied to real objects. non-trivial = a sequence of >= 2 samples with >= 1 accepted sample; a Trim with a non-empty selection on a table of >= 2 cells; a splitter input containing the delimiter"
		},
		Assumptions: func(string) []string {
			return []string{
				"hash-map iteration order inside the aggregators is chosen by the Go runtime and is not enumerated; Trim cases are executed for three different map population orders and every execution must satisfy the oracle",
				"after a Trim the total of a row/column that LOST a present cell and survived (or, for a column, may have survived) is not compared, nor the grand total while such a column is listed (the statement does not say whether totals are recomputed; the implementation keeps the pre-trim totals); every other row/column - untouched by the Trims since it was created, or created after a Trim, also under the name of a row/column that a Trim removed entirely - is compared like on a fresh table; a column whose present cells were all selected but which has an unselected absent cell may stay or go",
				"numerical moments are compared with |got-want| <= 1e-9*|want| + 1e-12*max|sample| (a stable one-pass algorithm is ~1000x inside this at every magnitude)",
				"nearest-rank accepts index ceil(p*n)-1 or floor(p*n) (clamped); ties for the mode accept every most-frequent value; the sample standard deviation is only compared for n >= 2, min/max/mean for n >= 1",
				"increments are applied with Go int64 wrap-around in both the implementation and the reference fold",
				"size families: one fixed history per (shape, n), not all histories of that size; the accessors are compared after every prefix of up to 70 samples, around every power of two and at the end (not after every prefix), the reference is the same fold; numerical size shapes use generated decimal spellings whose value the generator states (nothing is parsed by the reference)",
				"in a Trim history a column that lost its cells at a Trim but had an unselected absent cell stays acceptable-either-way until a sample makes it present again or a later Trim selects its whole grid column (its total stays exempt)",
				"accumulator expressions are restricted to sumi, maxi, concatenation, group and column references whose value the reference computes itself; an arithmetic helper applied to a non-integer must give a non-integer text",
				"generated accumulator programs: neither the statement nor docs/usage/aggregators.md say what {.}, a data-column name, a group-column name or an unknown name yields inside a GROUP expression, or what a group-column name or an unknown name yields inside an ACCUMULATOR expression; for these only history independence is demanded (group of a sample = its group on a fresh aggregator; new column value = what a fresh aggregator started from the row before gives), the fresh aggregator being the same real code; with a sort expression only the SET of groups is compared (order: C13)",
			}
		},
		Worker:         worker,
		Replay:         replay,
		HangSeconds:    30,
		QuickBudget:    3 * time.Minute,
		ThoroughBudget: 20 * time.Minute,
	})
}
