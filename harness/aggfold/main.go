// Harness aggfold decides C07: the aggregators are exact folds of their sample
// history. Explicit exploration of ALL sample sequences up to a small length
// over tiny alphabets on the real objects (fresh object + replay of the
// sequence, oracle after EVERY prefix), grouped by multiset so that every
// permutation of the same samples is compared (order independence), every
// Trim predicate as a subset of the cells of small tables, and the numerical
// aggregator with nearest-rank accept-sets.
package main

import (
	"encoding/json"
	"fmt"
	"strings"
	"time"

	"verif/runner"
)

// ---------------------------------------------------------------- alphabets

// "" here = increment absent; then positive, negative, zero, non-integer, MaxInt64
var incAll = []string{"", "2", "-1", "0", "zz", "9223372036854775807"}

func counterAlphabet(incs []string) []string {
	var out []string
	for _, k := range []string{"a", "b", ""} {
		for _, inc := range incs {
			if inc == "" {
				out = append(out, k)
			} else {
				out = append(out, k+"\x00"+inc)
			}
		}
	}
	return out
}

// two-level alphabets: first [delim second [delim inc]]
func pairAlphabet(firsts, seconds, incs []string, delim string) []string {
	var out []string
	for _, a := range firsts {
		out = append(out, a) // second part absent
		for _, b := range seconds {
			for _, inc := range incs {
				if inc == "" {
					out = append(out, a+delim+b)
				} else {
					out = append(out, a+delim+b+delim+inc)
				}
			}
		}
	}
	return out
}

type family struct {
	name    string
	config  string
	alpha   []string
	maxLen  int
	ordered bool // compare all permutations of a multiset (S7)
	run     func(samples []string) (result, []*fail)
}

func one(f func([]string) result) func([]string) (result, []*fail) {
	return func(s []string) (result, []*fail) {
		r := f(s)
		if r.f != nil {
			return r, []*fail{r.f}
		}
		return r, nil
	}
}

func families(quick bool) []family {
	incs := incAll
	pick := func(q, t int) int {
		if quick {
			return q
		}
		return t
	}
	keys := []string{"a", "b", ""}
	subs := []string{"x", "y", ""}
	fs := []family{
		{name: "counter", alpha: counterAlphabet(incs), maxLen: pick(4, 5), ordered: true, run: one(runCounter)},
		{name: "subkey", alpha: pairAlphabet(keys, subs, incs, "\x00"), maxLen: pick(3, 4), ordered: true, run: one(runSubKey)},
	}
	for _, d := range []string{"\x00", "::"} {
		d := d
		fs = append(fs, family{name: "table", config: d, alpha: pairAlphabet(keys, subs, incs, d), maxLen: pick(3, 4), ordered: true,
			run: one(func(s []string) result { return runTable(d, s) })})
	}
	for i := range accPrograms {
		p := &accPrograms[i]
		fs = append(fs, family{name: "accum", config: p.name, alpha: p.alphabet, maxLen: pick(4, 5), ordered: true,
			run: one(func(s []string) result { return runAccum(p, s) })})
	}
	var nums []string
	for i, y := range numSymbols {
		if quick && i >= 6 {
			break
		}
		nums = append(nums, y.s)
	}
	for _, cfg := range []string{"keep", "keep-reverse", "nokeep"} {
		cfg := cfg
		fs = append(fs, family{name: "numerical", config: cfg, alpha: nums, maxLen: pick(5, 6), ordered: true,
			run: func(s []string) (result, []*fail) { return runNumerical(cfg, s) }})
	}
	var large []string
	for _, y := range numLarge {
		large = append(large, y.s)
	}
	for _, cfg := range []string{"keep-large", "nokeep-large"} {
		cfg := cfg
		fs = append(fs, family{name: "numerical", config: cfg, alpha: large, maxLen: pick(4, 6), ordered: true,
			run: func(s []string) (result, []*fail) { return runNumerical(cfg, s) }})
	}
	return fs
}

// ---------------------------------------------------------------- trim states

var trimCols = []string{"a", "b", "c"}
var trimRows = []string{"x", "y", "z"}

// trimStates enumerates every table on an nc x nr grid whose cells are absent
// or hold one of vals, such that every row and every column has a present cell.
func trimStates(nc, nr int, vals []string, f func(cells []int)) {
	cells := make([]int, nc*nr) // 0 = absent, i>0 = vals[i-1]
	var rec func(i int)
	rec = func(i int) {
		if i == len(cells) {
			for c := 0; c < nc; c++ {
				any := false
				for r := 0; r < nr; r++ {
					any = any || cells[c*nr+r] != 0
				}
				if !any {
					return
				}
			}
			for r := 0; r < nr; r++ {
				any := false
				for c := 0; c < nc; c++ {
					any = any || cells[c*nr+r] != 0
				}
				if !any {
					return
				}
			}
			f(cells)
			return
		}
		for v := 0; v <= len(vals); v++ {
			cells[i] = v
			rec(i + 1)
		}
	}
	rec(0)
}

// trimBuild gives the sample sequence that builds the state, in one of three
// cell orders (so that the maps are populated in different orders).
func trimBuild(nc, nr int, cells []int, vals []string, order int) []string {
	var idx []int
	switch order {
	case 0:
		for i := range cells {
			idx = append(idx, i)
		}
	case 1:
		for i := len(cells) - 1; i >= 0; i-- {
			idx = append(idx, i)
		}
	default:
		for r := 0; r < nr; r++ {
			for c := 0; c < nc; c++ {
				idx = append(idx, c*nr+r)
			}
		}
	}
	var out []string
	for _, i := range idx {
		if cells[i] == 0 {
			continue
		}
		out = append(out, trimCols[i/nr]+"\x00"+trimRows[i%nr]+"\x00"+vals[cells[i]-1])
	}
	return out
}

func trimFollowUps(nc, nr int) []*string {
	out := []*string{nil}
	for c := 0; c < nc; c++ {
		for r := 0; r < nr; r++ {
			s := trimCols[c] + "\x00" + trimRows[r]
			out = append(out, &s)
		}
	}
	newRow := trimCols[0] + "\x00n\x003"
	newCol := "m\x00" + trimRows[0] + "\x00-2"
	return append(out, &newRow, &newCol)
}

// ---------------------------------------------------------------- worker

func report(w *runner.W, c Case, fails []*fail) {
	for _, f := range fails {
		w.Violation(f.sig, f.detail, c)
	}
}

func worker(w *runner.W) {
	quick := w.Quick()
	var caseNo int64
	expired := false

	// --- sample-sequence families
	for _, fam := range families(quick) {
		fam := fam
		for n := 0; n <= fam.maxLen && !expired; n++ {
			forEachMultiset(len(fam.alpha), n, func(ms []int) bool {
				caseNo++
				if !w.Owns(caseNo) {
					return true
				}
				if w.Expired() {
					expired = true
					return false
				}
				perm := append([]int{}, ms...)
				first := true
				var firstKey string
				var firstSamples []string
				for {
					samples := make([]string, n)
					for i, s := range perm {
						samples[i] = fam.alpha[s]
					}
					c := Case{Family: fam.name, Config: fam.config, Samples: samples}
					w.SetCase(func() any { return c })
					res, fails := fam.run(samples)
					w.Eval(n >= 2 && res.accepted >= 1)
					w.Add("transitions", int64(res.transitions))
					w.Add("sequences_"+fam.name, 1)
					report(w, c, fails)
					if len(fails) == 0 || (fam.name == "numerical" && !res.fatal) {
						w.Outcome(fam.name, fam.config, res.state)
						if fam.ordered {
							if first {
								firstKey, firstSamples, first = res.orderKey, samples, false
							} else if res.orderKey != firstKey { // S7
								w.Violation("C07/"+fam.name+"/order-dependent",
									fmt.Sprintf("the same samples in two orders give different results\norder 1 %q -> %s\norder 2 %q -> %s", firstSamples, firstKey, samples, res.orderKey), c)
							}
						}
						if w.WantSample() && n == fam.maxLen && res.accepted == n && caseNo%97 == 0 {
							w.Sample(map[string]any{"case": c, "state": res.state})
						}
					}
					if !nextPermutation(perm) {
						break
					}
				}
				w.Add("multisets", 1)
				return true
			})
		}
	}

	// --- Trim: every subset of the grid cells of every small table
	type grid struct{ nc, nr int }
	grids := []grid{{1, 1}, {1, 2}, {2, 1}, {2, 2}, {1, 3}, {2, 3}}
	vals := []string{"2", "-1"}
	if !quick {
		grids = append(grids, grid{3, 1}, grid{3, 2})
		vals = []string{"2", "-1", "0"}
	}
	for _, g := range grids {
		if expired {
			break
		}
		follows := trimFollowUps(g.nc, g.nr)
		trimStates(g.nc, g.nr, vals, func(cells []int) {
			caseNo++
			if expired || !w.Owns(caseNo) {
				return
			}
			if w.Expired() {
				expired = true
				return
			}
			ncell := g.nc * g.nr
			for mask := 0; mask < 1<<ncell; mask++ {
				selected := map[string]bool{}
				var sel []string
				for i := 0; i < ncell; i++ {
					if mask&(1<<i) != 0 {
						k := cellKey(trimCols[i/g.nr], trimRows[i%g.nr])
						selected[k] = true
						sel = append(sel, k)
					}
				}
				for order := 0; order < 3; order++ {
					samples := trimBuild(g.nc, g.nr, cells, vals, order)
					for _, fo := range follows {
						c := Case{Family: "trim", Samples: samples, TrimCells: sel, Follow: fo}
						w.SetCase(func() any { return c })
						res := runTrim(samples, selected, fo)
						w.Eval(mask != 0 && len(samples) >= 2)
						w.Add("transitions", int64(res.transitions))
						w.Add("trim_executions", 1)
						if res.f != nil {
							w.Violation(res.f.sig, res.f.detail, c)
						} else {
							w.Outcome("trim", res.state)
							if w.WantSample() && mask == 5 && fo != nil && len(samples) >= 4 && order == 2 {
								w.Sample(map[string]any{"case": c, "state": res.state})
							}
						}
					}
				}
			}
			w.Add("trim_tables", 1)
		})
	}

	// --- splitter
	delims := []string{"\x00", ":", "::", "ab", ":a", ":::"}
	maxLen := 6
	if !quick {
		maxLen = 8
	}
	alpha := []byte{'a', 'b', ':', 0}
	for n := 0; n <= maxLen && !expired; n++ {
		cur := make([]int, n)
		for {
			caseNo++
			if w.Owns(caseNo) {
				if w.Expired() {
					expired = true
					break
				}
				b := make([]byte, n)
				for i, c := range cur {
					b[i] = alpha[c]
				}
				for _, d := range delims {
					c := Case{Family: "splitter", Config: d, Samples: []string{string(b)}}
					w.SetCase(func() any { return c })
					res := runSplitter(d, string(b))
					w.Eval(strings.Contains(string(b), d))
					w.Add("transitions", int64(res.transitions))
					w.Add("splitter_inputs", 1)
					if res.f != nil {
						w.Violation(res.f.sig, res.f.detail, c)
					} else {
						w.Outcome("splitter", d, res.state)
					}
				}
			}
			i := n - 1
			for ; i >= 0; i-- {
				cur[i]++
				if cur[i] < len(alpha) {
					break
				}
				cur[i] = 0
			}
			if i < 0 {
				break
			}
		}
	}
}

func replay(w *runner.W, raw json.RawMessage) {
	var c Case
	if err := json.Unmarshal(raw, &c); err != nil {
		panic(err)
	}
	var fails []*fail
	switch c.Family {
	case "counter":
		_, fails = one(runCounter)(c.Samples)
	case "subkey":
		_, fails = one(runSubKey)(c.Samples)
	case "table":
		_, fails = one(func(s []string) result { return runTable(c.Config, s) })(c.Samples)
	case "accum":
		p := accProgramByName(c.Config)
		if p == nil {
			panic("unknown accumulator program " + c.Config)
		}
		_, fails = one(func(s []string) result { return runAccum(p, s) })(c.Samples)
	case "numerical":
		_, fails = runNumerical(c.Config, c.Samples)
	case "trim":
		sel := map[string]bool{}
		for _, k := range c.TrimCells {
			sel[k] = true
		}
		// the map order inside Trim is chosen by the Go runtime: repeat
		for i := 0; i < 8 && len(fails) == 0; i++ {
			if r := runTrim(c.Samples, sel, c.Follow); r.f != nil {
				fails = append(fails, r.f)
			}
		}
	case "splitter":
		if r := runSplitter(c.Config, c.Samples[0]); r.f != nil {
			fails = append(fails, r.f)
		}
	default:
		panic("unknown family " + c.Family)
	}
	report(w, c, fails)
	// order dependence is a property of two runs: replay the recorded order
	// against the sorted order of the same samples
	if len(fails) == 0 && c.Family != "trim" && c.Family != "splitter" {
		replayOrder(w, c)
	}
}

func replayOrder(w *runner.W, c Case) {
	for _, fam := range families(false) {
		if fam.name != c.Family || fam.config != c.Config {
			continue
		}
		sorted := append([]string{}, c.Samples...)
		for i := range sorted { // insertion sort: any fixed other order will do
			for j := i; j > 0 && sorted[j] < sorted[j-1]; j-- {
				sorted[j], sorted[j-1] = sorted[j-1], sorted[j]
			}
		}
		a, _ := fam.run(c.Samples)
		b, _ := fam.run(sorted)
		if a.orderKey != b.orderKey {
			w.Violation("C07/"+fam.name+"/order-dependent", fmt.Sprintf("order 1 %q -> %s\norder 2 %q -> %s", c.Samples, a.orderKey, sorted, b.orderKey), c)
		}
		return
	}
}

func main() {
	runner.Main(&runner.Spec{
		Name:       "aggfold",
		Properties: []string{"C07"},
		Level:      "model_checking",
		Rule: func(prop, tier string) string {
			q := tier != "thorough"
			pick := func(a, b string) string {
				if q {
					return a
				}
				return b
			}
			return "real MatchCounter / SubKeyCounter / TableAggregator (delimiters NUL and '::') / AccumulatingGroup (3 programs: sumi without groups; 1 group with sumi, count, maxi, a column reference, a forward column reference, last value and concatenation; 2 groups) / MatchNumerical (keep, keep+reverse, no-keep): EVERY sample sequence of length 0.." +
				pick("4 (counter), 3 (sub-key, table), 4 (accumulator), 5 (numerical)", "5 (counter), 4 (sub-key, table), 5 (accumulator), 6 (numerical)") +
				" over keys {a,b,''} x sub-keys/rows {absent,x,y,''} x increments {absent,2,-1,0,zz,MaxInt64}" +
				", numerical symbols " + pick("{0,1,2,-3,2.5,x}", "{0,1,2,-3,2.5,x,1e9,''}") +
				" and, with keep and no-keep, length 0.." + pick("4", "6") + " over the large-magnitude symbols {1e9+4,1e9+7,1e9+13,1e9+16,1e15,1e15+1,-1e12-3,1} (unit-size spread at huge magnitude, identical huge values by repetition; reference moments computed exactly with rationals; tolerance 1e-9 relative + 1e-12 of the largest |sample|)" +
				"; each sequence is applied to a fresh object and every public accessor is compared with an independent fold after every prefix; sequences are enumerated as all distinct permutations of every multiset and the accessor states of all permutations are compared (order independence). Trim: every table on grids up to 2x3" + pick("", " and 3x2") + " with cells in {absent," + pick("2,-1", "2,-1,0") +
				"} (every row/column non-empty), built in 3 different cell orders, x EVERY subset of the grid cells as predicate x {no follow-up sample, one more sample into each grid cell, a new row, a new column}. Splitter: every string up to length " + pick("6", "8") +
				" over {a,b,':',NUL} x delimiters {NUL,':','::','ab',':a',':::'}. states = distinct canonical accessor states reached (all prefixes are themselves enumerated sequences); transitions = Sample/Trim/Next operations applied to real objects. non-trivial = a sequence of >= 2 samples with >= 1 accepted sample; a Trim with a non-empty selection on a table of >= 2 cells; a splitter input containing the delimiter"
		},
		Assumptions: func(string) []string {
			return []string{
				"hash-map iteration order inside the aggregators is chosen by the Go runtime and is not enumerated; Trim cases are executed for three different map population orders and every execution must satisfy the oracle",
				"after Trim the row/column/grand totals are not compared (the statement does not say whether totals are recomputed); a column whose present cells were all selected but which has an unselected absent cell may stay or go",
				"numerical moments are compared with |got-want| <= 1e-9*|want| + 1e-12*max|sample| (a stable one-pass algorithm is ~1000x inside this at every magnitude)",
				"nearest-rank accepts index ceil(p*n)-1 or floor(p*n) (clamped); ties for the mode accept every most-frequent value; the sample standard deviation is only compared for n >= 2, min/max/mean for n >= 1",
				"increments are applied with Go int64 wrap-around in both the implementation and the reference fold",
				"accumulator expressions are restricted to sumi, maxi, concatenation, group and column references whose value the reference computes itself; an arithmetic helper applied to a non-integer must give a non-integer text",
			}
		},
		Worker:         worker,
		Replay:         replay,
		HangSeconds:    30,
		QuickBudget:    3 * time.Minute,
		ThoroughBudget: 20 * time.Minute,
	})
}
