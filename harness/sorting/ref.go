package main

// Reference knowledge for C13. Nothing here imports rare. The key pool is a
// table: for every key the harness states what the key IS (a number and its
// magnitude, a weekday/month and its calendar position, a date and its
// instant, or plain text); nothing is parsed by the reference.
//
// Statement clauses (C13):
//  (S1) "the order of rows and columns depends only on the set of keys and
//        their values, never on arrival order or hash-map iteration"
//  (S2) "any two distinct keys are ordered the same way every time"
//  (S3) "these pairwise decisions are mutually consistent (transitive)"
//  (S4) "every permutation of the same data sorts to the same sequence"
//  (S5) "`value` puts larger totals first"
//  (S6) "`numeric` orders numbers by magnitude"
//  (S7) "`contextual` orders weekday and month names by calendar position"
//  (S8) "`date` orders chronologically"
//  (S9) "reversing reverses the order"

import (
	"math"
	"sort"
)

type kind int

const (
	kText kind = iota
	kNumber
	kNaN // parses as a floating-point NaN: a "number" without a magnitude
	kWeekday
	kMonth
	kDate
)

type poolKey struct {
	s      string
	kind   kind
	num    float64 // kNumber: magnitude
	pos    int     // kWeekday: Sunday=0..Saturday=6; kMonth: January=0..
	big    bool    // kNumber: |value| >= 2^53, spelled so that several keys are one float64
	layout string  // kDate: which spelling
	day    int     // kDate: days since 2000-01-01 (only the order matters)
	// kDate keys of the date views (dateviews.go): the instant, seconds since 1970-01-01T00:00:00Z and nanoseconds
	hasInst bool
	sec, ns int64
	// generated: a key of the size families (size.go), not of the hand-written pool
	generated bool
}

var pool = []poolKey{
	{s: "1", kind: kNumber, num: 1},
	{s: "1.0", kind: kNumber, num: 1},
	{s: "2", kind: kNumber, num: 2},
	{s: "10", kind: kNumber, num: 10},
	{s: "-3", kind: kNumber, num: -3},
	{s: "1x", kind: kText},
	{s: "a", kind: kText},
	{s: "B", kind: kText},
	{s: "", kind: kText},
	{s: "mon", kind: kWeekday, pos: 1},
	{s: "Tue", kind: kWeekday, pos: 2},
	{s: "sunday", kind: kWeekday, pos: 0},
	{s: "monday", kind: kWeekday, pos: 1},
	{s: "jan", kind: kMonth, pos: 0},
	{s: "Feb", kind: kMonth, pos: 1},
	{s: "dec", kind: kMonth, pos: 11},
	{s: "2020-01-02", kind: kDate, layout: "iso", day: 7306},
	{s: "2019-12-31", kind: kDate, layout: "iso", day: 7304},
	{s: "01/02/2006", kind: kDate, layout: "us", day: 2193},
	{s: "12/31/2005", kind: kDate, layout: "us", day: 2191},
	{s: "nan", kind: kNaN, num: math.NaN()},
	// Integers beyond 2^53 and their neighbours: as float64 the three keys of
	// each sign are the SAME number (the magnitude a float64 comparison can
	// see), so the semantic clause S6 accepts any order among them; what is
	// demanded is that the decisions are strict, transitive and permutation
	// independent (S2-S4) however the comparator mixes integer and float paths.
	{s: "9007199254740992", kind: kNumber, num: 9007199254740992, big: true},
	{s: "9007199254740993", kind: kNumber, num: 9007199254740992, big: true},
	{s: "9007199254740992.5", kind: kNumber, num: 9007199254740992, big: true},
	{s: "9.007199254740993e15", kind: kNumber, num: 9007199254740992, big: true},
	{s: "-9007199254740992", kind: kNumber, num: -9007199254740992, big: true},
	{s: "-9007199254740993", kind: kNumber, num: -9007199254740992, big: true},
	{s: "-9007199254740992.5", kind: kNumber, num: -9007199254740992, big: true},
}

// Views: the enumerations (subsets, permutations, axioms) run inside a view of
// the pool, so that adding keys for one defect class does not multiply the
// whole space.
type view struct {
	name      string
	keys      []int   // pool indexes
	values    []int64 // totals a value sort sees (name sorts see an alternating 1,2,...)
	valueOnly bool    // only the value sorts are run on this view
	maxSetQ   int     // largest subset, quick
	maxSetT   int     // largest subset, thorough
	// calendar views (homogeneous sets of weekday or of month names in one spelling):
	calendarOnly bool   // only the contextual and date sorts are run on this view
	fullSet      bool   // the complete key set of the view is a data set as well
	spelling     string // appended to the input class of a signature ("" = not a calendar / date view)
	dateOnly     bool   // date views (dateviews.go): only the date sorts are run on this view
}

// curView is the view the case under execution belongs to (set by the worker
// loops and by replay). It only contributes the spelling suffix of signatures.
var curView *view

// sigClass is the input class as it appears in a signature: inside a calendar
// view the spelling form of the names is part of the class, so that a failure
// on a homogeneous set of recognised names (every full name / abbreviation in
// lower case, Capitalised, UPPER case) is a defect class of its own and is not
// one of the classes of the main view (mixtures of calendar names and other
// keys, two spellings of one day).
func sigClass(class string) string {
	if curView != nil && curView.spelling != "" {
		return class + "/" + curView.spelling
	}
	return class
}

const (
	maxInt64 = int64(math.MaxInt64)
	minInt64 = int64(math.MinInt64)
)

func poolRange(from, to int) []int {
	var out []int
	for i := from; i < to; i++ {
		out = append(out, i)
	}
	return out
}

func poolIdx(names ...string) []int {
	var out []int
	for _, n := range names {
		i := poolIndex(n)
		if i < 0 {
			panic("harness: not in pool: " + n)
		}
		out = append(out, i)
	}
	return out
}

var views = append(append(baseViews, calendarViews()...), dateViews()...)

var baseViews = []view{
	{name: "main", keys: poolRange(0, 21), values: []int64{1, 2}, maxSetQ: 4, maxSetT: 5},
	{name: "beyond-2^53", keys: append(poolRange(21, 28), poolIdx("2", "10", "-3", "1x", "a")...), values: []int64{1, 2}, maxSetQ: 4, maxSetT: 5},
	// totals whose difference does not fit int64 (value sorts only)
	{name: "huge-totals", keys: poolIdx("1", "a", "mon", "B"), values: []int64{1, 2, 6000000000000000000, -6000000000000000000, maxInt64, minInt64}, valueOnly: true, maxSetQ: 3, maxSetT: 4},
}

// ---- calendar views
//
// S7 "`contextual` orders weekday and month names by calendar position": every
// weekday and every month, as full name and as 3-letter abbreviation, in lower
// case, Capitalised and UPPER case (the shortest names: sun, may; the longest:
// wednesday, september). One view per (weekday|month, spelling form), plus
// views in which every name has a different form. The names are a table: the
// reference states the position of each, nothing is parsed.

var weekdayNames = []string{"sunday", "monday", "tuesday", "wednesday", "thursday", "friday", "saturday"}
var monthNames = []string{"january", "february", "march", "april", "may", "june", "july", "august", "september", "october", "november", "december"}

var spellingForms = []string{"full-name-lower-case", "full-name-capitalised", "full-name-upper-case", "abbreviation-lower-case", "abbreviation-capitalised", "abbreviation-upper-case"}

// spell writes a lower-case ASCII name in one of the six forms.
func spell(name string, form int) string {
	if form >= 3 {
		name = name[:3]
	}
	b := []byte(name)
	for i := range b {
		if form%3 == 2 || (form%3 == 1 && i == 0) {
			b[i] -= 'a' - 'A'
		}
	}
	return string(b)
}

// calendarKey returns the pool index of a weekday/month spelling, adding it
// when the pool does not have it yet (mon, Tue, sunday, ... are shared with the
// main view).
func calendarKey(s string, k kind, pos int) int {
	if i := poolIndex(s); i >= 0 {
		if pool[i].kind != k || pool[i].pos != pos {
			panic("harness: pool disagrees about " + s)
		}
		pool[i].generated = false // (also) a key of a calendar view
		return i
	}
	pool = append(pool, poolKey{s: s, kind: k, pos: pos})
	return len(pool) - 1
}

func calendarViews() []view {
	var out []view
	for _, set := range []struct {
		name  string
		names []string
		kind  kind
	}{{"weekday", weekdayNames, kWeekday}, {"month", monthNames, kMonth}} {
		mk := func(tag, spelling string, form func(pos int) int) {
			vw := view{name: set.name + "/" + tag, values: []int64{1, 2}, maxSetQ: 3, maxSetT: 5, calendarOnly: true, fullSet: true, spelling: spelling}
			for pos, n := range set.names {
				vw.keys = append(vw.keys, calendarKey(spell(n, form(pos)), set.kind, pos))
			}
			out = append(out, vw)
		}
		for f, tag := range spellingForms {
			f := f
			mk(tag, tag, func(int) int { return f })
		}
		// every name in another form than its neighbours; a: wed, SEPTEMBER; b: Wednesday, SEP
		mk("mixed-spellings-a", "mixed-spellings", func(pos int) int { return pos % 6 })
		mk("mixed-spellings-b", "mixed-spellings", func(pos int) int { return (pos + 4) % 6 })
	}
	return out
}

// forEachBoundedPerm: the permutations handed to the sorter for a data set too
// large for all n! of them: every affine arrangement i -> (o + i*s) mod n of
// the given order (all n rotations for s=1, all n rotations of the reversal
// for s=n-1, the interleavings for the other strides coprime to n), and each
// of them with every adjacent transposition: n*phi(n)*n permutations.
func forEachBoundedPerm(n int, f func(p []int) bool) {
	gcd := func(a, b int) int {
		for b != 0 {
			a, b = b, a%b
		}
		return a
	}
	p := make([]int, n)
	for s := 1; s < n; s++ {
		if gcd(s, n) != 1 {
			continue
		}
		for o := 0; o < n; o++ {
			for i := range p {
				p[i] = (o + i*s) % n
			}
			if !f(p) {
				return
			}
			for j := 0; j+1 < n; j++ {
				p[j], p[j+1] = p[j+1], p[j]
				ok := f(p)
				p[j], p[j+1] = p[j+1], p[j]
				if !ok {
					return
				}
			}
		}
	}
}

// allPermsUpTo: data sets up to this size are handed over in every
// permutation, larger ones (the 12 months) in the bounded family above.
const allPermsUpTo = 8

func forEachDataPerm(n int, f func(p []int) bool) {
	if n <= allPermsUpTo {
		forEachPerm(n, f)
		return
	}
	forEachBoundedPerm(n, f)
}

func poolIndex(s string) int {
	for i := range pool {
		if pool[i].s == s {
			return i
		}
	}
	return -1
}

// classify names the deciding level and the input class of a key set under a
// sort mode. It is used for signatures and to decide which semantic clause
// applies; it never decides pass/fail by itself.
//
// docs/usage/aggregators.md: numeric "falls back to alphanumeric", contextual
// "Falls back to numeric", date "Falls back to contextual": a key set without
// dates is decided by the contextual level, one without calendar names by the
// numeric level.
func classify(mode string, keys []*poolKey, values []int64) (level, class string) {
	return classifyEx(mode, keys, values, true)
}

// classifyEx: tiesFirst=false is used where some of the keys only played the
// role of "whatever the instance compared before" (they are not sorted
// together with the others, so their ties are irrelevant).
func classifyEx(mode string, keys []*poolKey, values []int64, tiesFirst bool) (level, class string) {
	var nNum, nNaN, nWd, nMo, nDate, nText int
	layouts := map[string]bool{}
	for _, k := range keys {
		switch k.kind {
		case kNumber:
			nNum++
		case kNaN:
			nNaN++
		case kWeekday:
			nWd++
		case kMonth:
			nMo++
		case kDate:
			nDate++
			layouts[k.layout] = true
		default:
			nText++
		}
	}
	n := len(keys)
	switch mode {
	case "text":
		return "text", "any-keys"
	case "value":
		seen := map[int64]bool{}
		tied := false
		mn, mx := int64(0), int64(0)
		for i, v := range values {
			if seen[v] {
				tied = true
			}
			seen[v] = true
			if i == 0 || v < mn {
				mn = v
			}
			if i == 0 || v > mx {
				mx = v
			}
		}
		if mn < 0 && mx > 0 && mx > maxInt64+mn { // mx - mn overflows int64
			return "value", "totals-differ-by-more-than-maxint64"
		}
		if tied {
			return "value", "tied-values"
		}
		return "value", "distinct-values"
	case "date":
		if nDate > 0 {
			if nDate == n && len(layouts) == 1 {
				// two distinct texts of one instant (same moment written with two zone offsets): S8 allows
				// either order, S2 still wants one; a failure class of its own, like two spellings of one weekday
				if tiesFirst && sameInstant(keys) {
					return "date", "date-same-instant"
				}
				return "date", "all-date-same-layout"
			}
			return "date", "date-mixture"
		}
		fallthrough
	case "contextual":
		if nWd+nMo > 0 {
			switch {
			case nWd == n:
				if samePosition(keys) {
					return "contextual", "weekday-same-position"
				}
				return "contextual", "all-weekday"
			case nMo == n:
				if samePosition(keys) {
					return "contextual", "month-same-position"
				}
				return "contextual", "all-month"
			}
			return "contextual", "calendar-mixture"
		}
		fallthrough
	case "numeric":
		// Ties come first: two distinct keys that the numeric comparison
		// treats as the same number (or a NaN next to a number) are a failure
		// class of their own whatever else is in the set. This keeps
		// "mixed-number-text" free of ties.
		if tiesFirst {
			var nums []*poolKey
			for _, k := range keys {
				if k.kind == kNumber {
					nums = append(nums, k)
				}
			}
			if equalBig(nums) {
				return "numeric", "same-float64-beyond-2^53"
			}
			if equalMagnitudes(nums) {
				return "numeric", "equal-number-spellings"
			}
			if nNaN > 0 && nNum > 0 {
				return "numeric", "nan-key"
			}
		}
		nonNum := n - nNum - nNaN
		switch {
		case nNum+nNaN > 0 && nonNum > 0:
			return "numeric", "mixed-number-text"
		case nNum+nNaN == n:
			return "numeric", "all-number"
		}
		return "numeric", "all-text"
	}
	panic("harness: unknown mode " + mode)
}

func samePosition(keys []*poolKey) bool {
	seen := map[int]bool{}
	for _, k := range keys {
		if seen[k.pos] {
			return true
		}
		seen[k.pos] = true
	}
	return false
}

func equalBig(keys []*poolKey) bool {
	for i := range keys {
		for j := i + 1; j < len(keys); j++ {
			if keys[i].big && keys[j].big && keys[i].num == keys[j].num {
				return true
			}
		}
	}
	return false
}

func equalMagnitudes(keys []*poolKey) bool {
	for i := range keys {
		for j := i + 1; j < len(keys); j++ {
			if keys[i].num == keys[j].num {
				return true
			}
		}
	}
	return false
}

// monotone reports whether xs is non-decreasing (desc: non-increasing).
func monotone(xs []float64, desc bool) bool {
	return sort.SliceIsSorted(xs, func(i, j int) bool {
		if desc {
			return xs[i] > xs[j]
		}
		return xs[i] < xs[j]
	})
}

// semanticViolation checks the clause of the statement that applies to this
// output (S5..S8); "" when it holds or when no clause applies.
func semanticViolation(mode string, desc bool, out []*poolKey, outValues []int64) string {
	level, class := classify(mode, out, outValues)
	switch {
	case level == "value": // S5 (and S9 for :asc)
		var xs []float64
		for _, v := range outValues {
			xs = append(xs, float64(v))
		}
		if !monotone(xs, desc) {
			if desc {
				return "larger totals are not first"
			}
			return "ascending value order is not ascending"
		}
	case level == "numeric" && mode == "numeric": // S6: the numbers among the keys appear by magnitude
		// (only demanded of the numeric mode itself: the statement says nothing
		// about what contextual/date do with numbers)
		var xs []float64
		for _, k := range out {
			if k.kind == kNumber {
				xs = append(xs, k.num)
			}
		}
		if !monotone(xs, desc) {
			return "the numeric keys are not in order of magnitude"
		}
	case level == "contextual" && mode == "contextual" && (class == "all-weekday" || class == "weekday-same-position"): // S7
		// the statement does not say on which day the week starts: accept Sunday-first and Monday-first
		var sun, mon []float64
		for _, k := range out {
			sun = append(sun, float64(k.pos))
			mon = append(mon, float64((k.pos+6)%7))
		}
		if !monotone(sun, desc) && !monotone(mon, desc) {
			return "weekday names are not in calendar order (neither Sunday-first nor Monday-first)"
		}
	case level == "contextual" && mode == "contextual" && (class == "all-month" || class == "month-same-position"): // S7
		var xs []float64
		for _, k := range out {
			xs = append(xs, float64(k.pos))
		}
		if !monotone(xs, desc) {
			return "month names are not in calendar order"
		}
	case level == "date" && (class == "all-date-same-layout" || class == "date-same-instant"): // S8
		// (exact comparison of the instants; texts of one instant may come in any order)
		if !chronological(out, desc) {
			return "dates are not in chronological order"
		}
	}
	return ""
}
