package main

// REFRESH HISTORIES of the accumulating group (rare reduce): "the order of rows
// ... depends only on the set of keys and their values, never on arrival order"
// (quantifier: "forall ... histories"). cmd/reduce.go calls Groups() on every
// screen refresh while the samples are still arriving, so how often and when
// Groups() was called before is part of the history the order must not depend
// on. The family enumerates
//
//   - accumulator PROGRAMS: 2 or 3 data columns of different accumulator kinds
//     (cnt: number of samples; sum; max; min; last: the last value seen) in every
//     order, so that every kind is the first, a middle and the last column, over a
//     one-part group key ({1}) and a two-part group key ({1},{2});
//   - SORT EXPRESSIONS reading each data column alone, each part of the group
//     key alone, a column joined with the group key, two columns joined, and the
//     arithmetic sum of the first and the last column;
//   - HISTORIES: every sequence of samples over 3 groups x 3 values (0: leaves a
//     sum and a maximum as they are; 2; 10: a longer text that sorts before "2"
//     as text and after it as a number), and between any two samples either no
//     refresh, Groups(ascending) or Groups(descending).
//
// Oracle, after every history, under the text sorter and the number-aware
// sorter, ascending and reversed:
//
//	(D) the order equals the order of a FRESH aggregator that received the same
//	    samples and was never asked for its groups before ("depends only on the
//	    set of keys and their values");
//	(T) two consecutive Groups() calls give the same order ("the same way every time");
//	(R) the order is the one dictated by the sort values the harness computes
//	    from its own fold of the samples: as text under ByName, by magnitude
//	    under ByNameSmart when all values are integers ("`numeric` orders numbers
//	    by magnitude"), exactly reversed under Reverse ("reversing reverses the
//	    order") when the values are pairwise distinct; groups with EQUAL sort
//	    values may come in either order as far as (R) is concerned (the value
//	    sequence must still be monotone) - that their order is one order is (D).

import (
	"fmt"
	"sort"
	"strconv"
	"strings"

	"rare/pkg/aggregation"
	"rare/pkg/aggregation/sorting"
	"rare/pkg/expressions"
	"rare/pkg/expressions/funclib"
)

// accKind: one kind of accumulating data column and the harness's own fold of it.
type accKind struct {
	name, expr, initial string
	init                int
	fold                func(cur, v int) int
}

var accKinds = []accKind{
	{"cnt", "{sumi {.} 1}", "0", 0, func(cur, v int) int { return cur + 1 }},
	{"sum", "{sumi {.} {3}}", "0", 0, func(cur, v int) int { return cur + v }},
	{"max", "{maxi {.} {3}}", "0", 0, func(cur, v int) int {
		if v > cur {
			return v
		}
		return cur
	}},
	{"min", "{mini {.} {3}}", "99", 99, func(cur, v int) int {
		if v < cur {
			return v
		}
		return cur
	}},
	{"last", "{3}", "0", 0, func(cur, v int) int { return v }},
}

// accAtom: what a sort expression reads: a data column (col >= 0) or a part of the group key.
type accAtom struct{ col, part int }

type accSortExpr struct {
	text  string
	atoms []accAtom
	sum   bool   // the arithmetic sum of the atoms (else: their texts joined with ':')
	class string // for the signature
}

type accProgram struct {
	parts int   // parts of the group key: 1 ({1}) or 2 ({1},{2})
	cols  []int // indices into accKinds
	exprs []accSortExpr
}

func (p *accProgram) String() string {
	names := make([]string, len(p.cols))
	for i, c := range p.cols {
		names[i] = accKinds[c].name
	}
	return fmt.Sprintf("key%d/%s", p.parts, strings.Join(names, ","))
}

// the three groups of a program: one-part keys a, b, c; two-part keys (a,x), (a,y), (b,x):
// the first and the second part each tie for two of the groups
var accGroupIDs = map[int][3][2]string{
	1: {{"a", "x"}, {"b", "x"}, {"c", "x"}},
	2: {{"a", "x"}, {"a", "y"}, {"b", "x"}},
}

var accSampleValues = []int{0, 2, 10}

func (p *accProgram) colClass(i int) string {
	switch {
	case i == len(p.cols)-1:
		return "last-column"
	case i == 0:
		return "first-column"
	}
	return "middle-column"
}

func mkAccProgram(parts int, cols []int) *accProgram {
	p := &accProgram{parts: parts, cols: append([]int{}, cols...)}
	n := len(cols)
	colAtom := func(i int) string { return "{" + accKinds[cols[i]].name + "}" }
	keyAtom := func(part int) string { return "{" + strconv.Itoa(part) + "}" }
	for i := range cols {
		p.exprs = append(p.exprs, accSortExpr{text: colAtom(i), atoms: []accAtom{{i, 0}}, class: "sort-by-" + p.colClass(i)})
	}
	for part := 0; part < parts; part++ {
		p.exprs = append(p.exprs, accSortExpr{text: keyAtom(part), atoms: []accAtom{{-1, part}}, class: "sort-by-group-key"})
	}
	for i := range cols {
		p.exprs = append(p.exprs, accSortExpr{text: colAtom(i) + ":" + keyAtom(parts-1), atoms: []accAtom{{i, 0}, {-1, parts - 1}}, class: "sort-by-column-and-group-key"})
	}
	for i := range cols {
		j := (i + 1) % n
		p.exprs = append(p.exprs, accSortExpr{text: colAtom(i) + ":" + colAtom(j), atoms: []accAtom{{i, 0}, {j, 0}}, class: "sort-by-two-columns"})
	}
	p.exprs = append(p.exprs, accSortExpr{text: "{sumi " + colAtom(0) + " " + colAtom(n-1) + "}", atoms: []accAtom{{0, 0}, {n - 1, 0}}, sum: true, class: "sort-by-column-arithmetic"})
	return p
}

// accPrograms: one-part key: every ordered pair of kinds, and of every set of
// three kinds one rotation (quick; chosen so that every kind is a first, a
// middle and a last column) or every ordered triple (thorough); two-part key:
// every ordered pair of the kinds cnt, max, last (quick) or of all kinds (thorough).
func accPrograms(quick bool) []*accProgram {
	var out []*accProgram
	k := len(accKinds)
	for _, parts := range []int{1, 2} {
		for a := 0; a < k; a++ {
			for b := 0; b < k; b++ {
				if a == b {
					continue
				}
				if parts == 2 && quick && (a%2 != 0 || b%2 != 0) {
					continue
				}
				out = append(out, mkAccProgram(parts, []int{a, b}))
			}
		}
		if parts == 2 {
			continue
		}
		for a := 0; a < k; a++ {
			for b := a + 1; b < k; b++ {
				for c := b + 1; c < k; c++ {
					set := []int{a, b, c}
					if quick {
						r := (a + b + c) % 3
						out = append(out, mkAccProgram(parts, []int{set[r], set[(r+1)%3], set[(r+2)%3]}))
					} else {
						for _, o := range [][3]int{{0, 1, 2}, {0, 2, 1}, {1, 0, 2}, {1, 2, 0}, {2, 0, 1}, {2, 1, 0}} {
							out = append(out, mkAccProgram(parts, []int{set[o[0]], set[o[1]], set[o[2]]}))
						}
					}
				}
			}
		}
	}
	return out
}

// depth: the longest sample sequence of a program: 3; thorough: 4 for the
// programs with two data columns and a one-part key.
func (p *accProgram) depth(quick bool) int {
	if !quick && p.parts == 1 && len(p.cols) == 2 {
		return 4
	}
	return 3
}

func accRefreshMaxDepth(quick bool) int {
	if quick {
		return 3
	}
	return 4
}

// one sample: group id 0..2 and a value
type accSample struct{ g, v int }

func (p *accProgram) element(s accSample) string {
	id := accGroupIDs[p.parts][s.g]
	return expressions.MakeArray(id[0], id[1], strconv.Itoa(s.v))
}

func (p *accProgram) groupKey(g int) string {
	id := accGroupIDs[p.parts][g]
	if p.parts == 1 {
		return id[0]
	}
	return id[0] + "\x00" + id[1]
}

var accRefreshKB, accRefreshFreshKB *expressions.KeyBuilder

func (p *accProgram) build(kb **expressions.KeyBuilder, e *accSortExpr) *aggregation.AccumulatingGroup {
	if *kb == nil {
		*kb = funclib.NewKeyBuilder()
	}
	g := aggregation.NewAccumulatingGroup(*kb)
	for part := 0; part < p.parts; part++ {
		if err := g.AddGroupExpr("g"+strconv.Itoa(part), "{"+strconv.Itoa(part+1)+"}"); err != nil {
			panic(err)
		}
	}
	for _, c := range p.cols {
		k := &accKinds[c]
		if err := g.AddDataExpr(k.name, k.expr, k.initial); err != nil {
			panic(err)
		}
	}
	if err := g.SetSort(e.text); err != nil {
		panic(err)
	}
	return g
}

// accRefreshSorters: the sorters of the final comparison. numeric: by magnitude when all values are integers.
var accRefreshSorters = []struct {
	name    string
	mk      func() sorting.NameSorter
	numeric bool
	rev     bool
}{
	{"ByName", func() sorting.NameSorter { return sorting.ByName }, false, false},
	{"Reverse(ByName)", func() sorting.NameSorter { return sorting.Reverse(sorting.NameSorter(sorting.ByName)) }, false, true},
	{"ByNameSmart", func() sorting.NameSorter { return sorting.ByNameSmart }, true, false},
	{"Reverse(ByNameSmart)", func() sorting.NameSorter { return sorting.Reverse(sorting.NameSorter(sorting.ByNameSmart)) }, true, true},
}

// the refresh between two samples: 0 none, 1 Groups(ByNameSmart), 2 Groups(Reverse(ByNameSmart))
const accRefreshChoices = 3

// accRefreshRef: the reference for one sample sequence: the groups, their sort
// values from the harness's own fold, and the fresh aggregator's orders.
type accRefreshRef struct {
	groups   []string          // sorted group keys
	vals     map[string]string // sort value per group
	ints     map[string]int    // the same as integer (allInt)
	allInt   bool
	distinct bool
	fresh    [][]string // per sorter
}

func (p *accProgram) reference(e *accSortExpr, samples []accSample) *accRefreshRef {
	// the fold: "the set of keys and their values"
	var have [3]bool
	var cols [3][]int
	for _, s := range samples {
		if !have[s.g] {
			have[s.g] = true
			cols[s.g] = make([]int, len(p.cols))
			for i, c := range p.cols {
				cols[s.g][i] = accKinds[c].init
			}
		}
		for i, c := range p.cols {
			cols[s.g][i] = accKinds[c].fold(cols[s.g][i], s.v)
		}
	}
	r := &accRefreshRef{vals: map[string]string{}, ints: map[string]int{}, allInt: true, distinct: true}
	seen := map[string]bool{}
	for g := 0; g < 3; g++ {
		if !have[g] {
			continue
		}
		key := p.groupKey(g)
		r.groups = append(r.groups, key)
		var texts []string
		total, isInt := 0, true
		for _, a := range e.atoms {
			if a.col >= 0 {
				texts = append(texts, strconv.Itoa(cols[g][a.col]))
				total += cols[g][a.col]
			} else {
				texts = append(texts, accGroupIDs[p.parts][g][a.part])
				isInt = false
			}
		}
		var v string
		switch {
		case e.sum:
			v = strconv.Itoa(total)
		default:
			v = strings.Join(texts, ":")
			isInt = isInt && len(texts) == 1
		}
		r.vals[key] = v
		if isInt {
			r.ints[key] = total
		} else {
			r.allInt = false
		}
		if seen[v] {
			r.distinct = false
		}
		seen[v] = true
	}
	sort.Strings(r.groups)
	return r
}

// less of the reference under one of the final sorters (ascending); ok=false: the reference does not model it
func (r *accRefreshRef) less(numeric bool) (func(a, b string) bool, bool) {
	if !numeric {
		return func(a, b string) bool { return r.vals[a] < r.vals[b] }, true
	}
	if r.allInt {
		return func(a, b string) bool { return r.ints[a] < r.ints[b] }, true
	}
	return nil, false
}

func showSamples(p *accProgram, samples []accSample, refresh []int) []string {
	var out []string
	for i, s := range samples {
		if i > 0 {
			switch refresh[i-1] {
			case 1:
				out = append(out, "Groups:asc")
			case 2:
				out = append(out, "Groups:desc")
			}
		}
		id := accGroupIDs[p.parts][s.g]
		out = append(out, fmt.Sprintf("S:%s:%s:%d", id[0], id[1], s.v))
	}
	return out
}

func parseRefreshOps(p *accProgram, ops []string) (samples []accSample, refresh []int) {
	pending := 0
	for _, op := range ops {
		switch {
		case op == "Groups:asc":
			pending = 1
		case op == "Groups:desc":
			pending = 2
		case strings.HasPrefix(op, "S:"):
			f := strings.Split(op, ":")
			g := -1
			for i, id := range accGroupIDs[p.parts] {
				if len(f) == 4 && id[0] == f[1] && id[1] == f[2] {
					g = i
				}
			}
			v, err := strconv.Atoi(f[len(f)-1])
			if g < 0 || err != nil {
				panic("replay: bad sample " + op)
			}
			if len(samples) > 0 {
				refresh = append(refresh, pending)
			}
			pending = 0
			samples = append(samples, accSample{g, v})
		default:
			panic("replay: unknown refresh-history operation " + op)
		}
	}
	return
}

// runAccumRefresh executes one refresh history of one (program, sort expression).
// ref: the reference of the sample sequence (shared by all refresh patterns of it;
// its fresh orders are filled in on first use).
func runAccumRefresh(p *accProgram, e *accSortExpr, samples []accSample, refresh []int, ref *accRefreshRef) (fs []*fail, groupsCalls int, final []string) {
	where := "NewAccumulatingGroup"
	desc := func() string {
		return fmt.Sprintf("program %s (group key of %d part(s); data columns %s), sort expression %q, history %q", p, p.parts, p.colsText(), e.text, showSamples(p, samples, refresh))
	}
	defer func() {
		if pn := recover(); pn != nil {
			fs = append(fs, failf("C13/panic/AccumulatingGroup."+where+"/"+panicClass(pn)+"/refresh-history", "panic in %s: %v; %s", where, pn, desc()))
		}
	}()
	seen := map[string]bool{}
	add := func(f *fail) {
		if !seen[f.sig] {
			seen[f.sig] = true
			fs = append(fs, f)
		}
	}
	if ref.fresh == nil {
		where = "fresh-aggregator"
		fresh := p.build(&accRefreshFreshKB, e)
		for _, s := range samples {
			fresh.Sample(p.element(s))
		}
		orders := make([][]string, len(accRefreshSorters))
		for si, so := range accRefreshSorters {
			orders[si] = groupNames(fresh.Groups(so.mk()))
		}
		ref.fresh = orders
	}
	where = "NewAccumulatingGroup"
	impl := p.build(&accRefreshKB, e)
	refreshed := false
	for i, s := range samples {
		if i > 0 && refresh[i-1] != 0 {
			where = "Groups"
			if refresh[i-1] == 1 {
				impl.Groups(sorting.ByNameSmart)
			} else {
				impl.Groups(sorting.Reverse(sorting.NameSorter(sorting.ByNameSmart)))
			}
			groupsCalls++
			refreshed = true
		}
		where = "Sample"
		impl.Sample(p.element(s))
	}
	for si, so := range accRefreshSorters {
		where = "Groups"
		got := groupNames(impl.Groups(so.mk()))
		again := groupNames(impl.Groups(so.mk()))
		groupsCalls += 2
		if si == 0 {
			final = got
		}
		sortedGot := append([]string{}, got...)
		sort.Strings(sortedGot)
		if !equalStrings(sortedGot, ref.groups) {
			add(failf("C13/accumulator/refresh-history/group-set-differs", "Groups(%s)=%q, the samples fold to the groups %q; %s", so.name, got, ref.groups, desc()))
			continue
		}
		if len(ref.groups) < 2 {
			continue
		}
		// (D) same data => same order, whatever was asked before
		if refreshed && !equalStrings(got, ref.fresh[si]) {
			add(failf("C13/accumulator/order-depends-on-earlier-Groups-calls/"+e.class, "Groups(%s)=%q; an aggregator that received the same samples and was never asked for its groups before gives %q (sort values by the harness's own fold: %s); %s", so.name, got, ref.fresh[si], showVals(ref.groups, ref.vals), desc()))
			continue
		}
		if !refreshed && !equalStrings(got, ref.fresh[si]) {
			add(failf("C13/accumulator/refresh-history/two-fresh-aggregators-differ/"+e.class, "Groups(%s)=%q; another aggregator that received the same samples gives %q (sort values by the harness's own fold: %s); %s", so.name, got, ref.fresh[si], showVals(ref.groups, ref.vals), desc()))
			continue
		}
		// (T)
		if !equalStrings(got, again) {
			add(failf("C13/accumulator/refresh-history/groups-order-not-repeatable/"+e.class, "two consecutive Groups(%s) calls give %q and %q; %s", so.name, got, again, desc()))
			continue
		}
		// (R) the order the sort values dictate
		less, ok := ref.less(so.numeric)
		if !ok {
			continue
		}
		if ref.distinct {
			want := append([]string{}, ref.groups...)
			sort.SliceStable(want, func(i, j int) bool { return less(want[i], want[j]) })
			if so.rev {
				for i, j := 0, len(want)-1; i < j; i, j = i+1, j-1 {
					want[i], want[j] = want[j], want[i]
				}
			}
			if !equalStrings(got, want) {
				add(failf("C13/accumulator/refresh-history/order-not-dictated-by-sort-values/"+e.class, "Groups(%s)=%q; the sort expression has the values %s, so the order must be %q; %s", so.name, got, showVals(ref.groups, ref.vals), want, desc()))
			}
			continue
		}
		for i := 1; i < len(got); i++ {
			x, y := got[i-1], got[i]
			if so.rev {
				x, y = y, x
			}
			if less(y, x) {
				add(failf("C13/accumulator/refresh-history/order-not-dictated-by-sort-values/"+e.class, "Groups(%s)=%q; the sort expression has the values %s: %q and %q are in the wrong order; %s", so.name, got, showVals(ref.groups, ref.vals), got[i-1], got[i], desc()))
				break
			}
		}
	}
	return
}

func (p *accProgram) colsText() string {
	var out []string
	for _, c := range p.cols {
		k := &accKinds[c]
		out = append(out, fmt.Sprintf("%s=%s (initial %s)", k.name, k.expr, k.initial))
	}
	return strings.Join(out, ", ")
}

// forEachSampleSeq: every sequence of exactly n samples over 3 groups x the sample values.
func forEachSampleSeq(n int, f func(samples []accSample) bool) {
	alpha := make([]accSample, 0, 3*len(accSampleValues))
	for g := 0; g < 3; g++ {
		for _, v := range accSampleValues {
			alpha = append(alpha, accSample{g, v})
		}
	}
	cur := make([]int, n)
	samples := make([]accSample, n)
	for {
		for i, c := range cur {
			samples[i] = alpha[c]
		}
		if !f(samples) {
			return
		}
		i := n - 1
		for ; i >= 0; i-- {
			cur[i]++
			if cur[i] < len(alpha) {
				break
			}
			cur[i] = 0
		}
		if i < 0 {
			return
		}
	}
}

// forEachRefreshPattern: every assignment of {none, Groups asc, Groups desc} to the gaps between n samples.
func forEachRefreshPattern(n int, f func(refresh []int)) {
	gaps := n - 1
	if gaps < 0 {
		gaps = 0
	}
	cur := make([]int, gaps)
	for {
		f(cur)
		i := gaps - 1
		for ; i >= 0; i-- {
			cur[i]++
			if cur[i] < accRefreshChoices {
				break
			}
			cur[i] = 0
		}
		if i < 0 {
			return
		}
	}
}

func findAccProgram(name string) *accProgram {
	for _, p := range accPrograms(false) {
		if p.String() == name {
			return p
		}
	}
	return nil
}

func accRefreshRule(quick bool) string {
	progs := accPrograms(quick)
	pairs, triples, twoPart, exprs := 0, 0, 0, 0
	for _, p := range progs {
		switch {
		case p.parts == 2:
			twoPart++
		case len(p.cols) == 2:
			pairs++
		default:
			triples++
		}
		exprs += len(p.exprs)
	}
	var kinds []string
	for _, k := range accKinds {
		kinds = append(kinds, fmt.Sprintf("%s=%s (initial %s)", k.name, k.expr, k.initial))
	}
	tri, two, depth := "one rotation of every set of three kinds (every kind being a first, a middle and a last column)", "every ordered pair of the kinds cnt, max, last", "0..3"
	if !quick {
		tri, two, depth = "every ordered triple of kinds", "every ordered pair of kinds", "0..3 (programs with two data columns and a one-part key: 0..4)"
	}
	return fmt.Sprintf(" Accumulating-group refresh histories: accumulator programs over the column kinds %s, samples being arrays (key part 1, key part 2, value): %d programs with the group key {1} and every ordered pair of kinds as data columns, %d with %s, %d with the two-part group key {1},{2} and %s; per program the sort expressions {column} for every data column, {part} for every part of the group key, {column}:{last key part} for every column, {column}:{next column} for every column (cyclically) and {sumi {first column} {last column}} (%d (program, sort expression) pairs in all); per pair EVERY sequence of %s samples over 3 groups (one-part keys a, b, c; two-part keys (a,x), (a,y), (b,x)) x values %v and EVERY assignment of {no refresh, Groups(ByNameSmart), Groups(Reverse(ByNameSmart))} to the gaps between the samples on ONE long-lived aggregator; after the history, under ByName, Reverse(ByName), ByNameSmart and Reverse(ByNameSmart), each asked twice: the order equals the order of a fresh aggregator that received the same samples and was never asked for its groups, the two calls agree, and the order is the one dictated by the sort values computed from the harness's own fold of the samples (as text under ByName, by magnitude under ByNameSmart when all values are integers, reversed under Reverse; groups with equal sort values: the value sequence is monotone and the order is the fresh aggregator's). non-trivial refresh history = at least 2 groups and at least one Groups() call between two samples.", strings.Join(kinds, ", "), pairs, triples, tri, twoPart, two, exprs, depth, accSampleValues)
}
